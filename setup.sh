#!/bin/sh
# Build the framework from files on disk only (offline): all Coq theories (full .vo) and the Rust harness.
set -e
cd "$(dirname "$0")"
export CARGO_NET_OFFLINE=true
mkdir -p .build run evidence
python3 tools/gen_sources.py > .build/gen_sources.log
cd coq
coq_makefile -f _CoqProject $(find theories -name '*.v' | sort) -o Makefile >/dev/null
timeout 3000 make -j16 > ../.build/coq_build.log 2>&1 || { tail -30 ../.build/coq_build.log; exit 1; }
cd ../harness
[ -f Cargo.lock ] || cp /repo/Cargo.lock .
timeout 3000 cargo build --offline --bins > ../.build/cargo_build.log 2>&1 || { tail -30 ../.build/cargo_build.log; exit 1; }
cd ..
if [ -d harness_db ]; then
  (cd harness_db && { [ -f Cargo.lock ] || cp /repo/Cargo.lock .; } && timeout 3000 cargo build --offline --bins > ../.build/cargo_db_build.log 2>&1) || { tail -30 .build/cargo_db_build.log; exit 1; }
fi
echo setup-ok
