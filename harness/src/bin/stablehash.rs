//! C13 correspondence and property oracle for stable hashing (crates/stable_hash, its
//! derive, the seeded SipHash-128 fingerprint of `Engine::hash`).
//!
//! usage: stablehash cases  <out_dir> <seed> <cases_per_type> <shards>
//!          for every generated value of every concrete type of the universe, hand the
//!          real `StableHash` impl two instrumented `StableHasher`s (public trait, no
//!          hook) and write `HC <type term> <value term> <recorded calls> <recorded bytes>`
//!          (one Coq term per line, Hash/Check.v) to <out_dir>/shard_<k>.txt; run the
//!          property's own oracle on the real `Sip128Hasher` (history independence, owned vs
//!          shared storage, decode(encode v) re-hash, discrimination, near-miss pairs);
//!          print ONE json line.
//!        stablehash hashes <seed> <cases_per_type> <hasher_seed>
//!          print `<type>\t<index>\t<128-bit hash>` of the same generated values; the check
//!          runs this in separate processes and compares the outputs.
use std::{
    borrow::Cow,
    collections::{BTreeMap, BTreeSet, BinaryHeap, HashMap, HashSet, LinkedList, VecDeque},
    ffi::OsString,
    hash::RandomState,
    marker::PhantomData,
    num::*,
    ops::{Range, RangeFrom, RangeFull, RangeInclusive, RangeTo, RangeToInclusive},
    path::PathBuf,
    rc::Rc,
    sync::{Arc, Mutex, OnceLock},
    time::Duration,
};

use qbice_serialize::{Decode, Decoder, Encode, Encoder, Plugin, postcard::PostcardDecoder, postcard::PostcardEncoder};
use qbice_stable_hash::{BuildStableHasher, SeededStableHasherBuilder, Sip128Hasher, StableHash, StableHasher};
use qbice_stable_type_id::Identifiable;
use qbice_storage::intern::{Interned, Interner};
use qv_harness::{coq_bytes, coq_list, rng::Rng};
use smallvec::SmallVec;

// ================================================================ instrumented hashers
/// pseudo-random numbers handed out as sub-hash results (shared by a recorder and its sub-recorders)
type Tokens = Arc<Mutex<Rng>>;
fn token(t: &Tokens) -> u128 { t.lock().unwrap().u128() }

enum Ev { C(String), Sub(u128, Vec<Ev>) }
fn ev_term(evs: &[Ev]) -> String {
    coq_list(&evs.iter().map(|e| match e {
        Ev::C(s) => format!("RC ({s})"),
        Ev::Sub(h, inner) => format!("RSub {h} {}", ev_term(inner)),
    }).collect::<Vec<_>>())
}
/// records which trait method is called with which argument (every method overridden)
struct CallRec { evs: Mutex<Vec<Ev>>, tok: Tokens }
impl CallRec {
    fn new(tok: Tokens) -> Self { CallRec { evs: Mutex::new(Vec::new()), tok } }
    fn push(&self, s: String) { self.evs.lock().unwrap().push(Ev::C(s)); }
}
impl StableHasher for CallRec {
    type Hash = u128;
    fn finish(&self) -> u128 { 0 }
    fn write(&mut self, bytes: &[u8]) { self.push(format!("CRaw {}", coq_bytes(bytes))); }
    fn write_u8(&mut self, i: u8) { self.push(format!("CUInt K8 {i}")); }
    fn write_u16(&mut self, i: u16) { self.push(format!("CUInt K16 {i}")); }
    fn write_u32(&mut self, i: u32) { self.push(format!("CUInt K32 {i}")); }
    fn write_u64(&mut self, i: u64) { self.push(format!("CUInt K64 {i}")); }
    fn write_u128(&mut self, i: u128) { self.push(format!("CUInt K128 {i}")); }
    fn write_usize(&mut self, i: usize) { self.push(format!("CUInt Ksize {i}")); }
    fn write_i8(&mut self, i: i8) { self.push(format!("CSInt K8 ({i})")); }
    fn write_i16(&mut self, i: i16) { self.push(format!("CSInt K16 ({i})")); }
    fn write_i32(&mut self, i: i32) { self.push(format!("CSInt K32 ({i})")); }
    fn write_i64(&mut self, i: i64) { self.push(format!("CSInt K64 ({i})")); }
    fn write_i128(&mut self, i: i128) { self.push(format!("CSInt K128 ({i})")); }
    fn write_isize(&mut self, i: isize) { self.push(format!("CSInt Ksize ({i})")); }
    fn write_f32(&mut self, f: f32) { self.push(format!("CFloat 4 {}", f.to_bits())); }
    fn write_f64(&mut self, f: f64) { self.push(format!("CFloat 8 {}", f.to_bits())); }
    fn write_length_prefix(&mut self, len: usize) { self.push(format!("CLen {len}")); }
    fn write_str(&mut self, s: &str) { self.push(format!("CStr {}", coq_bytes(s.as_bytes()))); }
    fn sub_hash(&self, f: &mut dyn FnMut(&mut dyn StableHasher<Hash = u128>)) -> u128 {
        let mut sub = CallRec::new(self.tok.clone());
        f(&mut sub);
        let h = token(&self.tok);
        self.evs.lock().unwrap().push(Ev::Sub(h, sub.evs.into_inner().unwrap()));
        h
    }
}

enum BEv { B(u8), Sub(u128, Vec<BEv>) }
fn bev_term(evs: &[BEv]) -> String {
    let mut items = Vec::new();
    let mut run: Vec<u8> = Vec::new();
    for e in evs {
        match e {
            BEv::B(b) => run.push(*b),
            BEv::Sub(h, inner) => {
                if !run.is_empty() { items.push(format!("RBs {}", coq_bytes(&run))); run.clear(); }
                items.push(format!("RCSub {h} {}", bev_term(inner)));
            }
        }
    }
    if !run.is_empty() { items.push(format!("RBs {}", coq_bytes(&run))); }
    coq_list(&items)
}
/// overrides only what `Sip128Hasher`'s impl overrides, so the trait's default methods run
struct ByteRec { evs: Mutex<Vec<BEv>>, tok: Tokens }
impl StableHasher for ByteRec {
    type Hash = u128;
    fn finish(&self) -> u128 { 0 }
    fn write(&mut self, bytes: &[u8]) { self.evs.lock().unwrap().extend(bytes.iter().map(|b| BEv::B(*b))); }
    fn sub_hash(&self, f: &mut dyn FnMut(&mut dyn StableHasher<Hash = u128>)) -> u128 {
        let mut sub = ByteRec { evs: Mutex::new(Vec::new()), tok: self.tok.clone() };
        f(&mut sub);
        let h = token(&self.tok);
        self.evs.lock().unwrap().push(BEv::Sub(h, sub.evs.into_inner().unwrap()));
        h
    }
}

/// the real fingerprint, as `Engine::hash` computes it
fn h128<T: StableHash + ?Sized>(v: &T, seed: u64) -> u128 {
    let mut h = SeededStableHasherBuilder::<Sip128Hasher>::new(seed).build_stable_hasher();
    v.stable_hash(&mut h);
    StableHasher::finish(&h)
}

/// `fingerprint` of Hash/Model.v transliterated: rebuild, from the recorded byte events, the
/// bytes the top-level hasher receives ([resolve]: a run of sub-hash calls followed by the 16
/// bytes of their sum; each sub-hash = SipHash128 of (everything the parent absorbed so far
/// ++ what the sub-hasher received)), using only `write` and `finish` of the real hasher
fn sip_of(bytes: &[u8]) -> u128 {
    let mut h = Sip128Hasher::default();
    StableHasher::write(&mut h, bytes);
    StableHasher::finish(&h)
}
fn resolve(pre: &mut Vec<u8>, evs: &[BEv]) {
    let mut i = 0;
    while i < evs.len() {
        match &evs[i] {
            BEv::B(b) => { pre.push(*b); i += 1; }
            BEv::Sub(..) => {
                let mut sum = 0u128;
                while let Some(BEv::Sub(_, inner)) = evs.get(i) {
                    let mut sub = pre.clone();
                    resolve(&mut sub, inner);
                    sum = sum.wrapping_add(sip_of(&sub));
                    i += 1;
                }
                pre.extend_from_slice(&sum.to_le_bytes());
                i += 16;   // the recorded 16 bytes are the sum of the recorder's tokens
            }
        }
    }
}
fn model_fingerprint(seed: u64, evs: &[BEv]) -> u128 {
    let mut pre = seed.to_le_bytes().to_vec();
    // an empty unordered collection has no sub-hash call: its 16 zero bytes are already right
    resolve(&mut pre, evs);
    sip_of(&pre)
}

// ================================================================ the universe
static INTERNER: OnceLock<Interner> = OnceLock::new();
fn interner() -> &'static Interner {
    INTERNER.get_or_init(|| Interner::new(4, SeededStableHasherBuilder::<Sip128Hasher>::new(7)))
}
fn plugin() -> Plugin { let mut p = Plugin::new(); p.insert(interner().clone()); p }

pub trait HUni: StableHash + Sized {
    fn ty() -> String;
    fn gen_(r: &mut Rng, d: u32) -> Self;
    /// model value, containers "as iterated"
    fn val(&self) -> String;
    /// value identity: unordered containers sorted, NaN payloads normalised
    fn cval(&self) -> String { self.val() }
    /// an equal value with a different construction history (insertion order, capacity,
    /// RandomState seed, fresh allocations)
    fn rebuild(&self, r: &mut Rng) -> Self;
}

fn boundaries(bits: u32) -> Vec<u128> {
    let mut v = vec![0u128, 1, 2, 127, 128, 255, 256];
    let mut k = 8;
    while k < bits { let p = 1u128 << k; v.extend_from_slice(&[p - 1, p, p + 1]); k += 8; }
    let max = if bits == 128 { u128::MAX } else { (1u128 << bits) - 1 };
    v.extend_from_slice(&[max, max - 1, max / 2, max / 2 + 1]);
    v.retain(|x| *x <= max);
    v
}
fn gen_unsigned(r: &mut Rng, bits: u32) -> u128 {
    if r.chance(1, 2) { *r.pick(&boundaries(bits)) }
    else { let len = r.range(0, bits as u64) as u32; if len == 0 { 0 } else { r.u128() >> (128 - len) } }
}
macro_rules! uni_int {
    ($t:ty, $u:ty, $bits:expr, $term:expr, $fmt:expr) => {
        impl HUni for $t {
            fn ty() -> String { $term.to_string() }
            fn gen_(r: &mut Rng, _d: u32) -> Self { gen_unsigned(r, $bits) as $u as $t }
            fn val(&self) -> String { format!($fmt, self) }
            fn rebuild(&self, _r: &mut Rng) -> Self { *self }
        }
    };
}
uni_int!(u8, u8, 8, "(HUInt K8)", "(VN {})");
uni_int!(u16, u16, 16, "(HUInt K16)", "(VN {})");
uni_int!(u32, u32, 32, "(HUInt K32)", "(VN {})");
uni_int!(u64, u64, 64, "(HUInt K64)", "(VN {})");
uni_int!(u128, u128, 128, "(HUInt K128)", "(VN {})");
uni_int!(usize, usize, 64, "(HUInt Ksize)", "(VN {})");
uni_int!(i8, u8, 8, "(HSInt K8)", "(VZ ({}))");
uni_int!(i16, u16, 16, "(HSInt K16)", "(VZ ({}))");
uni_int!(i32, u32, 32, "(HSInt K32)", "(VZ ({}))");
uni_int!(i64, u64, 64, "(HSInt K64)", "(VZ ({}))");
uni_int!(i128, u128, 128, "(HSInt K128)", "(VZ ({}))");
uni_int!(isize, usize, 64, "(HSInt Ksize)", "(VZ ({}))");

macro_rules! uni_nonzero {
    ($t:ty, $inner:ty) => {
        impl HUni for $t {
            fn ty() -> String { format!("(HNonZero {})", <$inner as HUni>::ty()) }
            fn gen_(r: &mut Rng, d: u32) -> Self { loop { if let Some(x) = <$t>::new(<$inner as HUni>::gen_(r, d)) { return x; } } }
            fn val(&self) -> String { self.get().val() }
            fn rebuild(&self, _r: &mut Rng) -> Self { *self }
        }
    };
}
uni_nonzero!(NonZeroU8, u8); uni_nonzero!(NonZeroU16, u16); uni_nonzero!(NonZeroU32, u32); uni_nonzero!(NonZeroU64, u64);
uni_nonzero!(NonZeroU128, u128); uni_nonzero!(NonZeroUsize, usize); uni_nonzero!(NonZeroI8, i8); uni_nonzero!(NonZeroI16, i16);
uni_nonzero!(NonZeroI32, i32); uni_nonzero!(NonZeroI64, i64); uni_nonzero!(NonZeroI128, i128); uni_nonzero!(NonZeroIsize, isize);

macro_rules! uni_atomic {
    ($t:ty, $inner:ty) => {
        impl HUni for $t {
            fn ty() -> String { <$inner as HUni>::ty() }
            fn gen_(r: &mut Rng, d: u32) -> Self { <$t>::new(<$inner as HUni>::gen_(r, d)) }
            fn val(&self) -> String { self.load(std::sync::atomic::Ordering::Relaxed).val() }
            fn rebuild(&self, _r: &mut Rng) -> Self { <$t>::new(self.load(std::sync::atomic::Ordering::Relaxed)) }
        }
    };
}
uni_atomic!(std::sync::atomic::AtomicU32, u32);
uni_atomic!(std::sync::atomic::AtomicI64, i64);
uni_atomic!(std::sync::atomic::AtomicBool, bool);
uni_atomic!(std::sync::atomic::AtomicUsize, usize);
uni_atomic!(std::sync::atomic::AtomicI8, i8);

impl HUni for bool {
    fn ty() -> String { "HBool".into() }
    fn gen_(r: &mut Rng, _d: u32) -> Self { r.chance(1, 2) }
    fn val(&self) -> String { format!("(VVar {} [])", *self as u8) }
    fn rebuild(&self, _r: &mut Rng) -> Self { *self }
}
impl HUni for char {
    fn ty() -> String { "HChar".into() }
    fn gen_(r: &mut Rng, _d: u32) -> Self {
        let table = [0u32, 0x7f, 0x80, 0x7ff, 0x800, 0xd7ff, 0xe000, 0xffff, 0x10000, 0x10ffff, 0x61, 0x62];
        loop {
            let c = if r.chance(1, 2) { *r.pick(&table) } else { r.below(0x110000) as u32 };
            if let Some(c) = char::from_u32(c) { return c; }
        }
    }
    fn val(&self) -> String { format!("(VN {})", *self as u32) }
    fn rebuild(&self, _r: &mut Rng) -> Self { *self }
}
impl HUni for f32 {
    fn ty() -> String { "(HFloat 4)".into() }
    fn gen_(r: &mut Rng, _d: u32) -> Self {
        let table = [0u32, 0x8000_0000, 0x7f80_0000, 0xff80_0000, 0x7fc0_0000, 0x7fc0_0001, 0xffc0_0000, 0x7f80_0001, 0xff80_0001, 0x7fff_ffff, 1, 0x3f80_0000, u32::MAX];
        f32::from_bits(if r.chance(1, 2) { *r.pick(&table) } else { r.next() as u32 })
    }
    fn val(&self) -> String { format!("(VN {})", self.to_bits()) }
    fn cval(&self) -> String { format!("(VN {})", if self.is_nan() { f32::NAN.to_bits() } else { self.to_bits() }) }
    fn rebuild(&self, _r: &mut Rng) -> Self { *self }
}
impl HUni for f64 {
    fn ty() -> String { "(HFloat 8)".into() }
    fn gen_(r: &mut Rng, _d: u32) -> Self {
        let table = [0u64, 1 << 63, 0x7ff0_0000_0000_0000, 0xfff0_0000_0000_0000, 0x7ff8_0000_0000_0000, 0x7ff8_0000_0000_0001,
                     0xfff8_0000_0000_0000, 0x7ff0_0000_0000_0001, 0xfff0_0000_0000_0001, 1, u64::MAX];
        f64::from_bits(if r.chance(1, 2) { *r.pick(&table) } else { r.next() })
    }
    fn val(&self) -> String { format!("(VN {})", self.to_bits()) }
    fn cval(&self) -> String { format!("(VN {})", if self.is_nan() { f64::NAN.to_bits() } else { self.to_bits() }) }
    fn rebuild(&self, _r: &mut Rng) -> Self { *self }
}

fn gen_string(r: &mut Rng) -> String {
    let n = if r.chance(1, 20) { r.range(120, 140) } else { r.below(6) };
    (0..n).map(|_| char::gen_(r, 0)).collect()
}
fn str_val(s: &str) -> String { format!("(VBytes {})", coq_bytes(s.as_bytes())) }
impl HUni for String {
    fn ty() -> String { "HStr".into() }
    fn gen_(r: &mut Rng, _d: u32) -> Self { gen_string(r) }
    fn val(&self) -> String { str_val(self) }
    fn rebuild(&self, r: &mut Rng) -> Self { let mut s = String::with_capacity(self.len() + r.below(40) as usize); s.push_str(self); s }
}
macro_rules! uni_strlike {
    ($t:ty) => {
        impl HUni for $t {
            fn ty() -> String { "(HPtr HStr)".into() }
            fn gen_(r: &mut Rng, _d: u32) -> Self { gen_string(r).into() }
            fn val(&self) -> String { str_val(self) }
            fn rebuild(&self, _r: &mut Rng) -> Self { <$t>::from(&**self) }
        }
    };
}
uni_strlike!(Box<str>);
uni_strlike!(Rc<str>);
uni_strlike!(Arc<str>);
impl HUni for &'static str {
    fn ty() -> String { "(HPtr HStr)".into() }
    fn gen_(r: &mut Rng, _d: u32) -> Self { Box::leak(gen_string(r).into_boxed_str()) }
    fn val(&self) -> String { str_val(self) }
    fn rebuild(&self, _r: &mut Rng) -> Self { Box::leak(self.to_string().into_boxed_str()) }
}
fn bytes_val(b: &[u8]) -> String { format!("(VList {})", coq_list(&b.iter().map(|x| format!("(VN {x})")).collect::<Vec<_>>())) }
impl HUni for OsString {
    fn ty() -> String { "(HSeq LPrefix (HUInt K8))".into() }
    fn gen_(r: &mut Rng, _d: u32) -> Self { gen_string(r).into() }
    fn val(&self) -> String { bytes_val(self.as_encoded_bytes()) }
    fn rebuild(&self, _r: &mut Rng) -> Self { self.clone() }
}
impl HUni for PathBuf {
    fn ty() -> String { "(HSeq LPrefix (HUInt K8))".into() }
    fn gen_(r: &mut Rng, _d: u32) -> Self { gen_string(r).into() }
    fn val(&self) -> String { bytes_val(self.as_os_str().as_encoded_bytes()) }
    fn rebuild(&self, _r: &mut Rng) -> Self { self.clone() }
}

// ---------------------------------------------------------------- transparent wrappers
macro_rules! uni_wrap {
    ($w:ident) => {
        impl<T: HUni> HUni for $w<T> {
            fn ty() -> String { format!("(HPtr {})", T::ty()) }
            fn gen_(r: &mut Rng, d: u32) -> Self { $w::new(T::gen_(r, d)) }
            fn val(&self) -> String { (**self).val() }
            fn cval(&self) -> String { (**self).cval() }
            fn rebuild(&self, r: &mut Rng) -> Self { $w::new((**self).rebuild(r)) }
        }
    };
}
uni_wrap!(Box);
uni_wrap!(Rc);
uni_wrap!(Arc);
impl<T: HUni + Clone + 'static> HUni for Cow<'static, T> {
    fn ty() -> String { format!("(HPtr {})", T::ty()) }
    fn gen_(r: &mut Rng, d: u32) -> Self { let v = T::gen_(r, d); if r.chance(1, 2) { Cow::Owned(v) } else { Cow::Borrowed(Box::leak(Box::new(v))) } }
    fn val(&self) -> String { (**self).val() }
    fn cval(&self) -> String { (**self).cval() }
    /// the other storage: borrowed <-> owned
    fn rebuild(&self, r: &mut Rng) -> Self {
        match self { Cow::Owned(v) => Cow::Borrowed(Box::leak(Box::new(v.rebuild(r)))), Cow::Borrowed(v) => Cow::Owned(v.rebuild(r)) }
    }
}
macro_rules! uni_unit {
    ($t:ty, $mk:expr) => {
        impl HUni for $t {
            fn ty() -> String { "(HTuple [])".into() }
            fn gen_(_r: &mut Rng, _d: u32) -> Self { $mk }
            fn val(&self) -> String { "(VList [])".into() }
            fn rebuild(&self, _r: &mut Rng) -> Self { $mk }
        }
    };
}
uni_unit!((), ());
uni_unit!(RangeFull, ..);
uni_unit!(PhantomData<u8>, PhantomData);
impl HUni for Duration {
    fn ty() -> String { "(HTuple [HUInt K64; HUInt K32])".into() }
    fn gen_(r: &mut Rng, d: u32) -> Self { Duration::new(u64::gen_(r, d), (gen_unsigned(r, 30) % 1_000_000_000) as u32) }
    fn val(&self) -> String { format!("(VList [VN {}; VN {}])", self.as_secs(), self.subsec_nanos()) }
    fn rebuild(&self, _r: &mut Rng) -> Self { *self }
}

// ---------------------------------------------------------------- Option / Result / ranges
impl<T: HUni> HUni for Option<T> {
    fn ty() -> String { format!("(HEnum 8 [[];[{}]])", T::ty()) }
    fn gen_(r: &mut Rng, d: u32) -> Self { if r.chance(1, 3) { None } else { Some(T::gen_(r, d)) } }
    fn val(&self) -> String { match self { None => "(VVar 0 [])".into(), Some(x) => format!("(VVar 1 [{}])", x.val()) } }
    fn cval(&self) -> String { match self { None => "(VVar 0 [])".into(), Some(x) => format!("(VVar 1 [{}])", x.cval()) } }
    fn rebuild(&self, r: &mut Rng) -> Self { self.as_ref().map(|x| x.rebuild(r)) }
}
impl<T: HUni, E: HUni> HUni for Result<T, E> {
    fn ty() -> String { format!("(HEnum 8 [[{}];[{}]])", T::ty(), E::ty()) }
    fn gen_(r: &mut Rng, d: u32) -> Self { if r.chance(1, 2) { Ok(T::gen_(r, d)) } else { Err(E::gen_(r, d)) } }
    fn val(&self) -> String { match self { Ok(x) => format!("(VVar 0 [{}])", x.val()), Err(x) => format!("(VVar 1 [{}])", x.val()) } }
    fn cval(&self) -> String { match self { Ok(x) => format!("(VVar 0 [{}])", x.cval()), Err(x) => format!("(VVar 1 [{}])", x.cval()) } }
    fn rebuild(&self, r: &mut Rng) -> Self { match self { Ok(x) => Ok(x.rebuild(r)), Err(x) => Err(x.rebuild(r)) } }
}
impl<T: HUni> HUni for Range<T> {
    fn ty() -> String { format!("(HTuple [{0}; {0}])", T::ty()) }
    fn gen_(r: &mut Rng, d: u32) -> Self { T::gen_(r, d)..T::gen_(r, d) }
    fn val(&self) -> String { format!("(VList [{}; {}])", self.start.val(), self.end.val()) }
    fn rebuild(&self, r: &mut Rng) -> Self { self.start.rebuild(r)..self.end.rebuild(r) }
}
impl<T: HUni> HUni for RangeInclusive<T> {
    fn ty() -> String { format!("(HTuple [{0}; {0}])", T::ty()) }
    fn gen_(r: &mut Rng, d: u32) -> Self { T::gen_(r, d)..=T::gen_(r, d) }
    fn val(&self) -> String { format!("(VList [{}; {}])", self.start().val(), self.end().val()) }
    fn rebuild(&self, r: &mut Rng) -> Self { self.start().rebuild(r)..=self.end().rebuild(r) }
}
impl<T: HUni> HUni for RangeFrom<T> {
    fn ty() -> String { T::ty() }
    fn gen_(r: &mut Rng, d: u32) -> Self { T::gen_(r, d).. }
    fn val(&self) -> String { self.start.val() }
    fn rebuild(&self, r: &mut Rng) -> Self { self.start.rebuild(r).. }
}
impl<T: HUni> HUni for RangeTo<T> {
    fn ty() -> String { T::ty() }
    fn gen_(r: &mut Rng, d: u32) -> Self { ..T::gen_(r, d) }
    fn val(&self) -> String { self.end.val() }
    fn rebuild(&self, r: &mut Rng) -> Self { ..self.end.rebuild(r) }
}
impl<T: HUni> HUni for RangeToInclusive<T> {
    fn ty() -> String { T::ty() }
    fn gen_(r: &mut Rng, d: u32) -> Self { ..=T::gen_(r, d) }
    fn val(&self) -> String { self.end.val() }
    fn rebuild(&self, r: &mut Rng) -> Self { ..=self.end.rebuild(r) }
}

// ---------------------------------------------------------------- sequences
fn gen_len(r: &mut Rng, d: u32) -> usize {
    if d >= 2 { r.below(3) as usize }
    else if r.chance(1, 25) { r.range(254, 259) as usize }   // cross the one-byte boundary of the length
    else { r.below(5) as usize }
}
fn list_val<'a, T: HUni + 'a>(it: impl Iterator<Item = &'a T>) -> String {
    format!("(VList {})", coq_list(&it.map(|x| x.val()).collect::<Vec<_>>()))
}
fn list_cval<'a, T: HUni + 'a>(it: impl Iterator<Item = &'a T>, sort: bool) -> String {
    let mut v: Vec<String> = it.map(|x| x.cval()).collect();
    if sort { v.sort(); }
    format!("(VList {})", coq_list(&v))
}
fn shuffle<T>(v: &mut Vec<T>, r: &mut Rng) {
    for i in (1..v.len()).rev() { let j = r.below(i as u64 + 1) as usize; v.swap(i, j); }
}
fn rebuilt_shuffled<'a, T: HUni + 'a>(it: impl Iterator<Item = &'a T>, r: &mut Rng) -> Vec<T> {
    let mut v: Vec<T> = it.map(|x| x.rebuild(r)).collect();
    shuffle(&mut v, r);
    v
}
macro_rules! uni_seq {
    ($($c:ident)::+, [$($bound:tt)*], $lk:expr, $rebuild:expr) => {
        impl<T: HUni $($bound)*> HUni for $($c)::+<T> {
            fn ty() -> String { format!("(HSeq {} {})", $lk, T::ty()) }
            fn gen_(r: &mut Rng, d: u32) -> Self { let n = gen_len(r, d); (0..n).map(|_| T::gen_(r, d + 1)).collect() }
            fn val(&self) -> String { list_val(self.iter()) }
            fn cval(&self) -> String { list_cval(self.iter(), false) }
            fn rebuild(&self, r: &mut Rng) -> Self { ($rebuild)(self, r) }
        }
    };
}
uni_seq!(Vec, [], "LPrefix", |s: &Vec<T>, r: &mut Rng| { let mut v = Vec::with_capacity(s.len() + r.below(20) as usize); for x in s { v.push(x.rebuild(r)); } v });
uni_seq!(VecDeque, [], "LPrefix", |s: &VecDeque<T>, r: &mut Rng| {
    // same sequence, different ring-buffer layout: the first k elements are pushed to the front
    let k = r.below(s.len() as u64 + 1) as usize;
    let mut d = VecDeque::with_capacity(s.len() + r.below(20) as usize);
    for x in s.iter().skip(k) { d.push_back(x.rebuild(r)); }
    for x in s.iter().take(k).collect::<Vec<_>>().into_iter().rev() { d.push_front(x.rebuild(r)); }
    d
});
uni_seq!(LinkedList, [], "LPrefix", |s: &LinkedList<T>, r: &mut Rng| { let mut l = LinkedList::new(); for x in s.iter().rev() { l.push_front(x.rebuild(r)); } l });
uni_seq!(BTreeSet, [+ Ord], "LUsize", |s: &BTreeSet<T>, r: &mut Rng| { let mut b = BTreeSet::new(); for x in rebuilt_shuffled(s.iter(), r) { b.insert(x); } b });
impl<T: HUni> HUni for Box<[T]> {
    fn ty() -> String { format!("(HPtr (HSeq LPrefix {}))", T::ty()) }
    fn gen_(r: &mut Rng, d: u32) -> Self { Vec::<T>::gen_(r, d).into_boxed_slice() }
    fn val(&self) -> String { list_val(self.iter()) }
    fn cval(&self) -> String { list_cval(self.iter(), false) }
    fn rebuild(&self, r: &mut Rng) -> Self { self.iter().map(|x| x.rebuild(r)).collect() }
}
impl<T: HUni> HUni for Arc<[T]> {
    fn ty() -> String { format!("(HPtr (HSeq LPrefix {}))", T::ty()) }
    fn gen_(r: &mut Rng, d: u32) -> Self { Vec::<T>::gen_(r, d).into() }
    fn val(&self) -> String { list_val(self.iter()) }
    fn cval(&self) -> String { list_cval(self.iter(), false) }
    fn rebuild(&self, r: &mut Rng) -> Self { self.iter().map(|x| x.rebuild(r)).collect() }
}
impl<T: HUni, const N: usize> HUni for SmallVec<[T; N]> where [T; N]: smallvec::Array<Item = T> {
    fn ty() -> String { format!("(HSeq LPrefix {})", T::ty()) }
    fn gen_(r: &mut Rng, d: u32) -> Self { Vec::<T>::gen_(r, d).into_iter().collect() }
    fn val(&self) -> String { list_val(self.iter()) }
    fn cval(&self) -> String { list_cval(self.iter(), false) }
    /// inline <-> spilled storage where the length allows
    fn rebuild(&self, r: &mut Rng) -> Self {
        let mut s: SmallVec<[T; N]> = SmallVec::with_capacity(if r.chance(1, 2) { 0 } else { N + 8 });
        for x in self.iter() { s.push(x.rebuild(r)); }
        s
    }
}
impl<T: HUni, const N: usize> HUni for [T; N] {
    fn ty() -> String { format!("(HSeq LPrefix {})", T::ty()) }
    fn gen_(r: &mut Rng, d: u32) -> Self { std::array::from_fn(|_| T::gen_(r, d + 1)) }
    fn val(&self) -> String { list_val(self.iter()) }
    fn cval(&self) -> String { list_cval(self.iter(), false) }
    fn rebuild(&self, r: &mut Rng) -> Self { std::array::from_fn(|i| self[i].rebuild(r)) }
}

// ---------------------------------------------------------------- unordered collections
impl<T: HUni + Eq + std::hash::Hash> HUni for HashSet<T> {
    fn ty() -> String { format!("(HUnord {})", T::ty()) }
    fn gen_(r: &mut Rng, d: u32) -> Self { let n = gen_len(r, d); (0..n).map(|_| T::gen_(r, d + 1)).collect() }
    fn val(&self) -> String { list_val(self.iter()) }
    fn cval(&self) -> String { list_cval(self.iter(), true) }
    fn rebuild(&self, r: &mut Rng) -> Self {
        let mut s = HashSet::with_capacity_and_hasher(r.below(4) as usize * self.len() + r.below(3) as usize, RandomState::new());
        let junk = T::gen_(r, 3);
        let had = self.contains(&junk);
        for x in rebuilt_shuffled(self.iter(), r) {
            s.insert(x);
            if !had && r.chance(1, 3) { s.insert(junk.rebuild(r)); s.remove(&junk); }   // leaves a tombstone
        }
        if r.chance(1, 3) { s.shrink_to_fit(); }
        s
    }
}
impl<T: HUni + Eq + std::hash::Hash> HUni for dashmap::DashSet<T> {
    fn ty() -> String { format!("(HUnord {})", T::ty()) }
    fn gen_(r: &mut Rng, d: u32) -> Self { let n = gen_len(r, d); (0..n).map(|_| T::gen_(r, d + 1)).collect() }
    fn val(&self) -> String { format!("(VList {})", coq_list(&self.iter().map(|x| x.key().val()).collect::<Vec<_>>())) }
    fn cval(&self) -> String { let mut v: Vec<String> = self.iter().map(|x| x.key().cval()).collect(); v.sort(); format!("(VList {})", coq_list(&v)) }
    fn rebuild(&self, r: &mut Rng) -> Self {
        let mut v: Vec<T> = self.iter().map(|x| x.key().rebuild(r)).collect();
        shuffle(&mut v, r);
        let s = dashmap::DashSet::with_capacity(r.below(64) as usize);
        for x in v { s.insert(x); }
        s
    }
}
impl<T: HUni + Ord> HUni for BinaryHeap<T> {
    fn ty() -> String { format!("(HUnord {})", T::ty()) }
    fn gen_(r: &mut Rng, d: u32) -> Self { let n = gen_len(r, d); (0..n).map(|_| T::gen_(r, d + 1)).collect() }
    fn val(&self) -> String { list_val(self.iter()) }
    fn cval(&self) -> String { list_cval(self.iter(), true) }
    fn rebuild(&self, r: &mut Rng) -> Self {
        let v = rebuilt_shuffled(self.iter(), r);
        if r.chance(1, 2) { BinaryHeap::from(v) } else { let mut h = BinaryHeap::with_capacity(r.below(32) as usize); for x in v { h.push(x); } h }
    }
}
fn entry_val<K: HUni, V: HUni>(k: &K, v: &V) -> String { format!("(VList [{}; {}])", k.val(), v.val()) }
fn entry_cval<K: HUni, V: HUni>(k: &K, v: &V) -> String { format!("(VList [{}; {}])", k.cval(), v.cval()) }
fn entries_term(mut v: Vec<String>, sort: bool) -> String { if sort { v.sort(); } format!("(VList {})", coq_list(&v)) }
impl<K: HUni + Eq + std::hash::Hash, V: HUni> HUni for HashMap<K, V> {
    fn ty() -> String { format!("(HUnord (HTuple [{}; {}]))", K::ty(), V::ty()) }
    fn gen_(r: &mut Rng, d: u32) -> Self { let n = gen_len(r, d); (0..n).map(|_| (K::gen_(r, d + 1), V::gen_(r, d + 1))).collect() }
    fn val(&self) -> String { entries_term(self.iter().map(|(k, v)| entry_val(k, v)).collect(), false) }
    fn cval(&self) -> String { entries_term(self.iter().map(|(k, v)| entry_cval(k, v)).collect(), true) }
    fn rebuild(&self, r: &mut Rng) -> Self {
        let mut es: Vec<(K, V)> = self.iter().map(|(k, v)| (k.rebuild(r), v.rebuild(r))).collect();
        shuffle(&mut es, r);
        let mut m = HashMap::with_capacity_and_hasher(r.below(4) as usize * self.len() + r.below(3) as usize, RandomState::new());
        let junk = K::gen_(r, 3);
        let had = self.contains_key(&junk);
        for (k, v) in es {
            if !had && r.chance(1, 3) { m.insert(junk.rebuild(r), v.rebuild(r)); m.remove(&junk); }
            if r.chance(1, 4) { let v0 = V::gen_(r, 3); m.insert(k.rebuild(r), v0); }   // overwritten below
            m.insert(k, v);
        }
        if r.chance(1, 3) { m.shrink_to_fit(); }
        m
    }
}
impl<K: HUni + Eq + std::hash::Hash, V: HUni> HUni for dashmap::DashMap<K, V> {
    fn ty() -> String { format!("(HUnord (HTuple [{}; {}]))", K::ty(), V::ty()) }
    fn gen_(r: &mut Rng, d: u32) -> Self { let n = gen_len(r, d); (0..n).map(|_| (K::gen_(r, d + 1), V::gen_(r, d + 1))).collect() }
    fn val(&self) -> String { entries_term(self.iter().map(|e| entry_val(e.key(), e.value())).collect(), false) }
    fn cval(&self) -> String { entries_term(self.iter().map(|e| entry_cval(e.key(), e.value())).collect(), true) }
    fn rebuild(&self, r: &mut Rng) -> Self {
        let mut es: Vec<(K, V)> = self.iter().map(|e| (e.key().rebuild(r), e.value().rebuild(r))).collect();
        shuffle(&mut es, r);
        let m = dashmap::DashMap::with_capacity(r.below(64) as usize);
        for (k, v) in es { m.insert(k, v); }
        m
    }
}
impl<K: HUni + Ord, V: HUni> HUni for BTreeMap<K, V> {
    fn ty() -> String { format!("(HSeq LUsize (HTuple [{}; {}]))", K::ty(), V::ty()) }
    fn gen_(r: &mut Rng, d: u32) -> Self { let n = gen_len(r, d); (0..n).map(|_| (K::gen_(r, d + 1), V::gen_(r, d + 1))).collect() }
    fn val(&self) -> String { entries_term(self.iter().map(|(k, v)| entry_val(k, v)).collect(), false) }
    fn cval(&self) -> String { entries_term(self.iter().map(|(k, v)| entry_cval(k, v)).collect(), false) }
    fn rebuild(&self, r: &mut Rng) -> Self {
        let mut es: Vec<(K, V)> = self.iter().map(|(k, v)| (k.rebuild(r), v.rebuild(r))).collect();
        shuffle(&mut es, r);
        let mut m = BTreeMap::new();
        for (k, v) in es { m.insert(k, v); }
        m
    }
}

// ---------------------------------------------------------------- tuples
macro_rules! uni_tuple {
    ($($n:ident),+) => {
        impl<$($n: HUni),+> HUni for ($($n,)+) {
            fn ty() -> String { format!("(HTuple {})", coq_list(&[$($n::ty()),+])) }
            fn gen_(r: &mut Rng, d: u32) -> Self { ($($n::gen_(r, d + 1),)+) }
            #[allow(non_snake_case)]
            fn val(&self) -> String { let ($($n,)+) = self; format!("(VList {})", coq_list(&[$($n.val()),+])) }
            #[allow(non_snake_case)]
            fn cval(&self) -> String { let ($($n,)+) = self; format!("(VList {})", coq_list(&[$($n.cval()),+])) }
            #[allow(non_snake_case)]
            fn rebuild(&self, r: &mut Rng) -> Self { let ($($n,)+) = self; ($($n.rebuild(r),)+) }
        }
    };
}
uni_tuple!(A);
uni_tuple!(A, B);
uni_tuple!(A, B, C);
uni_tuple!(A, B, C, D);
uni_tuple!(A, B, C, D, E);
uni_tuple!(A, B, C, D, E, F, G);
uni_tuple!(A, B, C, D, E, F, G, H, I, J, K, L);

// ---------------------------------------------------------------- derived types
#[derive(Debug, Clone, PartialEq, Eq, Hash, PartialOrd, Ord, Encode, Decode, StableHash, Identifiable)]
#[serialize_crate(qbice_serialize)]
#[stable_hash_crate(qbice_stable_hash)]
#[stable_type_id_crate(qbice_stable_type_id)]
pub struct Named {
    a: u32,
    #[serialize(skip)]
    b: Vec<u8>,
    c: Option<String>,
    #[serialize(skip)]
    d: u16,
    e: i64,
}
impl HUni for Named {
    fn ty() -> String { "(HTuple [HUInt K32; HSkipped (HSeq LPrefix (HUInt K8)) (VList []); HEnum 8 [[];[HStr]]; HSkipped (HUInt K16) (VN 0); HSInt K64])".into() }
    fn gen_(r: &mut Rng, d: u32) -> Self {
        // half of the values have their skipped fields at the default, so that both outcomes of the round trip occur
        let dflt = r.chance(1, 2);
        Named { a: u32::gen_(r, d), b: if dflt { vec![] } else { Vec::gen_(r, 2) }, c: Option::gen_(r, d), d: if dflt { 0 } else { u16::gen_(r, d) }, e: i64::gen_(r, d) }
    }
    fn val(&self) -> String { format!("(VList [{}; {}; {}; {}; {}])", self.a.val(), self.b.val(), self.c.val(), self.d.val(), self.e.val()) }
    fn rebuild(&self, r: &mut Rng) -> Self { Named { a: self.a, b: self.b.rebuild(r), c: self.c.rebuild(r), d: self.d, e: self.e } }
}
#[derive(Debug, Clone, PartialEq, Eq, Hash, PartialOrd, Ord, Encode, Decode, StableHash, Identifiable)]
#[serialize_crate(qbice_serialize)]
#[stable_hash_crate(qbice_stable_hash)]
#[stable_type_id_crate(qbice_stable_type_id)]
pub struct TupleS(u8, #[serialize(skip)] String, i16);
impl HUni for TupleS {
    fn ty() -> String { "(HTuple [HUInt K8; HSkipped HStr (VBytes []); HSInt K16])".into() }
    fn gen_(r: &mut Rng, d: u32) -> Self { TupleS(u8::gen_(r, d), if r.chance(1, 2) { String::new() } else { String::gen_(r, d) }, i16::gen_(r, d)) }
    fn val(&self) -> String { format!("(VList [{}; {}; {}])", self.0.val(), self.1.val(), self.2.val()) }
    fn rebuild(&self, r: &mut Rng) -> Self { TupleS(self.0, self.1.rebuild(r), self.2) }
}
#[derive(Debug, Clone, Copy, PartialEq, Eq, Hash, PartialOrd, Ord, Encode, Decode, StableHash, Identifiable)]
#[serialize_crate(qbice_serialize)]
#[stable_hash_crate(qbice_stable_hash)]
#[stable_type_id_crate(qbice_stable_type_id)]
pub struct UnitS;
uni_unit!(UnitS, UnitS);
#[derive(Debug, Clone, PartialEq, Eq, Hash, Encode, Decode, StableHash)]
#[serialize_crate(qbice_serialize)]
#[stable_hash_crate(qbice_stable_hash)]
pub struct Gen<T, U> { x: T, ys: Vec<U>, z: (T, U) }
impl<T: HUni, U: HUni> HUni for Gen<T, U> {
    fn ty() -> String { format!("(HTuple [{0}; HSeq LPrefix {1}; HTuple [{0}; {1}]])", T::ty(), U::ty()) }
    fn gen_(r: &mut Rng, d: u32) -> Self { Gen { x: T::gen_(r, d + 1), ys: Vec::gen_(r, d + 1), z: (T::gen_(r, d + 1), U::gen_(r, d + 1)) } }
    fn val(&self) -> String { format!("(VList [{}; {}; {}])", self.x.val(), self.ys.val(), self.z.val()) }
    fn cval(&self) -> String { format!("(VList [{}; {}; {}])", self.x.cval(), self.ys.cval(), self.z.cval()) }
    fn rebuild(&self, r: &mut Rng) -> Self { Gen { x: self.x.rebuild(r), ys: self.ys.rebuild(r), z: self.z.rebuild(r) } }
}
#[derive(Debug, Clone, PartialEq, Eq, Hash, PartialOrd, Ord, Encode, Decode, StableHash, Identifiable)]
#[serialize_crate(qbice_serialize)]
#[stable_hash_crate(qbice_stable_hash)]
#[stable_type_id_crate(qbice_stable_type_id)]
pub enum En {
    A,
    B(u8, String),
    C { x: i32, #[serialize(skip)] y: u16, z: Vec<u16> },
    D(#[serialize(skip)] u64),
    E(Box<Option<u128>>),
    F,
}
impl HUni for En {
    fn ty() -> String { "(HEnum 8 [[]; [HUInt K8; HStr]; [HSInt K32; HSkipped (HUInt K16) (VN 0); HSeq LPrefix (HUInt K16)]; [HSkipped (HUInt K64) (VN 0)]; [HPtr (HEnum 8 [[];[HUInt K128]])]; []])".into() }
    fn gen_(r: &mut Rng, d: u32) -> Self {
        match r.below(6) {
            0 => En::A,
            1 => En::B(u8::gen_(r, d), String::gen_(r, d)),
            2 => En::C { x: i32::gen_(r, d), y: if r.chance(1, 2) { 0 } else { u16::gen_(r, d) }, z: Vec::gen_(r, d + 1) },
            3 => En::D(if r.chance(1, 2) { 0 } else { u64::gen_(r, d) }),
            4 => En::E(Box::new(Option::gen_(r, d))),
            _ => En::F,
        }
    }
    fn val(&self) -> String {
        match self {
            En::A => "(VVar 0 [])".into(),
            En::B(a, b) => format!("(VVar 1 [{}; {}])", a.val(), b.val()),
            En::C { x, y, z } => format!("(VVar 2 [{}; {}; {}])", x.val(), y.val(), z.val()),
            En::D(a) => format!("(VVar 3 [{}])", a.val()),
            En::E(a) => format!("(VVar 4 [{}])", a.val()),
            En::F => "(VVar 5 [])".into(),
        }
    }
    fn rebuild(&self, r: &mut Rng) -> Self {
        match self { En::B(a, b) => En::B(*a, b.rebuild(r)), En::C { x, y, z } => En::C { x: *x, y: *y, z: z.rebuild(r) }, En::E(a) => En::E(a.rebuild(r)), o => o.clone() }
    }
}
#[derive(Debug, Clone, PartialEq, Eq, Hash, Encode, Decode, StableHash)]
#[serialize_crate(qbice_serialize)]
#[stable_hash_crate(qbice_stable_hash)]
pub enum GenEn<T> { None_, One(T), Two { a: T, b: Vec<T> } }
impl<T: HUni> HUni for GenEn<T> {
    fn ty() -> String { format!("(HEnum 8 [[]; [{0}]; [{0}; HSeq LPrefix {0}]])", T::ty()) }
    fn gen_(r: &mut Rng, d: u32) -> Self {
        match r.below(3) { 0 => GenEn::None_, 1 => GenEn::One(T::gen_(r, d + 1)), _ => GenEn::Two { a: T::gen_(r, d + 1), b: Vec::gen_(r, d + 1) } }
    }
    fn val(&self) -> String {
        match self { GenEn::None_ => "(VVar 0 [])".into(), GenEn::One(x) => format!("(VVar 1 [{}])", x.val()), GenEn::Two { a, b } => format!("(VVar 2 [{}; {}])", a.val(), b.val()) }
    }
    fn cval(&self) -> String {
        match self { GenEn::None_ => "(VVar 0 [])".into(), GenEn::One(x) => format!("(VVar 1 [{}])", x.cval()), GenEn::Two { a, b } => format!("(VVar 2 [{}; {}])", a.cval(), b.cval()) }
    }
    fn rebuild(&self, r: &mut Rng) -> Self {
        match self { GenEn::None_ => GenEn::None_, GenEn::One(x) => GenEn::One(x.rebuild(r)), GenEn::Two { a, b } => GenEn::Two { a: a.rebuild(r), b: b.rebuild(r) } }
    }
}
/// an enum whose `Discriminant` is one byte wide
#[derive(Debug, Clone, PartialEq, Eq, Hash, PartialOrd, Ord, StableHash)]
#[stable_hash_crate(qbice_stable_hash)]
#[repr(u8)]
pub enum Small { X, Y(u8), Z(Vec<u8>, bool) }
impl HUni for Small {
    fn ty() -> String { "(HEnum 1 [[]; [HUInt K8]; [HSeq LPrefix (HUInt K8); HBool]])".into() }
    fn gen_(r: &mut Rng, d: u32) -> Self { match r.below(3) { 0 => Small::X, 1 => Small::Y(u8::gen_(r, d)), _ => Small::Z(Vec::gen_(r, d + 1), bool::gen_(r, d)) } }
    fn val(&self) -> String {
        match self { Small::X => "(VVar 0 [])".into(), Small::Y(a) => format!("(VVar 1 [{}])", a.val()), Small::Z(a, b) => format!("(VVar 2 [{}; {}])", a.val(), b.val()) }
    }
    fn rebuild(&self, r: &mut Rng) -> Self { match self { Small::Z(a, b) => Small::Z(a.rebuild(r), *b), o => o.clone() } }
}

// ---------------------------------------------------------------- interned handles (a struct around Arc<T>)
fn small_string(r: &mut Rng) -> String { ["", "a", "hi", "héllo", "zz"][r.below(5) as usize].to_string() }
impl HUni for Interned<String> {
    fn ty() -> String { "(HIntern 1 HStr)".into() }
    fn gen_(r: &mut Rng, _d: u32) -> Self { interner().intern(small_string(r)) }
    fn val(&self) -> String { format!("(VList [{}])", str_val(self)) }
    /// a handle that is NOT shared with the interner's
    fn rebuild(&self, _r: &mut Rng) -> Self { Interned::new_duplicating((**self).clone()) }
}
impl HUni for Interned<str> {
    fn ty() -> String { "(HIntern 2 HStr)".into() }
    fn gen_(r: &mut Rng, _d: u32) -> Self { interner().intern_unsized(small_string(r)) }
    fn val(&self) -> String { format!("(VList [{}])", str_val(self)) }
    fn rebuild(&self, _r: &mut Rng) -> Self { Interned::new_duplicating_unsized(Arc::<str>::from(&**self)) }
}
impl HUni for Interned<[u32]> {
    fn ty() -> String { "(HIntern 3 (HSeq LPrefix (HUInt K32)))".into() }
    fn gen_(r: &mut Rng, _d: u32) -> Self { let n = r.below(3); interner().intern_unsized((0..n).map(|_| r.below(3) as u32).collect::<Vec<u32>>()) }
    fn val(&self) -> String { format!("(VList [{}])", list_val(self.iter())) }
    fn rebuild(&self, _r: &mut Rng) -> Self { Interned::new_duplicating_unsized(Arc::<[u32]>::from(&**self)) }
}
#[derive(Debug, Clone, PartialEq, Eq, Hash, PartialOrd, Ord, Encode, Decode, StableHash, Identifiable)]
#[serialize_crate(qbice_serialize)]
#[stable_hash_crate(qbice_stable_hash)]
#[stable_type_id_crate(qbice_stable_type_id)]
pub struct Leaf { name: Interned<String>, n: u16 }
impl HUni for Leaf {
    fn ty() -> String { format!("(HTuple [{}; HUInt K16])", <Interned<String>>::ty()) }
    fn gen_(r: &mut Rng, d: u32) -> Self { Leaf { name: Interned::gen_(r, d), n: r.below(3) as u16 } }
    fn val(&self) -> String { format!("(VList [{}; {}])", self.name.val(), self.n.val()) }
    fn rebuild(&self, r: &mut Rng) -> Self { Leaf { name: self.name.rebuild(r), n: self.n } }
}
impl HUni for Interned<Leaf> {
    fn ty() -> String { format!("(HIntern 4 {})", Leaf::ty()) }
    fn gen_(r: &mut Rng, d: u32) -> Self { interner().intern(Leaf::gen_(r, d)) }
    fn val(&self) -> String { format!("(VList [{}])", (**self).val()) }
    fn rebuild(&self, r: &mut Rng) -> Self { Interned::new_duplicating((**self).rebuild(r)) }
}

// ================================================================ driver
#[derive(Default)]
struct Stats {
    cases: u64, by_type: Vec<(String, u64)>, calls_total: u64, bytes_total: u64, sub_nodes: u64, sub_entries: u64, nested_sub: u64,
    history_checked: u64, history_reordered: u64, ptr_checked: u64, rt_checked: u64, rt_equal_value: u64, rt_changed_by_skip: u64,
    distinct_values: u64, pairs_distinct_checked: u64, same_value_pairs_checked: u64, nan_collapsed: u64,
    near_miss_checked: u64, fingerprint_model_checked: u64, model_fail: Vec<String>, fail: Vec<String>, samples: Vec<String>,
}
struct Out { shards: Vec<Vec<String>>, next: usize }
impl Out { fn push(&mut self, s: String) { let k = self.next % self.shards.len(); self.shards[k].push(s); self.next += 1; } }

const HSEED: u64 = 0x5eed_0001;

fn count_subs(evs: &[Ev], depth: u32, st: &mut Stats) {
    let mut in_run = false;
    for e in evs {
        match e {
            Ev::Sub(_, inner) => {
                st.sub_entries += 1;
                if !in_run { in_run = true; }
                if depth > 0 { st.nested_sub += 1; }
                count_subs(inner, depth + 1, st);
            }
            Ev::C(_) => { st.calls_total += 1; in_run = false; }
        }
    }
}

fn run<T: HUni>(name: &str, r: &mut Rng, n: u64, out: &mut Out, st: &mut Stats) -> Vec<T> {
    let ty = T::ty();
    let mut vals = Vec::new();
    let mut by_hash: HashMap<u128, String> = HashMap::new();
    let mut by_val: HashMap<String, u128> = HashMap::new();
    for i in 0..n {
        let v = T::gen_(r, 0);
        let term = v.val();
        // everything below draws from a fork, so that the generated values depend on the seed only
        // (the oracles iterate over hash maps, whose order differs from process to process)
        let r = &mut r.fork();
        // correspondence: the two recorders
        let tok: Tokens = Arc::new(Mutex::new(r.fork()));
        let mut c = CallRec::new(tok.clone());
        v.stable_hash(&mut c);
        let cev = c.evs.into_inner().unwrap();
        let mut b = ByteRec { evs: Mutex::new(Vec::new()), tok };
        v.stable_hash(&mut b);
        let bev = b.evs.into_inner().unwrap();
        count_subs(&cev, 0, st);
        st.sub_nodes += ty.matches("HUnord").count() as u64;
        st.bytes_total += bev.len() as u64;
        let line = format!("HC {ty} {term} {} {}", ev_term(&cev), bev_term(&bev));
        if i == 0 && st.samples.len() < 400 && line.len() < 600 { st.samples.push(format!("{name}: {line}")); }
        out.push(line);
        st.cases += 1;
        // oracle 1: the hash does not depend on the construction history
        let h = h128(&v, HSEED);
        // the fingerprint model (seed, copy-of-state sub-hashers, wrapped sum) reproduces the real hash
        st.fingerprint_model_checked += 1;
        let hm = model_fingerprint(HSEED, &bev);
        if hm != h { st.model_fail.push(format!("fingerprint model: {name} {term}: real {h:032x}, resolve-then-sip {hm:032x}")); }
        for _ in 0..2 {
            let w = v.rebuild(r);
            if w.cval() != v.cval() { st.fail.push(format!("harness bug: rebuild changed the value of {name}: {term}")); continue; }
            if w.val() != term { st.history_reordered += 1; }
            st.history_checked += 1;
            let hw = h128(&w, HSEED);
            if hw != h { st.fail.push(format!("history: {name} {term} hashes to {h:032x}, rebuilt as {} to {hw:032x}", w.val())); }
        }
        // oracle 2: owned vs shared storage
        {
            let w = v.rebuild(r);
            let hs = [h128(&&v, HSEED), h128(&Box::new(v.rebuild(r)), HSEED), h128(&Rc::new(v.rebuild(r)), HSEED), h128(&Arc::new(w), HSEED)];
            st.ptr_checked += hs.len() as u64;
            if hs.iter().any(|x| *x != h) { st.fail.push(format!("pointer transparency: {name} {term}: owned {h:032x}, &/Box/Rc/Arc {hs:032x?}")); }
        }
        // oracle 3: equal values <=> equal hashes within this type's sample
        let cv = v.cval();
        if cv != term && ty.contains("HFloat") { st.nan_collapsed += 1; }
        match by_val.get(&cv) {
            Some(h0) => { st.same_value_pairs_checked += 1; if *h0 != h { st.fail.push(format!("determinism: {name} value {cv} hashed to {h0:032x} and {h:032x}")); } }
            None => { by_val.insert(cv.clone(), h); }
        }
        match by_hash.get(&h) {
            Some(c0) => { if *c0 != cv { st.fail.push(format!("discrimination: {name}: values {c0} and {cv} both hash to {h:032x}")); } }
            None => { by_hash.insert(h, cv); }
        }
        vals.push(v);
    }
    let d = by_val.len() as u64;
    st.distinct_values += d;
    st.pairs_distinct_checked += d * d.saturating_sub(1) / 2;
    st.by_type.push((name.to_string(), n));
    vals
}

/// additionally: decode(encode v), re-hash
fn run_rt<T: HUni + Encode + Decode>(name: &str, r: &mut Rng, n: u64, out: &mut Out, st: &mut Stats) {
    let vals = run::<T>(name, r, n, out, st);
    let plugin = plugin();
    let skips = T::ty().contains("HSkipped");
    for v in &vals {
        let mut enc = PostcardEncoder::new(Vec::new());
        enc.encode(v, &plugin).expect("encode to Vec cannot fail");
        let bytes = enc.into_inner();
        let mut dec = PostcardDecoder::new(&bytes[..]);
        let back: T = match dec.decode(&plugin) { Ok(b) => b, Err(e) => { st.fail.push(format!("roundtrip: {name} decode error {e} on {}", v.val())); continue; } };
        st.rt_checked += 1;
        let (h, hb) = (h128(v, HSEED), h128(&back, HSEED));
        if back.cval() == v.cval() {
            st.rt_equal_value += 1;
            if h != hb { st.fail.push(format!("roundtrip: {name} {} hashes to {h:032x}, after decode(encode) to {hb:032x}", v.val())); }
        } else if skips {
            st.rt_changed_by_skip += 1;
            if h == hb { st.fail.push(format!("discrimination: {name} {} and its round-tripped form {} both hash to {h:032x}", v.cval(), back.cval())); }
        } else {
            st.fail.push(format!("roundtrip: {name} decoded {} from {}", back.cval(), v.cval()));
        }
    }
}

fn hashes_of<T: HUni>(name: &str, r: &mut Rng, n: u64, hseed: u64) {
    for i in 0..n {
        let v = T::gen_(r, 0);
        println!("{name}\t{i}\t{:032x}", h128(&v, hseed));
    }
}

macro_rules! universe {
    ($mode:expr, $r:expr, $n:expr, $out:expr, $st:expr, $hseed:expr; rt: [$($t:ty),* $(,)?]; hash_only: [$($u:ty),* $(,)?]) => {
        if $mode == "cases" {
            $( run_rt::<$t>(stringify!($t), $r, $n, $out, $st); )*
            $( run::<$u>(stringify!($u), $r, $n, $out, $st); )*
        } else {
            $( hashes_of::<$t>(stringify!($t), $r, $n, $hseed); )*
            $( hashes_of::<$u>(stringify!($u), $r, $n, $hseed); )*
        }
    };
}

/// pairs of different values of one type whose streams would coincide under a sloppier framing
fn near_misses(st: &mut Stats) {
    macro_rules! differ {
        ($t:ty; $($v:expr),+ $(,)?) => {{
            let vs: Vec<$t> = vec![$($v),+];
            for i in 0..vs.len() { for j in 0..i {
                st.near_miss_checked += 1;
                let (a, b) = (h128(&vs[i], HSEED), h128(&vs[j], HSEED));
                if a == b { st.fail.push(format!("discrimination (near miss): {}: {:?} and {:?} both hash to {a:032x}", stringify!($t), vs[i], vs[j])); }
            } }
        }};
    }
    let s = |x: &str| x.to_string();
    differ!((String, String); (s("ab"), s("c")), (s("a"), s("bc")), (s("abc"), s("")), (s(""), s("abc")));
    differ!(Vec<Vec<u8>>; vec![vec![1], vec![2]], vec![vec![1, 2]], vec![vec![], vec![1, 2]], vec![vec![1, 2], vec![]], vec![], vec![vec![]], vec![vec![], vec![]]);
    differ!((Option<u8>, u8); (Some(0), 0), (None, 0), (None, 1), (Some(1), 0), (Some(0), 1));
    differ!(Vec<Option<u8>>; vec![Some(0)], vec![None], vec![None, None], vec![Some(0), None], vec![None, Some(0)], vec![Some(1)], vec![]);
    differ!(Option<Option<u8>>; None, Some(None), Some(Some(0)), Some(Some(1)));
    differ!(Option<Vec<u8>>; None, Some(vec![]), Some(vec![0]), Some(vec![1]), Some(vec![0, 0]));
    differ!(Result<u8, u8>; Ok(0), Err(0), Ok(1), Err(1));
    differ!(Vec<()>; vec![], vec![()], vec![(), ()], vec![(); 3], vec![(); 256]);
    differ!(Vec<String>; vec![s(""), s("a")], vec![s("a"), s("")], vec![s("a")], vec![s("")], vec![], vec![s(""), s("")], vec![s("\0")], vec![s("\0\0")]);
    differ!((Vec<u8>, Vec<u8>); (vec![], vec![0]), (vec![0], vec![]), (vec![], vec![]), (vec![0], vec![0]), (vec![0, 0], vec![]), (vec![1], vec![0, 0, 0, 0, 0, 0, 0, 0]));
    differ!(Vec<u16>; vec![1], vec![256], vec![1, 0], vec![0, 1], vec![0], vec![]);
    differ!((u8, u16, u8); (1, 2, 3), (1, 0x0302, 0), (1, 0x0300, 2), (2, 1, 3));
    differ!(f64; 0.0, -0.0, 1.0, f64::INFINITY, f64::NEG_INFINITY, f64::NAN, f64::MIN_POSITIVE);
    differ!(f32; 0.0, -0.0, 1.0, f32::INFINITY, f32::NEG_INFINITY, f32::NAN);
    differ!(HashSet<Vec<u8>>; [vec![1], vec![2]].into_iter().collect(), [vec![1, 2]].into_iter().collect(), [vec![1], vec![2], vec![]].into_iter().collect(),
            [vec![2, 1]].into_iter().collect(), HashSet::new(), [vec![]].into_iter().collect(), [vec![1]].into_iter().collect(), [vec![2]].into_iter().collect());
    differ!(HashMap<String, String>; [(s("ab"), s("c"))].into_iter().collect(), [(s("a"), s("bc"))].into_iter().collect(), [(s("c"), s("ab"))].into_iter().collect(),
            [(s("a"), s("b")), (s("c"), s("d"))].into_iter().collect(), [(s("a"), s("d")), (s("c"), s("b"))].into_iter().collect(), HashMap::new());
    differ!(HashMap<u8, u8>; [(1, 2)].into_iter().collect(), [(2, 1)].into_iter().collect(), [(1, 2), (2, 1)].into_iter().collect(), [(1, 1), (2, 2)].into_iter().collect(), HashMap::new());
    differ!(Vec<HashSet<u8>>; vec![HashSet::new(), [1].into_iter().collect()], vec![[1].into_iter().collect(), HashSet::new()], vec![[1].into_iter().collect()], vec![HashSet::new()], vec![]);
    differ!((HashSet<u8>, HashSet<u8>); ([1].into_iter().collect(), [2].into_iter().collect()), ([2].into_iter().collect(), [1].into_iter().collect()),
            ([1, 2].into_iter().collect(), HashSet::new()), (HashSet::new(), [1, 2].into_iter().collect()));
    differ!(Vec<BTreeSet<u8>>; vec![[1].into_iter().collect(), [2].into_iter().collect()], vec![[1, 2].into_iter().collect()], vec![[1, 2].into_iter().collect(), BTreeSet::new()]);
    differ!(En; En::A, En::F, En::D(0), En::D(1), En::B(0, s("")), En::C { x: 0, y: 0, z: vec![] }, En::C { x: 0, y: 1, z: vec![] }, En::E(Box::new(None)), En::E(Box::new(Some(0))));
    differ!(Small; Small::X, Small::Y(0), Small::Y(1), Small::Z(vec![], false), Small::Z(vec![0], false), Small::Z(vec![], true));
    differ!(GenEn<u8>; GenEn::None_, GenEn::One(0), GenEn::Two { a: 0, b: vec![] }, GenEn::One(2), GenEn::Two { a: 0, b: vec![0] });
    // BinaryHeap is a multiset
    let heap = |v: Vec<u8>| -> Vec<u8> { v };
    let hs: Vec<BinaryHeap<u8>> = vec![heap(vec![1, 1]).into(), heap(vec![1]).into(), heap(vec![1, 1, 1]).into(), heap(vec![0, 2]).into(), heap(vec![2]).into(), heap(vec![]).into()];
    for i in 0..hs.len() { for j in 0..i {
        st.near_miss_checked += 1;
        if h128(&hs[i], HSEED) == h128(&hs[j], HSEED) { st.fail.push(format!("discrimination (near miss): BinaryHeap<u8> {:?} and {:?} hash equally", hs[i], hs[j])); }
    } }
}

/// facts the Coq development states as Examples, replayed on the real code:
/// (name, holds on the real code)
fn stated_facts() -> Vec<(&'static str, bool)> {
    let named = |b: Vec<u8>, d: u16| Named { a: 1, b, c: None, d, e: -1 };
    let plugin = plugin();
    let v = named(vec![9], 7);
    let mut enc = PostcardEncoder::new(Vec::new());
    enc.encode(&v, &plugin).unwrap();
    let bytes = enc.into_inner();
    let back: Named = PostcardDecoder::new(&bytes[..]).decode(&plugin).unwrap();
    vec![
        ("nan_payloads_collapse_f32", h128(&f32::from_bits(0x7fc0_0001), HSEED) == h128(&f32::NAN, HSEED) && h128(&f32::from_bits(0xff80_0001), HSEED) == h128(&f32::NAN, HSEED)),
        ("nan_payloads_collapse_f64", h128(&f64::from_bits(0x7ff0_0000_0000_0001), HSEED) == h128(&f64::NAN, HSEED)),
        ("signed_zero_distinct", 0.0f64 == -0.0f64 && h128(&0.0f64, HSEED) != h128(&-0.0f64, HSEED)),
        ("type_not_hashed_str_vs_bytes", h128(&"ab".to_string(), HSEED) == h128(&vec![97u8, 98u8], HSEED)),
        ("type_not_hashed_array_vs_vec", h128(&[1u8, 2, 3], HSEED) == h128(&vec![1u8, 2, 3], HSEED)),
        ("type_not_hashed_usize_vs_u64", h128(&5usize, HSEED) == h128(&5u64, HSEED)),
        ("skipped_field_is_hashed", h128(&named(vec![9], 7), HSEED) != h128(&named(vec![], 0), HSEED)),
        ("roundtrip_resets_skipped_field_and_changes_hash", back == named(vec![], 0) && h128(&back, HSEED) != h128(&v, HSEED)),
        ("seed_changes_hash", h128(&1u8, 1) != h128(&1u8, 2)),
        ("discriminant_width", std::mem::size_of::<std::mem::Discriminant<Option<u8>>>() == 8 && std::mem::size_of::<std::mem::Discriminant<Small>>() == 1
            && std::mem::size_of::<std::mem::Discriminant<Option<Box<u8>>>>() == 8 && std::mem::size_of::<usize>() == 8),
    ]
}

fn json_str(s: &str) -> String {
    let mut o = String::from("\"");
    for c in s.chars() {
        match c { '"' => o.push_str("\\\""), '\\' => o.push_str("\\\\"), '\n' => o.push_str("\\n"), c if (c as u32) < 0x20 => o.push_str(&format!("\\u{:04x}", c as u32)), c => o.push(c) }
    }
    o.push('"');
    o
}

fn main() {
    let args: Vec<String> = std::env::args().collect();
    let mode = args[1].as_str();
    let (dir, seed, n, shards, hseed): (String, u64, u64, usize, u64) = if mode == "cases" {
        (args[2].clone(), args[3].parse().unwrap(), args[4].parse().unwrap(), args[5].parse().unwrap(), HSEED)
    } else {
        (String::new(), args[2].parse().unwrap(), args[3].parse().unwrap(), 1, args[4].parse().unwrap())
    };
    let mut r = Rng::new(seed);
    let mut out = Out { shards: vec![Vec::new(); shards], next: 0 };
    let mut st = Stats::default();
    universe!(mode, &mut r, n, &mut out, &mut st, hseed;
      rt: [
        u8, i8, u16, i16, u32, i32, u64, i64, u128, i128, usize, isize, bool, char, f32, f64, String, (),
        Box<str>, Rc<str>, Arc<str>, Box<u32>, Rc<String>, Arc<i64>, Box<Vec<u8>>, Arc<HashMap<u8, u8>>, Rc<Option<HashSet<u16>>>,
        NonZeroU8, NonZeroU16, NonZeroU32, NonZeroU64, NonZeroU128, NonZeroUsize,
        NonZeroI8, NonZeroI16, NonZeroI32, NonZeroI64, NonZeroI128, NonZeroIsize,
        std::sync::atomic::AtomicU32, std::sync::atomic::AtomicI64, std::sync::atomic::AtomicBool, std::sync::atomic::AtomicUsize, std::sync::atomic::AtomicI8,
        PhantomData<u8>, RangeFull, Duration,
        Option<u8>, Option<Option<i32>>, Option<String>, Option<()>, Result<u16, String>, Result<Vec<u8>, ()>, Result<(), ()>, Result<Option<u8>, Option<u8>>,
        Range<u32>, RangeInclusive<i8>, RangeFrom<u64>, RangeTo<i16>, RangeToInclusive<u128>,
        Vec<u8>, Vec<u64>, Vec<String>, Vec<Vec<i16>>, Vec<()>, Vec<Option<bool>>, Vec<f64>, Vec<(String, String)>, VecDeque<i32>, VecDeque<String>, LinkedList<u16>,
        Box<[u32]>, Arc<[String]>, [u8; 0], [i32; 3], [Vec<u8>; 2], [[u16; 2]; 2],
        SmallVec<[u32; 4]>, SmallVec<[String; 1]>,
        BTreeSet<i64>, BTreeSet<String>, HashSet<u32>, HashSet<String>, HashSet<Vec<u8>>, HashSet<(u8, String)>, HashSet<BTreeSet<u8>>, HashSet<()>, HashSet<Option<bool>>,
        dashmap::DashSet<u16>,
        BTreeMap<u8, String>, BTreeMap<String, Vec<u16>>, HashMap<u32, i32>, HashMap<String, Option<u8>>, HashMap<u8, HashSet<u16>>,
        HashMap<String, HashMap<u8, bool>>, HashMap<(), u8>, HashMap<Vec<String>, (u8, f32)>, Vec<HashSet<u8>>, (HashSet<u8>, HashSet<u8>), Option<HashMap<u8, String>>,
        BTreeMap<u8, HashMap<u8, HashSet<bool>>>, dashmap::DashMap<u8, u8>, dashmap::DashMap<String, Vec<u8>>,
        (u8,), (u8, i16), (String, u32, bool), (String, String), (u8, (i8, (u16, Vec<u8>))), (i128, u128, char, f64, ()),
        (u8, u16, u32, u64, u128, usize, i8), (u8, i8, u16, i16, u32, i32, u64, i64, bool, char, String, ()),
        Named, TupleS, UnitS, Gen<u8, String>, Gen<Vec<i32>, Option<u16>>, En, GenEn<u64>, GenEn<En>, Vec<Named>, Option<En>,
        BTreeMap<u16, Named>, HashMap<u8, En>, HashSet<En>, Vec<(Named, En)>,
        Interned<String>, Interned<str>, Interned<[u32]>, Interned<Leaf>, Vec<Interned<String>>, HashSet<Interned<String>>, HashMap<u8, Interned<Leaf>>,
        (Interned<String>, Interned<str>, Interned<String>),
      ];
      hash_only: [
        BinaryHeap<u8>, BinaryHeap<String>, BinaryHeap<(u8, u8)>, Vec<BinaryHeap<u8>>, HashMap<u8, BinaryHeap<bool>>,
        Cow<'static, String>, Cow<'static, Vec<u8>>, Cow<'static, HashSet<u8>>, &'static str, OsString, PathBuf, Small, Vec<Small>, HashSet<Small>,
      ]
    );
    if mode != "cases" { return; }
    near_misses(&mut st);
    let facts = stated_facts();
    std::fs::create_dir_all(&dir).unwrap();
    for (k, lines) in out.shards.iter().enumerate() {
        std::fs::write(format!("{dir}/shard_{k}.txt"), lines.join("\n") + "\n").unwrap();
    }
    let facts_json = facts.iter().map(|(k, v)| format!("{}:{}", json_str(k), v)).collect::<Vec<_>>().join(",");
    let fails = st.fail.iter().take(20).map(|s| json_str(s)).collect::<Vec<_>>().join(",");
    let mfails = st.model_fail.iter().take(20).map(|s| json_str(s)).collect::<Vec<_>>().join(",");
    let samples = st.samples.iter().filter(|s| s.contains("HUnord") || s.contains("HEnum")).take(4).chain(st.samples.iter().take(2)).map(|s| json_str(s)).collect::<Vec<_>>().join(",");
    println!(
        "{{\"cases\":{},\"types\":{},\"calls_total\":{},\"bytes_total\":{},\"sub_hash_calls\":{},\"sub_hash_calls_nested\":{},\"history_checked\":{},\"history_reordered\":{},\"ptr_checked\":{},\"rt_checked\":{},\"rt_equal_value\":{},\"rt_changed_by_skip\":{},\"distinct_values\":{},\"pairs_distinct_checked\":{},\"same_value_pairs_checked\":{},\"nan_collapsed\":{},\"near_miss_checked\":{},\"fingerprint_model_checked\":{},\"model_fail\":[{}],\"n_fail\":{},\"facts\":{{{}}},\"fail\":[{}],\"samples\":[{}]}}",
        st.cases, st.by_type.len(), st.calls_total, st.bytes_total, st.sub_entries, st.nested_sub, st.history_checked, st.history_reordered, st.ptr_checked,
        st.rt_checked, st.rt_equal_value, st.rt_changed_by_skip, st.distinct_values, st.pairs_distinct_checked, st.same_value_pairs_checked, st.nan_collapsed,
        st.near_miss_checked, st.fingerprint_model_checked, mfails, st.fail.len(), facts_json, fails, samples
    );
}
