//! C02 / F7: the tiered backward-edge set under concurrent inserts around the 32-element
//! upgrade (real type through the verif_hooks handle).
//!   tiered <trials> <threads>
//! Oracle (linearizability of inserts): every insert that returned has its element in the
//! final content; the final content is exactly prefill + inserted; len agrees.
use std::sync::{Arc, Barrier};

use qbice::{query::QueryID, verif_hooks::BackwardEdgeSet};
use qbice_stable_hash::Compact128;

fn qid(i: u64) -> QueryID { QueryID::from_parts(Compact128::from(7u128), Compact128::from(i as u128)) }

fn main() {
    let args: Vec<String> = std::env::args().collect();
    let trials: u64 = args[1].parse().unwrap();
    let threads: u64 = args[2].parse().unwrap();
    let (mut lost_trials, mut lost_total, mut dup_or_extra) = (0u64, 0u64, 0u64);
    let mut first: Option<String> = None;
    for t in 0..trials {
        // vary the prefill around the threshold: the upgrade happens when an insert finds exactly 32
        let prefill = 28 + (t % 6);
        let set = BackwardEdgeSet::new();
        for i in 0..prefill { assert!(set.insert(qid(i))); }
        let barrier = Arc::new(Barrier::new(threads as usize));
        let per = 3u64;
        let hs: Vec<_> = (0..threads).map(|k| {
            let set = set.clone(); let barrier = barrier.clone();
            std::thread::spawn(move || {
                barrier.wait();
                let mut ok = Vec::new();
                for j in 0..per { let id = 1000 + k * per + j; if set.insert(qid(id)) { ok.push(id); } }
                ok
            })
        }).collect();
        let mut inserted: Vec<u64> = Vec::new();
        for h in hs { inserted.extend(h.join().unwrap()); }
        let content = set.to_vec();
        let missing: Vec<u64> = (0..prefill).chain(inserted.iter().copied()).filter(|i| !content.contains(&qid(*i))).collect();
        if !missing.is_empty() {
            lost_trials += 1; lost_total += missing.len() as u64;
            if first.is_none() { first = Some(format!("prefill {prefill}, {threads} threads x {per} inserts: {} of {} acknowledged elements missing from the final set (e.g. {:?}), len() = {}", missing.len(), prefill as usize + inserted.len(), &missing[..missing.len().min(4)], set.len())); }
        }
        if content.len() != set.len() || content.len() > prefill as usize + inserted.len() { dup_or_extra += 1; }
    }
    println!("{{\"trials\":{trials},\"threads\":{threads},\"trials_with_lost_inserts\":{lost_trials},\"lost_elements\":{lost_total},\"len_mismatch_or_extra\":{dup_or_extra},\"first\":{}}}", match &first { Some(x) => format!("{:?}", x), None => "null".to_string() });
}
