//! C16 correspondence + property oracle for the TinyLFU admission cache
//! (crates/storage/src/tiny_lfu*), public API only.
//!
//! usage: lfu gen <out_dir> <seed> <cases> <shards> <max_ops> <mt_rounds> <mt_ops>
//!        lfu witness            (runs only the F4 witness; exit code 0, prints json)
//!
//! `gen` does, all derived from <seed>:
//!  1. the F4 witness (Policy::unpin with an empty probation region) on the real cache; whether
//!     it panics decides which model variant (`as_code`) the logged cases are checked against;
//!  2. <cases> random single-threaded operation sequences on a real TinyLFU (Piggyback mode, the
//!     only deterministic one) — after every operation all keys believed resident are probed
//!     through `entry`, so the log carries, per operation, the returned value and the set of keys
//!     that were evicted during it; the Coq model (Lfu/Check.v) must reproduce all of it;
//!  3. on the same runs the property's own oracle against a plain reference map: results equal the
//!     latest written value, a key whose value says "pinned" never disappears, the number of
//!     resident keys stays within max_capacity + (resident keys that have been pinned) + 32, and
//!     after unpinning everything and two maintenance rounds within max_capacity;
//!  4. multi-threaded runs (both maintenance modes, both strategies) judged by the oracle only;
//!  5. the lock-table pattern of query_lock_manager.rs (Arc values, pinned = strong_count > 1,
//!     Poll + Piggyback, tiny capacity) under contention with a mutual-exclusion witness per key.
use std::{
    collections::{BTreeMap, BTreeSet},
    panic::{AssertUnwindSafe, catch_unwind},
    sync::{
        Arc, Barrier,
        atomic::{AtomicBool, AtomicU64, AtomicUsize, Ordering},
    },
};

use qbice_storage::tiny_lfu::{Entry, LifecycleListener, MaintenanceMode, TinyLFU, UnpinStrategy};
use qv_harness::rng::Rng;

#[derive(Clone, Copy, Debug, PartialEq, Eq)]
struct Val {
    v: u64,
    pinned: bool,
}
#[derive(Default)]
struct FlagListener;
impl LifecycleListener<u64, Val> for FlagListener {
    fn is_pinned(&self, _k: &u64, v: &Val) -> bool { v.pinned }
}
type Cache = TinyLFU<u64, Val, FlagListener>;

#[derive(Clone, Copy, Debug)]
enum Op {
    Get(u64),
    Peek(u64),
    Insert(u64, Val),
    SetVal(u64, u64),
    SetPin(u64, bool),
    Remove(u64),
    Unpin(u64),
}

/// what Policy::new computes (mirror of policy.rs:38-58, used for the residency bound)
fn caps(capacity: usize) -> (usize, usize, usize) {
    let window = (capacity as f64 * 0.01).ceil() as usize;
    let main = capacity - window;
    let protected = (main as f64 * 0.8).ceil() as usize;
    let probation = (main - protected).max(1);
    (window, protected, window + protected + probation)
}

fn cv(v: &Val) -> String { format!("({},{})", v.v, v.pinned) }
fn cov(v: &Option<Val>) -> String {
    match v {
        Some(v) => format!("(Some {})", cv(v)),
        None => "None".into(),
    }
}
fn cl(xs: &[u64]) -> String { format!("[{}]", xs.iter().map(|x| x.to_string()).collect::<Vec<_>>().join(";")) }

fn probe(c: &Cache, k: u64) -> Option<Val> {
    c.entry(k, |e| match e {
        Entry::Occupied(o) => Some(*o.get()),
        Entry::Vacant(_) => None,
    })
}

struct Driver {
    cache: Cache,
    maxcap: usize,
    reference: BTreeMap<u64, Val>, // what the API contract says is resident unless evicted
    tainted: BTreeSet<u64>,        // resident keys that have been pinned since they were inserted
    log: Vec<String>,
    oracle_fail: Vec<String>,
    evictions: u64,
    max_resident: usize,
    max_excess: i64, // max of resident - (maxcap + tainted)
    kinds: [u64; 7],
    pinned_survived: u64, // probes of a pinned key that found it (non-trivial checks of the pin property)
    hits: u64,
    misses: u64,
}

enum Outcome {
    Done,
    Panicked(String),
}

impl Driver {
    fn new(cap: usize, poll: bool) -> Self {
        let cache = Cache::new(cap, if poll { UnpinStrategy::Poll } else { UnpinStrategy::Notify }, MaintenanceMode::Piggyback);
        Driver {
            cache,
            maxcap: caps(cap).2,
            reference: BTreeMap::new(),
            tainted: BTreeSet::new(),
            log: Vec::new(),
            oracle_fail: Vec::new(),
            evictions: 0,
            max_resident: 0,
            max_excess: i64::MIN,
            kinds: [0; 7],
            pinned_survived: 0,
            hits: 0,
            misses: 0,
        }
    }

    /// run one operation on the real cache, judge it, log it
    fn apply(&mut self, op: Op) -> Outcome {
        let c = &self.cache;
        // --- the real code
        enum R {
            V(Option<Val>),
            B(bool),
            U,
        }
        let res = catch_unwind(AssertUnwindSafe(|| match op {
            Op::Get(k) => R::V(c.get(&k)),
            Op::Peek(k) => R::V(probe(c, k)),
            Op::Insert(k, v) => R::B(c.entry(k, |e| match e {
                Entry::Vacant(x) => {
                    x.insert(v);
                    true
                }
                Entry::Occupied(_) => false,
            })),
            Op::SetVal(k, n) => R::B(c.entry(k, |e| match e {
                Entry::Occupied(mut o) => {
                    o.get_mut().v = n;
                    true
                }
                Entry::Vacant(_) => false,
            })),
            Op::SetPin(k, b) => R::B(c.entry(k, |e| match e {
                Entry::Occupied(mut o) => {
                    o.get_mut().pinned = b;
                    true
                }
                Entry::Vacant(_) => false,
            })),
            Op::Remove(k) => R::V(c.entry(k, |e| match e {
                Entry::Occupied(o) => Some(o.remove()),
                Entry::Vacant(_) => None,
            })),
            Op::Unpin(k) => {
                c.unpin(k);
                R::U
            }
        }));
        let head = match op {
            Op::Get(k) => format!("G {k}"),
            Op::Peek(k) => format!("K {k}"),
            Op::Insert(k, v) => format!("I {k} {}", cv(&v)),
            Op::SetVal(k, n) => format!("M {k} (SetVal {n})"),
            Op::SetPin(k, b) => format!("M {k} (SetPin {b})"),
            Op::Remove(k) => format!("R {k}"),
            Op::Unpin(k) => format!("P {k}"),
        };
        let res = match res {
            Ok(r) => r,
            Err(p) => {
                let msg = p.downcast_ref::<String>().cloned().or_else(|| p.downcast_ref::<&str>().map(|s| s.to_string())).unwrap_or_default();
                // the log entry of the panicking operation (result fields are placeholders)
                let line = match op {
                    Op::Get(_) | Op::Peek(_) | Op::Remove(_) => format!("{head} None []"),
                    Op::Insert(..) | Op::SetVal(..) | Op::SetPin(..) => format!("{head} false []"),
                    Op::Unpin(_) => format!("{head} []"),
                };
                self.log.push(line);
                return Outcome::Panicked(msg);
            }
        };
        // --- the oracle: results against the reference map, then its base effect
        let expect = |d: &mut Driver, what: &str, ok: bool| {
            if !ok && d.oracle_fail.len() < 5 {
                d.oracle_fail.push(format!("op #{} {head}: {what}", d.log.len()));
            }
        };
        let rtxt;
        match (op, &res) {
            (Op::Get(k), R::V(v)) => {
                self.kinds[0] += 1;
                if v.is_some() { self.hits += 1 } else { self.misses += 1 }
                let want = self.reference.get(&k).copied();
                expect(self, &format!("get returned {v:?}, latest written value is {want:?}"), *v == want);
                rtxt = cov(v);
            }
            (Op::Peek(k), R::V(v)) => {
                self.kinds[1] += 1;
                let want = self.reference.get(&k).copied();
                expect(self, &format!("entry shows {v:?}, latest written value is {want:?}"), *v == want);
                rtxt = cov(v);
            }
            (Op::Insert(k, v), R::B(b)) => {
                self.kinds[2] += 1;
                let ok = *b == !self.reference.contains_key(&k);
                expect(self, "vacant/occupied disagrees with the reference map", ok);
                if *b {
                    self.reference.insert(k, v);
                    if v.pinned { self.tainted.insert(k); }
                }
                rtxt = b.to_string();
            }
            (Op::SetVal(k, n), R::B(b)) => {
                self.kinds[3] += 1;
                let ok = *b == self.reference.contains_key(&k);
                expect(self, "vacant/occupied disagrees with the reference map", ok);
                if let Some(x) = self.reference.get_mut(&k) { x.v = n }
                rtxt = b.to_string();
            }
            (Op::SetPin(k, p), R::B(b)) => {
                self.kinds[4] += 1;
                let ok = *b == self.reference.contains_key(&k);
                expect(self, "vacant/occupied disagrees with the reference map", ok);
                if let Some(x) = self.reference.get_mut(&k) {
                    x.pinned = p;
                    if p { self.tainted.insert(k); }
                }
                rtxt = b.to_string();
            }
            (Op::Remove(k), R::V(v)) => {
                self.kinds[5] += 1;
                let want = self.reference.remove(&k);
                self.tainted.remove(&k);
                expect(self, &format!("remove returned {v:?}, latest written value is {want:?}"), *v == want);
                rtxt = cov(v);
            }
            (Op::Unpin(_), R::U) => {
                self.kinds[6] += 1;
                rtxt = String::new();
            }
            _ => unreachable!(),
        }
        // --- probe everything believed resident: evictions, pinned survival, latest values
        let mut evicted = Vec::new();
        let keys: Vec<u64> = self.reference.keys().copied().collect();
        for k in keys {
            let want = self.reference[&k];
            match probe(&self.cache, k) {
                Some(v) => {
                    if v != want { expect(self, &format!("key {k} holds {v:?}, latest written value is {want:?}"), false); }
                    if want.pinned { self.pinned_survived += 1; }
                }
                None => {
                    if want.pinned { expect(self, &format!("PINNED key {k} was evicted"), false); }
                    evicted.push(k);
                    self.reference.remove(&k);
                    self.tainted.remove(&k);
                }
            }
        }
        self.evictions += evicted.len() as u64;
        let resident = self.reference.len();
        self.max_resident = self.max_resident.max(resident);
        let excess = resident as i64 - (self.maxcap + self.tainted.len()) as i64;
        self.max_excess = self.max_excess.max(excess);
        if excess > 32 {
            expect(self, &format!("{resident} resident keys > max_capacity {} + {} pinned-since-insert + 32", self.maxcap, self.tainted.len()), false);
        }
        let e = cl(&evicted);
        self.log.push(if rtxt.is_empty() { format!("{head} {e}") } else { format!("{head} {rtxt} {e}") });
        Outcome::Done
    }

    /// keys outside the reference map must be absent
    fn sweep(&mut self, universe: u64) {
        for k in 0..universe {
            if !self.reference.contains_key(&k) && probe(&self.cache, k).is_some() && self.oracle_fail.len() < 5 {
                self.oracle_fail.push(format!("after op #{}: key {k} is resident but was evicted/removed/never inserted", self.log.len()));
            }
        }
    }
}

const DUMMY: u64 = 4_000_000_000;

#[derive(Default)]
struct Stats {
    cases: u64,
    ops: u64,
    kinds: [u64; 7],
    evictions: u64,
    hits: u64,
    misses: u64,
    pinned_survived: u64,
    cap_hist: BTreeMap<&'static str, u64>,
    poll: u64,
    notify: u64,
    quiesced: u64,
    max_excess: i64,
    panics: u64,
    distinct: BTreeSet<u64>,
    nontrivial: u64,
    samples: Vec<String>,
}

fn pick_cap(r: &mut Rng) -> usize {
    match r.below(10) {
        0 => r.range(1, 3) as usize,
        1 | 2 => r.range(4, 12) as usize,
        3 | 4 | 5 => r.range(13, 60) as usize,
        6 | 7 => r.range(61, 150) as usize,
        _ => r.range(151, 300) as usize,
    }
}

struct Gen {
    universe: u64,
    hot: Vec<u64>,
    next_val: u64,
}
impl Gen {
    fn key(&self, r: &mut Rng) -> u64 {
        if r.chance(7, 10) { *r.pick(&self.hot) } else { r.below(self.universe) }
    }
    fn val(&mut self, r: &mut Rng, pin_pct: u64) -> Val {
        self.next_val += 1;
        Val { v: self.next_val, pinned: r.chance(pin_pct, 100) }
    }
}

/// one random case; returns the Coq term
fn one_case(r: &mut Rng, max_ops: usize, as_code: bool, st: &mut Stats, fails: &mut Vec<String>, first_panic: &mut Option<String>) -> String {
    let cap = pick_cap(r);
    let poll = r.chance(1, 2);
    let universe = (cap as u64) * r.range(3, 20) + 40;
    let hot_n = (cap as u64 / 2 + 2).min(universe);
    let mut g = Gen { universe, hot: (0..hot_n).map(|_| r.below(universe)).collect(), next_val: 0 };
    let nops = r.range((max_ops / 5).max(60) as u64, max_ops as u64) as usize;
    let pin_pct = *r.pick(&[0u64, 5, 20, 60, 100]);
    let mut d = Driver::new(cap, poll);
    let mut panicked = None;
    macro_rules! go {
        ($op:expr) => {
            if panicked.is_none() {
                if let Outcome::Panicked(m) = d.apply($op) { panicked = Some(m); }
            }
        };
    }
    while d.log.len() < nops && panicked.is_none() {
        match r.below(12) {
            // mixed traffic
            0..=4 => {
                for _ in 0..r.range(20, 200) {
                    let k = g.key(r);
                    let op = match r.below(100) {
                        0..=34 => Op::Get(k),
                        35..=37 => Op::Peek(k),
                        38..=67 => Op::Insert(k, g.val(r, pin_pct)),
                        68..=72 => Op::SetVal(k, { g.next_val += 1; g.next_val }),
                        73..=79 => Op::SetPin(k, true),
                        80..=85 => Op::SetPin(k, false),
                        86..=92 => Op::Remove(k),
                        _ => Op::Unpin(k),
                    };
                    go!(op);
                }
            }
            // scan of cold keys (pressure on the window / admission duel)
            5 | 6 => {
                let start = r.below(universe);
                for i in 0..r.range(30, 150) { go!(Op::Insert((start + i) % universe, g.val(r, pin_pct))); }
            }
            // hot reads (drive the sketch and protected region)
            7 => {
                for _ in 0..r.range(20, 120) { go!(Op::Get(*r.pick(&g.hot))); }
            }
            // pin burst over resident keys
            8 => {
                let ks: Vec<u64> = d.reference.keys().copied().collect();
                if !ks.is_empty() {
                    for _ in 0..r.range(5, 40) { go!(Op::SetPin(*r.pick(&ks), true)); }
                }
            }
            // unpin burst: clear flags, notify (sometimes also for keys that are not pinned)
            9 => {
                let ks: Vec<u64> = d.reference.iter().filter(|(_, v)| v.pinned).map(|(k, _)| *k).collect();
                for k in ks {
                    if r.chance(3, 4) {
                        go!(Op::SetPin(k, false));
                        if r.chance(4, 5) { go!(Op::Unpin(k)); }
                    }
                }
                for _ in 0..r.below(40) { go!(Op::Unpin(g.key(r))); }
            }
            // removal burst (empties regions: the F4 situation)
            10 => {
                let ks: Vec<u64> = d.reference.keys().copied().collect();
                let keep = r.below(4);
                for (i, k) in ks.iter().enumerate() {
                    if (i as u64) >= keep && r.chance(9, 10) { go!(Op::Remove(*k)); }
                }
                let ks: Vec<u64> = d.reference.keys().copied().collect();
                for k in ks {
                    go!(Op::SetPin(k, false));
                    go!(Op::Unpin(k));
                }
                for _ in 0..r.range(0, 40) { go!(Op::Unpin(DUMMY)); }
            }
            // re-insert churn on few keys (remove + insert of the same key inside one batch)
            _ => {
                for _ in 0..r.range(10, 60) {
                    let k = *r.pick(&g.hot);
                    go!(Op::Remove(k));
                    go!(Op::Insert(k, g.val(r, pin_pct)));
                }
            }
        }
        if panicked.is_none() && r.chance(1, 4) { d.sweep(universe); }
    }
    // quiesce: unpin everything, notify, two maintenance rounds; then the tight bound
    let quiesce = panicked.is_none() && r.chance(1, 2);
    if quiesce {
        let ks: Vec<u64> = d.reference.keys().copied().collect();
        for k in &ks {
            if d.reference.get(k).map(|v| v.pinned).unwrap_or(false) { go!(Op::SetPin(*k, false)); }
        }
        let ts: Vec<u64> = d.tainted.iter().copied().collect();
        for k in ts { go!(Op::Unpin(k)); }
        for _ in 0..70 { go!(Op::Unpin(DUMMY)); }
        if panicked.is_none() {
            st.quiesced += 1;
            if d.reference.len() > d.maxcap && d.oracle_fail.len() < 5 {
                d.oracle_fail.push(format!("after unpinning everything and two maintenance rounds {} keys are resident > max_capacity {}", d.reference.len(), d.maxcap));
            }
        }
    }
    if panicked.is_none() { d.sweep(universe); }
    // statistics
    st.cases += 1;
    st.ops += d.log.len() as u64;
    for i in 0..7 { st.kinds[i] += d.kinds[i]; }
    st.evictions += d.evictions;
    st.hits += d.hits;
    st.misses += d.misses;
    st.pinned_survived += d.pinned_survived;
    st.max_excess = st.max_excess.max(d.max_excess);
    *st.cap_hist.entry(match cap { 1..=3 => "1-3", 4..=12 => "4-12", 13..=60 => "13-60", 61..=150 => "61-150", _ => "151-300" }).or_insert(0) += 1;
    if poll { st.poll += 1 } else { st.notify += 1 }
    if d.evictions > 0 { st.nontrivial += 1; }
    let body = d.log.join("; ");
    let mut h = 0xcbf29ce484222325u64;
    for b in body.bytes() { h = (h ^ b as u64).wrapping_mul(0x100000001b3); }
    if d.evictions > 0 { st.distinct.insert(h); }
    for f in d.oracle_fail.iter() {
        fails.push(format!("cap={cap} poll={poll} {f}"));
    }
    if !d.oracle_fail.is_empty() && st.samples.len() < 8 {
        // keep the failing sequence itself as replay material
        st.samples.push(format!("FAILING cap={cap} poll={poll} ops=[{body}]"));
    }
    if st.samples.len() < 2 {
        let cut: Vec<&str> = d.log.iter().take(40).map(|s| s.as_str()).collect();
        st.samples.push(format!("cap={cap} poll={poll} first 40 of {} ops: {}", d.log.len(), cut.join("; ")));
    }
    match panicked {
        Some(msg) => {
            st.panics += 1;
            let last = d.log.pop().unwrap();
            if first_panic.is_none() {
                *first_panic = Some(format!("cap={cap} poll={poll} panic \"{msg}\" inside the last of ops=[{}; {last}]", d.log.join("; ")));
            }
            format!("Panics {cap} {poll} {as_code} [{}] ({last})", d.log.join("; "))
        }
        None => {
            let fin: Vec<String> = d.reference.iter().map(|(k, v)| format!("({k},{})", cv(v))).collect();
            format!("Trace {cap} {poll} {as_code} [{body}] [{}]", fin.join(";"))
        }
    }
}

/// F4: capacity 4, 200 pinned inserts, remove all but key 100 (it sits in the Pinned region),
/// clear its flag, notify, force a maintenance round.
fn witness_ops() -> Vec<Op> {
    let mut ops = Vec::new();
    for k in 0..200 { ops.push(Op::Insert(k, Val { v: k, pinned: true })); }
    for k in 0..200 { if k != 100 { ops.push(Op::Remove(k)); } }
    ops.push(Op::SetPin(100, false));
    ops.push(Op::Unpin(100));
    for _ in 0..40 { ops.push(Op::Unpin(DUMMY)); }
    ops
}

/// returns (panicked, message, coq case built with the given as_code flag)
fn run_witness() -> (bool, String, Vec<String>) {
    let mut d = Driver::new(4, false);
    for op in witness_ops() {
        if let Outcome::Panicked(m) = d.apply(op) {
            return (true, m, d.log);
        }
    }
    (false, String::new(), d.log)
}

fn witness_case(as_code: bool) -> (bool, String, String, Vec<String>) {
    let (p, m, mut log) = run_witness();
    let d = {
        // final map for the non-panicking variant
        let mut d = Driver::new(4, false);
        if !p { for op in witness_ops() { let _ = d.apply(op); } }
        d
    };
    let case = if p {
        let last = log.pop().unwrap();
        format!("Panics 4 false {as_code} [{}] ({last})", log.join("; "))
    } else {
        let fin: Vec<String> = d.reference.iter().map(|(k, v)| format!("({k},{})", cv(v))).collect();
        format!("Trace 4 false {as_code} [{}] [{}]", log.join("; "), fin.join(";"))
    };
    (p, m, case, log)
}

// ------------------------------------------------------------------ multi-threaded oracle
struct MtResult {
    ops: u64,
    fails: Vec<String>,
    max_resident: usize,
    final_resident: usize,
    pinned_checks: u64,
    evictions: u64,
}

fn mt_round(seed: u64, cap: usize, poll: bool, dedicated: bool, threads: usize, ops_per_thread: usize) -> MtResult {
    let cache: Arc<Cache> = Arc::new(Cache::new(
        cap,
        if poll { UnpinStrategy::Poll } else { UnpinStrategy::Notify },
        if dedicated { MaintenanceMode::DedicatedThread } else { MaintenanceMode::Piggyback },
    ));
    let maxcap = caps(cap).2;
    let per = (cap as u64) * 6 + 50; // keys owned per thread
    let barrier = Arc::new(Barrier::new(threads));
    let total_ops = Arc::new(AtomicU64::new(0));
    let max_res = Arc::new(AtomicUsize::new(0));
    let mut hs = Vec::new();
    for t in 0..threads {
        let (cache, barrier, total_ops, max_res) = (cache.clone(), barrier.clone(), total_ops.clone(), max_res.clone());
        hs.push(std::thread::spawn(move || {
            let mut r = Rng::new(seed ^ ((t as u64 + 1) * 0x9E37));
            let base = t as u64 * per;
            // owner's view of its own keys: latest value, or absent
            let mut mine: BTreeMap<u64, Val> = BTreeMap::new();
            let mut fails = Vec::new();
            let mut pinned_checks = 0u64;
            let mut evictions = 0u64;
            let mut ver = 0u64;
            barrier.wait();
            for i in 0..ops_per_thread {
                let own = base + r.below(per);
                match r.below(100) {
                    0..=29 => {
                        // read any key (also other threads'): a value, if present, belongs to that key
                        let k = r.below(per * threads as u64);
                        if let Some(v) = cache.get(&k) {
                            if v.v >> 24 != k { fails.push(format!("get({k}) returned the value of key {}", v.v >> 24)); }
                        }
                    }
                    30..=59 => {
                        ver += 1;
                        let v = Val { v: (own << 24) | (ver & 0xFF_FFFF), pinned: r.chance(1, 4) };
                        let fresh = cache.entry(own, |e| match e {
                            Entry::Vacant(x) => { x.insert(v); true }
                            Entry::Occupied(_) => false,
                        });
                        match (fresh, mine.get(&own)) {
                            (true, Some(old)) if old.pinned => fails.push(format!("PINNED key {own} had been evicted (vacant on insert)")),
                            (true, Some(_)) => { evictions += 1; mine.insert(own, v); }
                            (true, None) => { mine.insert(own, v); }
                            (false, None) => fails.push(format!("key {own} occupied although its owner removed it / never inserted it")),
                            (false, Some(_)) => {}
                        }
                    }
                    60..=69 => {
                        let p = r.chance(1, 2);
                        ver += 1;
                        let nv = (own << 24) | (ver & 0xFF_FFFF);
                        let got = cache.entry(own, |e| match e {
                            Entry::Occupied(mut o) => { let old = *o.get(); o.get_mut().pinned = p; o.get_mut().v = nv; Some(old) }
                            Entry::Vacant(_) => None,
                        });
                        match (got, mine.get(&own).copied()) {
                            (Some(old), Some(want)) => {
                                if old != want { fails.push(format!("key {own} held {old:?}, owner's latest write is {want:?}")); }
                                mine.insert(own, Val { v: nv, pinned: p });
                            }
                            (None, Some(want)) => {
                                if want.pinned { fails.push(format!("PINNED key {own} was evicted")); }
                                evictions += 1;
                                mine.remove(&own);
                            }
                            (Some(_), None) => fails.push(format!("key {own} resident although its owner removed it / never inserted it")),
                            (None, None) => {}
                        }
                        if !p && !poll { cache.unpin(own); }
                    }
                    70..=79 => {
                        let got = cache.entry(own, |e| match e {
                            Entry::Occupied(o) => Some(o.remove()),
                            Entry::Vacant(_) => None,
                        });
                        match (got, mine.remove(&own)) {
                            (Some(old), Some(want)) => if old != want { fails.push(format!("remove({own}) returned {old:?}, latest write is {want:?}")) },
                            (None, Some(want)) => { if want.pinned { fails.push(format!("PINNED key {own} was evicted")); } evictions += 1; }
                            (Some(_), None) => fails.push(format!("key {own} resident although never inserted / removed")),
                            (None, None) => {}
                        }
                    }
                    _ => {
                        // check one of my pinned keys is still there with the latest value
                        if let Some((k, want)) = mine.iter().find(|(_, v)| v.pinned).map(|(k, v)| (*k, *v)) {
                            pinned_checks += 1;
                            match cache.get(&k) {
                                Some(v) if v == want => {}
                                Some(v) => fails.push(format!("pinned key {k} holds {v:?}, latest write is {want:?}")),
                                None => fails.push(format!("PINNED key {k} was evicted")),
                            }
                        }
                    }
                }
                if i % 512 == 0 { max_res.fetch_max(mine.len(), Ordering::Relaxed); }
                if fails.len() > 3 { break; }
            }
            total_ops.fetch_add(ops_per_thread as u64, Ordering::Relaxed);
            barrier.wait();
            // quiesce my keys: clear every flag, notify
            let ks: Vec<u64> = mine.keys().copied().collect();
            for k in ks {
                cache.entry(k, |e| if let Entry::Occupied(mut o) = e { o.get_mut().pinned = false; });
                cache.unpin(k);
            }
            (fails, pinned_checks, evictions)
        }));
    }
    let mut fails = Vec::new();
    let mut pinned_checks = 0;
    let mut evictions = 0;
    for h in hs {
        match h.join() {
            Ok((f, p, e)) => { fails.extend(f); pinned_checks += p; evictions += e; }
            Err(p) => {
                let msg = p.downcast_ref::<String>().cloned().or_else(|| p.downcast_ref::<&str>().map(|s| s.to_string())).unwrap_or_default();
                fails.push(format!("a worker thread panicked: {msg}"));
            }
        }
    }
    // everything is unpinned and notified: after maintenance rounds the cache must be within max_capacity
    let universe = per * threads as u64;
    let count = |c: &Cache| (0..universe).filter(|k| probe(c, *k).is_some()).count();
    let before = count(&cache);
    let mut resident = before;
    let r = catch_unwind(AssertUnwindSafe(|| {
        for _ in 0..200 {
            for _ in 0..35 { cache.unpin(DUMMY); }
            if dedicated { std::thread::sleep(std::time::Duration::from_millis(2)); }
            resident = count(&cache);
            if resident <= maxcap { break; }
        }
    }));
    if r.is_err() { fails.push("maintenance panicked while quiescing".into()); }
    if resident > maxcap {
        fails.push(format!("cap={cap}: after unpinning everything {resident} keys stay resident > max_capacity {maxcap}"));
    }
    MtResult { ops: total_ops.load(Ordering::Relaxed), fails, max_resident: before, final_resident: resident, pinned_checks, evictions }
}

// ------------------------------------------------------------------ lock table pattern
#[derive(Clone)]
struct OwnedLock(Arc<parking_lot::Mutex<()>>);
#[derive(Default)]
struct ActiveLock;
impl LifecycleListener<u64, OwnedLock> for ActiveLock {
    fn is_pinned(&self, _k: &u64, v: &OwnedLock) -> bool { Arc::strong_count(&v.0) > 1 }
}
/// query_lock_manager.rs get_lock_instance, verbatim on a u64 key
fn get_lock_instance(hot: &TinyLFU<u64, OwnedLock, ActiveLock>, k: u64) -> OwnedLock {
    if let Some(l) = hot.get(&k) { return l; }
    let inst = OwnedLock(Arc::new(parking_lot::Mutex::new(())));
    hot.entry(k, |x| match x {
        Entry::Vacant(v) => { v.insert(inst.clone()); inst }
        Entry::Occupied(o) => o.get().clone(),
    })
}
fn lock_table(seed: u64, cap: usize, threads: usize, iters: usize) -> (u64, u64, u64, Vec<String>) {
    let hot: Arc<TinyLFU<u64, OwnedLock, ActiveLock>> = Arc::new(TinyLFU::new(cap, UnpinStrategy::Poll, MaintenanceMode::Piggyback));
    let nhot = 4u64;
    let inside: Arc<Vec<AtomicBool>> = Arc::new((0..nhot).map(|_| AtomicBool::new(false)).collect());
    let contended = Arc::new(AtomicU64::new(0));
    let changed = Arc::new(AtomicU64::new(0));
    let barrier = Arc::new(Barrier::new(threads));
    let mut hs = Vec::new();
    for t in 0..threads {
        let (hot, inside, contended, changed, barrier) = (hot.clone(), inside.clone(), contended.clone(), changed.clone(), barrier.clone());
        hs.push(std::thread::spawn(move || {
            let mut r = Rng::new(seed ^ ((t as u64 + 7) * 0xABCD));
            let mut fails = Vec::new();
            let mut last_ptr = vec![0usize; nhot as usize];
            barrier.wait();
            for i in 0..iters {
                if r.chance(1, 2) {
                    // cold traffic: many distinct keys, lock taken and dropped at once (forces eviction)
                    let k = 1000 + r.below(5000);
                    let l = get_lock_instance(&hot, k);
                    let g = l.0.lock();
                    drop(g);
                } else {
                    let k = r.below(nhot);
                    let l = get_lock_instance(&hot, k);
                    let p = Arc::as_ptr(&l.0) as usize;
                    if last_ptr[k as usize] != 0 && last_ptr[k as usize] != p { changed.fetch_add(1, Ordering::Relaxed); }
                    last_ptr[k as usize] = p;
                    let g = match l.0.try_lock() {
                        Some(g) => g,
                        None => { contended.fetch_add(1, Ordering::Relaxed); l.0.lock() }
                    };
                    if inside[k as usize].swap(true, Ordering::SeqCst) {
                        fails.push(format!("iteration {i}: two holders of the lock of key {k} at once (lock instance was split)"));
                    }
                    // stay inside for a moment so that others queue up (keeps strong_count > 1)
                    for _ in 0..r.below(200) { std::hint::spin_loop(); }
                    if r.chance(1, 16) { std::thread::yield_now(); }
                    inside[k as usize].store(false, Ordering::SeqCst);
                    drop(g);
                }
                if fails.len() > 3 { break; }
            }
            fails
        }));
    }
    let mut fails = Vec::new();
    for h in hs {
        match h.join() {
            Ok(f) => fails.extend(f),
            Err(_) => fails.push("lock-table worker panicked".into()),
        }
    }
    ((threads * iters) as u64, contended.load(Ordering::Relaxed), changed.load(Ordering::Relaxed), fails)
}

fn js(s: &str) -> String {
    let mut o = String::from("\"");
    for c in s.chars() {
        match c {
            '"' => o.push_str("\\\""),
            '\\' => o.push_str("\\\\"),
            '\n' => o.push_str("\\n"),
            c if (c as u32) < 0x20 => o.push(' '),
            c => o.push(c),
        }
    }
    o.push('"');
    o
}
fn jl(xs: &[String]) -> String { format!("[{}]", xs.iter().map(|s| js(s)).collect::<Vec<_>>().join(",")) }

fn main() {
    let args: Vec<String> = std::env::args().collect();
    if std::env::var("QV_PANIC_TRACE").is_err() { std::panic::set_hook(Box::new(|_| {})); }
    if args.get(1).map(|s| s.as_str()) == Some("witness") {
        let (p, m, _, log) = witness_case(true);
        println!("{{\"panicked\":{p},\"message\":{},\"ops\":{}}}", js(&m), log.len());
        return;
    }
    let dir = &args[2];
    let seed: u64 = args[3].parse().unwrap();
    let ncases: usize = args[4].parse().unwrap();
    let shards: usize = args[5].parse().unwrap();
    let max_ops: usize = args[6].parse().unwrap();
    let mt_rounds: usize = args[7].parse().unwrap();
    let mt_ops: usize = args[8].parse().unwrap();
    std::fs::create_dir_all(dir).unwrap();
    let mut r = Rng::new(seed);
    let t0 = std::time::Instant::now();

    // 1. the witness decides the variant
    let (w_panicked, w_msg, _, _) = witness_case(true);
    let as_code = w_panicked;
    let (_, _, w_case, w_log) = witness_case(as_code);
    let mut out: Vec<Vec<String>> = vec![Vec::new(); shards];
    out[0].push(w_case);

    // 2./3. random single-threaded cases
    let mut st = Stats { max_excess: i64::MIN, ..Default::default() };
    let mut fails = Vec::new();
    let mut first_panic = None;
    for i in 0..ncases {
        let mut cr = r.fork();
        let c = one_case(&mut cr, max_ops, as_code, &mut st, &mut fails, &mut first_panic);
        out[(i + 1) % shards].push(c);
    }
    // capacity arithmetic (mirror of Policy::new in f64) against the model's integer version
    let mut ncaps = 0;
    for cap in (0..400usize).chain((0..60).map(|i| 400 + i * 997)) {
        let (w, p, m) = caps(cap);
        out[ncaps % shards].push(format!("Caps {cap} {w} {p} {m}"));
        ncaps += 1;
    }
    for (k, lines) in out.iter().enumerate() {
        std::fs::write(format!("{dir}/shard_{k}.txt"), lines.join("\n") + "\n").unwrap();
    }
    let t_single = t0.elapsed().as_secs_f64();

    // 4. multi-threaded
    let mut mt_fails = Vec::new();
    let (mut mt_total_ops, mut mt_pinned, mut mt_ev, mut mt_max_res, mut mt_runs) = (0u64, 0u64, 0u64, 0usize, 0u64);
    let mut mt_cfgs = Vec::new();
    for i in 0..mt_rounds {
        let cap = *r.pick(&[1usize, 2, 4, 7, 16, 33, 64, 100, 200, 300]);
        let poll = i % 2 == 0;
        let dedicated = (i / 2) % 2 == 1;
        let threads = *r.pick(&[2usize, 4, 8]);
        let res = mt_round(r.next(), cap, poll, dedicated, threads, mt_ops);
        mt_total_ops += res.ops;
        mt_pinned += res.pinned_checks;
        mt_ev += res.evictions;
        mt_max_res = mt_max_res.max(res.max_resident);
        mt_runs += 1;
        mt_cfgs.push(format!("cap={cap} poll={poll} dedicated={dedicated} threads={threads} resident_before_quiesce={} after={}", res.max_resident, res.final_resident));
        for f in res.fails.into_iter().take(3) {
            mt_fails.push(format!("cap={cap} poll={poll} dedicated={dedicated} threads={threads}: {f}"));
        }
    }
    // 5. lock table
    let mut lt_fails = Vec::new();
    let (mut lt_acq, mut lt_cont, mut lt_changed) = (0u64, 0u64, 0u64);
    for i in 0..mt_rounds.max(1) {
        let cap = [1usize, 2, 4, 8][i % 4];
        let (a, c, ch, f) = lock_table(r.next(), cap, 8, mt_ops);
        lt_acq += a;
        lt_cont += c;
        lt_changed += ch;
        for x in f.into_iter().take(3) { lt_fails.push(format!("cap={cap}: {x}")); }
    }
    let caps_hist: Vec<String> = st.cap_hist.iter().map(|(k, v)| format!("\"{k}\":{v}")).collect();
    println!(
        "{{\"as_code\":{as_code},\"witness_panicked\":{w_panicked},\"witness_message\":{},\"witness_ops\":{},\"cases\":{},\"ops\":{},\"kinds\":{{\"get\":{},\"peek\":{},\"insert\":{},\"setval\":{},\"setpin\":{},\"remove\":{},\"unpin\":{}}},\"evictions\":{},\"hits\":{},\"misses\":{},\"pinned_survival_probes\":{},\"caps\":{{{}}},\"poll\":{},\"notify\":{},\"quiesced\":{},\"max_excess_over_maxcap_plus_pinned\":{},\"random_panics\":{},\"first_panic\":{},\"distinct\":{},\"nontrivial\":{},\"caps_cases\":{},\"oracle_fail\":{},\"samples\":{},\"mt_runs\":{},\"mt_ops\":{},\"mt_pinned_checks\":{},\"mt_evictions\":{},\"mt_max_resident\":{},\"mt_cfgs\":{},\"mt_fail\":{},\"lock_acquisitions\":{},\"lock_contended\":{},\"lock_instance_changes\":{},\"lock_fail\":{},\"t_single_s\":{:.1},\"t_total_s\":{:.1}}}",
        js(&w_msg), w_log.len(), st.cases, st.ops,
        st.kinds[0], st.kinds[1], st.kinds[2], st.kinds[3], st.kinds[4], st.kinds[5], st.kinds[6],
        st.evictions, st.hits, st.misses, st.pinned_survived, caps_hist.join(","), st.poll, st.notify, st.quiesced,
        st.max_excess, st.panics, js(&first_panic.unwrap_or_default()), st.distinct.len(), st.nontrivial, ncaps,
        jl(&fails), jl(&st.samples), mt_runs, mt_total_ops, mt_pinned, mt_ev, mt_max_res, jl(&mt_cfgs), jl(&mt_fails),
        lt_acq, lt_cont, lt_changed, jl(&lt_fails), t_single, t0.elapsed().as_secs_f64()
    );
}
