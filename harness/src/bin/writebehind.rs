//! C10 correspondence: drive the real `WriteBehind` (crates/storage/src/write_manager/
//! write_behind.rs) over an in-memory `KvDatabase` that records every physical commit
//! (as the ordered list of serialization buffers it consumed, each an ordered list of
//! logical operations) and has a programmable `should_write_more`.
//!
//! One case = one `WriteBehind` instance: `n` logical batches are created (the creation
//! order is known because creation happens inside a harness lock), filled through the
//! real caches (`CacheSingleMap`, `CacheDynamicMap`, `CacheKeyOfSetMap`) by 1..8 threads
//! (a batch is created, filled and submitted by different threads), submitted in an order
//! that is a random permutation of creation order, serialized by 1..4 workers, and the
//! manager is dropped.  Then
//!   * the property oracle is judged on the real run (independent of the Coq model):
//!     every submitted batch is in the commit log exactly once, in creation order, at the
//!     moment `drop` returned; the final store equals applying the batches' calls one
//!     after another in creation order;
//!   * a Coq term `Run mode bs obs` is written for `WriteBehind/Check.v`, which compares
//!     the observed log with the model's prediction (grouping included).
//! A few `Gap` cases run in a child process: one batch is created but never submitted.
//!
//! usage: writebehind run <out_dir> <seed> <cases> <shards> [gap_cases]
//!        writebehind isolate <seed> <cases>            (every case in a child process; lists failing case seeds)
//!        writebehind one <case_seed> [repeat]          (replay one case, prints the verdict)
//!        writebehind gapchild <case_seed> <commit_file> (internal)
use std::{
    any::TypeId,
    collections::{BTreeMap, BTreeSet},
    io::Write as _,
    sync::{
        Arc, Condvar, Mutex,
        atomic::{AtomicU64, Ordering},
    },
    time::{Duration, Instant},
};

use dashmap::DashSet;
use qbice_serialize::{Decode, Encode, Plugin, postcard};
use qbice_stable_type_id::Identifiable;
use qbice_storage::{
    dynamic_map::{DynamicMap, cache::CacheDynamicMap},
    key_of_set_map::{KeyOfSetMap, cache::CacheKeyOfSetMap},
    kv_database::{
        DiscriminantEncoding, KeyOfSetColumn, KvDatabase, SerializationBuffer, WideColumn, WideColumnValue,
        WriteBatch,
    },
    single_map::{SingleMap, cache::CacheSingleMap},
    write_manager::write_behind::{self, WriteBehind},
};
use qv_harness::{coq_bytes, rng::Rng};

// ------------------------------------------------------------------ logical ops
#[derive(Clone, Debug, PartialEq, Eq, PartialOrd, Ord, Hash)]
enum Op {
    Put { col: u64, vty: u64, key: Vec<u8>, val: Vec<u8> },
    Del { col: u64, vty: u64, key: Vec<u8> },
    Ins { col: u64, key: Vec<u8>, elem: Vec<u8> },
    Rem { col: u64, key: Vec<u8>, elem: Vec<u8> },
}
#[derive(Clone, Debug, PartialEq, Eq, PartialOrd, Ord, Hash)]
enum Cell {
    W(u64, u64, Vec<u8>),
    M(u64, Vec<u8>, Vec<u8>),
}
impl Op {
    fn cell(&self) -> Cell {
        match self {
            Op::Put { col, vty, key, .. } | Op::Del { col, vty, key } => Cell::W(*col, *vty, key.clone()),
            Op::Ins { col, key, elem } | Op::Rem { col, key, elem } => Cell::M(*col, key.clone(), elem.clone()),
        }
    }
    fn coq(&self) -> String {
        match self {
            Op::Put { col, vty, key, val } => format!("Put {col} {vty} {} {}", coq_bytes(key), coq_bytes(val)),
            Op::Del { col, vty, key } => format!("Del {col} {vty} {}", coq_bytes(key)),
            Op::Ins { col, key, elem } => format!("InsM {col} {} {}", coq_bytes(key), coq_bytes(elem)),
            Op::Rem { col, key, elem } => format!("DelM {col} {} {}", coq_bytes(key), coq_bytes(elem)),
        }
    }
}
type Store = BTreeMap<Cell, Vec<u8>>;
fn apply(s: &mut Store, op: &Op) {
    match op {
        Op::Put { val, .. } => { s.insert(op.cell(), val.clone()); }
        Op::Ins { .. } => { s.insert(op.cell(), Vec::new()); }
        Op::Del { .. } | Op::Rem { .. } => { s.remove(&op.cell()); }
    }
}
fn coq_batch(b: &[Op]) -> String { format!("[{}]", b.iter().map(Op::coq).collect::<Vec<_>>().join("; ")) }
fn coq_group(g: &[Vec<Op>]) -> String { format!("[{}]", g.iter().map(|b| coq_batch(b)).collect::<Vec<_>>().join("; ")) }

// ------------------------------------------------------------------ in-memory store
#[derive(Clone, Copy, Debug)]
enum Mode { Never, Ops(u64), Batches(u64), Hash(u64) }
impl Mode {
    fn more(self, nb: u64, nops: u64) -> bool {
        match self {
            Mode::Never => false,
            Mode::Ops(k) => nops < k,
            Mode::Batches(k) => nb < k,
            Mode::Hash(seed) => (nb * 31 + nops * 17 + seed) % 5 < 3,
        }
    }
    fn coq(self) -> String {
        match self {
            Mode::Never => "MNever".into(),
            Mode::Ops(k) => format!("(MOps {k})"),
            Mode::Batches(k) => format!("(MBatches {k})"),
            Mode::Hash(s) => format!("(MHash {s})"),
        }
    }
    fn name(self) -> &'static str {
        match self { Mode::Never => "never", Mode::Ops(_) => "ops", Mode::Batches(_) => "batches", Mode::Hash(_) => "hash" }
    }
}

struct Shared {
    store: Mutex<Store>,
    /// physical commits in the order applied; each = the buffers consumed, in order
    log: Mutex<Vec<Vec<Vec<Op>>>>,
    /// direct (non-buffer) writes on a physical batch would land here; must stay 0
    direct_ops: AtomicU64,
    /// per consumed buffer: the global stamp of its last serialized op (serializer finish order)
    finish_stamps: Mutex<Vec<u64>>,
    stamp: AtomicU64,
    mode: Mode,
    commit_delay_us: u64,
    ser_jitter: u64,
    commit_file: Option<Mutex<std::fs::File>>,
    plugin: Plugin,
}
#[derive(Clone)]
struct MemDb(Arc<Shared>);

fn col_num<T: 'static>() -> u64 {
    let t = TypeId::of::<T>();
    if t == TypeId::of::<W0>() { 0 } else if t == TypeId::of::<W1>() { 1 } else if t == TypeId::of::<W2>() { 2 }
    else if t == TypeId::of::<S0>() { 10 } else if t == TypeId::of::<S1>() { 11 } else if t == TypeId::of::<WM>() { 20 }
    else { panic!("unknown column") }
}
fn enc<T: Encode>(v: &T, p: &Plugin) -> Vec<u8> { postcard::encode(v, p).expect("encode") }

struct Buf { ops: Vec<Op>, db: MemDb, last_stamp: u64 }
impl Buf {
    fn push(&mut self, op: Op) {
        let sh = &self.db.0;
        let s = sh.stamp.fetch_add(1, Ordering::SeqCst);
        self.last_stamp = s;
        if sh.ser_jitter > 0 {
            // data-dependent delay so that serializers finish out of order
            let h = s.wrapping_mul(0x9E37_79B9_7F4A_7C15) >> 40;
            match h % 5 {
                0 => std::thread::yield_now(),
                1 => std::thread::sleep(Duration::from_micros(h % sh.ser_jitter + 1)),
                _ => {}
            }
        }
        self.ops.push(op);
    }
    fn vty<W: WideColumn, C: WideColumnValue<W>>(&self) -> u64 {
        enc(&C::discriminant(), &self.db.0.plugin).first().copied().unwrap_or(0) as u64
    }
}
impl SerializationBuffer for Buf {
    fn put<W: WideColumn, C: WideColumnValue<W>>(&mut self, key: &W::Key, value: &C) {
        let p = &self.db.0.plugin;
        let op = Op::Put { col: col_num::<W>(), vty: self.vty::<W, C>(), key: enc(key, p), val: enc(value, p) };
        self.push(op);
    }
    fn delete<W: WideColumn, C: WideColumnValue<W>>(&mut self, key: &W::Key) {
        let op = Op::Del { col: col_num::<W>(), vty: self.vty::<W, C>(), key: enc(key, &self.db.0.plugin) };
        self.push(op);
    }
    fn insert_member<C: KeyOfSetColumn>(&mut self, key: &C::Key, value: &C::Element) {
        let p = &self.db.0.plugin;
        let op = Op::Ins { col: col_num::<C>(), key: enc(key, p), elem: enc(value, p) };
        self.push(op);
    }
    fn delete_member<C: KeyOfSetColumn>(&mut self, key: &C::Key, value: &C::Element) {
        let p = &self.db.0.plugin;
        let op = Op::Rem { col: col_num::<C>(), key: enc(key, p), elem: enc(value, p) };
        self.push(op);
    }
}

struct Phys { db: MemDb, bufs: Vec<Vec<Op>>, stamps: Vec<u64>, nops: u64 }
impl WriteBatch for Phys {
    type SerializationBuffer = Buf;
    fn put<W: WideColumn, C: WideColumnValue<W>>(&mut self, _: &W::Key, _: &C) { self.db.0.direct_ops.fetch_add(1, Ordering::SeqCst); }
    fn delete<W: WideColumn, C: WideColumnValue<W>>(&mut self, _: &W::Key) { self.db.0.direct_ops.fetch_add(1, Ordering::SeqCst); }
    fn insert_member<C: KeyOfSetColumn>(&mut self, _: &C::Key, _: &C::Element) { self.db.0.direct_ops.fetch_add(1, Ordering::SeqCst); }
    fn delete_member<C: KeyOfSetColumn>(&mut self, _: &C::Key, _: &C::Element) { self.db.0.direct_ops.fetch_add(1, Ordering::SeqCst); }
    fn consume_serialization_buffer(&mut self, b: Buf) {
        self.nops += b.ops.len() as u64;
        self.stamps.push(if b.ops.is_empty() { u64::MAX } else { b.last_stamp });
        self.bufs.push(b.ops);
    }
    fn commit(self) {
        let sh = &self.db.0;
        if sh.commit_delay_us > 0 { std::thread::sleep(Duration::from_micros(sh.commit_delay_us)); }
        {
            // one physical commit is atomic: applied under the store lock
            let mut store = sh.store.lock().unwrap();
            for b in &self.bufs { for op in b { apply(&mut store, op); } }
            if let Some(f) = &sh.commit_file {
                let mut f = f.lock().unwrap();
                writeln!(f, "{}", coq_group(&self.bufs)).unwrap();
                f.flush().unwrap();
            }
            sh.log.lock().unwrap().push(self.bufs);
        }
        sh.finish_stamps.lock().unwrap().extend(self.stamps);
    }
    fn should_write_more(&self) -> bool { self.db.0.mode.more(self.bufs.len() as u64, self.nops) }
}
impl KvDatabase for MemDb {
    type WriteBatch = Phys;
    type SerializationBuffer = Buf;
    type ScanMemberIterator<C: KeyOfSetColumn> = std::vec::IntoIter<C::Element>;
    fn get_wide_column<W: WideColumn, C: WideColumnValue<W>>(&self, key: &W::Key) -> Option<C> {
        let p = &self.0.plugin;
        let vty = enc(&C::discriminant(), p).first().copied().unwrap_or(0) as u64;
        let bytes = self.0.store.lock().unwrap().get(&Cell::W(col_num::<W>(), vty, enc(key, p))).cloned()?;
        Some(postcard::decode::<C>(&bytes, p).expect("decode"))
    }
    fn scan_members<C: KeyOfSetColumn>(&self, key: &C::Key) -> Self::ScanMemberIterator<C> {
        let p = &self.0.plugin;
        let (c, k) = (col_num::<C>(), enc(key, p));
        let v: Vec<C::Element> = self.0.store.lock().unwrap().keys().filter_map(|cell| match cell {
            Cell::M(c2, k2, e) if *c2 == c && *k2 == k => Some(postcard::decode::<C::Element>(e, p).expect("decode")),
            _ => None,
        }).collect();
        v.into_iter()
    }
    fn write_batch(&self) -> Phys { Phys { db: self.clone(), bufs: Vec::new(), stamps: Vec::new(), nops: 0 } }
    fn serialization_buffer(&self) -> Buf { Buf { ops: Vec::new(), db: self.clone(), last_stamp: 0 } }
}

// ------------------------------------------------------------------ columns
macro_rules! ident {
    ($($n:ident),*) => { $(
        #[derive(Debug, Clone, Copy, PartialEq, Eq, Hash, Identifiable)]
        #[stable_type_id_crate(qbice_stable_type_id)]
        pub struct $n;
    )* };
}
ident!(W0, W1, W2, S0, S1, WM);
impl WideColumn for W0 { type Discriminant = u8; type Key = Vec<u8>; fn discriminant_encoding() -> DiscriminantEncoding { DiscriminantEncoding::Prefixed } }
impl WideColumn for W1 { type Discriminant = u8; type Key = Vec<u8>; fn discriminant_encoding() -> DiscriminantEncoding { DiscriminantEncoding::Suffixed } }
impl WideColumn for W2 { type Discriminant = u8; type Key = Vec<u8>; fn discriminant_encoding() -> DiscriminantEncoding { DiscriminantEncoding::Prefixed } }
impl WideColumn for WM { type Discriminant = u8; type Key = (); fn discriminant_encoding() -> DiscriminantEncoding { DiscriminantEncoding::Prefixed } }
impl KeyOfSetColumn for S0 { type Key = Vec<u8>; type Element = Vec<u8>; }
impl KeyOfSetColumn for S1 { type Key = Vec<u8>; type Element = Vec<u8>; }

#[derive(Debug, Clone, PartialEq, Eq, Hash, Encode, Decode)]
#[serialize_crate(qbice_serialize)]
pub struct V0(Vec<u8>);
#[derive(Debug, Clone, PartialEq, Eq, Hash, Encode, Decode)]
#[serialize_crate(qbice_serialize)]
pub struct V1(Vec<u8>);
#[derive(Debug, Clone, PartialEq, Eq, Hash, Encode, Decode)]
#[serialize_crate(qbice_serialize)]
pub struct Marker(u64);
impl WideColumnValue<W0> for V0 { fn discriminant() -> u8 { 0 } }
impl WideColumnValue<W0> for V1 { fn discriminant() -> u8 { 1 } }
impl WideColumnValue<W1> for V0 { fn discriminant() -> u8 { 0 } }
impl WideColumnValue<W1> for V1 { fn discriminant() -> u8 { 1 } }
impl WideColumnValue<W2> for V0 { fn discriminant() -> u8 { 0 } }
impl WideColumnValue<W2> for V1 { fn discriminant() -> u8 { 1 } }
impl WideColumnValue<WM> for Marker { fn discriminant() -> u8 { 0 } }

type DSet = Arc<DashSet<Vec<u8>, fxhash::FxBuildHasher>>;
struct Caches {
    w0v0: CacheSingleMap<W0, V0, MemDb>,
    w0v1: CacheSingleMap<W0, V1, MemDb>,
    w1v0: CacheSingleMap<W1, V0, MemDb>,
    w1v1: CacheSingleMap<W1, V1, MemDb>,
    w2: CacheDynamicMap<W2, MemDb>,
    s0: CacheKeyOfSetMap<S0, DSet, MemDb>,
    s1: CacheKeyOfSetMap<S1, DSet, MemDb>,
    mark: CacheSingleMap<WM, Marker, MemDb>,
}
impl Caches {
    fn new(db: &MemDb) -> Self {
        let cap = 1 << 20; // far from the admission policy's eviction paths (those belong to C16)
        Caches {
            w0v0: CacheSingleMap::new(cap, db.clone()), w0v1: CacheSingleMap::new(cap, db.clone()),
            w1v0: CacheSingleMap::new(cap, db.clone()), w1v1: CacheSingleMap::new(cap, db.clone()),
            w2: CacheDynamicMap::new(cap, db.clone()),
            s0: CacheKeyOfSetMap::new(cap, db.clone()), s1: CacheKeyOfSetMap::new(cap, db.clone()),
            mark: CacheSingleMap::new(cap, db.clone()),
        }
    }
}

/// a call the harness makes on a batch (before encoding): what the user asked for
#[derive(Clone, Debug)]
enum Call {
    Put(u64, u64, Vec<u8>, Vec<u8>),
    Del(u64, u64, Vec<u8>),
    Ins(u64, Vec<u8>, Vec<u8>),
    Rem(u64, Vec<u8>, Vec<u8>),
    Mark(u64),
}
impl Call {
    /// the logical operation this call amounts to (keys/values in their encoded form)
    fn op(&self, p: &Plugin) -> Op {
        match self {
            Call::Put(c, v, k, x) => Op::Put { col: *c, vty: *v, key: enc(k, p), val: enc(x, p) },
            Call::Del(c, v, k) => Op::Del { col: *c, vty: *v, key: enc(k, p) },
            Call::Ins(c, k, e) => Op::Ins { col: 10 + *c, key: enc(k, p), elem: enc(e, p) },
            Call::Rem(c, k, e) => Op::Rem { col: 10 + *c, key: enc(k, p), elem: enc(e, p) },
            Call::Mark(i) => Op::Put { col: 20, vty: 0, key: Vec::new(), val: enc(i, p) },
        }
    }
}
fn block<F: std::future::Future>(f: F) -> F::Output { futures::executor::block_on(f) }
fn do_call(c: &Caches, b: &mut write_behind::WriteBatch<MemDb>, call: &Call) {
    match call.clone() {
        Call::Put(0, 0, k, x) => block(c.w0v0.insert(k, V0(x), b)),
        Call::Put(0, _, k, x) => block(c.w0v1.insert(k, V1(x), b)),
        Call::Put(1, 0, k, x) => block(c.w1v0.insert(k, V0(x), b)),
        Call::Put(1, _, k, x) => block(c.w1v1.insert(k, V1(x), b)),
        Call::Put(_, 0, k, x) => block(c.w2.insert(k, V0(x), b)),
        Call::Put(_, _, k, x) => block(c.w2.insert(k, V1(x), b)),
        Call::Del(0, 0, k) => block(c.w0v0.remove(&k, b)),
        Call::Del(0, _, k) => block(c.w0v1.remove(&k, b)),
        Call::Del(1, 0, k) => block(c.w1v0.remove(&k, b)),
        Call::Del(1, _, k) => block(c.w1v1.remove(&k, b)),
        Call::Del(_, 0, k) => block(DynamicMap::remove::<V0>(&c.w2, &k, b)),
        Call::Del(_, _, k) => block(DynamicMap::remove::<V1>(&c.w2, &k, b)),
        Call::Ins(0, k, e) => block(c.s0.insert(k, e, b)),
        Call::Ins(_, k, e) => block(c.s1.insert(k, e, b)),
        Call::Rem(0, k, e) => block(c.s0.remove(&k, &e, b)),
        Call::Rem(_, k, e) => block(c.s1.remove(&k, &e, b)),
        Call::Mark(i) => block(c.mark.insert((), Marker(i), b)),
    }
}

// ------------------------------------------------------------------ case plan
#[derive(Clone, Debug)]
enum Act { Create(usize), Fill(usize, usize), Submit(usize) }
struct Plan {
    n: usize,
    threads: usize,
    workers: usize,
    mode: Mode,
    sequenced: bool,
    commit_delay_us: u64,
    ser_jitter: u64,
    /// per batch: chunks of calls
    chunks: Vec<Vec<Vec<Call>>>,
    /// global script: (thread, action); per-batch order Create < Fill.. < Submit, creation in index order
    script: Vec<(usize, Act)>,
    missing: Option<usize>,
}
const KEYS: &[&[u8]] = &[&[], &[1], &[1, 2], &[1, 2, 3], &[2], &[255], &[255, 255], &[0]];
fn gen_bytes(r: &mut Rng) -> Vec<u8> {
    if r.chance(3, 4) { r.pick(KEYS).to_vec() } else { (0..r.range(0, 4)).map(|_| *r.pick(&[0u8, 1, 2, 127, 128, 255])).collect() }
}
fn gen_plan(case_seed: u64, gap: bool) -> Plan {
    let mut r = Rng::new(case_seed);
    let n = if gap { r.range(2, 8) } else if r.chance(1, 10) { r.range(1, 2) } else { r.range(3, 24) } as usize;
    let threads = r.range(1, 8) as usize;
    let workers = r.range(1, 4) as usize;
    let mode = match r.below(5) {
        0 => Mode::Never,
        1 => Mode::Ops(r.range(1, 20)),
        2 => Mode::Batches(r.range(1, 6)),
        3 => Mode::Batches(1000), // the store always wants more: one commit at shutdown only
        _ => Mode::Hash(r.below(1000)),
    };
    let mut chunks = Vec::new();
    for i in 0..n {
        let mut calls = Vec::new();
        if !r.chance(1, 10) {
            calls.push(Call::Mark(i as u64));
            for _ in 0..r.range(0, 6) {
                let c = match r.below(8) {
                    0 | 1 | 2 => Call::Put(r.below(3), r.below(2), gen_bytes(&mut r), gen_bytes(&mut r)),
                    3 => Call::Del(r.below(3), r.below(2), gen_bytes(&mut r)),
                    4 | 5 => Call::Ins(r.below(2), gen_bytes(&mut r), gen_bytes(&mut r)),
                    6 => Call::Rem(r.below(2), gen_bytes(&mut r), gen_bytes(&mut r)),
                    _ => Call::Put(0, 0, Vec::new(), gen_bytes(&mut r)), // the hottest cell
                };
                calls.push(c);
            }
            // the marker is written at a random position among the calls
            let j = r.below(calls.len() as u64) as usize;
            calls.swap(0, j);
        }
        let k = r.range(1, 3) as usize;
        let mut cs: Vec<Vec<Call>> = vec![Vec::new(); k];
        let len = calls.len().max(1);
        for (j, c) in calls.into_iter().enumerate() { cs[(j * k / len).min(k - 1)].push(c); }
        chunks.push(cs);
    }
    let missing = if gap { Some(r.below(n as u64) as usize) } else { None };
    // script: a random linearization; `window` open batches at a time
    let window = match r.below(4) { 0 => 1, 1 => n, _ => r.range(2, 6) as usize };
    let reverse = r.chance(1, 5);
    let mut script = Vec::new();
    let mut next_create = 0usize;
    let mut open: Vec<(usize, usize)> = Vec::new(); // (batch, chunks filled)
    let th = |r: &mut Rng| r.below(threads as u64) as usize;
    while next_create < n || !open.is_empty() {
        let can_create = next_create < n && open.len() < window;
        if can_create && (open.is_empty() || (reverse && next_create < n) || r.chance(1, 2)) {
            script.push((th(&mut r), Act::Create(next_create)));
            open.push((next_create, 0));
            next_create += 1;
            continue;
        }
        let j = if reverse { open.len() - 1 } else { r.below(open.len() as u64) as usize };
        let (b, filled) = open[j];
        if filled < chunks[b].len() {
            script.push((th(&mut r), Act::Fill(b, filled)));
            open[j].1 += 1;
        } else {
            if Some(b) != missing { script.push((th(&mut r), Act::Submit(b))); }
            open.remove(j);
        }
    }
    Plan {
        n, threads, workers, mode, sequenced: r.chance(1, 2),
        commit_delay_us: *r.pick(&[0, 0, 20, 100, 400]), ser_jitter: *r.pick(&[0, 30, 200]),
        chunks, script, missing,
    }
}

// ------------------------------------------------------------------ execution
struct Slots {
    batches: Vec<Option<write_behind::WriteBatch<MemDb>>>,
    done: usize, // number of script actions completed (sequenced mode) / per-dependency state (free mode)
    created: usize,
    filled: Vec<usize>,
}
struct Outcome {
    log: Vec<Vec<Vec<Op>>>,
    store: Store,
    drop_wait: Duration,
    commits_at_drop: usize,
    commits_later: usize,
    direct_ops: u64,
    finish_inversions: u64,
}
fn execute(plan: &Plan, commit_file: Option<std::fs::File>) -> Outcome {
    let db = MemDb(Arc::new(Shared {
        store: Mutex::new(Store::new()), log: Mutex::new(Vec::new()), direct_ops: AtomicU64::new(0),
        finish_stamps: Mutex::new(Vec::new()), stamp: AtomicU64::new(0), mode: plan.mode,
        commit_delay_us: plan.commit_delay_us, ser_jitter: plan.ser_jitter,
        commit_file: commit_file.map(Mutex::new), plugin: Plugin::default(),
    }));
    let wb = Arc::new(WriteBehind::new(&db, plan.workers));
    let caches = Arc::new(Caches::new(&db));
    let slots = Arc::new((Mutex::new(Slots { batches: (0..plan.n).map(|_| None).collect(), done: 0, created: 0, filled: vec![0; plan.n] }), Condvar::new()));
    let mut handles = Vec::new();
    for t in 0..plan.threads {
        let mine: Vec<(usize, Act)> = plan.script.iter().enumerate().filter(|(_, (tt, _))| *tt == t).map(|(i, (_, a))| (i, a.clone())).collect();
        let (wb, caches, slots) = (wb.clone(), caches.clone(), slots.clone());
        let chunks = plan.chunks.clone();
        let sequenced = plan.sequenced;
        handles.push(std::thread::Builder::new().name(format!("submit_{t}")).spawn(move || {
            let (m, cv) = &*slots;
            for (idx, act) in mine {
                let mut g = m.lock().unwrap();
                // wait for the action's dependencies (sequenced: every earlier script action)
                loop {
                    let ready = if sequenced { g.done == idx } else {
                        match act {
                            Act::Create(i) => g.created == i,
                            Act::Fill(i, c) => g.batches[i].is_some() && g.filled[i] == c,
                            Act::Submit(i) => g.batches[i].is_some() && g.filled[i] == chunks[i].len(),
                        }
                    };
                    if ready { break; }
                    g = cv.wait(g).unwrap();
                }
                match act {
                    Act::Create(i) => {
                        // creation inside the lock: the epoch of this batch is `i`
                        let b = wb.new_write_batch();
                        g.batches[i] = Some(b);
                        g.created += 1;
                    }
                    Act::Fill(i, c) => {
                        let mut b = g.batches[i].take().unwrap();
                        // (sequenced mode: nobody else is ready until `done` advances)
                        drop(g);
                        for call in &chunks[i][c] { do_call(&caches, &mut b, call); }
                        g = m.lock().unwrap();
                        g.batches[i] = Some(b);
                        g.filled[i] += 1;
                    }
                    Act::Submit(i) => {
                        let b = g.batches[i].take().unwrap();
                        g.filled[i] = usize::MAX;
                        drop(g);
                        if !sequenced { std::thread::yield_now(); }
                        wb.submit_write_batch(b);
                        g = m.lock().unwrap();
                    }
                }
                g.done += 1;
                cv.notify_all();
                drop(g);
            }
        }).unwrap());
    }
    for h in handles { h.join().expect("submitting thread panicked"); }
    if let Some(g) = plan.missing {
        // created, filled, never submitted; forget it (dropping an active batch panics by design)
        let b = slots.0.lock().unwrap().batches[g].take().unwrap();
        std::mem::forget(b);
    }
    drop(caches);
    let wb = Arc::try_unwrap(wb).ok().expect("sole owner");
    let t0 = Instant::now();
    drop(wb);
    let drop_wait = t0.elapsed();
    let log = db.0.log.lock().unwrap().clone();
    let commits_at_drop = log.len();
    std::thread::sleep(Duration::from_millis(2));
    let commits_later = db.0.log.lock().unwrap().len();
    let store = db.0.store.lock().unwrap().clone();
    let stamps = db.0.finish_stamps.lock().unwrap().clone();
    let real: Vec<u64> = stamps.into_iter().filter(|s| *s != u64::MAX).collect();
    let finish_inversions = real.windows(2).filter(|w| w[0] > w[1]).count() as u64;
    Outcome { log, store, drop_wait, commits_at_drop, commits_later, direct_ops: db.0.direct_ops.load(Ordering::SeqCst), finish_inversions }
}

/// what batch `i` must contain: the last call per cell, in first-touch order
fn intended(plan: &Plan, p: &Plugin) -> Vec<Vec<Op>> {
    plan.chunks.iter().map(|cs| {
        let mut out: Vec<Op> = Vec::new();
        for call in cs.iter().flatten() {
            let op = call.op(p);
            if let Some(j) = out.iter().position(|o| o.cell() == op.cell()) { out[j] = op; } else { out.push(op); }
        }
        out
    }).collect()
}

/// the property's own oracle, judged on the real run; returns the list of failures
fn judge(plan: &Plan, out: &Outcome, p: &Plugin) -> Vec<String> {
    let mut bad = Vec::new();
    let want = intended(plan, p);
    let flat: Vec<&Vec<Op>> = out.log.iter().flatten().collect();
    if flat.len() != plan.n {
        bad.push(format!("{} logical batches in the commit log at drop, {} submitted", flat.len(), plan.n));
    }
    // exactly once + creation order: position i of the flattened log holds batch i
    for (i, b) in flat.iter().enumerate() {
        let Some(w) = want.get(i) else { break };
        let (a, c): (BTreeSet<&Op>, BTreeSet<&Op>) = (b.iter().collect(), w.iter().collect());
        if a != c || b.len() != w.len() {
            bad.push(format!("position {i} of the commit log is not batch {i}: got {} want {}", coq_batch(b), coq_batch(w)));
            break;
        }
    }
    // markers: each exactly once
    let mut seen = BTreeMap::new();
    for b in &flat { for op in b.iter() { if let Op::Put { col: 20, val, .. } = op { *seen.entry(val.clone()).or_insert(0u32) += 1; } } }
    if seen.values().any(|c| *c != 1) { bad.push("a batch marker was committed more than once".into()); }
    // final content = the calls applied one after another in creation order
    let mut reference = Store::new();
    for cs in &plan.chunks { for call in cs.iter().flatten() { apply(&mut reference, &call.op(p)); } }
    if reference != out.store {
        let diff: Vec<_> = reference.iter().filter(|(k, v)| out.store.get(*k) != Some(*v)).map(|(k, _)| format!("{k:?}")).chain(
            out.store.iter().filter(|(k, _)| !reference.contains_key(*k)).map(|(k, _)| format!("extra {k:?}"))).take(4).collect();
        bad.push(format!("final store differs from sequential application at {}", diff.join(", ")));
    }
    if out.commits_later != out.commits_at_drop { bad.push("a commit happened after drop returned".into()); }
    if out.direct_ops != 0 { bad.push("the pipeline wrote to the physical batch directly".into()); }
    bad
}

fn perm_inversions(plan: &Plan) -> u64 {
    let order: Vec<usize> = plan.script.iter().filter_map(|(_, a)| if let Act::Submit(i) = a { Some(*i) } else { None }).collect();
    let mut inv = 0;
    for i in 0..order.len() { for j in i + 1..order.len() { if order[i] > order[j] { inv += 1; } } }
    inv
}

fn run_case(case_seed: u64) -> (Plan, Outcome, Vec<String>) {
    let plan = gen_plan(case_seed, false);
    let out = execute(&plan, None);
    let bad = judge(&plan, &out, &Plugin::default());
    (plan, out, bad)
}

fn main() {
    let args: Vec<String> = std::env::args().collect();
    match args[1].as_str() {
        "gapchild" => {
            let plan = gen_plan(args[2].parse().unwrap(), true);
            let f = std::fs::File::create(&args[3]).unwrap();
            let _ = execute(&plan, Some(f));
            println!("DROP-RETURNED");
        }
        "one" => {
            let seed: u64 = args[2].parse().unwrap();
            let rep: u64 = args.get(3).map(|s| s.parse().unwrap()).unwrap_or(1);
            let mut fails = 0;
            for _ in 0..rep {
                let (plan, out, bad) = run_case(seed);
                if !bad.is_empty() { fails += 1; }
                println!("case {seed}: n={} threads={} workers={} mode={:?} sequenced={} commits={} -> {}", plan.n, plan.threads, plan.workers, plan.mode, plan.sequenced, out.log.len(), if bad.is_empty() { "ok".to_string() } else { bad.join(" | ") });
            }
            std::process::exit(if fails > 0 { 1 } else { 0 });
        }
        "isolate" => {
            // every case in a child process (used when an in-process run died): reports the first failing case seeds
            let seed: u64 = args[2].parse().unwrap();
            let cases: u64 = args[3].parse().unwrap();
            let mut r = Rng::new(seed);
            let mut fails: Vec<String> = Vec::new();
            for _ in 0..cases {
                let cs = r.next() >> 1;
                let st = std::process::Command::new(std::env::current_exe().unwrap()).args(["one", &cs.to_string()])
                    .env("RUST_BACKTRACE", "0").output().unwrap();
                if !st.status.success() && fails.len() < 5 {
                    let out = String::from_utf8_lossy(&st.stdout).to_string() + &String::from_utf8_lossy(&st.stderr);
                    let short: String = out.lines().filter(|l| !l.trim().is_empty()).take(6).collect::<Vec<_>>().join(" / ");
                    fails.push(format!("case_seed={cs}: exit={:?} {}", st.status.code(), short.chars().take(900).collect::<String>()));
                }
            }
            println!("{{\"cases\":{cases},\"rust_fail\":{:?}}}", fails);
        }
        "run" => {
            let dir = &args[2];
            let seed: u64 = args[3].parse().unwrap();
            let cases: u64 = args[4].parse().unwrap();
            let shards: usize = args[5].parse().unwrap();
            let gaps: u64 = args.get(6).map(|s| s.parse().unwrap()).unwrap_or(0);
            std::fs::create_dir_all(dir).unwrap();
            let p = Plugin::default();
            let mut lines: Vec<Vec<String>> = vec![Vec::new(); shards];
            let mut r = Rng::new(seed);
            let mut fails: Vec<String> = Vec::new();
            let (mut batches, mut ops, mut empty_batches, mut commits, mut multi, mut final_empty) = (0u64, 0u64, 0u64, 0u64, 0u64, 0u64);
            let (mut ooo_cases, mut ooo_inv, mut fin_cases, mut fin_inv) = (0u64, 0u64, 0u64, 0u64);
            let mut by_threads = [0u64; 9];
            let mut by_workers = [0u64; 5];
            let mut by_mode: BTreeMap<&'static str, u64> = BTreeMap::new();
            let (mut sequenced, mut overlap_cells, mut max_drop_us, mut max_group) = (0u64, 0u64, 0u128, 0u64);
            let mut case_seeds = Vec::new();
            for i in 0..cases {
                let cs = r.next() >> 1;
                case_seeds.push(cs);
                let (plan, out, bad) = run_case(cs);
                for b in bad { if fails.len() < 8 { fails.push(format!("case_seed={cs}: {b}")); } }
                let want = intended(&plan, &p);
                batches += plan.n as u64;
                ops += want.iter().map(|b| b.len() as u64).sum::<u64>();
                empty_batches += want.iter().filter(|b| b.is_empty()).count() as u64;
                commits += out.log.len() as u64;
                multi += out.log.iter().filter(|g| g.len() > 1).count() as u64;
                max_group = max_group.max(out.log.iter().map(|g| g.len() as u64).max().unwrap_or(0));
                if out.log.last().map(|g| g.is_empty()).unwrap_or(false) { final_empty += 1; }
                let inv = perm_inversions(&plan);
                if inv > 0 { ooo_cases += 1; ooo_inv += inv; }
                if out.finish_inversions > 0 { fin_cases += 1; fin_inv += out.finish_inversions; }
                by_threads[plan.threads] += 1;
                by_workers[plan.workers] += 1;
                *by_mode.entry(plan.mode.name()).or_insert(0) += 1;
                if plan.sequenced { sequenced += 1; }
                max_drop_us = max_drop_us.max(out.drop_wait.as_micros());
                // cells written by more than one batch
                let mut touched: BTreeMap<Cell, u32> = BTreeMap::new();
                for b in &want { for o in b { *touched.entry(o.cell()).or_insert(0) += 1; } }
                overlap_cells += touched.values().filter(|c| **c > 1).count() as u64;
                let bs = format!("[{}]", want.iter().map(|b| coq_batch(b)).collect::<Vec<_>>().join("; "));
                let obs = format!("[{}]", out.log.iter().map(|g| coq_group(g)).collect::<Vec<_>>().join("; "));
                lines[(i as usize) % shards].push(format!("Run {} {bs} {obs}", plan.mode.coq()));
            }
            // gap cases: a child process per case (the committer's final assertion aborts the process)
            let mut gap_aborted = 0u64;
            let mut gap_desc = Vec::new();
            for gi in 0..gaps {
                let cs = r.next() >> 1;
                let plan = gen_plan(cs, true);
                let file = format!("{dir}/gap_{gi}.commits");
                let st = std::process::Command::new(std::env::current_exe().unwrap())
                    .args(["gapchild", &cs.to_string(), &file]).env("RUST_BACKTRACE", "0")
                    .stdout(std::process::Stdio::piped()).stderr(std::process::Stdio::piped()).output().unwrap();
                let returned = String::from_utf8_lossy(&st.stdout).contains("DROP-RETURNED");
                let err = String::from_utf8_lossy(&st.stderr).to_string();
                let asserted = err.contains("holdback_queues.is_empty()");
                if asserted { gap_aborted += 1; }
                let obs_lines: Vec<String> = std::fs::read_to_string(&file).unwrap_or_default().lines().map(|s| s.to_string()).collect();
                let want = intended(&plan, &p);
                let bs = format!("[{}]", want.iter().map(|b| coq_batch(b)).collect::<Vec<_>>().join("; "));
                let g = plan.missing.unwrap();
                gap_desc.push(format!("n={} missing={} commits={} assertion_fired={} drop_returned={} exit={:?}", plan.n, g, obs_lines.len(), asserted, returned, st.status.code()));
                lines[(gi as usize) % shards].push(format!("Gap {} {bs} {g} [{}] {}", plan.mode.coq(), obs_lines.join("; "), asserted));
                let _ = std::fs::remove_file(&file);
            }
            for (k, l) in lines.iter().enumerate() {
                std::fs::write(format!("{dir}/shard_{k}.txt"), l.join("\n") + "\n").unwrap();
            }
            std::fs::write(format!("{dir}/case_seeds.txt"), case_seeds.iter().map(|s| s.to_string()).collect::<Vec<_>>().join("\n")).unwrap();
            let js = |v: &[u64]| format!("[{}]", v.iter().map(|x| x.to_string()).collect::<Vec<_>>().join(","));
            println!(
                "{{\"cases\":{cases},\"gap_cases\":{gaps},\"gap_assertion_fired\":{gap_aborted},\"gap_runs\":{:?},\"batches\":{batches},\"ops\":{ops},\"empty_batches\":{empty_batches},\"physical_commits\":{commits},\"commits_with_several_batches\":{multi},\"largest_group\":{max_group},\"final_commit_empty\":{final_empty},\"cases_submitted_out_of_creation_order\":{ooo_cases},\"submission_inversions\":{ooo_inv},\"cases_serializers_finished_out_of_order\":{fin_cases},\"serializer_finish_inversions\":{fin_inv},\"by_submit_threads_1_8\":{},\"by_workers_1_4\":{},\"by_mode\":{:?},\"sequenced_cases\":{sequenced},\"cells_written_by_several_batches\":{overlap_cells},\"max_drop_wait_us\":{max_drop_us},\"rust_fail\":{:?}}}",
                gap_desc, js(&by_threads[1..]), js(&by_workers[1..]), by_mode, fails
            );
        }
        _ => panic!("usage"),
    }
}
