//! C14 correspondence and oracle: stable type ids and query ids of the real code.
//!
//! The universe of TypeId/Universe.v is instantiated here as concrete Rust types by
//! *generic visitors* (`Gen`/`Fam1`/`Fam2`/`Fam3` below mirror `a1`/`a2`/`a3` of the Coq
//! file, in the same enumeration order).  For every type the real
//! `<T as Identifiable>::STABLE_TYPE_ID` constant is printed next to the Coq term that
//! describes the type; `TypeId/Check.v` recomputes the id with the model (`id_of`) and
//! checks that the term is a member of the Coq universe.
//!
//! Independently of the model the harness judges the property's own oracle on the real
//! ids: pairwise distinct; instantiations that differ only in argument order / nesting
//! (same multiset of names and lengths) distinct; query ids of distinct (type, key)
//! distinct; no engine-visible aliasing between query types.  Stability across
//! processes is judged by the check (the binary is run twice, outputs compared).
//!
//! usage: typeid <out_dir> <shards> <seed>
//! writes <out_dir>/shard_<k>.txt (one `Case index term hi lo` per line), <out_dir>/ids.txt,
//! <out_dir>/queries.txt and prints ONE json line.
#![allow(dead_code, clippy::type_complexity)]
use std::{
    borrow::Cow,
    cell::{Cell, OnceCell, RefCell, UnsafeCell},
    collections::{BTreeMap, BTreeSet, BinaryHeap, HashMap, HashSet, LinkedList, VecDeque},
    ffi::{CStr, CString, OsStr, OsString},
    fmt::Write as _,
    hash::{BuildHasherDefault, DefaultHasher, RandomState},
    marker::{PhantomData, PhantomPinned},
    mem::{ManuallyDrop, MaybeUninit},
    num::*,
    ops::{Bound, Range, RangeFrom, RangeFull, RangeInclusive, RangeTo, RangeToInclusive},
    path::{Path, PathBuf},
    pin::Pin,
    ptr::NonNull,
    rc::Rc,
    sync::{Arc, Mutex, OnceLock, RwLock, atomic::*},
    time::{Duration, Instant, SystemTime},
};

use bitvec::{order::{Lsb0, Msb0}, vec::BitVec};
use qbice_stable_type_id::{Identifiable, StableTypeID};
use qv_harness::rng::Rng;
use smallvec::SmallVec;

// ------------------------------------------------------------------ terms
#[derive(Clone, PartialEq, Eq, Hash, Debug, PartialOrd, Ord)]
pub enum Term {
    Leaf(String),
    App(String, Vec<Term>),
    Arr(Box<Term>, u64),
    Der(String, Vec<Term>),
}
impl Term {
    fn coq(&self, out: &mut String) {
        match self {
            Term::Leaf(n) => { let _ = write!(out, "TLeaf \"{n}\""); }
            Term::App(n, a) | Term::Der(n, a) => {
                let _ = write!(out, "{} \"{n}\" [", if matches!(self, Term::App(..)) { "TApp" } else { "TDer" });
                for (i, x) in a.iter().enumerate() {
                    if i > 0 { out.push_str("; "); }
                    x.coq(out);
                }
                out.push(']');
            }
            Term::Arr(e, n) => { out.push_str("TArr ("); e.coq(out); let _ = write!(out, ") {n}"); }
        }
    }
    fn depth(&self) -> usize {
        match self {
            Term::Leaf(_) => 0,
            Term::App(_, a) | Term::Der(_, a) => 1 + a.iter().map(Term::depth).max().unwrap_or(0),
            Term::Arr(e, _) => 1 + e.depth(),
        }
    }
    /// every name / length occurring in the term (with multiplicity)
    fn atoms(&self, out: &mut Vec<String>) {
        match self {
            Term::Leaf(n) => out.push(n.clone()),
            Term::App(n, a) | Term::Der(n, a) => { out.push(n.clone()); a.iter().for_each(|x| x.atoms(out)); }
            Term::Arr(e, n) => { out.push(format!("core::primitive::array#{n}")); e.atoms(out); }
        }
    }
    fn head(&self) -> &str {
        match self { Term::Leaf(n) | Term::App(n, _) | Term::Der(n, _) => n, Term::Arr(..) => "core::primitive::array" }
    }
}

pub trait Ty: 'static { fn term() -> Term; }
pub trait T0: Identifiable + Ty {}
impl<T: Identifiable + Ty + ?Sized> T0 for T {}

// ------------------------------------------------------------------ the name table (as the harness author read it)
macro_rules! leaves_all {
    ($($t:ty => $n:expr),* $(,)?) => {
        $( impl Ty for $t { fn term() -> Term { Term::Leaf($n.to_string()) } } )*
        struct LeavesAll;
        impl Gen for LeavesAll { fn run<W: Sink>(w: &mut W) { $( w.visit_u::<$t>(); )* } }
    };
}
/// the name the derive gives a type of this module: "pkg@version::module::path::Ident"
macro_rules! dname { ($id:expr) => { concat!(env!("CARGO_PKG_NAME"), "@", env!("CARGO_PKG_VERSION"), "::", module_path!(), "::", $id) }; }

leaves_all! {
    () => "std::tuple::Unit", str => "str", String => "alloc::string::String",
    u8 => "u8", u16 => "u16", u32 => "u32", u64 => "u64", u128 => "u128", usize => "usize",
    i8 => "i8", i16 => "i16", i32 => "i32", i64 => "i64", i128 => "i128", isize => "isize",
    bool => "bool", char => "char", f32 => "f32", f64 => "f64",
    NonZeroU8 => "core::num::NonZeroU8", NonZeroU16 => "core::num::NonZeroU16", NonZeroU32 => "core::num::NonZeroU32",
    NonZeroU64 => "core::num::NonZeroU64", NonZeroU128 => "core::num::NonZeroU128", NonZeroUsize => "core::num::NonZeroUsize",
    NonZeroI8 => "core::num::NonZeroI8", NonZeroI16 => "core::num::NonZeroI16", NonZeroI32 => "core::num::NonZeroI32",
    NonZeroI64 => "core::num::NonZeroI64", NonZeroI128 => "core::num::NonZeroI128", NonZeroIsize => "core::num::NonZeroIsize",
    AtomicBool => "core::sync::atomic::AtomicBool", AtomicI8 => "core::sync::atomic::AtomicI8",
    AtomicI16 => "core::sync::atomic::AtomicI16", AtomicI32 => "core::sync::atomic::AtomicI32",
    AtomicI64 => "core::sync::atomic::AtomicI64", AtomicIsize => "core::sync::atomic::AtomicIsize",
    AtomicU8 => "core::sync::atomic::AtomicU8", AtomicU16 => "core::sync::atomic::AtomicU16",
    AtomicU32 => "core::sync::atomic::AtomicU32", AtomicU64 => "core::sync::atomic::AtomicU64",
    AtomicUsize => "core::sync::atomic::AtomicUsize",
    RangeFull => "core::ops::RangeFull", Duration => "core::time::Duration", Instant => "std::time::Instant",
    SystemTime => "std::time::SystemTime", std::cmp::Ordering => "core::cmp::Ordering",
    std::sync::atomic::Ordering => "core::sync::atomic::Ordering", std::convert::Infallible => "core::convert::Infallible",
    Path => "std::path::Path", PathBuf => "std::path::PathBuf", OsStr => "std::ffi::OsStr", OsString => "std::ffi::OsString",
    CStr => "core::ffi::CStr", CString => "alloc::ffi::CString", RandomState => "std::hash::RandomState",
    DefaultHasher => "std::hash::DefaultHasher", std::any::TypeId => "core::any::TypeId",
    PhantomPinned => "core::marker::PhantomPinned", std::io::Error => "std::io::Error", std::io::ErrorKind => "std::io::ErrorKind",
    std::fmt::Error => "core::fmt::Error", std::alloc::Layout => "core::alloc::Layout", std::alloc::LayoutError => "core::alloc::LayoutError",
    std::net::IpAddr => "core::net::IpAddr", std::net::Ipv4Addr => "core::net::Ipv4Addr", std::net::Ipv6Addr => "core::net::Ipv6Addr",
    std::net::SocketAddr => "core::net::SocketAddr", std::net::SocketAddrV4 => "core::net::SocketAddrV4",
    std::net::SocketAddrV6 => "core::net::SocketAddrV6",
    Lsb0 => "bitvec::order::Lsb0", Msb0 => "bitvec::order::Msb0",
    D0 => dname!("D0"), E0 => dname!("E0"), inner::D0 => dname!("inner::D0"),
    QA => dname!("queries::QA"), QB => dname!("queries::QB"), QS => dname!("queries::QS"), QP => dname!("queries::QP"),
}

// type aliases so that every constructor is `Name<T>`
type Ref<T> = &'static T;
type RefMut<T> = &'static mut T;
type PtrC<T> = *const T;
type PtrM<T> = *mut T;
type SyncWeak<T> = std::sync::Weak<T>;
type RcWeak<T> = std::rc::Weak<T>;
type CowS<T> = Cow<'static, T>;
type Slice<T> = [T];
type Tup1<T> = (T,);
type Tup2<A, B> = (A, B);
type Tup3<A, B, C> = (A, B, C);
type InD1<T> = inner::D1<T>;
type InD2<A, B> = inner::D2<A, B>;

macro_rules! app1 {   // built-in unary constructors whose parameter may be unsized
    ($($c:ident => $n:expr),* $(,)?) => { $( impl<T: Ty + ?Sized> Ty for $c<T> { fn term() -> Term { Term::App($n.to_string(), vec![T::term()]) } } )* };
}
macro_rules! app1s {  // ... sized parameter
    ($($c:ident => $n:expr),* $(,)?) => { $( impl<T: Ty> Ty for $c<T> { fn term() -> Term { Term::App($n.to_string(), vec![T::term()]) } } )* };
}
app1! {
    Arc => "std::sync::Arc", Box => "alloc::boxed::Box", Rc => "alloc::rc::Rc", SyncWeak => "alloc::sync::Weak",
    RcWeak => "alloc::rc::Weak", RefCell => "core::cell::RefCell", Cell => "core::cell::Cell", UnsafeCell => "core::cell::UnsafeCell",
    Mutex => "std::sync::Mutex", RwLock => "std::sync::RwLock", PhantomData => "core::marker::PhantomData",
    ManuallyDrop => "core::mem::ManuallyDrop", NonNull => "core::ptr::NonNull", Ref => "core::primitive::reference",
    RefMut => "core::primitive::reference_mut", PtrC => "core::primitive::ptr_const", PtrM => "core::primitive::ptr_mut",
}
app1s! {
    Slice => "std::slice::Slice", Vec => "std::vec::Vec", Option => "core::option::Option", OnceCell => "core::cell::OnceCell",
    OnceLock => "std::sync::OnceLock", MaybeUninit => "core::mem::MaybeUninit", Pin => "core::pin::Pin",
    Wrapping => "core::num::Wrapping", Saturating => "core::num::Saturating", AtomicPtr => "core::sync::atomic::AtomicPtr",
    Range => "core::ops::Range", RangeFrom => "core::ops::RangeFrom", RangeInclusive => "core::ops::RangeInclusive",
    RangeTo => "core::ops::RangeTo", RangeToInclusive => "core::ops::RangeToInclusive", Bound => "core::ops::Bound",
    BuildHasherDefault => "std::hash::BuildHasherDefault", BTreeSet => "alloc::collections::BTreeSet",
    VecDeque => "alloc::collections::VecDeque", LinkedList => "alloc::collections::LinkedList", BinaryHeap => "alloc::collections::BinaryHeap",
}
impl<T: Ty + ToOwned + ?Sized> Ty for Cow<'static, T> { fn term() -> Term { Term::App("alloc::borrow::Cow".into(), vec![T::term()]) } }
impl<A: Ty + smallvec::Array> Ty for SmallVec<A> { fn term() -> Term { Term::App("smallvec::SmallVec".into(), vec![A::term()]) } }
impl<T: Ty + bitvec::store::BitStore, O: Ty + bitvec::order::BitOrder> Ty for BitVec<T, O> {
    fn term() -> Term { Term::App("bitvec::BitVec".into(), vec![T::term(), O::term()]) }
}
impl<A: Ty, B: Ty> Ty for Result<A, B> { fn term() -> Term { Term::App("core::result::Result".into(), vec![A::term(), B::term()]) } }
impl<A: Ty, B: Ty> Ty for BTreeMap<A, B> { fn term() -> Term { Term::App("alloc::collections::BTreeMap".into(), vec![A::term(), B::term()]) } }
impl<A: Ty, B: Ty> Ty for HashSet<A, B> { fn term() -> Term { Term::App("std::collections::HashSet".into(), vec![A::term(), B::term()]) } }
impl<A: Ty, B: Ty, C: Ty> Ty for HashMap<A, B, C> {
    fn term() -> Term { Term::App("std::collections::HashMap".into(), vec![A::term(), B::term(), C::term()]) }
}
impl<T: Ty, const N: usize> Ty for [T; N] { fn term() -> Term { Term::Arr(Box::new(T::term()), N as u64) } }
macro_rules! tuple_ty { ($($n:ident)+) => { impl<$($n: Ty),+> Ty for ($($n,)+) { fn term() -> Term { Term::App("std::tuple::Tuple".into(), vec![$($n::term()),+]) } } }; }
tuple_ty! { A }
tuple_ty! { A B }
tuple_ty! { A B C }
tuple_ty! { A B C D }
tuple_ty! { A B C D E }
tuple_ty! { A B C D E F }
tuple_ty! { A B C D E F G }
tuple_ty! { A B C D E F G H }
tuple_ty! { A B C D E F G H I }
tuple_ty! { A B C D E F G H I J }
tuple_ty! { A B C D E F G H I J K }
tuple_ty! { A B C D E F G H I J K L }
tuple_ty! { A B C D E F G H I J K L M }
tuple_ty! { A B C D E F G H I J K L M N }
tuple_ty! { A B C D E F G H I J K L M N O }
tuple_ty! { A B C D E F G H I J K L M N O P }

// ------------------------------------------------------------------ derived types (the real derive)
#[derive(Identifiable, Clone)]
#[stable_type_id_crate(qbice_stable_type_id)]
pub struct D0;
#[derive(Identifiable)]
#[stable_type_id_crate(qbice_stable_type_id)]
pub enum E0 { A, B(u8) }
#[derive(Identifiable)]
#[stable_type_id_crate(qbice_stable_type_id)]
pub struct D1<T>(PhantomData<T>);
#[derive(Identifiable)]
#[stable_type_id_crate(qbice_stable_type_id)]
pub struct D2<T, U>(PhantomData<(T, U)>);
#[derive(Identifiable)]
#[stable_type_id_crate(qbice_stable_type_id)]
pub enum E2<T, U> { A(T), B(U) }
#[derive(Identifiable)]
#[stable_type_id_crate(qbice_stable_type_id)]
pub struct D3<T, U, V>(PhantomData<(T, U, V)>);
pub mod inner {
    use super::*;
    #[derive(Identifiable)]
    #[stable_type_id_crate(qbice_stable_type_id)]
    pub struct D0;
    #[derive(Identifiable)]
    #[stable_type_id_crate(qbice_stable_type_id)]
    pub struct D1<T>(PhantomData<T>);
    #[derive(Identifiable)]
    #[stable_type_id_crate(qbice_stable_type_id)]
    pub struct D2<T, U>(PhantomData<(T, U)>);
}
impl<T: Ty> Ty for inner::D1<T> { fn term() -> Term { Term::Der(dname!("inner::D1").into(), vec![T::term()]) } }
impl<A: Ty, B: Ty> Ty for inner::D2<A, B> { fn term() -> Term { Term::Der(dname!("inner::D2").into(), vec![A::term(), B::term()]) } }
impl<T: Ty> Ty for D1<T> { fn term() -> Term { Term::Der(dname!("D1").into(), vec![T::term()]) } }
impl<A: Ty, B: Ty> Ty for D2<A, B> { fn term() -> Term { Term::Der(dname!("D2").into(), vec![A::term(), B::term()]) } }
impl<A: Ty, B: Ty> Ty for E2<A, B> { fn term() -> Term { Term::Der(dname!("E2").into(), vec![A::term(), B::term()]) } }
impl<A: Ty, B: Ty, C: Ty> Ty for D3<A, B, C> { fn term() -> Term { Term::Der(dname!("D3").into(), vec![A::term(), B::term(), C::term()]) } }
impl<T: Ty> Ty for QG<T> { fn term() -> Term { Term::Der(dname!("queries::QG").into(), vec![T::term()]) } }

// ------------------------------------------------------------------ generators
pub trait Sink {
    fn visit<T: T0>(&mut self);
    fn visit_u<T: T0 + ?Sized>(&mut self) { unreachable!("unsized type reached a sized-only adaptor") }
}
pub trait Gen { fn run<W: Sink>(w: &mut W); }
pub trait Fam1 { fn each<T: T0, W: Sink>(w: &mut W); }
pub trait Fam2 { fn each<A: T0, B: T0, W: Sink>(w: &mut W); }
pub trait Fam3 { fn each<A: T0, B: T0, C: T0, W: Sink>(w: &mut W); }

macro_rules! gen_list { ($name:ident : $($t:ty),* $(,)?) => { struct $name; impl Gen for $name { fn run<W: Sink>(w: &mut W) { $( w.visit::<$t>(); )* } } }; }
macro_rules! gen_list_u { ($name:ident : $($t:ty),* $(,)?) => { struct $name; impl Gen for $name { fn run<W: Sink>(w: &mut W) { $( w.visit_u::<$t>(); )* } } }; }
macro_rules! fam1 { ($name:ident : $($c:ident),* $(,)?) => { struct $name; impl Fam1 for $name { fn each<T: T0, W: Sink>(w: &mut W) { $( w.visit::<$c<T>>(); )* } } }; }
macro_rules! fam2 { ($name:ident : $($c:ident),* $(,)?) => { struct $name; impl Fam2 for $name { fn each<A: T0, B: T0, W: Sink>(w: &mut W) { $( w.visit::<$c<A, B>>(); )* } } }; }
macro_rules! fam3 { ($name:ident : $($c:ident),* $(,)?) => { struct $name; impl Fam3 for $name { fn each<A: T0, B: T0, C: T0, W: Sink>(w: &mut W) { $( w.visit::<$c<A, B, C>>(); )* } } }; }
macro_rules! fam_arr { ($name:ident : $($n:expr),* $(,)?) => { struct $name; impl Fam1 for $name { fn each<T: T0, W: Sink>(w: &mut W) { $( w.visit::<[T; $n]>(); )* } } }; }

/// `A1<F, G>`: for t in G, for c in F: c<t>
struct A1<F, G>(PhantomData<(F, G)>);
struct Ad1<'a, F, W>(&'a mut W, PhantomData<F>);
impl<F: Fam1, W: Sink> Sink for Ad1<'_, F, W> { fn visit<T: T0>(&mut self) { F::each::<T, W>(self.0) } }
impl<F: Fam1, G: Gen> Gen for A1<F, G> { fn run<W: Sink>(w: &mut W) { G::run(&mut Ad1::<F, W>(w, PhantomData)) } }

/// `A2<F, G1, G2>`: for a in G1, for b in G2, for c in F: c<a, b>
struct A2<F, G1, G2>(PhantomData<(F, G1, G2)>);
struct Ad2a<'a, F, G2, W>(&'a mut W, PhantomData<(F, G2)>);
struct Ad2b<'a, F, A, W>(&'a mut W, PhantomData<(F, A)>);
impl<F: Fam2, G2: Gen, W: Sink> Sink for Ad2a<'_, F, G2, W> { fn visit<A: T0>(&mut self) { G2::run(&mut Ad2b::<F, A, W>(self.0, PhantomData)) } }
impl<F: Fam2, A: T0, W: Sink> Sink for Ad2b<'_, F, A, W> { fn visit<B: T0>(&mut self) { F::each::<A, B, W>(self.0) } }
impl<F: Fam2, G1: Gen, G2: Gen> Gen for A2<F, G1, G2> { fn run<W: Sink>(w: &mut W) { G1::run(&mut Ad2a::<F, G2, W>(w, PhantomData)) } }

/// `A3<F, G1, G2, G3>`: for a, for b, for c, for f in F: f<a, b, c>
struct A3<F, G1, G2, G3>(PhantomData<(F, G1, G2, G3)>);
struct Ad3a<'a, F, G2, G3, W>(&'a mut W, PhantomData<(F, G2, G3)>);
struct Ad3b<'a, F, A, G3, W>(&'a mut W, PhantomData<(F, A, G3)>);
struct Ad3c<'a, F, A, B, W>(&'a mut W, PhantomData<(F, A, B)>);
impl<F: Fam3, G2: Gen, G3: Gen, W: Sink> Sink for Ad3a<'_, F, G2, G3, W> { fn visit<A: T0>(&mut self) { G2::run(&mut Ad3b::<F, A, G3, W>(self.0, PhantomData)) } }
impl<F: Fam3, A: T0, G3: Gen, W: Sink> Sink for Ad3b<'_, F, A, G3, W> { fn visit<B: T0>(&mut self) { G3::run(&mut Ad3c::<F, A, B, W>(self.0, PhantomData)) } }
impl<F: Fam3, A: T0, B: T0, W: Sink> Sink for Ad3c<'_, F, A, B, W> { fn visit<C: T0>(&mut self) { F::each::<A, B, C, W>(self.0) } }
impl<F: Fam3, G1: Gen, G2: Gen, G3: Gen> Gen for A3<F, G1, G2, G3> { fn run<W: Sink>(w: &mut W) { G1::run(&mut Ad3a::<F, G2, G3, W>(w, PhantomData)) } }

// leaf sets used for nesting (K8 ⊃ K4 ⊃ K2)
gen_list! { K8: u8, u64, i32, bool, f64, String, (), D0 }
gen_list! { K4: u8, String, (), D0 }
gen_list! { K2: u8, String }
gen_list! { Hashers: RandomState, BuildHasherDefault<DefaultHasher> }
gen_list! { BitStores: u8, u16, u32, u64, usize }
gen_list! { BitOrders: Lsb0, Msb0 }

fam1! { UAll: Vec, Option, Box, Arc, Rc, SyncWeak, RcWeak, RefCell, Cell, UnsafeCell, OnceCell, Mutex, RwLock, OnceLock,
        PhantomData, ManuallyDrop, MaybeUninit, Pin, NonNull, Ref, RefMut, PtrC, PtrM, Wrapping, Saturating, AtomicPtr,
        Range, RangeFrom, RangeInclusive, RangeTo, RangeToInclusive, Bound, BuildHasherDefault, BTreeSet, VecDeque,
        LinkedList, BinaryHeap, Tup1, D1, InD1 }
fam1! { UCore: Vec, Option, Box, Arc, Ref, RefCell, Mutex, PhantomData, Range, BTreeSet, Tup1, D1 }
fam1! { U3: Vec, Option, Arc, Tup1, D1 }
fam2! { BAll: Result, BTreeMap, HashSet, Tup2, D2, E2, InD2 }
fam2! { B4: Result, BTreeMap, Tup2, D2 }
fam2! { B2: Tup2, D2 }
fam2! { FHashSet: HashSet }
fam3! { TAll: HashMap, Tup3, D3 }
fam_arr! { ArrAll: 0, 1, 2, 3, 8, 255, 256, 65535, 65536, 4294967296, 18446744073709551615 }
fam_arr! { Arr4: 0, 1, 2, 3 }
fam_arr! { Arr2: 1, 2 }
// `BitVec<T, O>` needs `T: BitStore, O: BitOrder`, which a generic family cannot promise; the
// ten instantiations are listed instead.
gen_list! { BitVecs:
    BitVec<u8, Lsb0>, BitVec<u8, Msb0>, BitVec<u16, Lsb0>, BitVec<u16, Msb0>, BitVec<u32, Lsb0>, BitVec<u32, Msb0>,
    BitVec<u64, Lsb0>, BitVec<u64, Msb0>, BitVec<usize, Lsb0>, BitVec<usize, Msb0> }

// hash map with the hashers in third position
struct FHashMapS;
impl Fam3 for FHashMapS { fn each<A: T0, B: T0, C: T0, W: Sink>(w: &mut W) { w.visit::<HashMap<A, B, C>>(); } }

// slices and pointers to unsized things
struct FSlicePtrs;
impl Fam1 for FSlicePtrs {
    fn each<T: T0, W: Sink>(w: &mut W) {
        w.visit_u::<[T]>(); w.visit::<Box<[T]>>(); w.visit::<Arc<[T]>>(); w.visit::<Rc<[T]>>(); w.visit::<&'static [T]>();
    }
}
gen_list_u! { UnsizedMisc:
    Box<str>, Arc<str>, Rc<str>, &'static str, &'static mut str, *const str, Cow<'static, str>, Cow<'static, [u8]>,
    Cow<'static, Path>, Cow<'static, OsStr>, Cow<'static, CStr>, Arc<Path>, Box<OsStr>, Box<CStr>, &'static Path,
    Mutex<str>, RefCell<[u8]>, PhantomData<str>, NonNull<str>, ManuallyDrop<str>,
    Cow<'static, u8>, Cow<'static, u64>, Cow<'static, i32>, Cow<'static, bool>, Cow<'static, f64>, Cow<'static, String>,
    Cow<'static, ()>, Cow<'static, D0> }
gen_list! { SmallVecs:
    SmallVec<[u8; 1]>, SmallVec<[u8; 2]>, SmallVec<[u8; 4]>, SmallVec<[u8; 8]>, SmallVec<[String; 1]>, SmallVec<[String; 2]>,
    SmallVec<[String; 4]>, SmallVec<[String; 8]>, SmallVec<[(); 1]>, SmallVec<[(); 2]>, SmallVec<[(); 4]>, SmallVec<[(); 8]>,
    SmallVec<[D0; 1]>, SmallVec<[D0; 2]>, SmallVec<[D0; 4]>, SmallVec<[D0; 8]> }
type S = String;
gen_list! { WideTuples:
    (u8, u8, u8, u8), (u8, u8, u8, u8, u8), (u8, u8, u8, u8, u8, u8), (u8, u8, u8, u8, u8, u8, u8),
    (u8, u8, u8, u8, u8, u8, u8, u8), (u8, u8, u8, u8, u8, u8, u8, u8, u8), (u8, u8, u8, u8, u8, u8, u8, u8, u8, u8),
    (u8, u8, u8, u8, u8, u8, u8, u8, u8, u8, u8), (u8, u8, u8, u8, u8, u8, u8, u8, u8, u8, u8, u8),
    (u8, u8, u8, u8, u8, u8, u8, u8, u8, u8, u8, u8, u8), (u8, u8, u8, u8, u8, u8, u8, u8, u8, u8, u8, u8, u8, u8),
    (u8, u8, u8, u8, u8, u8, u8, u8, u8, u8, u8, u8, u8, u8, u8), (u8, u8, u8, u8, u8, u8, u8, u8, u8, u8, u8, u8, u8, u8, u8, u8),
    (S, u8, u8, u8, u8, u8, u8, u8, u8, u8, u8, u8, u8, u8, u8, u8), (u8, S, u8, u8, u8, u8, u8, u8, u8, u8, u8, u8, u8, u8, u8, u8),
    (u8, u8, S, u8, u8, u8, u8, u8, u8, u8, u8, u8, u8, u8, u8, u8), (u8, u8, u8, S, u8, u8, u8, u8, u8, u8, u8, u8, u8, u8, u8, u8),
    (u8, u8, u8, u8, S, u8, u8, u8, u8, u8, u8, u8, u8, u8, u8, u8), (u8, u8, u8, u8, u8, S, u8, u8, u8, u8, u8, u8, u8, u8, u8, u8),
    (u8, u8, u8, u8, u8, u8, S, u8, u8, u8, u8, u8, u8, u8, u8, u8), (u8, u8, u8, u8, u8, u8, u8, S, u8, u8, u8, u8, u8, u8, u8, u8),
    (u8, u8, u8, u8, u8, u8, u8, u8, S, u8, u8, u8, u8, u8, u8, u8), (u8, u8, u8, u8, u8, u8, u8, u8, u8, S, u8, u8, u8, u8, u8, u8),
    (u8, u8, u8, u8, u8, u8, u8, u8, u8, u8, S, u8, u8, u8, u8, u8), (u8, u8, u8, u8, u8, u8, u8, u8, u8, u8, u8, S, u8, u8, u8, u8),
    (u8, u8, u8, u8, u8, u8, u8, u8, u8, u8, u8, u8, S, u8, u8, u8), (u8, u8, u8, u8, u8, u8, u8, u8, u8, u8, u8, u8, u8, S, u8, u8),
    (u8, u8, u8, u8, u8, u8, u8, u8, u8, u8, u8, u8, u8, u8, S, u8), (u8, u8, u8, u8, u8, u8, u8, u8, u8, u8, u8, u8, u8, u8, u8, S) }
gen_list! { QueryTypes: QG<u8>, QG<u64>, QG<(u64, u64)>, QG<QA> }

type P2 = A2<B2, K2, K2>;
/// the universe, group by group — mirrored by `universe` in TypeId/Universe.v (same order)
fn universe<W: Sink>(w: &mut W, mark: &mut dyn FnMut(&mut W, &'static str)) {
    macro_rules! group { ($name:expr, $g:ty) => { <$g as Gen>::run(w); mark(w, $name); }; }
    group!("leaves", LeavesAll);
    group!("unary_d1", A1<UAll, K8>);
    group!("unary_d2", A1<UCore, A1<UCore, K8>>);
    group!("unary_d3", A1<U3, A1<U3, A1<U3, K4>>>);
    group!("binary_d1", A2<BAll, K8, K8>);
    group!("binary_unary_l", A2<B4, A1<U3, K4>, K4>);
    group!("binary_unary_r", A2<B4, K4, A1<U3, K4>>);
    group!("unary_binary", A1<U3, A2<B4, K4, K4>>);
    group!("binary_nest_l", A2<B4, A2<B4, K2, K2>, K2>);
    group!("binary_nest_r", A2<B4, K2, A2<B4, K2, K2>>);
    group!("binary_d3_bal", A2<B2, P2, P2>);
    group!("binary_d3_ll", A2<B2, A2<B2, P2, K2>, K2>);
    group!("binary_d3_lr", A2<B2, A2<B2, K2, P2>, K2>);
    group!("binary_d3_rl", A2<B2, K2, A2<B2, P2, K2>>);
    group!("binary_d3_rr", A2<B2, K2, A2<B2, K2, P2>>);
    group!("ternary_d1", A3<TAll, K4, K4, K4>);
    group!("hashers", A3<FHashMapS, K4, K4, Hashers>);
    group!("hashset_hashers", A2<FHashSet, K8, Hashers>);
    group!("wide_tuples", WideTuples);
    group!("arrays_d1", A1<ArrAll, K8>);
    group!("arrays_nested", A1<Arr4, A1<Arr4, K2>>);
    group!("arrays_of_unary", A1<Arr4, A1<U3, K2>>);
    group!("unary_of_arrays", A1<UCore, A1<Arr4, K2>>);
    group!("binary_arrays_l", A2<B2, A1<Arr2, K2>, K2>);
    group!("binary_arrays_r", A2<B2, K2, A1<Arr2, K2>>);
    group!("slices", A1<FSlicePtrs, K8>);
    group!("unsized_misc", UnsizedMisc);
    group!("smallvec", SmallVecs);
    group!("bitvec", BitVecs);
    group!("query_types", QueryTypes);
}

// ------------------------------------------------------------------ collector
struct Row { term: Term, hi: u64, lo: u64, rust: &'static str }
#[derive(Default)]
struct Out { rows: Vec<Row>, groups: Vec<(&'static str, usize)> }
impl Sink for Out {
    fn visit<T: T0>(&mut self) { self.visit_u::<T>() }
    fn visit_u<T: T0 + ?Sized>(&mut self) {
        let id = T::STABLE_TYPE_ID;
        self.rows.push(Row { term: T::term(), hi: id.high(), lo: id.low(), rust: std::any::type_name::<T>() });
    }
}

// ------------------------------------------------------------------ query ids
mod queries {
    use std::{hash::BuildHasherDefault, sync::Arc};

    use fxhash::FxHasher;
    use qbice::{
        Config, Decode, Encode, Engine, Identifiable, StableHash, TrackedEngine,
        executor::Executor,
        query::{Query, QueryID},
        serialize::Plugin,
        stable_hash::{BuildStableHasher, SeededStableHasherBuilder, Sip128Hasher, StableHasher},
        storage::storage_engine::in_memory::{InMemoryStorageEngine, InMemoryStorageEngineFactory},
    };

    macro_rules! query_ty {
        ($(#[$m:meta])* $vis:vis struct $name:ident $(<$g:ident>)? ($($f:ty),*);) => {
            #[derive(Debug, Clone, PartialEq, Eq, PartialOrd, Ord, Hash, StableHash, Encode, Decode, Identifiable)]
            $vis struct $name $(<$g>)? ($(pub $f),*);
        };
    }
    query_ty! { pub struct QA(u64); }
    query_ty! { pub struct QB(u64); }
    query_ty! { pub struct QS(String); }
    query_ty! { pub struct QP(u64, u64); }
    query_ty! { pub struct QG<T>(T); }
    impl Query for QA { type Value = u64; }
    impl Query for QB { type Value = u64; }
    impl Query for QS { type Value = u64; }
    impl Query for QP { type Value = u64; }
    impl Query for QG<u8> { type Value = u64; }
    impl Query for QG<u64> { type Value = u64; }
    impl Query for QG<(u64, u64)> { type Value = u64; }
    impl Query for QG<QA> { type Value = u64; }

    /// exactly what `Engine::new_query_with_id` does (that method is private)
    pub fn query_id<Q: Query>(q: &Q, seed: u64) -> QueryID {
        let b = SeededStableHasherBuilder::<Sip128Hasher>::new(seed);
        let mut h = b.build_stable_hasher();
        q.stable_hash(&mut h);
        QueryID::new::<Q>(h.finish().into())
    }

    #[derive(Debug, Clone, Copy, PartialEq, Eq, PartialOrd, Ord, Hash, Default, Identifiable)]
    pub struct Cfg;
    impl Config for Cfg {
        type StorageEngine = InMemoryStorageEngine;
        type BuildStableHasher = SeededStableHasherBuilder<Sip128Hasher>;
        type BuildHasher = BuildHasherDefault<FxHasher>;
    }
    /// every query type answers `tag * 2^32 + f(key)`, so a value served from another type's slot is visible
    pub struct Ex;
    macro_rules! exec { ($q:ty, $tag:expr, |$k:ident| $f:expr) => {
        impl<C: Config> Executor<$q, C> for Ex {
            async fn execute(&self, $k: &$q, _e: &TrackedEngine<C>) -> u64 { ($tag << 32) + ($f) }
        }
    }; }
    exec!(QA, 1u64, |q| q.0 & 0xffff);
    exec!(QB, 2u64, |q| q.0 & 0xffff);
    exec!(QS, 3u64, |q| q.0.len() as u64);
    exec!(QP, 4u64, |q| (q.0 * 31 + q.1) & 0xffff);
    exec!(QG<u8>, 5u64, |q| q.0 as u64);
    exec!(QG<u64>, 6u64, |q| q.0 & 0xffff);
    exec!(QG<(u64, u64)>, 7u64, |q| (q.0.0 * 31 + q.0.1) & 0xffff);
    exec!(QG<QA>, 8u64, |q| q.0.0 & 0xffff);

    pub async fn engine(seed: u64) -> Arc<Engine<Cfg>> {
        let mut e = Engine::<Cfg>::new_with(Plugin::default(), InMemoryStorageEngineFactory, SeededStableHasherBuilder::<Sip128Hasher>::new(seed)).await.unwrap();
        let ex = Arc::new(Ex);
        e.register_executor::<QA, _>(ex.clone());
        e.register_executor::<QB, _>(ex.clone());
        e.register_executor::<QS, _>(ex.clone());
        e.register_executor::<QP, _>(ex.clone());
        e.register_executor::<QG<u8>, _>(ex.clone());
        e.register_executor::<QG<u64>, _>(ex.clone());
        e.register_executor::<QG<(u64, u64)>, _>(ex.clone());
        e.register_executor::<QG<QA>, _>(ex);
        Arc::new(e)
    }
}
pub use queries::{QA, QB, QG, QP, QS};

struct QRow { ty: Term, key: String, type_id: u128, hash: u128, expect: u64 }

fn query_rows(seed: u64) -> (Vec<QRow>, Vec<String>) {
    use qbice::query::Query;
    let mut rows: Vec<QRow> = Vec::new();
    let mut bad: Vec<String> = Vec::new();
    fn push<Q: Query + Ty>(rows: &mut Vec<QRow>, bad: &mut Vec<String>, q: Q, seed: u64, expect: u64) {
        let id = queries::query_id(&q, seed);
        // the id the engine stores is (as_u128 of the type id, key hash)
        if id.stable_type_id() != Q::STABLE_TYPE_ID || id.compact_stable_type_id().to_u128() != Q::STABLE_TYPE_ID.as_u128() {
            bad.push(format!("QueryID::new::<{}> does not carry the type id", std::any::type_name::<Q>()));
        }
        rows.push(QRow { ty: Q::term(), key: format!("{q:?}"), type_id: Q::STABLE_TYPE_ID.as_u128(), hash: id.hash_128(), expect });
    }
    let mut keys: Vec<u64> = (0..96).collect();
    keys.extend([127, 128, 255, 256, 65535, 65536, u32::MAX as u64, u32::MAX as u64 + 1, u64::MAX - 1, u64::MAX]);
    for &k in &keys {
        push(&mut rows, &mut bad, QA(k), seed, (1 << 32) + (k & 0xffff));
        push(&mut rows, &mut bad, QB(k), seed, (2 << 32) + (k & 0xffff));
        push(&mut rows, &mut bad, QG::<u64>(k), seed, (6 << 32) + (k & 0xffff));
        push(&mut rows, &mut bad, QG::<QA>(QA(k)), seed, (8 << 32) + (k & 0xffff));
        if k < 256 { push(&mut rows, &mut bad, QG::<u8>(k as u8), seed, (5 << 32) + k); }
    }
    for a in 0..12u64 { for b in 0..12u64 {
        push(&mut rows, &mut bad, QP(a, b), seed, (4 << 32) + ((a * 31 + b) & 0xffff));
        push(&mut rows, &mut bad, QG::<(u64, u64)>((a, b)), seed, (7 << 32) + ((a * 31 + b) & 0xffff));
    } }
    for s in ["", "a", "b", "ab", "ba", "a\0", "\0a", "aa", "aaa", "0", "00"] {
        push(&mut rows, &mut bad, QS(s.to_string()), seed, (3 << 32) + s.len() as u64);
    }
    (rows, bad)
}

/// every query of `query_rows` asked of one engine; returns the keys whose answer came from another slot
fn engine_aliasing(seed: u64) -> (usize, Vec<String>) {
    let rt = tokio::runtime::Builder::new_current_thread().enable_all().build().unwrap();
    rt.block_on(async {
        let e = queries::engine(seed).await;
        let mut bad = Vec::new();
        let mut n = 0usize;
        let mut keys: Vec<u64> = (0..96).collect();
        keys.extend([127, 128, 255, 256, 65535, 65536, u32::MAX as u64, u32::MAX as u64 + 1, u64::MAX - 1, u64::MAX]);
        for round in 0..2 {
            let t = e.clone().tracked().await;
            macro_rules! ask { ($q:expr, $want:expr) => {{
                let q = $q; let got = t.query(&q).await; n += 1;
                if got != $want { bad.push(format!("round {round}: {q:?} answered {got:#x}, expected {:#x}", $want)); }
            }}; }
            for &k in &keys {
                ask!(QA(k), (1u64 << 32) + (k & 0xffff));
                ask!(QB(k), (2u64 << 32) + (k & 0xffff));
                ask!(QG::<u64>(k), (6u64 << 32) + (k & 0xffff));
                ask!(QG::<QA>(QA(k)), (8u64 << 32) + (k & 0xffff));
                if k < 256 { ask!(QG::<u8>(k as u8), (5u64 << 32) + k); }
            }
            for a in 0..12u64 { for b in 0..12u64 {
                ask!(QP(a, b), (4u64 << 32) + ((a * 31 + b) & 0xffff));
                ask!(QG::<(u64, u64)>((a, b)), (7u64 << 32) + ((a * 31 + b) & 0xffff));
            } }
            for s in ["", "a", "b", "ab", "ba", "a\0", "\0a", "aa", "aaa", "0", "00"] {
                ask!(QS(s.to_string()), (3u64 << 32) + s.len() as u64);
            }
            drop(t);
        }
        (n, bad)
    })
}

// ------------------------------------------------------------------ block-scoped items (the derive's naming premise)
/// Two *different* types may carry the same `module_path!() :: Ident`: items declared inside
/// function bodies.  Returns (id of first, id of second) for a few such pairs.
fn block_scoped() -> Vec<(&'static str, &'static str, StableTypeID, StableTypeID, Option<(Term, Term)>)> {
    fn a() -> (StableTypeID, StableTypeID) {
        #[derive(Identifiable)]
        #[stable_type_id_crate(qbice_stable_type_id)]
        struct Local(u8);
        #[derive(Identifiable)]
        #[stable_type_id_crate(qbice_stable_type_id)]
        struct Loc<T>(PhantomData<T>);
        (Local::STABLE_TYPE_ID, <(u8, Loc<String>)>::STABLE_TYPE_ID)
    }
    fn b() -> (StableTypeID, StableTypeID) {
        #[derive(Identifiable)]
        #[stable_type_id_crate(qbice_stable_type_id)]
        struct Local(String, String);
        #[derive(Identifiable)]
        #[stable_type_id_crate(qbice_stable_type_id)]
        struct Loc<T, U>(PhantomData<(T, U)>);
        (Local::STABLE_TYPE_ID, <Loc<String, (u8,)>>::STABLE_TYPE_ID)
    }
    let (a1, a2) = a();
    let (b1, b2) = b();
    // how the model describes the second pair (TypeId/Structural.v twin_a / twin_b)
    let loc = dname!("Loc").to_string();
    let ta = Term::App("std::tuple::Tuple".into(), vec![u8::term(), Term::Der(loc.clone(), vec![String::term()])]);
    let tb = Term::Der(loc, vec![String::term(), <(u8,)>::term()]);
    vec![
        ("struct Local(u8) declared in fn a", "struct Local(String, String) declared in fn b", a1, b1, None),
        ("(u8, Loc<String>) with struct Loc<T> declared in fn a", "Loc<String, (u8,)> with struct Loc<T, U> declared in fn b", a2, b2, Some((ta, tb))),
    ]
}

// ------------------------------------------------------------------ block-scoped query types in one engine
/// `typeid <dir> probe`: two different query types that the derive names identically
/// (same ident, declared in two anonymous-const blocks of one module) registered with one
/// engine.  Prints what each of them answers; run by the check in a child process with a
/// timeout because the outcome on an aliased slot is not specified (wrong value, panic, hang).
mod twins {
    use std::sync::Arc;
    use qbice::{Config, Decode, Encode, Engine, Identifiable, StableHash, TrackedEngine, executor::Executor, query::Query};
    use super::queries::Cfg;
    pub trait Twin {
        fn register(e: &mut Engine<Cfg>);
        fn ask(t: &TrackedEngine<Cfg>, k: u64) -> impl std::future::Future<Output = String>;
        fn id() -> u128;
    }
    pub struct First;
    pub struct Second;
    const _: () = {
        #[derive(Debug, Clone, PartialEq, Eq, PartialOrd, Ord, Hash, StableHash, Encode, Decode, Identifiable)]
        pub struct Key(pub u64);
        impl Query for Key { type Value = String; }
        struct Ex;
        impl<C: Config> Executor<Key, C> for Ex {
            async fn execute(&self, q: &Key, _e: &TrackedEngine<C>) -> String { format!("first twin, key {}", q.0) }
        }
        impl Twin for First {
            fn register(e: &mut Engine<Cfg>) { e.register_executor::<Key, _>(Arc::new(Ex)); }
            async fn ask(t: &TrackedEngine<Cfg>, k: u64) -> String { t.query(&Key(k)).await }
            fn id() -> u128 { Key::STABLE_TYPE_ID.as_u128() }
        }
    };
    const _: () = {
        #[derive(Debug, Clone, PartialEq, Eq, PartialOrd, Ord, Hash, StableHash, Encode, Decode, Identifiable)]
        pub struct Key(pub u64);
        impl Query for Key { type Value = String; }
        struct Ex;
        impl<C: Config> Executor<Key, C> for Ex {
            async fn execute(&self, q: &Key, _e: &TrackedEngine<C>) -> String { format!("second twin, key {}", q.0) }
        }
        impl Twin for Second {
            fn register(e: &mut Engine<Cfg>) { e.register_executor::<Key, _>(Arc::new(Ex)); }
            async fn ask(t: &TrackedEngine<Cfg>, k: u64) -> String { t.query(&Key(k)).await }
            fn id() -> u128 { Key::STABLE_TYPE_ID.as_u128() }
        }
    };
}

fn probe() {
    use twins::Twin;
    let rt = tokio::runtime::Builder::new_current_thread().enable_all().build().unwrap();
    rt.block_on(async {
        use qbice::{Engine, serialize::Plugin, stable_hash::{SeededStableHasherBuilder, Sip128Hasher}, storage::storage_engine::in_memory::InMemoryStorageEngineFactory};
        let mut e = Engine::<queries::Cfg>::new_with(Plugin::default(), InMemoryStorageEngineFactory, SeededStableHasherBuilder::<Sip128Hasher>::new(0)).await.unwrap();
        twins::First::register(&mut e);
        twins::Second::register(&mut e);
        let e = Arc::new(e);
        println!("PROBE ids first={:032x} second={:032x} equal={}", twins::First::id(), twins::Second::id(), twins::First::id() == twins::Second::id());
        let t = e.clone().tracked().await;
        let a = twins::First::ask(&t, 5).await;
        println!("PROBE first::Key(5) -> {a:?}");
        let b = twins::Second::ask(&t, 5).await;
        println!("PROBE second::Key(5) -> {b:?}");
        println!("PROBE aliased={}", !(a.starts_with("first") && b.starts_with("second")));
    });
}

// ------------------------------------------------------------------ random terms through the real functions at run time
/// The const fns are ordinary functions too: random names (every length 0..=33, so every
/// tail length and up to four 8-byte chunks) and random nestings are hashed by the real
/// `from_unique_type_name` / `combine` at run time.  Used (a) as extra correspondence cases
/// for the sip/combine model outside the name table, (b) as the additional search for a
/// colliding pair when a proof or correspondence no longer checks.
fn rand_name(r: &mut Rng) -> String {
    const ALPHA: &[u8] = b"abcdefghijklmnopqrstuvwxyzABCDEFGHIJKLMNOPQRSTUVWXYZ0123456789_:@<>, &[];";
    let len = if r.chance(1, 4) { r.below(9) } else { r.below(34) };
    (0..len).map(|_| *r.pick(ALPHA) as char).collect()
}
/// a random signature: names that are leaves, built-in-style constructors, derived constructors of a fixed arity
struct Pool { leaves: Vec<String>, apps: Vec<String>, ders: Vec<(String, u64)> }
fn rand_pool(r: &mut Rng) -> Pool {
    let mut seen: BTreeSet<String> = BTreeSet::new();
    let mut fresh = |r: &mut Rng| loop { let n = rand_name(r); if seen.insert(n.clone()) { return n; } };
    Pool {
        leaves: (0..16).map(|_| fresh(r)).collect(),
        apps: (0..12).map(|_| fresh(r)).collect(),
        ders: (0..12).map(|_| { let n = fresh(r); (n, 1 + r.below(3)) }).collect(),
    }
}
/// well formed for the pool's signature (a name has one kind; derived names one arity)
fn rand_term(r: &mut Rng, depth: u32, pool: &Pool) -> Term {
    if depth == 0 || r.chance(1, 4) { return Term::Leaf(r.pick(&pool.leaves).clone()); }
    match r.below(8) {
        0 => Term::Arr(Box::new(rand_term(r, depth - 1, pool)), match r.below(4) { 0 => r.below(5), 1 => r.next(), 2 => u64::MAX - r.below(2), _ => 1 << r.below(64) }),
        1..=4 => { let wide = r.chance(1, 8); let n = 1 + r.below(if wide { 16 } else { 3 }); let h = r.pick(&pool.apps).clone(); Term::App(h, (0..n).map(|_| rand_term(r, depth - 1, pool)).collect()) }
        _ => { let (h, n) = r.pick(&pool.ders).clone(); Term::Der(h, (0..n).map(|_| rand_term(r, depth - 1, pool)).collect()) }
    }
}
fn real_name_id(n: &str) -> StableTypeID {
    // `from_unique_type_name` wants a `&'static str`; every distinct name is leaked once
    thread_local! { static NAMES: RefCell<HashMap<String, &'static str>> = RefCell::new(HashMap::new()); }
    let s: &'static str = NAMES.with(|m| *m.borrow_mut().entry(n.to_string()).or_insert_with(|| Box::leak(n.to_string().into_boxed_str())));
    StableTypeID::from_unique_type_name(s)
}
/// the folds as the impls / the derive write them, on the real `combine`
fn real_id(t: &Term) -> StableTypeID {
    match t {
        Term::Leaf(n) => real_name_id(n),
        Term::App(n, a) => a.iter().fold(real_name_id(n), |acc, x| acc.combine(real_id(x))),
        Term::Arr(e, n) => real_name_id("core::primitive::array").combine(real_id(e)).combine(unsafe { StableTypeID::from_raw_parts(*n, 0) }),
        Term::Der(n, a) => a.iter().fold(real_name_id(n), |acc, x| real_id(x).combine(acc)),
    }
}
fn coq_escape(t: &Term) -> String { let mut s = String::new(); t.coq(&mut s); s }

/// `typeid <dir> search <n> <seed>`: n random terms, real ids, colliding pairs of different terms
fn search(n: usize, seed: u64) {
    let mut r = Rng::new(seed ^ 0xC14);
    let pool = rand_pool(&mut r);
    let mut seen: HashMap<(u64, u64), Term> = HashMap::new();
    let mut collisions: Vec<String> = Vec::new();
    let mut distinct = 0usize;
    for _ in 0..n {
        let t = rand_term(&mut r, 4, &pool);
        let id = real_id(&t);
        match seen.get(&(id.high(), id.low())) {
            Some(u) if *u != t => collisions.push(format!("[{},{}]", jstr(&coq_escape(u)), jstr(&coq_escape(&t)))),
            Some(_) => {}
            None => { distinct += 1; seen.insert((id.high(), id.low()), t); }
        }
    }
    println!("{{\"searched\":{n},\"distinct_terms\":{distinct},\"collisions\":[{}]}}", collisions.join(","));
}

fn jstr(s: &str) -> String {
    let mut o = String::from("\"");
    for c in s.chars() {
        match c {
            '"' => o.push_str("\\\""), '\\' => o.push_str("\\\\"),
            c if (c as u32) < 0x20 => { let _ = write!(o, "\\u{:04x}", c as u32); }
            c => o.push(c),
        }
    }
    o.push('"');
    o
}

fn main() {
    let args: Vec<String> = std::env::args().collect();
    let out_dir = args.get(1).cloned().unwrap_or_else(|| ".".into());
    let shards: usize = args.get(2).and_then(|s| s.parse().ok()).unwrap_or(16);
    if args.get(2).map(String::as_str) == Some("probe") { return probe(); }
    if args.get(2).map(String::as_str) == Some("search") {
        return search(args.get(3).and_then(|s| s.parse().ok()).unwrap_or(100_000), args.get(4).and_then(|s| s.parse().ok()).unwrap_or(1));
    }
    let free_n: usize = args.get(4).and_then(|s| s.parse().ok()).unwrap_or(320);
    let seed: u64 = args.get(3).and_then(|s| s.parse().ok()).unwrap_or(1);
    std::fs::create_dir_all(&out_dir).unwrap();

    let mut out = Out::default();
    universe(&mut out, &mut |o: &mut Out, name| { let n = o.rows.len(); o.groups.push((name, n)); });
    let rows = &out.rows;
    let n = rows.len();

    // ---- files: shards for Coq, ids.txt for the cross-process comparison
    let per = n.div_ceil(shards.max(1));
    let mut ids_txt = String::new();
    for (k, chunk) in rows.chunks(per.max(1)).enumerate() {
        let mut s = String::new();
        for (j, r) in chunk.iter().enumerate() {
            let _ = write!(s, "Case {} (", k * per.max(1) + j);
            r.term.coq(&mut s);
            let _ = writeln!(s, ") {} {}", r.hi, r.lo);
        }
        std::fs::write(format!("{out_dir}/shard_{k}.txt"), s).unwrap();
    }
    // free cases: random terms hashed by the real functions at run time, spread over the shards
    let mut free_lens = [0usize; 40];
    let mut free_distinct: BTreeSet<Term> = BTreeSet::new();
    {
        use std::io::Write as _;
        let nshards = rows.chunks(per.max(1)).count();
        let mut r = Rng::new(seed);
        let pool = rand_pool(&mut r);
        let mut bufs = vec![String::new(); nshards];
        for i in 0..free_n {
            // the first 34 are bare names of every length 0..=33
            let t = if i < 34 { Term::Leaf((0..i).map(|j| (b'a' + ((i * 7 + j * 3) % 26) as u8) as char).collect()) } else { rand_term(&mut r, 3, &pool) };
            let id = real_id(&t);
            let mut a = Vec::new(); t.atoms(&mut a);
            for n in a { if !n.contains('#') { free_lens[n.len().min(39)] += 1; } }
            let b = &mut bufs[i % nshards];
            b.push_str("Free (");
            t.coq(b);
            let _ = writeln!(b, ") {} {}", id.high(), id.low());
            free_distinct.insert(t);
        }
        for (k, b) in bufs.iter().enumerate() {
            let mut f = std::fs::OpenOptions::new().append(true).open(format!("{out_dir}/shard_{k}.txt")).unwrap();
            f.write_all(b.as_bytes()).unwrap();
        }
    }
    // the replayed finding goes to Coq as well (last shard), when the real ids are equal
    let bs = block_scoped();
    let mut twin_cases = 0usize;
    {
        let mut s = String::new();
        for (_, _, a, b, terms) in &bs {
            if let (true, Some((ta, tb))) = (a == b, terms) {
                s.push_str("Twin (");
                ta.coq(&mut s);
                s.push_str(") (");
                tb.coq(&mut s);
                let _ = writeln!(s, ") {} {}", a.high(), a.low());
                twin_cases += 1;
            }
        }
        if twin_cases > 0 {
            use std::io::Write as _;
            let last = rows.chunks(per.max(1)).count() - 1;
            let mut f = std::fs::OpenOptions::new().append(true).open(format!("{out_dir}/shard_{last}.txt")).unwrap();
            f.write_all(s.as_bytes()).unwrap();
        }
    }
    for r in rows { let _ = writeln!(ids_txt, "{:016x}{:016x} {}", r.hi, r.lo, r.rust); }
    std::fs::write(format!("{out_dir}/ids.txt"), &ids_txt).unwrap();

    // ---- oracle 1: real ids pairwise distinct; terms pairwise distinct (generator sanity)
    let mut by_id: HashMap<(u64, u64), Vec<usize>> = HashMap::new();
    let mut by_term: HashMap<&Term, Vec<usize>> = HashMap::new();
    for (i, r) in rows.iter().enumerate() {
        by_id.entry((r.hi, r.lo)).or_default().push(i);
        by_term.entry(&r.term).or_default().push(i);
    }
    let mut collisions: Vec<String> = Vec::new();
    for (id, v) in &by_id {
        if v.len() > 1 && v.iter().any(|&i| rows[i].term != rows[v[0]].term) {
            collisions.push(format!("{{\"id\":\"{:016x}{:016x}\",\"types\":[{}]}}", id.0, id.1,
                v.iter().map(|&i| jstr(rows[i].rust)).collect::<Vec<_>>().join(",")));
        }
    }
    let dup_terms: Vec<String> = by_term.iter().filter(|(_, v)| v.len() > 1).map(|(_, v)| jstr(rows[v[0]].rust)).collect();

    // ---- oracle 2: instantiations that differ only in order / nesting of the same names
    let mut classes: HashMap<Vec<String>, Vec<usize>> = HashMap::new();
    for (i, r) in rows.iter().enumerate() {
        let mut a = Vec::new();
        r.term.atoms(&mut a);
        a.sort();
        classes.entry(a).or_default().push(i);
    }
    let mut perm_pairs = 0u64;
    let mut perm_classes = 0u64;
    let mut perm_bad: Vec<String> = Vec::new();
    let mut perm_sample: Vec<String> = Vec::new();
    for v in classes.values() {
        if v.len() < 2 { continue; }
        perm_classes += 1;
        for (x, &i) in v.iter().enumerate() { for &j in &v[x + 1..] {
            if rows[i].term == rows[j].term { continue; }
            perm_pairs += 1;
            if perm_sample.len() < 6 && (perm_pairs % 97 == 1) { perm_sample.push(format!("[{},{}]", jstr(rows[i].rust), jstr(rows[j].rust))); }
            if (rows[i].hi, rows[i].lo) == (rows[j].hi, rows[j].lo) {
                perm_bad.push(format!("[{},{}]", jstr(rows[i].rust), jstr(rows[j].rust)));
            }
        } }
    }

    // ---- query ids
    let (qrows, mut qbad) = query_rows(seed);
    let mut q_txt = String::new();
    let mut q_by_id: HashMap<(u128, u128), usize> = HashMap::new();
    let mut q_same_hash_diff_type = 0u64;
    let mut by_hash: HashMap<u128, Vec<usize>> = HashMap::new();
    for (i, q) in qrows.iter().enumerate() {
        let mut t = String::new(); q.ty.coq(&mut t);
        let _ = writeln!(q_txt, "{:032x} {:032x} {} {}", q.type_id, q.hash, t, q.key);
        if let Some(&j) = q_by_id.get(&(q.type_id, q.hash)) {
            qbad.push(format!("query id shared by {} {} and {} {}", qrows[j].ty.head(), qrows[j].key, q.ty.head(), q.key));
        } else { q_by_id.insert((q.type_id, q.hash), i); }
        by_hash.entry(q.hash).or_default().push(i);
    }
    for v in by_hash.values() {
        for (x, &i) in v.iter().enumerate() { for &j in &v[x + 1..] {
            if qrows[i].ty != qrows[j].ty { q_same_hash_diff_type += 1; }
            else { qbad.push(format!("key hash shared inside one query type: {} vs {}", qrows[i].key, qrows[j].key)); }
        } }
    }
    std::fs::write(format!("{out_dir}/queries.txt"), &q_txt).unwrap();
    let (asked, alias_bad) = engine_aliasing(seed);


    // ---- distribution
    let mut depth = [0usize; 8];
    let mut heads: BTreeSet<String> = BTreeSet::new();
    let mut n_der = 0usize;
    for r in rows {
        depth[r.term.depth().min(7)] += 1;
        let mut a = Vec::new(); r.term.atoms(&mut a);
        if a.iter().any(|s| s.contains('@')) { n_der += 1; }
        for s in a { heads.insert(s.split('#').next().unwrap().to_string()); }
    }
    let mut groups = String::new();
    let mut prev = 0;
    for (i, (g, end)) in out.groups.iter().enumerate() {
        if i > 0 { groups.push(','); }
        let _ = write!(groups, "{}:{}", jstr(g), end - prev);
        prev = *end;
    }
    let sample_rows: Vec<String> = [0usize, n / 7, n / 3, n / 2, 2 * n / 3, n - 1].iter().map(|&i| {
        let mut t = String::new(); rows[i].term.coq(&mut t);
        format!("{{\"rust\":{},\"id\":\"{:016x}{:016x}\",\"term\":{}}}", jstr(rows[i].rust), rows[i].hi, rows[i].lo, jstr(&t))
    }).collect();
    println!(
        "{{\"types\":{n},\"distinct_ids\":{},\"distinct_terms\":{},\"collisions\":[{}],\"duplicate_terms\":[{}],\
\"perm_classes\":{perm_classes},\"perm_pairs\":{perm_pairs},\"perm_collisions\":[{}],\"perm_samples\":[{}],\
\"groups\":{{{groups}}},\"depth\":[{}],\"names\":{},\"with_derived\":{n_der},\
\"queries\":{},\"query_types\":{},\"query_bad\":[{}],\"query_same_key_hash_other_type\":{q_same_hash_diff_type},\
\"engine_queries\":{asked},\"engine_aliasing\":[{}],\
\"block_scoped\":[{}],\"twin_cases\":{twin_cases},\"free_cases\":{free_n},\"free_distinct\":{},\"free_name_lengths_hit\":{},\"samples\":[{}]}}",
        by_id.len(), by_term.len(), collisions.join(","), dup_terms.join(","),
        perm_bad.join(","), perm_sample.join(","),
        depth.iter().map(|d| d.to_string()).collect::<Vec<_>>().join(","), heads.len(),
        qrows.len(), qrows.iter().map(|q| &q.ty).collect::<BTreeSet<_>>().len(),
        qbad.iter().map(|s| jstr(s)).collect::<Vec<_>>().join(","),
        alias_bad.iter().map(|s| jstr(s)).collect::<Vec<_>>().join(","),
        bs.iter().map(|(x, y, a, b, _)| format!("{{\"first\":{},\"second\":{},\"id_first\":\"{:032x}\",\"id_second\":\"{:032x}\",\"equal\":{}}}",
            jstr(x), jstr(y), a.as_u128(), b.as_u128(), a == b)).collect::<Vec<_>>().join(","),
        free_distinct.len(), free_lens.iter().filter(|c| **c > 0).count(),
        sample_rows.join(","),
    );
}
