//! Engine-level driver (C01, C03, C04, C07 …).
//!   engine hist <out_dir> <seed> <n> <shards> <cfg: mem | db:<cache_cap>> <features: all|basic>
//!   engine f6 <millis> <readers>
use std::{collections::HashMap, sync::{Arc, atomic::{AtomicBool, AtomicU64, Ordering}}, time::{Duration, Instant}};

use qv_harness::{hist::*, memdb::Shared, prog::*, rng::Rng};

fn rt(threads: usize) -> tokio::runtime::Runtime {
    if threads <= 1 { tokio::runtime::Builder::new_current_thread().enable_all().build().unwrap() }
    else { tokio::runtime::Builder::new_multi_thread().worker_threads(threads).enable_all().build().unwrap() }
}

async fn run_scenario(s: &Scenario, cfg: &str, cyclic: bool) -> (Vec<OpResult>, Judge) {
    let w = World::new(s.prog.clone(), s.n_ext as usize);
    let mut results = Vec::new();
    let mut judge = Judge::default();
    judge.cyclic = cyclic;
    if let Some(cap) = cfg.strip_prefix("db:") {
        let cap: u64 = cap.parse().unwrap();
        let disk = Shared::new();
        let mut engine = open_db(&w, &disk, cap, 2).await;
        for (i, op) in s.ops.iter().enumerate() {
            if *op == Op::Restart {
                drop(engine);
                tokio::task::yield_now().await;
                engine = open_db(&w, &disk, cap, 2).await;
            }
            let r = run_op(&engine, &w, op).await;
            judge.observe(&s.prog, op, &r, i);
            results.push(r);
        }
        drop(engine);
    } else {
        let engine = open_mem(&w).await;
        for (i, op) in s.ops.iter().enumerate() {
            let r = run_op(&engine, &w, op).await;
            judge.observe(&s.prog, op, &r, i);
            results.push(r);
        }
    }
    (results, judge)
}

fn hist(args: &[String]) {
    let dir = &args[0];
    let seed: u64 = args[1].parse().unwrap();
    let n: u64 = args[2].parse().unwrap();
    let shards: usize = args[3].parse().unwrap();
    let cfg = args[4].clone();
    let basic = args.get(5).map(|s| s == "basic").unwrap_or(false);
    let cyclic_all = args.get(5).map(|s| s == "cyclic-all").unwrap_or(false);
    let cyclic_ng = args.get(5).map(|s| s == "cyclic-nogroup").unwrap_or(false);
    let cyclic = cyclic_all || cyclic_ng || args.get(5).map(|s| s == "cyclic").unwrap_or(false);
    std::fs::create_dir_all(dir).unwrap();
    let mut r = Rng::new(seed);
    let mut out: Vec<Vec<String>> = vec![Vec::new(); shards];
    let (mut c01, mut c03) = (Vec::new(), Vec::new());
    let (mut n_c01, mut n_c03, mut n_changeback) = (0u64, 0u64, 0u64);
    let mut changeback = String::from("null");
    let (mut ops, mut execs, mut noexec, mut queries, mut nodes) = (0u64, 0u64, 0u64, 0u64, 0u64);
    let mut kinds: HashMap<&'static str, u64> = HashMap::new();
    let threads: usize = std::env::var("QV_THREADS").ok().and_then(|s| s.parse().ok()).unwrap_or(1);
    let mut runtime = rt(threads);
    let mut hangs: Vec<String> = Vec::new();
    let hang_secs: u64 = std::env::var("QV_HANG_SECS").ok().and_then(|s| s.parse().ok()).unwrap_or(20);
    let only: Option<u64> = std::env::var("QV_ONLY").ok().and_then(|s| s.parse().ok());
    for k in 0..n {
        let g = GenCfg { max_nodes: 10, max_ops: 14, allow_fw: !basic && (!cyclic || cyclic_all), allow_proj: !basic && (!cyclic || cyclic_all), allow_ext: !basic, allow_group: !basic && !cyclic_ng, restarts: cfg != "mem", cyclic };
        let s = gen_scenario(&mut r, &g);
        if let Some(only) = only { if only != k { continue; } }
        if std::env::var("QV_TRACE_SCN").is_ok() { std::fs::write(format!("{dir}/current.txt"), scenario_coq(&s)).unwrap(); }
        let done = runtime.block_on(async { tokio::time::timeout(Duration::from_secs(hang_secs), run_scenario(&s, &cfg, cyclic)).await });
        let (res, j) = match done {
            Ok(x) => x,
            Err(_) => {
                hangs.push(format!("{{\"index\":{k},\"violation\":\"no progress within 20 s (hang)\",\"scenario\":{:?}}}", scenario_coq(&s)));
                // the runtime still holds the stuck tasks: abandon it
                std::mem::forget(std::mem::replace(&mut runtime, rt(threads)));
                continue;
            }
        };
        ops += s.ops.len() as u64; execs += j.execs; noexec += j.repairs_without_exec; queries += j.queries; nodes += s.prog.exprs.len() as u64;
        for n in s.prog.exprs.keys() { *kinds.entry(match n.kind { Kind::Normal => "normal", Kind::Firewall => "firewall", Kind::Projection => "projection", _ => "other" }).or_default() += 1; }
        let line = format!("mkCase {} [{}]", scenario_coq(&s), res.iter().map(|x| x.coq()).collect::<Vec<_>>().join("; "));
        if !j.violations_c01.is_empty() && c01.len() < 3 { c01.push(format!("{{\"index\":{k},\"violation\":{:?},\"scenario\":{:?}}}", j.violations_c01[0], line)); }
        if !j.violations_c03.is_empty() && c03.len() < 3 { c03.push(format!("{{\"index\":{k},\"violation\":{:?},\"scenario\":{:?}}}", j.violations_c03[0], line)); }
        n_c01 += !j.violations_c01.is_empty() as u64; n_c03 += !j.violations_c03.is_empty() as u64;
        if !j.known_c03_changeback.is_empty() { n_changeback += 1; if changeback.is_empty() { changeback = format!("{{\"index\":{k},\"what\":{:?},\"scenario\":{:?}}}", j.known_c03_changeback[0], line); } }
        if only.is_some() {
            for (n, e) in &s.prog.exprs { eprintln!("{} := {}", n.short(), e.coq()); }
            for (i, (op, r)) in s.ops.iter().zip(res.iter()).enumerate() {
                eprintln!("step {i}: {:?} -> {:?} dirtied={:?}", op, r.outcome, r.dirtied);
                for e in &r.events { eprintln!("      {:?}", e); }
            }
            eprintln!("C01: {:?}\nC03: {:?}", j.violations_c01, j.violations_c03);
        }
        out[(k as usize) % shards].push(line);
    }
    for (k, lines) in out.iter().enumerate() { std::fs::write(format!("{dir}/shard_{k}.txt"), lines.join("\n") + "\n").unwrap(); }
    println!("{{\"histories\":{n},\"ops\":{ops},\"queries\":{queries},\"executions\":{execs},\"queries_served_without_execution\":{noexec},\"nodes\":{nodes},\"kinds\":{:?},\"n_c01\":{n_c01},\"n_c03\":{n_c03},\"n_changeback\":{n_changeback},\"changeback\":{changeback},\"c01\":[{}],\"c03\":[{}],\"hangs\":[{}]}}",
        kinds, c01.join(","), c03.join(","), hangs.join(","));
}

/// F6 / C04 witness search with the public API only: a writer loops
/// set_input(Var0, i); commit; query(Nrm0 = Var0 + 1) while reader tasks loop tracked(); query; drop.
fn f6(args: &[String]) {
    let millis: u64 = args[0].parse().unwrap();
    let readers: usize = args[1].parse().unwrap();
    let mut prog = Program::default();
    prog.exprs.insert(Node { kind: Kind::Normal, idx: 0 }, Expr::Add(Box::new(Expr::Read(Node { kind: Kind::Input, idx: 0 })), Box::new(Expr::Const(1))));
    let w = World::new(prog, 0);
    let runtime = rt(4);
    let (sessions, stale, first) = runtime.block_on(async {
        let engine = open_mem(&w).await;
        { let mut s = engine.input_session().await; s.set_input(Var(0), 0).await; s.commit().await; }
        let stop = Arc::new(AtomicBool::new(false));
        let mut hs = Vec::new();
        for _ in 0..readers {
            let e = engine.clone(); let stop = stop.clone();
            hs.push(tokio::spawn(async move {
                while !stop.load(Ordering::Relaxed) {
                    let t = e.clone().tracked().await;
                    let _ = query_node(&t, Node { kind: Kind::Normal, idx: 0 }).await;
                    drop(t);
                    tokio::task::yield_now().await;
                }
            }));
        }
        let t0 = Instant::now();
        let (mut sessions, mut stale) = (0u64, 0u64);
        let mut first: Option<(i64, i64)> = None;
        let mut i = 0i64;
        while t0.elapsed() < Duration::from_millis(millis) {
            i += 1;
            { let mut s = engine.input_session().await; s.set_input(Var(0), i).await; s.commit().await; }
            let t = engine.clone().tracked().await;
            let v = query_node(&t, Node { kind: Kind::Normal, idx: 0 }).await;
            drop(t);
            sessions += 1;
            if v != i + 1 { stale += 1; if first.is_none() { first = Some((i, v)); } }
        }
        stop.store(true, Ordering::Relaxed);
        for h in hs { let _ = h.await; }
        (sessions, stale, first)
    });
    let _ = AtomicU64::new(0);
    println!("{{\"sessions\":{sessions},\"stale_answers\":{stale},\"first\":{:?}}}", first);
}

/// engine replay <scenario file> <cfg> [cyclic]: run one scenario (the printed `[program] [ops]` form) with a trace
fn replay(args: &[String]) {
    let text = std::fs::read_to_string(&args[0]).unwrap();
    let cfg = args.get(1).cloned().unwrap_or_else(|| "mem".into());
    let cyclic = args.get(2).map(|s| s == "cyclic").unwrap_or(false);
    let s = parse::scenario(&text);
    let threads: usize = std::env::var("QV_THREADS").ok().and_then(|s| s.parse().ok()).unwrap_or(1);
    let runtime = rt(threads);
    let secs: u64 = std::env::var("QV_HANG_SECS").ok().and_then(|s| s.parse().ok()).unwrap_or(20);
    let done = runtime.block_on(async { tokio::time::timeout(Duration::from_secs(secs), run_scenario(&s, &cfg, cyclic)).await });
    match done {
        Ok((res, j)) => {
            for (i, (op, r)) in s.ops.iter().zip(res.iter()).enumerate() { println!("step {i}: {:?} -> {:?} execs={:?}", op, r.outcome, r.events.iter().filter_map(|e| if let Event::Exec(n) = e { Some(n.short()) } else { None }).collect::<Vec<_>>()); }
            println!("C01: {:?}\nC03: {:?}\nknown changeback: {:?}", j.violations_c01, j.violations_c03, j.known_c03_changeback);
            std::process::exit(if j.violations_c01.is_empty() && j.violations_c03.is_empty() { 0 } else { 1 });
        }
        Err(_) => { println!("HANG: no progress within {secs} s"); std::mem::forget(runtime); std::process::exit(2); }
    }
}

/// F5 / C06 witness: N1 -> N2 -> N1 where N2 keeps a helper task alive after it was unwound by
/// the cycle, so N1 and N2 are both still in computing state with the cyclic edge recorded;
/// a second root N4 -> N2 then runs the cycle search over that computing graph.
fn f5() {
    let mut prog = Program::default();
    let n = |i| Node { kind: Kind::Normal, idx: i };
    prog.exprs.insert(n(1), Expr::Read(n(2)));
    prog.exprs.insert(n(2), Expr::Read(n(1)));
    prog.exprs.insert(n(4), Expr::Read(n(2)));
    let w = World::new(prog, 0);
    w.helper_node.store(node_code(n(2)), Ordering::SeqCst);
    w.helper_hold.store(true, Ordering::SeqCst);
    let runtime = rt(4);
    let out = runtime.block_on(async {
        let engine = open_mem(&w).await;
        { let mut s = engine.input_session().await; s.set_input(Var(0), 0).await; s.commit().await; }
        let e1 = engine.clone();
        let a = tokio::spawn(async move { let t = e1.tracked().await; query_node(&t, Node { kind: Kind::Normal, idx: 1 }).await });
        // wait until N2's executor has run (and was unwound)
        while w.exec_count.load(Ordering::SeqCst) < 2 { tokio::task::yield_now().await; }
        tokio::time::sleep(Duration::from_millis(50)).await;
        let e2 = engine.clone();
        let b = tokio::spawn(async move { let t = e2.tracked().await; query_node(&t, Node { kind: Kind::Normal, idx: 4 }).await });
        tokio::time::sleep(Duration::from_millis(200)).await;
        w.helper_hold.store(false, Ordering::SeqCst);
        let ra = tokio::time::timeout(Duration::from_secs(5), a).await;
        let rb = tokio::time::timeout(Duration::from_secs(5), b).await;
        (format!("{:?}", ra.map(|x| x.map_err(|e| e.to_string()))), format!("{:?}", rb.map(|x| x.map_err(|e| e.to_string()))))
    });
    println!("{{\"root1\":{:?},\"root2\":{:?}}}", out.0, out.1);
    std::process::exit(0);
}

fn main() {
    let args: Vec<String> = std::env::args().collect();
    if std::env::var("QV_PANIC_TRACE").is_err() { std::panic::set_hook(Box::new(|_| {})); }
    if std::env::var("QV_TRACING").is_ok() {
        use tracing_subscriber::fmt::format::FmtSpan;
        tracing_subscriber::fmt().with_max_level(tracing::Level::DEBUG).with_span_events(FmtSpan::NEW | FmtSpan::CLOSE).with_writer(std::io::stderr).without_time().init();
    }
    match args[1].as_str() {
        "hist" => hist(&args[2..]),
        "f6" => f6(&args[2..]),
        "replay" => replay(&args[2..]),
        "f5" => f5(),
        m => panic!("unknown mode {m}"),
    }
}
