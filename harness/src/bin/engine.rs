//! Engine-level driver (C01, C03, C04, C07 …).
//!   engine hist <out_dir> <seed> <n> <shards> <cfg: mem | db:<cache_cap>> <features: all|basic>
//!   engine f6 <millis> <readers>
use std::{collections::HashMap, sync::{Arc, atomic::{AtomicBool, AtomicU64, Ordering}}, time::{Duration, Instant}};

use qv_harness::{hist::*, memdb::Shared, prog::*, rng::Rng};

fn rt(threads: usize) -> tokio::runtime::Runtime {
    if threads <= 1 { tokio::runtime::Builder::new_current_thread().enable_all().build().unwrap() }
    else { tokio::runtime::Builder::new_multi_thread().worker_threads(threads).enable_all().build().unwrap() }
}

async fn run_scenario(s: &Scenario, cfg: &str, cyclic: bool) -> (Vec<OpResult>, Judge) {
    let w = World::new(s.prog.clone(), s.n_ext as usize);
    let mut results = Vec::new();
    let mut judge = Judge::default();
    judge.cyclic = cyclic;
    let dump = std::env::var("QV_DUMP").is_ok();
    let nodes = scenario_nodes(s);
    if let Some(cap) = cfg.strip_prefix("db:") {
        let cap: u64 = cap.parse().unwrap();
        let disk = Shared::new();
        disk.group_max.store(qv_harness::env_u64("QV_GROUP_MAX", 0), Ordering::SeqCst);
        let mut engine = open_db(&w, &disk, cap, 2).await;
        for (i, op) in s.ops.iter().enumerate() {
            if *op == Op::Restart {
                drop(engine);
                tokio::task::yield_now().await;
                engine = open_db(&w, &disk, cap, 2).await;
            }
            let mut r = run_op(&engine, &w, op).await;
            if dump { r.state = Some(dump_state(&engine, &nodes).await); }
            judge.observe(&s.prog, op, &r, i);
            results.push(r);
        }
        drop(engine);
    } else {
        let engine = open_mem(&w).await;
        for (i, op) in s.ops.iter().enumerate() {
            let mut r = run_op(&engine, &w, op).await;
            if dump { r.state = Some(dump_state(&engine, &nodes).await); }
            judge.observe(&s.prog, op, &r, i);
            results.push(r);
        }
    }
    (results, judge)
}

fn hist(args: &[String]) {
    let dir = &args[0];
    let seed: u64 = args[1].parse().unwrap();
    let n: u64 = args[2].parse().unwrap();
    let shards: usize = args[3].parse().unwrap();
    let cfg = args[4].clone();
    let basic = args.get(5).map(|s| s == "basic").unwrap_or(false);
    let fwonly = args.get(5).map(|s| s == "fw").unwrap_or(false);
    let ptfc = args.get(5).map(|s| s == "ptfc").unwrap_or(false);
    let ptfc_chain = args.get(5).map(|s| s == "ptfc-chain").unwrap_or(false);
    let gdelay = args.get(5).map(|s| s == "gdelay").unwrap_or(false);
    let gtfc = args.get(5).map(|s| s == "gtfc").unwrap_or(false);
    let gptfc = args.get(5).map(|s| s == "gptfc").unwrap_or(false);
    let ptfc = ptfc || gptfc;
    let tfcmode = ptfc || ptfc_chain || gtfc || args.get(5).map(|s| s == "tfc").unwrap_or(false);
    let layered = args.get(5).map(|s| s == "layered").unwrap_or(false);
    let cyclic_all = args.get(5).map(|s| s == "cyclic-all").unwrap_or(false);
    let cyclic_ng = args.get(5).map(|s| s == "cyclic-nogroup").unwrap_or(false);
    let cyclic = cyclic_all || cyclic_ng || args.get(5).map(|s| s == "cyclic").unwrap_or(false);
    std::fs::create_dir_all(dir).unwrap();
    let mut r = Rng::new(seed);
    let mut out: Vec<Vec<String>> = vec![Vec::new(); shards];
    let (mut c01, mut c03) = (Vec::new(), Vec::new());
    let (mut n_c01, mut n_c03, mut n_changeback) = (0u64, 0u64, 0u64);
    let (mut n_cyc_inc, mut n_cyc_judged, mut cyc_inc_first) = (0u64, 0u64, String::from("null"));
    let mut changeback = String::from("null");
    let (mut ops, mut execs, mut noexec, mut queries, mut nodes) = (0u64, 0u64, 0u64, 0u64, 0u64);
    let mut kinds: HashMap<&'static str, u64> = HashMap::new();
    let threads: usize = std::env::var("QV_THREADS").ok().and_then(|s| s.parse().ok()).unwrap_or(1);
    let mut runtime = rt(threads);
    let mut hangs: Vec<String> = Vec::new();
    let hang_secs: u64 = std::env::var("QV_HANG_SECS").ok().and_then(|s| s.parse().ok()).unwrap_or(20);
    let only: Option<u64> = std::env::var("QV_ONLY").ok().and_then(|s| s.parse().ok());
    for k in 0..n {
        let g = GenCfg { max_nodes: 10, max_ops: 14, allow_fw: !basic && (!cyclic || cyclic_all), allow_proj: !basic && !fwonly && (!cyclic || cyclic_all), allow_ext: !basic && !fwonly, allow_group: !basic && !fwonly && !cyclic_ng, restarts: cfg != "mem", cyclic, layered };
        let s = if gdelay { gen_scenario_gdelay(&mut r) } else if tfcmode { gen_scenario_tfc(&mut r, ptfc || ptfc_chain, ptfc_chain, gtfc || gptfc) } else { gen_scenario(&mut r, &g) };
        if let Some(only) = only { if only != k { continue; } }
        if std::env::var("QV_TRACE_SCN").is_ok() { std::fs::write(format!("{dir}/current.txt"), scenario_coq(&s)).unwrap(); }
        let done = runtime.block_on(async { tokio::time::timeout(Duration::from_secs(hang_secs), run_scenario(&s, &cfg, cyclic)).await });
        let (res, j) = match done {
            Ok(x) => x,
            Err(_) => {
                hangs.push(format!("{{\"index\":{k},\"violation\":\"no progress within 20 s (hang)\",\"scenario\":{:?}}}", scenario_coq(&s)));
                // the runtime still holds the stuck tasks: abandon it
                std::mem::forget(std::mem::replace(&mut runtime, rt(threads)));
                continue;
            }
        };
        ops += s.ops.len() as u64; execs += j.execs; noexec += j.repairs_without_exec; queries += j.queries; nodes += s.prog.exprs.len() as u64;
        for n in s.prog.exprs.keys() { *kinds.entry(match n.kind { Kind::Normal => "normal", Kind::Firewall => "firewall", Kind::Projection => "projection", _ => "other" }).or_default() += 1; }
        let line = if res.iter().any(|x| x.state.is_some()) {
            format!("mkCaseS {} {} [{}] [{}]", if cfg == "mem" { "true" } else { "false" }, scenario_coq(&s), res.iter().map(|x| x.coq()).collect::<Vec<_>>().join("; "), res.iter().map(|x| x.state.clone().unwrap_or_else(|| "[]".into())).collect::<Vec<_>>().join("; "))
        } else {
            format!("mkCase {} [{}]", scenario_coq(&s), res.iter().map(|x| x.coq()).collect::<Vec<_>>().join("; "))
        };
        if !j.violations_c01.is_empty() && c01.len() < 3 { c01.push(format!("{{\"index\":{k},\"violation\":{:?},\"scenario\":{:?}}}", j.violations_c01[0], line)); }
        if !j.violations_c03.is_empty() && c03.len() < 3 { c03.push(format!("{{\"index\":{k},\"violation\":{:?},\"scenario\":{:?}}}", j.violations_c03[0], line)); }
        n_c01 += !j.violations_c01.is_empty() as u64; n_c03 += !j.violations_c03.is_empty() as u64;
        n_cyc_judged += j.judged_cyclic;
        if !j.cyclic_incremental.is_empty() { n_cyc_inc += 1; if cyc_inc_first == "null" { cyc_inc_first = format!("{{\"index\":{k},\"what\":{:?}}}", j.cyclic_incremental[0]); } }
        if !j.known_c03_changeback.is_empty() { n_changeback += 1; if changeback.is_empty() { changeback = format!("{{\"index\":{k},\"what\":{:?},\"scenario\":{:?}}}", j.known_c03_changeback[0], line); } }
        if only.is_some() {
            for (n, e) in &s.prog.exprs { eprintln!("{} := {}", n.short(), e.coq()); }
            for (i, (op, r)) in s.ops.iter().zip(res.iter()).enumerate() {
                eprintln!("step {i}: {:?} -> {:?} dirtied={:?}", op, r.outcome, r.dirtied);
                for e in &r.events { eprintln!("      {:?}", e); }
            }
            eprintln!("C01: {:?}\nC03: {:?}", j.violations_c01, j.violations_c03);
        }
        out[(k as usize) % shards].push(line);
    }
    for (k, lines) in out.iter().enumerate() { std::fs::write(format!("{dir}/shard_{k}.txt"), lines.join("\n") + "\n").unwrap(); }
    println!("{{\"histories\":{n},\"ops\":{ops},\"queries\":{queries},\"executions\":{execs},\"queries_served_without_execution\":{noexec},\"nodes\":{nodes},\"kinds\":{:?},\"n_c01\":{n_c01},\"n_c03\":{n_c03},\"n_changeback\":{n_changeback},\"answers_judged_with_cycle_defaults\":{n_cyc_judged},\"n_cyclic_incremental\":{n_cyc_inc},\"cyclic_incremental_first\":{cyc_inc_first},\"changeback\":{changeback},\"c01\":[{}],\"c03\":[{}],\"hangs\":[{}]}}",
        kinds, c01.join(","), c03.join(","), hangs.join(","));
}

/// F6 / C04 witness search with the public API only: a writer loops
/// set_input(Var0, i); commit; query(Nrm0 = Var0 + 1) while reader tasks loop tracked(); query; drop.
fn f6(args: &[String]) {
    let millis: u64 = args[0].parse().unwrap();
    let readers: usize = args[1].parse().unwrap();
    let mut prog = Program::default();
    prog.exprs.insert(Node { kind: Kind::Normal, idx: 0 }, Expr::Add(Box::new(Expr::Read(Node { kind: Kind::Input, idx: 0 })), Box::new(Expr::Const(1))));
    let w = World::new(prog, 0);
    let runtime = rt(4);
    let (sessions, stale, first) = runtime.block_on(async {
        let engine = open_mem(&w).await;
        { let mut s = engine.input_session().await; s.set_input(Var(0), 0).await; s.commit().await; }
        let stop = Arc::new(AtomicBool::new(false));
        let mut hs = Vec::new();
        for _ in 0..readers {
            let e = engine.clone(); let stop = stop.clone();
            hs.push(tokio::spawn(async move {
                while !stop.load(Ordering::Relaxed) {
                    let t = e.clone().tracked().await;
                    let _ = query_node(&t, Node { kind: Kind::Normal, idx: 0 }).await;
                    drop(t);
                    tokio::task::yield_now().await;
                }
            }));
        }
        let t0 = Instant::now();
        let (mut sessions, mut stale) = (0u64, 0u64);
        let mut first: Option<(i64, i64)> = None;
        let mut i = 0i64;
        while t0.elapsed() < Duration::from_millis(millis) {
            i += 1;
            { let mut s = engine.input_session().await; s.set_input(Var(0), i).await; s.commit().await; }
            let t = engine.clone().tracked().await;
            let v = query_node(&t, Node { kind: Kind::Normal, idx: 0 }).await;
            drop(t);
            sessions += 1;
            if v != i + 1 { stale += 1; if first.is_none() { first = Some((i, v)); } }
        }
        stop.store(true, Ordering::Relaxed);
        for h in hs { let _ = h.await; }
        (sessions, stale, first)
    });
    let _ = AtomicU64::new(0);
    println!("{{\"sessions\":{sessions},\"stale_answers\":{stale},\"first\":{:?}}}", first);
}

/// engine replay <scenario file> <cfg> [cyclic]: run one scenario (the printed `[program] [ops]` form) with a trace
fn replay(args: &[String]) {
    let text = std::fs::read_to_string(&args[0]).unwrap();
    let cfg = args.get(1).cloned().unwrap_or_else(|| "mem".into());
    let cyclic = args.get(2).map(|s| s == "cyclic").unwrap_or(false);
    let s = parse::scenario(&text);
    let threads: usize = std::env::var("QV_THREADS").ok().and_then(|s| s.parse().ok()).unwrap_or(1);
    let runtime = rt(threads);
    let secs: u64 = std::env::var("QV_HANG_SECS").ok().and_then(|s| s.parse().ok()).unwrap_or(20);
    let done = runtime.block_on(async { tokio::time::timeout(Duration::from_secs(secs), run_scenario(&s, &cfg, cyclic)).await });
    match done {
        Ok((res, j)) => {
            for (i, (op, r)) in s.ops.iter().zip(res.iter()).enumerate() { println!("step {i}: {:?} -> {:?} execs={:?}", op, r.outcome, r.events.iter().filter_map(|e| if let Event::Exec(n) = e { Some(n.short()) } else { None }).collect::<Vec<_>>()); }
            println!("C01: {:?}\nC03: {:?}\nknown changeback: {:?}\ncyclic incremental: {:?}", j.violations_c01, j.violations_c03, j.known_c03_changeback, j.cyclic_incremental);
            std::process::exit(if j.violations_c01.is_empty() && j.violations_c03.is_empty() { 0 } else { 1 });
        }
        Err(_) => { println!("HANG: no progress within {secs} s"); std::mem::forget(runtime); std::process::exit(2); }
    }
}

/// F5 / C06 witness: N1 -> N2 -> N1 where N2 keeps a helper task alive after it was unwound by
/// the cycle, so N1 and N2 are both still in computing state with the cyclic edge recorded;
/// a second root N4 -> N2 then runs the cycle search over that computing graph.
fn f5() {
    let mut prog = Program::default();
    let n = |i| Node { kind: Kind::Normal, idx: i };
    prog.exprs.insert(n(1), Expr::Read(n(2)));
    prog.exprs.insert(n(2), Expr::Read(n(1)));
    prog.exprs.insert(n(4), Expr::Read(n(2)));
    let w = World::new(prog, 0);
    w.helper_node.store(node_code(n(2)), Ordering::SeqCst);
    w.helper_hold.store(true, Ordering::SeqCst);
    let runtime = rt(4);
    let out = runtime.block_on(async {
        let engine = open_mem(&w).await;
        { let mut s = engine.input_session().await; s.set_input(Var(0), 0).await; s.commit().await; }
        let e1 = engine.clone();
        let a = tokio::spawn(async move { let t = e1.tracked().await; query_node(&t, Node { kind: Kind::Normal, idx: 1 }).await });
        // wait until N2's executor has run (and was unwound)
        while w.exec_count.load(Ordering::SeqCst) < 2 { tokio::task::yield_now().await; }
        tokio::time::sleep(Duration::from_millis(50)).await;
        let e2 = engine.clone();
        let b = tokio::spawn(async move { let t = e2.tracked().await; query_node(&t, Node { kind: Kind::Normal, idx: 4 }).await });
        tokio::time::sleep(Duration::from_millis(200)).await;
        w.helper_hold.store(false, Ordering::SeqCst);
        let ra = tokio::time::timeout(Duration::from_secs(5), a).await;
        let rb = tokio::time::timeout(Duration::from_secs(5), b).await;
        (format!("{:?}", ra.map(|x| x.map_err(|e| e.to_string()))), format!("{:?}", rb.map(|x| x.map_err(|e| e.to_string()))))
    });
    println!("{{\"root1\":{:?},\"root2\":{:?}}}", out.0, out.1);
    std::process::exit(0);
}

/// C04 oracles on the real engine (public API only):
///  pairs: a writer keeps I0 == I1 (two writes per session; every other session is dropped instead of
///         committed); readers compute N0 = I0 - I1 + 1000*(I0 mod 7) style witnesses and must never see I0 != I1,
///         and after each of its own commits the writer must read its own value back (F6);
///  pinned: a tracked engine that stays alive must keep answering from its snapshot, the session must wait.
thread_local! { static CANCELLED: std::cell::RefCell<Vec<String>> = const { std::cell::RefCell::new(Vec::new()) }; }
fn c04(args: &[String]) {
    let millis: u64 = args[0].parse().unwrap();
    let readers: usize = args[1].parse().unwrap();
    let mut prog = Program::default();
    let i = |k| Node { kind: Kind::Input, idx: k };
    let n = |k| Node { kind: Kind::Normal, idx: k };
    // N0 = I0 - I1 computed through two separate queries N1 = I0, N2 = I1 (so a torn snapshot shows)
    prog.exprs.insert(n(1), Expr::Read(i(0)));
    prog.exprs.insert(n(2), Expr::Read(i(1)));
    prog.exprs.insert(n(0), Expr::Add(Box::new(Expr::Read(n(1))), Box::new(Expr::Mul(Box::new(Expr::Const(-1)), Box::new(Expr::Read(n(2)))))));
    prog.exprs.insert(n(3), Expr::Add(Box::new(Expr::Read(i(0))), Box::new(Expr::Const(1))));
    // a long chain over I0 (its dirt takes a while to travel): used by the cancelled-commit rounds
    const CHAIN: u32 = 250;
    prog.exprs.insert(n(10), Expr::Read(i(0)));
    for j in 1..=CHAIN { prog.exprs.insert(n(10 + j), Expr::Add(Box::new(Expr::Read(n(10 + j - 1))), Box::new(Expr::Const(0)))); }
    let top = n(10 + CHAIN);
    let w = World::new(prog, 0);
    let runtime = tokio::runtime::Builder::new_multi_thread().worker_threads(4).thread_stack_size(256 << 20).enable_all().build().unwrap();
    let out = runtime.block_on(async {
        let engine = open_mem(&w).await;
        { let mut s = engine.input_session().await; s.set_input(Var(0), 0).await; s.set_input(Var(1), 0).await; s.commit().await; }
        let stop = Arc::new(AtomicBool::new(false));
        let torn = Arc::new(AtomicU64::new(0));
        let reads = Arc::new(AtomicU64::new(0));
        let mut hs = Vec::new();
        for _ in 0..readers {
            let e = engine.clone(); let stop = stop.clone(); let torn = torn.clone(); let reads = reads.clone();
            hs.push(tokio::spawn(async move {
                let mut round = 0u64;
                while !stop.load(Ordering::Relaxed) {
                    round += 1;
                    let t = e.clone().tracked().await;
                    // every other round the snapshot is used through a CLONE that outlives the original
                    // handle (as when a tracked engine is moved into spawned tasks): it must pin the snapshot too
                    let t = if round % 2 == 0 { let c = t.clone(); drop(t); tokio::task::yield_now().await; c } else { t };
                    let d = query_node(&t, Node { kind: Kind::Normal, idx: 0 }).await;
                    // also verify the query the writer reads back (a reader that runs at the new
                    // timestamp over the old inputs would leave a stale verified value behind: F6)
                    let n3 = query_node(&t, Node { kind: Kind::Normal, idx: 3 }).await;
                    // the same tracked engine must keep seeing one snapshot
                    let a = query_node(&t, Node { kind: Kind::Input, idx: 0 }).await;
                    let b = query_node(&t, Node { kind: Kind::Input, idx: 1 }).await;
                    if d != 0 || a != b || n3 != a + 1 { torn.fetch_add(1, Ordering::Relaxed); }
                    reads.fetch_add(1, Ordering::Relaxed);
                    drop(t);
                    tokio::task::yield_now().await;
                }
            }));
        }
        let t0 = Instant::now();
        let (mut sessions, mut stale) = (0u64, 0u64);
        let mut k = 0i64;
        while t0.elapsed() < Duration::from_millis(millis) {
            k += 1;
            {
                let mut s = engine.input_session().await;
                s.set_input(Var(0), k).await;
                tokio::task::yield_now().await;
                s.set_input(Var(1), k).await;
                if k % 2 == 0 { s.commit().await; } else { drop(s); }   // a dropped session commits in the background
            }
            let t = engine.clone().tracked().await;
            let v = query_node(&t, Node { kind: Kind::Normal, idx: 3 }).await;
            drop(t);
            sessions += 1;
            if v != k + 1 { stale += 1; }
        }
        stop.store(true, Ordering::Relaxed);
        for h in hs { let _ = h.await; }
        // pinned snapshot
        let pinned = { let orig = engine.clone().tracked().await; let c = orig.clone(); drop(orig); c };   // a clone, the original handle is gone
        let before = query_node(&pinned, Node { kind: Kind::Input, idx: 0 }).await;
        let e2 = engine.clone();
        let writer = tokio::spawn(async move { let mut s = e2.input_session().await; s.set_input(Var(0), -5).await; s.set_input(Var(1), -5).await; s.commit().await; });
        tokio::time::sleep(Duration::from_millis(100)).await;
        let writer_waited = !writer.is_finished();
        let during = query_node(&pinned, Node { kind: Kind::Normal, idx: 3 }).await;   // a query not computed before in this snapshot's epoch? (N3 was) -> still the snapshot's value
        let during_i1 = query_node(&pinned, Node { kind: Kind::Input, idx: 1 }).await;
        drop(pinned);
        let progressed = tokio::time::timeout(Duration::from_secs(5), writer).await.is_ok();
        let t = engine.clone().tracked().await;
        let after = query_node(&t, Node { kind: Kind::Normal, idx: 3 }).await;
        let _ = query_node(&t, top).await;
        drop(t);
        // a commit() whose future is dropped after a few polls (select!, timeout, abort): the session
        // still takes effect all at once - a reader that was waiting in tracked() sees all of it
        let mut cancelled: Vec<String> = Vec::new();
        let rounds = 24i64;
        for round in 1..=rounds {
            let x = 1000 + round;
            let mut s = engine.input_session().await;
            s.set_input(Var(0), x).await;
            s.set_input(Var(1), x).await;
            let e = engine.clone();
            let reader = tokio::spawn(async move {
                let t = e.tracked().await;
                let tv = query_node(&t, top).await;
                let a = query_node(&t, Node { kind: Kind::Input, idx: 0 }).await;
                let d = query_node(&t, Node { kind: Kind::Normal, idx: 0 }).await;
                (tv, a, d)
            });
            tokio::task::yield_now().await;
            {
                let fut = s.commit();
                tokio::pin!(fut);
                let polls = (round % 4) as usize + 1;
                tokio::select! { biased; () = &mut fut => {}, () = async { for _ in 0..polls { tokio::task::yield_now().await; } } => {} }
            }
            match tokio::time::timeout(Duration::from_secs(10), reader).await {
                Ok(Ok((tv, a, d))) => if (tv != a || d != 0) && cancelled.len() < 4 { cancelled.push(format!("round {round}: a reader that waited in tracked() during a cancelled commit() of I0 = I1 = {x} saw I0 = {a}, N{} (= I0 through a chain of {CHAIN} queries) = {tv}, I0 - I1 = {d}", 10 + CHAIN)); },
                _ => { cancelled.push(format!("round {round}: the reader never returned")); break; }
            }
            let t = engine.clone().tracked().await;
            let tv = query_node(&t, top).await;
            if tv != x && cancelled.len() < 4 { cancelled.push(format!("round {round}: after the cancelled commit() of I0 = {x} the chain top is {tv}")); }
        }
        CANCELLED.with(|c| *c.borrow_mut() = cancelled);
        (sessions, stale, torn.load(Ordering::Relaxed), reads.load(Ordering::Relaxed), writer_waited, before, during, during_i1, progressed, after)
    });
    let cancelled = CANCELLED.with(|c| c.borrow().clone());
    println!("{{\"sessions\":{},\"stale_after_own_commit\":{},\"torn_or_unstable_snapshots\":{},\"reader_rounds\":{},\"writer_waited_for_pinned_reader\":{},\"pinned_before\":{},\"pinned_during\":{},\"pinned_during_i1\":{},\"writer_progressed_after_drop\":{},\"after\":{},\"cancelled_commit_rounds\":24,\"cancelled_commit_failures\":{:?}}}",
        out.0, out.1, out.2, out.3, out.4, out.5, out.6, out.7, out.8, out.9, cancelled);
}

/// C08: engine crash <seed> <n>: run a history on a db-backed engine over the logging in-memory
/// store, then reopen an engine on EVERY prefix of the physical commit log and judge it: it opens,
/// shows the inputs of some committed session, answers every query with the from-scratch value for
/// those inputs, and stays usable (a further session + query).
fn crash(args: &[String]) {
    let seed: u64 = args[0].parse().unwrap();
    let n: u64 = args[1].parse().unwrap();
    let mut r = Rng::new(seed);
    let runtime = rt(1);
    let (mut prefixes, mut queries, mut empty, mut commits_total, mut execs_after) = (0u64, 0u64, 0u64, 0u64, 0u64);
    let mut viol: Vec<String> = Vec::new();
    let mut groups: HashMap<u64, u64> = HashMap::new();
    for k in 0..n {
        let g = GenCfg { max_nodes: 8, max_ops: 10, allow_fw: true, allow_proj: true, allow_ext: false, allow_group: true, restarts: true, cyclic: false, layered: false };
        // every other history comes from the structured generator (firewalls, projections over them, normal queries
        // on top): there a request consists of many consecutive logical batches (firewall publication, its dirt, its
        // pending mark, the projections, the queries above), which is where a cut between two of them matters
        let s = if k % 2 == 1 { gen_scenario_tfc(&mut r, true, k % 4 == 3, k % 8 >= 4) } else { gen_scenario(&mut r, &g) };
        let cap = *r.pick(&[1u64, 2, 4, 64]);
        let group_max = if k % 2 == 1 { 1 + r.below(2) } else { r.below(4) };
        *groups.entry(group_max).or_default() += 1;
        let disk = Shared::new();
        disk.group_max.store(group_max, Ordering::SeqCst);
        // inputs after each session, in order
        let mut snaps: Vec<HashMap<u32, i64>> = Vec::new();
        let mut cur: HashMap<u32, i64> = HashMap::new();
        let ok = runtime.block_on(async {
            tokio::time::timeout(Duration::from_secs(30), async {
                let w = World::new(s.prog.clone(), 0);
                let mut engine = open_db(&w, &disk, cap, 2).await;
                for op in &s.ops {
                    if *op == Op::Restart { drop(engine); tokio::task::yield_now().await; engine = open_db(&w, &disk, cap, 2).await; }
                    if let Op::Session { sets, .. } = op { for (v, x) in sets { cur.insert(*v, *x); } snaps.push(cur.clone()); }
                    let _ = run_op(&engine, &w, op).await;
                }
                drop(engine);
            }).await.is_ok()
        });
        if !ok { viol.push(format!("{{\"index\":{k},\"violation\":\"original run hung\",\"scenario\":{:?}}}", scenario_coq(&s))); continue; }
        let total = disk.commits();
        commits_total += total as u64;
        let nodes: Vec<Node> = s.prog.exprs.keys().copied().collect();
        let step = if total > 40 { total / 40 + 1 } else { 1 };
        for cut in (0..=total).step_by(step) {
            let pre = disk.prefix(cut);
            let res = runtime.block_on(async {
                tokio::time::timeout(Duration::from_secs(20), async {
                    let w = World::new(s.prog.clone(), 0);
                    let engine = open_db(&w, &pre, cap, 2).await;
                    // which inputs does the store show?
                    let mut shown: HashMap<u32, i64> = HashMap::new();
                    for i in 0..s.n_inputs {
                        let r = run_op(&engine, &w, &Op::Query(Node { kind: Kind::Input, idx: i })).await;
                        if let Outcome::Value(v) = r.outcome { shown.insert(i, v); }
                    }
                    if shown.is_empty() { return Ok::<(u64, u64, bool), String>((0, 0, true)); }
                    if !snaps.iter().any(|sn| *sn == shown) {
                        return Err(format!("the store shows inputs {:?}, which no committed session produced", shown));
                    }
                    let (mut q, mut ex) = (0u64, 0u64);
                    for nd in &nodes {
                        let r = run_op(&engine, &w, &Op::Query(*nd)).await;
                        q += 1; ex += r.events.iter().filter(|e| matches!(e, Event::Exec(_))).count() as u64;
                        let want = oracle(&s.prog, &shown, &HashMap::new(), *nd, 0);
                        match (&r.outcome, want) {
                            (Outcome::Value(v), Some(wv)) if *v == wv => {}
                            (o, wv) => return Err(format!("query {} after the crash gave {:?}, from-scratch for the shown inputs {:?} is {:?}", nd.short(), o, shown, wv)),
                        }
                    }
                    // still usable: one more session and a query
                    let mut next = shown.clone(); next.insert(0, 17);
                    let _ = run_op(&engine, &w, &Op::Session { sets: vec![(0, 17)], refresh: false }).await;
                    let last = *nodes.last().unwrap();
                    let r = run_op(&engine, &w, &Op::Query(last)).await;
                    let want = oracle(&s.prog, &next, &HashMap::new(), last, 0);
                    if let (Outcome::Value(v), Some(wv)) = (&r.outcome, want) { if *v != wv { return Err(format!("after a further session query {} gave {} instead of {}", last.short(), v, wv)); } }
                    else { return Err(format!("after a further session query {} gave {:?}", last.short(), r.outcome)); }
                    drop(engine);
                    Ok((q, ex, false))
                }).await
            });
            prefixes += 1;
            match res {
                Err(_) => viol.push(format!("{{\"index\":{k},\"cut\":{cut},\"of\":{total},\"violation\":\"engine opened on the prefix hangs\",\"scenario\":{:?}}}", scenario_coq(&s))),
                Ok(Err(e)) => viol.push(format!("{{\"index\":{k},\"cut\":{cut},\"of\":{total},\"cache\":{cap},\"group_max\":{group_max},\"violation\":{:?},\"scenario\":{:?}}}", e, scenario_coq(&s))),
                Ok(Ok((q, ex, e))) => { queries += q; execs_after += ex; if e { empty += 1; } }
            }
            if viol.len() > 5 { break; }
        }
        if viol.len() > 5 { break; }
    }
    println!("{{\"histories\":{n},\"physical_commits\":{commits_total},\"prefixes_reopened\":{prefixes},\"empty_prefixes\":{empty},\"queries_after_crash\":{queries},\"executions_after_crash\":{execs_after},\"group_max_distribution\":\"{:?}\",\"violations\":[{}]}}",
        groups, viol.join(","));
}

/// C05: engine cancel <seed> <n>: histories in which query futures are dropped after a random
/// number of polls (the engine yields at every query), executors panic on request, and commit
/// futures are dropped; every completed query is judged by the from-scratch oracle.
fn cancel(args: &[String]) {
    use std::task::Poll;
    let seed: u64 = args[0].parse().unwrap();
    let n: u64 = args[1].parse().unwrap();
    let mut r = Rng::new(seed);
    let runtime = rt(1);
    let (mut cancelled, mut cancelled_pending, mut panics_injected, mut panics_seen, mut judged, mut commits_dropped) = (0u64, 0u64, 0u64, 0u64, 0u64, 0u64);
    let mut viol: Vec<String> = Vec::new();
    for k in 0..n {
        let g = GenCfg { max_nodes: 9, max_ops: 12, allow_fw: true, allow_proj: true, allow_ext: false, allow_group: true, restarts: false, cyclic: false, layered: false };
        // every other scenario comes from the structured generator (firewalls, projections over them,
        // projections over projections, groups): requests there spend most of their time in
        // transitive-firewall repair and backward projection, which is where a dropped future matters
        let s = if k % 2 == 1 { gen_scenario_tfc(&mut r, true, k % 4 == 3, k % 8 >= 4) } else { gen_scenario(&mut r, &g) };
        let mut rr = r.fork();
        let res = runtime.block_on(async {
            tokio::time::timeout(Duration::from_secs(30), async {
                let w = World::new(s.prog.clone(), 0);
                // in a third of the histories the executors themselves abandon sub-queries and ask again
                w.abandon_every.store(if k % 3 == 2 { 2 + rr.below(3) } else { 0 }, Ordering::SeqCst);
                let engine = open_mem_yielding(&w).await;
                let mut inputs: HashMap<u32, i64> = HashMap::new();
                let nodes: Vec<Node> = s.prog.exprs.keys().copied().collect();
                let mut local = (0u64, 0u64, 0u64, 0u64, 0u64, 0u64);
                for (i, op) in s.ops.iter().enumerate() {
                    match op {
                        Op::Session { sets, .. } => {
                            let mut sess = engine.input_session().await;
                            for (v, x) in sets { sess.set_input(Var(*v), *x).await; inputs.insert(*v, *x); }
                            if rr.chance(1, 3) {
                                // drop the commit future after a few polls: the session must still take effect
                                let fut = sess.commit();
                                tokio::pin!(fut);
                                let polls = rr.below(3);
                                for _ in 0..polls { if let Poll::Ready(_) = futures::poll!(fut.as_mut()) { break; } }
                                local.5 += 1;
                            } else { sess.commit().await; }
                        }
                        Op::Query(nd) => {
                            // 1. maybe a cancelled attempt
                            if rr.chance(1, 2) {
                                let t = engine.clone().tracked().await;
                                let victim = *rr.pick(&nodes);
                                let polls = if rr.chance(1, 3) { rr.below(120) } else { rr.below(25) };
                                {
                                    let fut = query_node(&t, victim);
                                    tokio::pin!(fut);
                                    let mut done = false;
                                    for _ in 0..polls { if let Poll::Ready(_) = futures::poll!(fut.as_mut()) { done = true; break; } }
                                    local.0 += 1; if !done { local.1 += 1; }
                                }
                                drop(t);
                                for _ in 0..rr.below(4) { tokio::task::yield_now().await; }
                            }
                            // 2. maybe an executor panic
                            if rr.chance(1, 4) {
                                let bad = *rr.pick(&nodes);
                                w.panic_node.store(node_code(bad), Ordering::SeqCst);
                                let r1 = run_op(&engine, &w, &Op::Query(*nd)).await;
                                w.panic_node.store(u64::MAX, Ordering::SeqCst);
                                local.2 += 1;
                                let ran = r1.events.iter().any(|e| *e == Event::Exec(bad));
                                match (&r1.outcome, ran) {
                                    (Outcome::Panic(_), true) => { local.3 += 1; }
                                    (Outcome::Value(_), false) => {}
                                    (o, ran) => return Err(format!("step {i}: executor of {} set to panic, it ran = {ran}, but the query outcome was {:?}", bad.short(), o)),
                                }
                            }
                            // 3. the real query, judged
                            let r2 = run_op(&engine, &w, &Op::Query(*nd)).await;
                            let want = oracle(&s.prog, &inputs, &HashMap::new(), *nd, 0);
                            local.4 += 1;
                            match (&r2.outcome, want) {
                                (Outcome::Value(v), Some(wv)) if *v == wv => {}
                                (o, wv) => return Err(format!("step {i}: query {} gave {:?} after cancelled/panicked work, from-scratch is {:?}", nd.short(), o, wv)),
                            }
                            for e in &r2.events {
                                if let Event::Read { by, dep, value } = e {
                                    if oracle(&s.prog, &inputs, &HashMap::new(), *dep, 0) != Some(*value) {
                                        return Err(format!("step {i}: executor of {} was handed {}={} after cancelled/panicked work", by.short(), dep.short(), value));
                                    }
                                }
                            }
                        }
                        _ => {}
                    }
                }
                Ok(local)
            }).await
        });
        match res {
            Err(_) => viol.push(format!("{{\"index\":{k},\"violation\":\"no progress within 30 s after cancelled / panicked work\",\"scenario\":{:?}}}", scenario_coq(&s))),
            Ok(Err(e)) => viol.push(format!("{{\"index\":{k},\"violation\":{:?},\"scenario\":{:?}}}", e, scenario_coq(&s))),
            Ok(Ok(l)) => { cancelled += l.0; cancelled_pending += l.1; panics_injected += l.2; panics_seen += l.3; judged += l.4; commits_dropped += l.5; }
        }
        if viol.len() > 5 { break; }
    }
    println!("{{\"histories\":{n},\"cancelled_attempts\":{cancelled},\"cancelled_while_pending\":{cancelled_pending},\"panics_injected\":{panics_injected},\"panics_reached_caller\":{panics_seen},\"commit_futures_dropped\":{commits_dropped},\"queries_judged\":{judged},\"violations\":[{}]}}", viol.join(","));
}

/// C02: engine fanin <cfg> <k> <rounds> <threads>: k callers C_i = M + i of one callee M = I0 (+ a firewall
/// variant) are computed concurrently from many tasks on a multi-thread runtime, then I0 changes and
/// every caller must follow (a lost backward edge shows as a stale caller); executors of one key must
/// never overlap; every round must finish.
fn fanin(args: &[String]) {
    let cfg = args[0].clone();
    let k: u32 = args[1].parse().unwrap();
    let rounds: u64 = args[2].parse().unwrap();
    let threads: usize = args[3].parse().unwrap();
    // round r has its own callee M_r = I0 + r (even r: normal, odd r: firewall F_r = (I0 + r) mod 1000)
    // and k fresh callers C_{r,i} = callee + i, so that every round crosses the 32-caller threshold anew
    let mut prog = Program::default();
    let callee = |r: u64| if r % 2 == 0 { Node { kind: Kind::Normal, idx: (r * 10_000) as u32 } } else { Node { kind: Kind::Firewall, idx: r as u32 } };
    let caller = |r: u64, i: u32| Node { kind: Kind::Normal, idx: (r * 10_000) as u32 + i };
    for r in 0..rounds {
        let body = Expr::Add(Box::new(Expr::Read(Node { kind: Kind::Input, idx: 0 })), Box::new(Expr::Const(r as i64)));
        prog.exprs.insert(callee(r), if r % 2 == 0 { body } else { Expr::Mod(Box::new(body), 1000) });
        for i in 1..=k { prog.exprs.insert(caller(r, i), Expr::Add(Box::new(Expr::Read(callee(r))), Box::new(Expr::Const(i as i64)))); }
    }
    let w = World::new(prog, 0);
    w.exec_yields.store(1, Ordering::Relaxed);
    let runtime = rt(threads);
    let (stale, hung, rounds_done) = runtime.block_on(async {
        let disk = Shared::new();
        enum E { M(Arc<qbice::Engine<MemCfg>>), D(Arc<qbice::Engine<DbCfg>>) }
        let engine = if let Some(cap) = cfg.strip_prefix("db:") { E::D(open_db(&w, &disk, cap.parse().unwrap(), 2).await) } else { E::M(open_mem(&w).await) };
        let (mut stale, mut hung, mut done) = (Vec::new(), 0u64, 0u64);
        let mut x = 1i64;
        for round in 0..rounds {
            for phase in 0..2 {
                x += 7;
                match &engine {
                    E::M(e) => { let mut s = e.input_session().await; s.set_input(Var(0), x).await; s.commit().await; }
                    E::D(e) => { let mut s = e.input_session().await; s.set_input(Var(0), x).await; s.commit().await; }
                }
                let mut hs = Vec::new();
                for i in 1..=k {
                    let node = caller(round, i);
                    let h = match &engine {
                        E::M(e) => { let e = e.clone(); tokio::spawn(async move { let t = e.tracked().await; query_node(&t, node).await }) }
                        E::D(e) => { let e = e.clone(); tokio::spawn(async move { let t = e.tracked().await; query_node(&t, node).await }) }
                    };
                    hs.push((i, h));
                }
                for (i, h) in hs {
                    match tokio::time::timeout(Duration::from_secs(30), h).await {
                        Ok(Ok(v)) => {
                            let base = if round % 2 == 0 { x + round as i64 } else { (x + round as i64).rem_euclid(1000) };
                            if v != base + i as i64 && stale.len() < 5 { stale.push(format!("round {round} phase {phase}: caller {} = {v}, expected {}", caller(round, i).short(), base + i as i64)); }
                        }
                        _ => { hung += 1; }
                    }
                }
                if hung > 0 { break; }
            }
            done += 1;
            if hung > 0 { break; }
        }
        (stale, hung, done)
    });
    println!("{{\"cfg\":{:?},\"fan_in\":{k},\"rounds\":{rounds_done},\"threads\":{threads},\"stale_callers\":{:?},\"requests_not_completed\":{hung},\"executors_of_one_key_overlapping\":{},\"executions\":{}}}",
        cfg, stale, w.concurrent_same_key.load(Ordering::SeqCst), w.exec_count.load(Ordering::SeqCst));
    std::process::exit(0);
}

/// C06 witness: a cycle that forms a diamond among COMPUTING queries: Root requests Left and Right
/// from two spawned tasks, both wait on Shared, Shared -> Back -> Root closes the cycle while Right is
/// already waiting.  Every one of the five queries lies on a cycle and must get its default (-1).
fn diamond() {
    let n = |i| Node { kind: Kind::Normal, idx: i };
    let (root, left, right, shared, back) = (n(0), n(1), n(2), n(3), n(4));
    let mut prog = Program::default();
    let plus = |e: Expr, c: i64| Expr::Add(Box::new(e), Box::new(Expr::Const(c)));
    prog.exprs.insert(root, Expr::Spawn(vec![left, right]));
    prog.exprs.insert(left, plus(Expr::Read(shared), 1000));
    prog.exprs.insert(right, plus(Expr::Delay(80, Box::new(Expr::Read(shared))), 2000));
    prog.exprs.insert(shared, plus(Expr::Read(back), 3000));
    prog.exprs.insert(back, plus(Expr::Delay(400, Box::new(Expr::Read(root))), 4000));
    let runtime = rt(4);
    let mut rounds = Vec::new();
    for _ in 0..3 {
        let w = World::new(prog.clone(), 0);
        let out = runtime.block_on(async {
            tokio::time::timeout(Duration::from_secs(20), async {
                let engine = open_mem(&w).await;
                { let mut s = engine.input_session().await; s.set_input(Var(0), 0).await; s.commit().await; }
                let mut vals = Vec::new();
                for nd in [root, left, right, shared, back] {
                    let r = run_op(&engine, &w, &Op::Query(nd)).await;
                    vals.push(match r.outcome { Outcome::Value(v) => v, _ => i64::MIN });
                }
                vals
            }).await
        });
        rounds.push(out.unwrap_or_else(|_| vec![i64::MAX]));
    }
    let ok = rounds.iter().all(|v| *v == vec![-1, -1, -1, -1, -1]);
    // a 3-cycle Head -> Mid -> Tail -> Head whose head reads Mid and three slow off-cycle siblings from
    // spawned tasks: when Tail asks for Head, the cycle search walks Head's callees, of which only one
    // reaches the target while the others are still computing.  12 independent key sets, so that the
    // iteration order of the callee map cannot hide a wrong accumulation of the answers.
    let mut prog3 = Program::default();
    let mut heads = Vec::new();
    for k in 0..12u32 {
        let b = 100 + 10 * k;
        let (head, mid, tail, s1, s2, s3) = (n(b), n(b + 1), n(b + 2), n(b + 3), n(b + 4), n(b + 5));
        prog3.exprs.insert(head, Expr::Spawn(vec![s1, mid, s2, s3]));
        prog3.exprs.insert(mid, plus(Expr::Read(tail), 1));
        prog3.exprs.insert(tail, plus(Expr::Delay(40, Box::new(Expr::Read(head))), 2));
        for (j, sn) in [s1, s2, s3].into_iter().enumerate() { prog3.exprs.insert(sn, Expr::Delay(250, Box::new(Expr::Const(7 + j as i64)))); }
        heads.push((head, mid, tail));
    }
    let w3 = World::new(prog3, 0);
    let tri = runtime.block_on(async {
        let engine = open_mem(&w3).await;
        { let mut s = engine.input_session().await; s.set_input(Var(0), 0).await; s.commit().await; }
        let mut bad = Vec::new();
        for (k, (head, mid, tail)) in heads.iter().enumerate() {
            let r = tokio::time::timeout(Duration::from_secs(8), async {
                let mut vals = Vec::new();
                for nd in [*head, *mid, *tail] { let r = run_op(&engine, &w3, &Op::Query(nd)).await; vals.push(match r.outcome { Outcome::Value(v) => v, _ => i64::MIN }); }
                vals
            }).await;
            match r { Ok(v) if v == vec![-1, -1, -1] => {}, Ok(v) => bad.push(format!("key {k}: (Head, Mid, Tail) = {v:?}, expected the cycle defaults [-1, -1, -1]")), Err(_) => { bad.push(format!("key {k}: the evaluation of Head hangs")); break; } }
        }
        bad
    });
    // a query that only READS a cycle member, requested concurrently while the member is known to be
    // on the cycle but still computing (it waits for a slow off-cycle sibling): the reader is outside
    // the cycle and evaluates from the member's default.
    let (cyc_a, cyc_b, slow, reader) = (n(500), n(501), n(502), n(503));
    let mut prog4 = Program::default();
    prog4.exprs.insert(cyc_a, Expr::Spawn(vec![cyc_b, slow]));
    prog4.exprs.insert(cyc_b, plus(Expr::Read(cyc_a), 20));
    prog4.exprs.insert(slow, Expr::Delay(700, Box::new(Expr::Const(7))));
    prog4.exprs.insert(reader, plus(Expr::Read(cyc_a), 1000));
    let mut rd = Vec::new();
    for round in 0..3 {
        let w4 = World::new(prog4.clone(), 0);
        let r = runtime.block_on(async {
            tokio::time::timeout(Duration::from_secs(20), async {
                let engine = open_mem(&w4).await;
                { let mut s = engine.input_session().await; s.set_input(Var(0), 0).await; s.commit().await; }
                let ha = { let e = engine.clone(); tokio::spawn(async move { let t = e.tracked().await; query_node(&t, cyc_a).await }) };
                tokio::time::sleep(Duration::from_millis(250)).await;
                let hr = { let e = engine.clone(); tokio::spawn(async move { let t = e.tracked().await; query_node(&t, reader).await }) };
                let a = ha.await.unwrap_or(i64::MIN);
                let r = hr.await.unwrap_or(i64::MIN);
                let t = engine.tracked().await;
                let b = query_node(&t, cyc_b).await;
                let r2 = query_node(&t, reader).await;
                vec![a, b, r, r2]
            }).await
        });
        match r { Ok(v) if v == vec![-1, -1, 999, 999] => {}, Ok(v) => rd.push(format!("round {round}: (CycA, CycB, Reader requested concurrently, Reader again) = {v:?}, expected [-1, -1, 999, 999]: Reader = CycA + 1000 only reads the cycle CycA <-> CycB")), Err(_) => rd.push(format!("round {round}: hangs")) }
    }
    let ok = ok && tri.is_empty() && rd.is_empty();
    println!("{{\"all_defaults\":{ok},\"rounds\":{:?},\"three_cycle_with_concurrent_siblings\":{:?},\"concurrent_reader_of_cycle_member\":{:?}}}", rounds, tri, rd);
    std::process::exit(0);
}

/// F9 / C07 witness: an input session is requested while a re-computation is in flight, the
/// computation finishes (its write batch removes the dirty mark of the edge it has just followed),
/// the session then changes the same input (its batch sets that mark again) and commits; after a
/// clean shutdown and reopening, the query must be recomputed.  If the session's batch is created
/// before the session holds the exclusive phase lock, it is OLDER than the computation's batch, the
/// store applies "set mark" before "remove mark", the mark is lost and the reopened engine serves
/// the old value.  `engine f9 <rounds>` prints {"stale": n, "rounds": n, "first": ...}.
fn f9(args: &[String]) {
    let rounds: u64 = args.first().and_then(|s| s.parse().ok()).unwrap_or(6);
    let n0 = Node { kind: Kind::Normal, idx: 0 };
    let mut prog = Program::default();
    prog.exprs.insert(n0, Expr::Mul(Box::new(Expr::Read(Node { kind: Kind::Input, idx: 0 })), Box::new(Expr::Const(10))));
    let runtime = rt(2);
    let (mut stale, mut first) = (0u64, String::from("null"));
    for round in 0..rounds {
        let w = World::new(prog.clone(), 0);
        let disk = Shared::new();
        let cap = [1u64, 2, 64][(round % 3) as usize];
        let got = runtime.block_on(async {
            let engine = open_db(&w, &disk, cap, 2).await;
            { let mut s = engine.input_session().await; s.set_input(Var(0), 1).await; s.commit().await; }
            { let t = engine.clone().tracked().await; let _ = query_node(&t, n0).await; }
            { let mut s = engine.input_session().await; s.set_input(Var(0), 2).await; s.commit().await; }
            // the re-computation of N0, held inside its executor
            w.stall_node.store(node_code(n0), Ordering::SeqCst);
            w.stall.store(true, Ordering::SeqCst);
            let before = w.exec_count.load(Ordering::SeqCst);
            let e1 = engine.clone();
            let t1 = tokio::spawn(async move { let t = e1.tracked().await; let r = query_node(&t, n0).await; drop(t); r });
            let t0 = Instant::now();
            while w.exec_count.load(Ordering::SeqCst) == before && t0.elapsed() < Duration::from_secs(10) { tokio::time::sleep(Duration::from_millis(1)).await; }
            // the session is requested now and waits for the exclusive lock
            let e2 = engine.clone();
            let t2 = tokio::spawn(async move { let mut s = e2.input_session().await; s.set_input(Var(0), 3).await; s.commit().await; });
            tokio::time::sleep(Duration::from_millis(30)).await;
            w.stall.store(false, Ordering::SeqCst);
            let mid = t1.await.unwrap();
            t2.await.unwrap();
            drop(engine);
            tokio::task::yield_now().await;
            let engine = open_db(&w, &disk, cap, 2).await;
            let t = engine.clone().tracked().await;
            let after = query_node(&t, n0).await;
            drop(t); drop(engine);
            (format!("{mid:?}"), format!("{after:?}"))
        });
        if !got.1.contains("30") { stale += 1; if first == "null" { first = format!("{{\"round\":{round},\"cache\":{cap},\"during\":{:?},\"after_reopen\":{:?},\"expected\":\"30\"}}", got.0, got.1); } }
    }
    println!("{{\"rounds\":{rounds},\"stale\":{stale},\"first\":{first}}}");
}

fn main() {
    let args: Vec<String> = std::env::args().collect();
    if std::env::var("QV_PANIC_TRACE").is_err() { std::panic::set_hook(Box::new(|_| {})); }
    if std::env::var("QV_TRACING").is_ok() {
        use tracing_subscriber::fmt::format::FmtSpan;
        tracing_subscriber::fmt().with_max_level(tracing::Level::DEBUG).with_span_events(FmtSpan::NEW | FmtSpan::CLOSE).with_writer(std::io::stderr).without_time().init();
    }
    match args[1].as_str() {
        "hist" => hist(&args[2..]),
        "f6" => f6(&args[2..]),
        "replay" => replay(&args[2..]),
        "f5" => f5(),
        "f9" => f9(&args[2..]),
        "diamond" => diamond(),
        "c04" => c04(&args[2..]),
        "crash" => crash(&args[2..]),
        "fanin" => fanin(&args[2..]),
        "cancel" => cancel(&args[2..]),
        m => panic!("unknown mode {m}"),
    }
}
