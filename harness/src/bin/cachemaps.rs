//! C09 correspondence: drive the real cached maps (CacheSingleMap, CacheDynamicMap,
//! CacheKeyOfSetMap over WriteBehind) through operation sequences in which the background
//! steps are placed by a gated in-memory database, and emit what happened as Coq terms
//! for `Cache/Check.v`.  Every read is also judged against a plain reference map here
//! (the property's own oracle, independent of the model).
//!
//! usage: cachemaps <out_dir> <seed> <quick|thorough> <shards>
//! writes <out_dir>/shard_<k>.txt (one `case` per line) and prints ONE json line.
//!
//! Public API only.  What is observable of the un-pin notifications: the after-commit
//! thread drains the batch's own copies of the written values/elements (instrumented
//! `Drop`), then blocks in `recv` again (thread state `S` in /proc); the harness waits for
//! both before it issues the next operation, so "after-commit of batch b has completed"
//! is a placed step.  Evictions are inferred from reads that reach the database.
use std::{
    any::TypeId,
    cell::Cell,
    collections::{BTreeMap, BTreeSet, BinaryHeap, HashMap},
    io::Write as _,
    sync::{
        Arc, Condvar, Mutex,
        atomic::{AtomicBool, AtomicU64, Ordering::SeqCst},
    },
    time::{Duration, Instant},
};

use dashmap::DashSet;
use futures::executor::block_on;
use qbice_serialize::{Decode, Decoder, Encode, Encoder, Plugin, postcard, session::Session};
use qbice_stable_type_id::Identifiable;
use qbice_storage::{
    dynamic_map::{DynamicMap, cache::CacheDynamicMap},
    key_of_set_map::{ConcurrentSet, KeyOfSetMap, cache::CacheKeyOfSetMap},
    kv_database::{
        DiscriminantEncoding, KeyOfSetColumn, KvDatabase, SerializationBuffer, WideColumn, WideColumnValue,
        WriteBatch,
    },
    single_map::{SingleMap, cache::CacheSingleMap},
    write_manager::write_behind::{self, WriteBehind},
};
use qv_harness::rng::Rng;

// ---------------------------------------------------------------------------------------
// instrumentation
// ---------------------------------------------------------------------------------------
thread_local! { static IS_FG: Cell<bool> = const { Cell::new(false) }; }
/// copies (made by `clone`) of values/elements dropped on a thread the harness does not drive
static BG_DROPS: AtomicU64 = AtomicU64::new(0);
/// `C::default()` calls of the harness' set type = number of `fetch_entry` runs
static SET_FETCHES: AtomicU64 = AtomicU64::new(0);

fn note_drop(is_clone: bool) {
    if is_clone && !IS_FG.with(|f| f.get()) {
        BG_DROPS.fetch_add(1, SeqCst);
    }
}

#[derive(Debug, Clone, PartialEq, Eq, PartialOrd, Ord, Encode, Decode)]
pub struct Key(pub u64);
// ---- hash gate: the armed thread parks inside its n-th `Hash::hash` of Key(7) -----------
thread_local! { static HG_ARM: Cell<u64> = const { Cell::new(0) }; static HG_CNT: Cell<u64> = const { Cell::new(0) }; }
static HG: Mutex<(bool, bool)> = Mutex::new((false, false)); // (parked, release)
static HG_CV: Condvar = Condvar::new();
impl std::hash::Hash for Key {
    fn hash<H: std::hash::Hasher>(&self, h: &mut H) {
        if self.0 == 7 {
            let c = HG_CNT.with(|c| { c.set(c.get() + 1); c.get() });
            let n = HG_ARM.with(|a| a.get());
            if n != 0 && c == n {
                let mut g = HG.lock().unwrap();
                g.0 = true;
                HG_CV.notify_all();
                while !g.1 { g = HG_CV.wait(g).unwrap(); }
                g.1 = false; g.0 = false;
            }
        }
        self.0.hash(h)
    }
}


/// value of the single map (T = 0) and the two value types of the multi-type map (T = 1, 2)
#[derive(Debug)]
pub struct V<const T: u8> { v: u64, cl: bool }
impl<const T: u8> V<T> { fn new(v: u64) -> Self { V { v, cl: false } } }
impl<const T: u8> Clone for V<T> { fn clone(&self) -> Self { V { v: self.v, cl: true } } }
impl<const T: u8> Drop for V<T> { fn drop(&mut self) { note_drop(self.cl); } }
impl<const T: u8> Encode for V<T> {
    fn encode<E: Encoder + ?Sized>(&self, e: &mut E, p: &Plugin, s: &mut Session) -> std::io::Result<()> {
        self.v.encode(e, p, s)
    }
}
impl<const T: u8> Decode for V<T> {
    fn decode<D: Decoder + ?Sized>(d: &mut D, p: &Plugin, s: &mut Session) -> std::io::Result<Self> {
        Ok(V { v: u64::decode(d, p, s)?, cl: false })
    }
}

/// set element; encoded as 8 big-endian bytes so that the store scans in numeric order
#[derive(Debug)]
pub struct Elem { v: u64, cl: bool }
impl Elem { fn new(v: u64) -> Self { Elem { v, cl: false } } }
impl Clone for Elem { fn clone(&self) -> Self { Elem { v: self.v, cl: true } } }
impl Drop for Elem { fn drop(&mut self) { note_drop(self.cl); } }
impl PartialEq for Elem { fn eq(&self, o: &Self) -> bool { self.v == o.v } }
impl Eq for Elem {}
impl std::hash::Hash for Elem { fn hash<H: std::hash::Hasher>(&self, h: &mut H) { self.v.hash(h) } }
impl PartialOrd for Elem { fn partial_cmp(&self, o: &Self) -> Option<std::cmp::Ordering> { Some(self.cmp(o)) } }
impl Ord for Elem { fn cmp(&self, o: &Self) -> std::cmp::Ordering { self.v.cmp(&o.v) } }
impl Encode for Elem {
    fn encode<E: Encoder + ?Sized>(&self, e: &mut E, _p: &Plugin, _s: &mut Session) -> std::io::Result<()> {
        for b in self.v.to_be_bytes() { e.emit_u8(b)?; }
        Ok(())
    }
}
impl Decode for Elem {
    fn decode<D: Decoder + ?Sized>(d: &mut D, p: &Plugin, s: &mut Session) -> std::io::Result<Self> {
        let mut x = [0u8; 8];
        for b in x.iter_mut() { *b = u8::decode(d, p, s)?; }
        Ok(Elem { v: u64::from_be_bytes(x), cl: false })
    }
}

#[derive(Debug, Clone, Copy, PartialEq, Eq, PartialOrd, Ord, Hash, Default, Identifiable)]
pub struct SingCol;
impl WideColumn for SingCol {
    type Discriminant = u8;
    type Key = Key;
    fn discriminant_encoding() -> DiscriminantEncoding { DiscriminantEncoding::Prefixed }
}
impl WideColumnValue<SingCol> for V<0> { fn discriminant() -> u8 { 0 } }

#[derive(Debug, Clone, Copy, PartialEq, Eq, PartialOrd, Ord, Hash, Default, Identifiable)]
pub struct DynCol;
impl WideColumn for DynCol {
    type Discriminant = u8;
    type Key = Key;
    fn discriminant_encoding() -> DiscriminantEncoding { DiscriminantEncoding::Suffixed }
}
impl WideColumnValue<DynCol> for V<1> { fn discriminant() -> u8 { 1 } }
impl WideColumnValue<DynCol> for V<2> { fn discriminant() -> u8 { 2 } }

#[derive(Debug, Clone, Copy, PartialEq, Eq, PartialOrd, Ord, Hash, Default, Identifiable)]
pub struct SetCol;
impl KeyOfSetColumn for SetCol { type Key = Key; type Element = Elem; }

/// ordered set: iteration order = numeric order (what the model assumes of the set type)
#[derive(Clone)]
pub struct OrdSet(Arc<Mutex<BTreeSet<Elem>>>);
impl Default for OrdSet {
    fn default() -> Self { SET_FETCHES.fetch_add(1, SeqCst); OrdSet(Arc::new(Mutex::new(BTreeSet::new()))) }
}
impl ConcurrentSet for OrdSet {
    type Element = Elem;
    type Iterator<'x> = std::vec::IntoIter<Elem>;
    fn insert_element(&self, e: Elem) -> bool { self.0.lock().unwrap().insert(e) }
    fn remove_element(&self, e: &Elem) -> bool { self.0.lock().unwrap().remove(e) }
    fn len(&self) -> usize { self.0.lock().unwrap().len() }
    fn iter(&self) -> Self::Iterator<'_> { self.0.lock().unwrap().iter().cloned().collect::<Vec<_>>().into_iter() }
}

// ---------------------------------------------------------------------------------------
// gated in-memory database
// ---------------------------------------------------------------------------------------
#[derive(Clone, Debug)]
enum DbOp {
    Put(u64, Vec<u8>, Vec<u8>, Vec<u8>),
    Del(u64, Vec<u8>, Vec<u8>),
    Ins(u64, Vec<u8>, Vec<u8>),
    Rem(u64, Vec<u8>, Vec<u8>),
}
#[derive(Default)]
struct Store {
    wide: BTreeMap<(u64, Vec<u8>, Vec<u8>), Vec<u8>>,
    sets: BTreeMap<(u64, Vec<u8>), BTreeSet<Vec<u8>>>,
}
#[derive(Default)]
struct GateSt { gated: bool, apply_permits: u64, return_permits: u64, arrived: u64, applied: u64, returned: u64 }
struct Shared {
    store: Mutex<Store>,
    gate: Mutex<GateSt>,
    cv: Condvar,
    wide_reads: AtomicU64,
    scans: AtomicU64,
    plugin: Plugin,
    /// read-side rendezvous (fill races): a read of this wide key / the next scan parks after
    /// it has taken its answer from the store, until released
    hold: Mutex<HoldSt>,
    hold_cv: Condvar,
}
#[derive(Default)]
struct HoldSt { wide_key: Option<Vec<u8>>, scan_armed: bool, waiting: bool, release: bool }
#[derive(Clone)]
pub struct GatedDb(Arc<Shared>);

fn col_id<T: 'static>() -> u64 {
    use std::hash::{Hash, Hasher};
    let mut h = std::collections::hash_map::DefaultHasher::new();
    TypeId::of::<T>().hash(&mut h);
    h.finish()
}
impl GatedDb {
    fn new(gated: bool) -> Self {
        GatedDb(Arc::new(Shared {
            store: Mutex::new(Store::default()),
            gate: Mutex::new(GateSt { gated, ..Default::default() }),
            cv: Condvar::new(),
            wide_reads: AtomicU64::new(0),
            scans: AtomicU64::new(0),
            plugin: Plugin::new(),
            hold: Mutex::new(HoldSt::default()),
            hold_cv: Condvar::new(),
        }))
    }
    fn enc<T: Encode>(&self, v: &T) -> Vec<u8> { postcard::encode(v, &self.0.plugin).expect("encode") }
    /// let the commit thread apply the next physical batch; returns once the store shows it
    fn make_visible(&self) {
        let mut g = self.0.gate.lock().unwrap();
        let target = g.applied + 1;
        g.apply_permits += 1;
        self.0.cv.notify_all();
        let t0 = Instant::now();
        while g.applied < target {
            let (g2, _) = self.0.cv.wait_timeout(g, Duration::from_millis(200)).unwrap();
            g = g2;
            assert!(t0.elapsed() < Duration::from_secs(60), "commit thread never arrived at the gate");
        }
    }
    /// let `commit` return (the after-commit notifications follow asynchronously)
    fn let_return(&self) {
        let mut g = self.0.gate.lock().unwrap();
        let target = g.returned + 1;
        g.return_permits += 1;
        self.0.cv.notify_all();
        let t0 = Instant::now();
        while g.returned < target {
            let (g2, _) = self.0.cv.wait_timeout(g, Duration::from_millis(200)).unwrap();
            g = g2;
            assert!(t0.elapsed() < Duration::from_secs(60), "commit never returned");
        }
    }
    fn park_reader(&self) {
        let mut h = self.0.hold.lock().unwrap();
        h.waiting = true;
        self.0.hold_cv.notify_all();
        while !h.release { h = self.0.hold_cv.wait(h).unwrap(); }
        h.release = false;
        h.waiting = false;
    }
    fn wait_reader_parked(&self) {
        let mut h = self.0.hold.lock().unwrap();
        let t0 = Instant::now();
        while !h.waiting {
            let (h2, _) = self.0.hold_cv.wait_timeout(h, Duration::from_millis(100)).unwrap();
            h = h2;
            assert!(t0.elapsed() < Duration::from_secs(30), "reader never reached the store");
        }
    }
    fn release_reader(&self) {
        let mut h = self.0.hold.lock().unwrap();
        h.release = true;
        self.0.hold_cv.notify_all();
    }
    fn open_gates(&self) {
        let mut g = self.0.gate.lock().unwrap();
        g.gated = false;
        self.0.cv.notify_all();
    }
}
pub struct Buf { ops: Vec<DbOp>, db: GatedDb }
impl SerializationBuffer for Buf {
    fn put<W: WideColumn, C: WideColumnValue<W>>(&mut self, key: &W::Key, value: &C) {
        let op = DbOp::Put(col_id::<W>(), self.db.enc(&C::discriminant()), self.db.enc(key), self.db.enc(value));
        self.ops.push(op);
    }
    fn delete<W: WideColumn, C: WideColumnValue<W>>(&mut self, key: &W::Key) {
        let op = DbOp::Del(col_id::<W>(), self.db.enc(&C::discriminant()), self.db.enc(key));
        self.ops.push(op);
    }
    fn insert_member<C: KeyOfSetColumn>(&mut self, key: &C::Key, value: &C::Element) {
        let op = DbOp::Ins(col_id::<C>(), self.db.enc(key), self.db.enc(value));
        self.ops.push(op);
    }
    fn delete_member<C: KeyOfSetColumn>(&mut self, key: &C::Key, value: &C::Element) {
        let op = DbOp::Rem(col_id::<C>(), self.db.enc(key), self.db.enc(value));
        self.ops.push(op);
    }
}
pub struct Batch { buf: Buf }
impl WriteBatch for Batch {
    type SerializationBuffer = Buf;
    fn put<W: WideColumn, C: WideColumnValue<W>>(&mut self, key: &W::Key, value: &C) { self.buf.put::<W, C>(key, value); }
    fn delete<W: WideColumn, C: WideColumnValue<W>>(&mut self, key: &W::Key) { self.buf.delete::<W, C>(key); }
    fn insert_member<C: KeyOfSetColumn>(&mut self, key: &C::Key, value: &C::Element) { self.buf.insert_member::<C>(key, value); }
    fn delete_member<C: KeyOfSetColumn>(&mut self, key: &C::Key, value: &C::Element) { self.buf.delete_member::<C>(key, value); }
    fn consume_serialization_buffer(&mut self, buffer: Buf) { self.buf.ops.extend(buffer.ops); }
    fn commit(self) {
        let sh = self.buf.db.0.clone();
        {
            let mut g = sh.gate.lock().unwrap();
            g.arrived += 1;
            sh.cv.notify_all();
            while g.gated && g.apply_permits == 0 { g = sh.cv.wait(g).unwrap(); }
            if g.gated { g.apply_permits -= 1; }
        }
        {
            let mut st = sh.store.lock().unwrap();
            for op in &self.buf.ops {
                match op.clone() {
                    DbOp::Put(c, d, k, v) => { st.wide.insert((c, d, k), v); }
                    DbOp::Del(c, d, k) => { st.wide.remove(&(c, d, k)); }
                    DbOp::Ins(c, k, e) => { st.sets.entry((c, k)).or_default().insert(e); }
                    DbOp::Rem(c, k, e) => { if let Some(s) = st.sets.get_mut(&(c, k)) { s.remove(&e); } }
                }
            }
        }
        let mut g = sh.gate.lock().unwrap();
        g.applied += 1;
        sh.cv.notify_all();
        while g.gated && g.return_permits == 0 { g = sh.cv.wait(g).unwrap(); }
        if g.gated { g.return_permits -= 1; }
        g.returned += 1;
        sh.cv.notify_all();
    }
    fn should_write_more(&self) -> bool { false }
}
impl KvDatabase for GatedDb {
    type WriteBatch = Batch;
    type SerializationBuffer = Buf;
    type ScanMemberIterator<C: KeyOfSetColumn> = std::vec::IntoIter<C::Element>;
    fn get_wide_column<W: WideColumn, C: WideColumnValue<W>>(&self, key: &W::Key) -> Option<C> {
        self.0.wide_reads.fetch_add(1, SeqCst);
        let k = (col_id::<W>(), self.enc(&C::discriminant()), self.enc(key));
        let bytes = self.0.store.lock().unwrap().wide.get(&k).cloned();
        let held = { let mut h = self.0.hold.lock().unwrap(); if h.wide_key.as_ref() == Some(&k.2) { h.wide_key = None; true } else { false } };
        if held { self.park_reader(); }
        Some(postcard::decode::<C>(&bytes?, &self.0.plugin).expect("decode"))
    }
    fn scan_members<C: KeyOfSetColumn>(&self, key: &C::Key) -> Self::ScanMemberIterator<C> {
        self.0.scans.fetch_add(1, SeqCst);
        let k = (col_id::<C>(), self.enc(key));
        let v: Vec<C::Element> = self.0.store.lock().unwrap().sets.get(&k)
            .map(|s| s.iter().map(|b| postcard::decode::<C::Element>(b, &self.0.plugin).expect("decode")).collect())
            .unwrap_or_default();
        let held = { let mut h = self.0.hold.lock().unwrap(); std::mem::replace(&mut h.scan_armed, false) };
        if held { self.park_reader(); }
        v.into_iter()
    }
    fn write_batch(&self) -> Batch { Batch { buf: Buf { ops: Vec::new(), db: self.clone() } } }
    fn serialization_buffer(&self) -> Buf { Buf { ops: Vec::new(), db: self.clone() } }
}

// ---------------------------------------------------------------------------------------
// the after-commit thread: find it, wait until it is idle again
// ---------------------------------------------------------------------------------------
fn threads_named(prefix: &str) -> Vec<u64> {
    let mut v = Vec::new();
    if let Ok(rd) = std::fs::read_dir("/proc/self/task") {
        for e in rd.flatten() {
            let tid: u64 = match e.file_name().to_string_lossy().parse() { Ok(t) => t, Err(_) => continue };
            if let Ok(c) = std::fs::read_to_string(e.path().join("comm")) {
                if c.trim().starts_with(prefix) { v.push(tid); }
            }
        }
    }
    v
}
fn thread_state(tid: u64) -> Option<char> {
    let s = std::fs::read_to_string(format!("/proc/self/task/{tid}/stat")).ok()?;
    let rest = &s[s.rfind(')')? + 1..];
    rest.trim_start().chars().next()
}
static AC_FALLBACK: AtomicU64 = AtomicU64::new(0);

struct Rig {
    db: GatedDb,
    wb: Option<WriteBehind<GatedDb>>,
    ac_tid: Option<u64>,
}
impl Drop for Rig {
    fn drop(&mut self) { self.db.open_gates(); }
}
impl Rig {
    fn new(gated: bool) -> Self {
        let before: BTreeSet<u64> = threads_named("bg_writer_after").into_iter().collect();
        let db = GatedDb::new(gated);
        let wb = WriteBehind::new(&db, 2);
        let t0 = Instant::now();
        let mut ac_tid = None;
        while ac_tid.is_none() && t0.elapsed() < Duration::from_millis(300) {
            ac_tid = threads_named("bg_writer_after").into_iter().find(|t| !before.contains(t));
        }
        Rig { db, wb: Some(wb), ac_tid }
    }
    fn wb(&self) -> &WriteBehind<GatedDb> { self.wb.as_ref().unwrap() }
    /// commit returns; wait until the after-commit of that batch has completed
    fn return_and_notify(&self, nonempty: bool) {
        let d0 = BG_DROPS.load(SeqCst);
        self.db.let_return();
        let t0 = Instant::now();
        if nonempty {
            while BG_DROPS.load(SeqCst) == d0 {
                std::hint::spin_loop();
                if t0.elapsed() > Duration::from_secs(5) {
                    let info = { let g = self.db.0.gate.lock().unwrap(); (g.arrived, g.applied, g.returned) };
                    panic!("after-commit never dropped the batch's values: drops {} (arrived, applied, returned) {:?} ac {:?} state {:?}",
                        BG_DROPS.load(SeqCst), info, self.ac_tid, self.ac_tid.and_then(thread_state));
                }
            }
        }
        match self.ac_tid {
            Some(tid) => {
                // the thread only computes between its first drop and the next `recv`
                let mut calm = 0;
                let mut last = BG_DROPS.load(SeqCst);
                while calm < 3 {
                    let st = thread_state(tid);
                    let now = BG_DROPS.load(SeqCst);
                    if st == Some('S') && now == last { calm += 1; } else { calm = 0; }
                    last = now;
                    std::thread::sleep(Duration::from_micros(30));
                    assert!(t0.elapsed() < Duration::from_secs(30), "after-commit thread never went idle");
                }
            }
            None => { AC_FALLBACK.fetch_add(1, SeqCst); std::thread::sleep(Duration::from_millis(3)); }
        }
    }
    /// open the gates, submit what is still open, shut the writer down
    fn finish(mut self, open: Vec<write_behind::WriteBatch<GatedDb>>) {
        self.db.open_gates();
        for b in open { self.wb().submit_write_batch(b); }
        drop(self.wb.take());
    }
}

// ---------------------------------------------------------------------------------------
// wide maps: single + multi-type
// ---------------------------------------------------------------------------------------
struct Wide {
    single: CacheSingleMap<SingCol, V<0>, GatedDb>,
    dynm: CacheDynamicMap<DynCol, GatedDb>,
}
type WB = write_behind::WriteBatch<GatedDb>;
impl Wide {
    fn new(cap: u64, db: &GatedDb) -> Self {
        Wide { single: CacheSingleMap::new(cap, db.clone()), dynm: CacheDynamicMap::new(cap, db.clone()) }
    }
    // model key = 4 * key + tag; tag 0 = single map, 1 / 2 = the two value types of the multi-type map
    fn get(&self, mk: u64) -> Option<u64> {
        let k = Key(mk / 4);
        match mk % 4 {
            0 => block_on(self.single.get(&k)).map(|v| v.v),
            1 => block_on(self.dynm.get::<V<1>>(&k)).map(|v| v.v),
            _ => block_on(self.dynm.get::<V<2>>(&k)).map(|v| v.v),
        }
    }
    fn insert(&self, mk: u64, v: u64, b: &mut WB) {
        let k = Key(mk / 4);
        match mk % 4 {
            0 => block_on(self.single.insert(k, V::<0>::new(v), b)),
            1 => block_on(self.dynm.insert(k, V::<1>::new(v), b)),
            _ => block_on(self.dynm.insert(k, V::<2>::new(v), b)),
        }
    }
    fn remove(&self, mk: u64, b: &mut WB) {
        let k = Key(mk / 4);
        match mk % 4 {
            0 => block_on(self.single.remove(&k, b)),
            1 => block_on(self.dynm.remove::<V<1>>(&k, b)),
            _ => block_on(self.dynm.remove::<V<2>>(&k, b)),
        }
    }
}

fn opt(v: Option<u64>) -> String { match v { Some(x) => format!("(Some {x})"), None => "None".into() } }
fn nlist(v: &[u64]) -> String { format!("[{}]", v.iter().map(|x| x.to_string()).collect::<Vec<_>>().join(";")) }

#[derive(Default)]
struct Stats {
    wide_cases: u64, wide_ops: u64, wide_gets: u64, wide_misses: u64, wide_gets_in_window: u64, wide_gets_pinned: u64,
    wide_neg_hits: u64, wide_unordered_cases: u64, wide_commits: u64, wide_notifies: u64,
    set_cases: u64, set_ops: u64, set_gets: u64, set_fetches: u64, set_big_cases: u64, set_spilled_gets: u64,
    set_gets_in_window: u64, set_ref_mismatch_cases: u64, set_unordered_cases: u64,
    heap_cases: u64, heap_ops: u64,
    by_cap: BTreeMap<u64, u64>,
    ref_fail: Vec<String>,
    set_ref_mismatch: Vec<String>,
}

struct BatchSlot<B> { epoch: u64, batch: Option<B>, submitted: bool, keys: BTreeSet<u64> }

/// one wide-map case; returns the Coq term
fn wide_case(r: &mut Rng, cap: u64, len: usize, unordered: bool, st: &mut Stats) -> String {
    let rig = Rig::new(true);
    let maps = Wide::new(cap, &rig.db);
    let nhot = r.range(3, 6);
    let hot: Vec<u64> = (0..nhot).map(|i| { let k = r.below(4); 4 * k + (i % 3) }).collect();
    let mut tr: Vec<String> = Vec::new();
    let mut slots: Vec<BatchSlot<WB>> = Vec::new();      // live (not yet committed) batches, epoch ascending
    let mut window: Option<(u64, bool)> = None;          // batch applied to the store whose commit has not returned
    let mut next_epoch = 0u64;
    let mut refm: HashMap<u64, Option<u64>> = HashMap::new();
    let mut hi: HashMap<u64, u64> = HashMap::new();
    let mut pinned: HashMap<u64, i64> = HashMap::new();  // harness' own count, for the distribution only
    let mut ordered = true;
    let mut val = 1u64;
    for _ in 0..len {
        let c = r.below(100);
        if c < 34 || slots.is_empty() && c < 60 {
            // read: hot key mostly, cold key to churn the cache
            let burst = if r.chance(1, 12) { r.range(8, 40) } else { 1 };
            for _ in 0..burst {
                let k = if burst > 1 || r.chance(1, 4) { 4 * r.range(50, 110) + r.below(3) } else { *r.pick(&hot) };
                let before = rig.db.0.wide_reads.load(SeqCst);
                let got = maps.get(k);
                let miss = rig.db.0.wide_reads.load(SeqCst) > before;
                st.wide_gets += 1;
                if miss { st.wide_misses += 1; }
                if window.is_some() { st.wide_gets_in_window += 1; }
                if pinned.get(&k).copied().unwrap_or(0) > 0 { st.wide_gets_pinned += 1; }
                let want = refm.get(&k).copied().flatten();
                if !miss && got.is_none() { st.wide_neg_hits += 1; }
                if ordered && got != want && st.ref_fail.len() < 5 {
                    st.ref_fail.push(format!("wide get key {k}: got {got:?}, reference {want:?}; trace so far: [{}; WGet {k} ...]", tr.join("; ")));
                }
                tr.push(format!("WGet {k} {} {}", opt(got), miss));
            }
        } else if c < 62 {
            // write
            let k = *r.pick(&hot);
            let lo = hi.get(&k).copied();
            let cands: Vec<usize> = slots.iter().enumerate()
                .filter(|(_, s)| !s.submitted && (unordered || lo.map_or(true, |e| s.epoch >= e)))
                .map(|(i, _)| i).collect();
            if cands.is_empty() { continue; }
            let i = *r.pick(&cands);
            let e = slots[i].epoch;
            if lo.map_or(false, |x| e < x) { ordered = false; }
            if lo.map_or(true, |x| e > x) { hi.insert(k, e); }
            if slots[i].keys.insert(k) { *pinned.entry(k).or_insert(0) += 1; }
            let b = slots[i].batch.as_mut().unwrap();
            if r.chance(2, 3) {
                maps.insert(k, val, b);
                refm.insert(k, Some(val));
                tr.push(format!("WIns {e} {k} {val}"));
                val += 1;
            } else {
                maps.remove(k, b);
                refm.insert(k, None);
                tr.push(format!("WRem {e} {k}"));
            }
        } else if c < 72 {
            if slots.iter().filter(|s| !s.submitted).count() >= 3 { continue; }
            slots.push(BatchSlot { epoch: next_epoch, batch: Some(rig.wb().new_write_batch()), submitted: false, keys: BTreeSet::new() });
            next_epoch += 1;
            tr.push("WNew".into());
        } else if c < 82 {
            let cands: Vec<usize> = slots.iter().enumerate().filter(|(_, s)| !s.submitted).map(|(i, _)| i).collect();
            if cands.is_empty() { continue; }
            let i = *r.pick(&cands);
            slots[i].submitted = true;
            let mut b = slots[i].batch.take().unwrap();
            // every batch carries one value of its own (a key nobody else writes): its drop on the
            // after-commit thread is the signal that the notifications of this batch have started
            let sk = 4 * (10_000 + slots[i].epoch);
            maps.insert(sk, val, &mut b);
            slots[i].keys.insert(sk);
            tr.push(format!("WIns {} {sk} {val}", slots[i].epoch));
            val += 1;
            rig.wb().submit_write_batch(b);
            tr.push(format!("WSub {}", slots[i].epoch));
        } else if c < 91 {
            // the store gets the next batch
            if window.is_some() || slots.first().map_or(true, |s| !s.submitted) { continue; }
            let s = slots.remove(0);
            rig.db.make_visible();
            window = Some((s.epoch, !s.keys.is_empty()));
            st.wide_commits += 1;
            tr.push("WCommit".into());
            // remember the keys for the notification
            NOTIFY_KEYS.with(|n| n.borrow_mut().insert(s.epoch, s.keys.clone()));
        } else {
            let Some((e, nonempty)) = window.take() else { continue };
            rig.return_and_notify(nonempty);
            if let Some(ks) = NOTIFY_KEYS.with(|n| n.borrow_mut().remove(&e)) {
                for k in ks { *pinned.entry(k).or_insert(0) -= 1; }
            }
            st.wide_notifies += 1;
            tr.push(format!("WNotify {e}"));
        }
    }
    st.wide_ops += tr.len() as u64;
    st.wide_cases += 1;
    if !ordered { st.wide_unordered_cases += 1; }
    *st.by_cap.entry(cap).or_insert(0) += 1;
    let open: Vec<WB> = slots.into_iter().filter_map(|s| s.batch).collect();
    drop(maps);
    rig.finish(open);
    format!("WCase [{}]", tr.join("; "))
}
thread_local! { static NOTIFY_KEYS: std::cell::RefCell<HashMap<u64, BTreeSet<u64>>> = std::cell::RefCell::new(HashMap::new()); }

// ---------------------------------------------------------------------------------------
// key -> set map
// ---------------------------------------------------------------------------------------
type SetMap<C> = CacheKeyOfSetMap<SetCol, C, GatedDb>;
fn set_get<C: ConcurrentSet<Element = Elem> + Send + Sync>(m: &SetMap<C>, k: u64) -> Vec<u64> {
    let key = Key(k);
    let it = block_on(m.get(&key));
    let mut v: Vec<u64> = it.map(|e| e.v).collect();
    v.sort_unstable();
    v.dedup();
    v
}

struct SetScript { preload: Vec<(u64, u64)>, big: bool }

fn set_case(r: &mut Rng, cap: u64, len: usize, script: SetScript, unordered: bool, st: &mut Stats) -> String {
    let rig = Rig::new(true);
    let map: SetMap<OrdSet> = CacheKeyOfSetMap::new(cap, rig.db.clone());
    let nhot = r.range(3, 4);
    let hot: Vec<u64> = (0..nhot).collect();
    let universe = if script.big { 1200 } else { r.range(4, 12) };
    let mut tr: Vec<String> = Vec::new();
    let mut slots: Vec<BatchSlot<WB>> = Vec::new();
    let mut window: Option<(u64, bool)> = None;
    let mut next_epoch = 0u64;
    let mut refm: HashMap<u64, BTreeSet<u64>> = HashMap::new();
    let mut hi: HashMap<u64, u64> = HashMap::new();
    let mut ordered = true;
    let mut mismatch = false;
    // preload: one batch, committed and notified before anything is read
    if !script.preload.is_empty() {
        let mut b = rig.wb().new_write_batch();
        tr.push("ONew".into());
        for (k, x) in &script.preload {
            block_on(map.insert(Key(*k), Elem::new(*x), &mut b));
            refm.entry(*k).or_default().insert(*x);
            hi.insert(*k, 0);
            tr.push(format!("OIns 0 {k} {x}"));
        }
        rig.wb().submit_write_batch(b);
        tr.push("OSub 0".into());
        rig.db.make_visible();
        tr.push("OCommit".into());
        rig.return_and_notify(true);
        tr.push("ONotify 0".into());
        next_epoch = 1;
    }
    for _ in 0..len {
        let c = r.below(100);
        if c < 30 || slots.is_empty() && c < 55 {
            let k = if r.chance(1, 8) { r.range(20, 60) } else { *r.pick(&hot) };
            let f0 = SET_FETCHES.load(SeqCst);
            let got = set_get(&map, k);
            let miss = SET_FETCHES.load(SeqCst) > f0;
            st.set_gets += 1;
            if miss { st.set_fetches += 1; }
            if window.is_some() { st.set_gets_in_window += 1; }
            let want: Vec<u64> = refm.get(&k).map(|s| s.iter().copied().collect()).unwrap_or_default();
            if miss && want.len() > 1024 { st.set_spilled_gets += 1; }
            if ordered && got != want {
                mismatch = true;
                if st.set_ref_mismatch.len() < 8 {
                    let (a, b): (BTreeSet<u64>, BTreeSet<u64>) = (got.iter().copied().collect(), want.iter().copied().collect());
                    st.set_ref_mismatch.push(format!("set get key {k}: {} elements, reference {}; missing {:?} extra {:?}",
                        got.len(), want.len(), b.difference(&a).take(6).collect::<Vec<_>>(), a.difference(&b).take(6).collect::<Vec<_>>()));
                }
            }
            tr.push(format!("OGet {k} {} {}", nlist(&got), miss));
        } else if c < 64 {
            let k = *r.pick(&hot);
            let lo = hi.get(&k).copied();
            let cands: Vec<usize> = slots.iter().enumerate()
                .filter(|(_, s)| !s.submitted && (unordered || lo.map_or(true, |e| s.epoch >= e)))
                .map(|(i, _)| i).collect();
            if cands.is_empty() { continue; }
            let i = *r.pick(&cands);
            let e = slots[i].epoch;
            if lo.map_or(false, |x| e < x) { ordered = false; }
            if lo.map_or(true, |x| e > x) { hi.insert(k, e); }
            slots[i].keys.insert(k);
            let b = slots[i].batch.as_mut().unwrap();
            // in big cases touch existing members and fresh ones around the threshold
            let x = if script.big && r.chance(1, 2) { 5000 + r.below(40) } else { r.below(universe) };
            if r.chance(3, 5) {
                block_on(map.insert(Key(k), Elem::new(x), b));
                refm.entry(k).or_default().insert(x);
                tr.push(format!("OIns {e} {k} {x}"));
            } else {
                block_on(map.remove(&Key(k), &Elem::new(x), b));
                refm.entry(k).or_default().remove(&x);
                tr.push(format!("ORem {e} {k} {x}"));
            }
        } else if c < 74 {
            if slots.iter().filter(|s| !s.submitted).count() >= 3 { continue; }
            slots.push(BatchSlot { epoch: next_epoch, batch: Some(rig.wb().new_write_batch()), submitted: false, keys: BTreeSet::new() });
            next_epoch += 1;
            tr.push("ONew".into());
        } else if c < 83 {
            let cands: Vec<usize> = slots.iter().enumerate().filter(|(_, s)| !s.submitted).map(|(i, _)| i).collect();
            if cands.is_empty() { continue; }
            let i = *r.pick(&cands);
            slots[i].submitted = true;
            let b = slots[i].batch.take().unwrap();
            rig.wb().submit_write_batch(b);
            tr.push(format!("OSub {}", slots[i].epoch));
        } else if c < 92 {
            if window.is_some() || slots.first().map_or(true, |s| !s.submitted) { continue; }
            let s = slots.remove(0);
            rig.db.make_visible();
            window = Some((s.epoch, !s.keys.is_empty()));
            tr.push("OCommit".into());
        } else {
            let Some((e, nonempty)) = window.take() else { continue };
            rig.return_and_notify(nonempty);
            tr.push(format!("ONotify {e}"));
        }
    }
    st.set_ops += tr.len() as u64;
    st.set_cases += 1;
    if script.big { st.set_big_cases += 1; }
    if !ordered { st.set_unordered_cases += 1; }
    if mismatch { st.set_ref_mismatch_cases += 1; }
    let open: Vec<WB> = slots.into_iter().filter_map(|s| s.batch).collect();
    drop(map);
    rig.finish(open);
    format!("SCase [{}]", tr.join("; "))
}

// ---------------------------------------------------------------------------------------
// the staging heap against std's BinaryHeap (array order)
// ---------------------------------------------------------------------------------------
struct HEnt { epoch: u64, seq: u64 }
impl PartialEq for HEnt { fn eq(&self, o: &Self) -> bool { self.epoch == o.epoch } }
impl Eq for HEnt {}
impl PartialOrd for HEnt { fn partial_cmp(&self, o: &Self) -> Option<std::cmp::Ordering> { Some(self.cmp(o)) } }
impl Ord for HEnt { fn cmp(&self, o: &Self) -> std::cmp::Ordering { self.epoch.cmp(&o.epoch) } }

fn heap_case(r: &mut Rng, st: &mut Stats) -> String {
    let mut h: BinaryHeap<HEnt> = BinaryHeap::new();
    let mut ops = Vec::new();
    let mut seq = 0;
    let n = r.range(1, 40);
    let mut base = 0u64;
    for _ in 0..n {
        if r.chance(4, 5) {
            let e = if r.chance(3, 4) { base + r.below(4) } else { r.below(base + 6) };
            if r.chance(1, 3) { base += 1; }
            h.push(HEnt { epoch: e, seq });
            seq += 1;
            ops.push(format!("HPush {e}"));
        } else {
            let e = r.below(base + 3);
            while let Some(p) = h.peek() { if p.epoch <= e { h.pop(); } else { break; } }
            ops.push(format!("HFlush {e}"));
        }
    }
    st.heap_cases += 1;
    st.heap_ops += ops.len() as u64;
    let arr: Vec<String> = h.iter().map(|x| format!("({},{})", x.epoch, x.seq)).collect();
    format!("HCase [{}] [{}]", ops.join("; "), arr.join("; "))
}

// ---------------------------------------------------------------------------------------
// witnesses of the recorded findings, on the real code with the real threshold
// ---------------------------------------------------------------------------------------
/// F2: 1025 members in the store, key not cached, one staged remove.
fn witness_f2<C: ConcurrentSet<Element = Elem> + Send + Sync>(removed: u64) -> (usize, usize, String) {
    let rig = Rig::new(true);
    let map: SetMap<C> = CacheKeyOfSetMap::new(8, rig.db.clone());
    let mut tr = vec!["ONew".to_string()];
    let mut b = rig.wb().new_write_batch();
    for x in 0..1025u64 { block_on(map.insert(Key(0), Elem::new(x), &mut b)); tr.push(format!("OIns 0 0 {x}")); }
    rig.wb().submit_write_batch(b);
    rig.db.make_visible();
    rig.return_and_notify(true);
    tr.extend(["OSub 0".to_string(), "OCommit".into(), "ONotify 0".into(), "ONew".into()]);
    let mut b1 = rig.wb().new_write_batch();
    block_on(map.remove(&Key(0), &Elem::new(removed), &mut b1));
    tr.push(format!("ORem 1 0 {removed}"));
    let got = set_get(&map, 0);
    tr.push(format!("OGet 0 {} true", nlist(&got)));
    drop(map);
    rig.finish(vec![b1]);
    (got.len(), 1024, format!("SCase [{}]", tr.join("; ")))
}
/// F3: x committed; batch 1 removes x and is applied to the store (after-commit not run); batch 2 inserts x.
fn witness_f3() -> (Vec<u64>, Vec<u64>, String) {
    let rig = Rig::new(true);
    let map: SetMap<OrdSet> = CacheKeyOfSetMap::new(8, rig.db.clone());
    let mut b0 = rig.wb().new_write_batch();
    block_on(map.insert(Key(0), Elem::new(5), &mut b0));
    rig.wb().submit_write_batch(b0);
    rig.db.make_visible();
    rig.return_and_notify(true);
    let mut b1 = rig.wb().new_write_batch();
    let mut b2 = rig.wb().new_write_batch();
    block_on(map.remove(&Key(0), &Elem::new(5), &mut b1));
    block_on(map.insert(Key(0), Elem::new(5), &mut b2));
    rig.wb().submit_write_batch(b1);
    rig.db.make_visible();
    let got = set_get(&map, 0);
    let term = format!("SCase [ONew; OIns 0 0 5; OSub 0; OCommit; ONotify 0; ONew; ONew; ORem 1 0 5; OIns 2 0 5; OSub 1; OCommit; OGet 0 {} true]", nlist(&got));
    drop(map);
    rig.finish(vec![b2]);
    (got, vec![5], term)
}
/// F3, second form: no background step at all; three open batches insert, remove, insert x.
fn witness_f3b() -> (Vec<u64>, Vec<u64>, String) {
    let rig = Rig::new(true);
    let map: SetMap<OrdSet> = CacheKeyOfSetMap::new(8, rig.db.clone());
    let mut b0 = rig.wb().new_write_batch();
    let mut b1 = rig.wb().new_write_batch();
    let mut b2 = rig.wb().new_write_batch();
    block_on(map.insert(Key(0), Elem::new(5), &mut b0));
    block_on(map.remove(&Key(0), &Elem::new(5), &mut b1));
    block_on(map.insert(Key(0), Elem::new(5), &mut b2));
    let got = set_get(&map, 0);
    let term = format!("SCase [ONew; ONew; ONew; OIns 0 0 5; ORem 1 0 5; OIns 2 0 5; OGet 0 {} true]", nlist(&got));
    drop(map);
    rig.finish(vec![b0, b1, b2]);
    (got, vec![5], term)
}
/// the hypothesis of C09_wide_ryw on the real code: the younger batch writes first
fn witness_unordered() -> (Option<u64>, Option<u64>, String) {
    let rig = Rig::new(true);
    let maps = Wide::new(1, &rig.db);
    let mut b0 = rig.wb().new_write_batch();
    let mut b1 = rig.wb().new_write_batch();
    maps.insert(28, 1, &mut b1);
    maps.insert(28, 2, &mut b0);
    rig.wb().submit_write_batch(b0);
    rig.wb().submit_write_batch(b1);
    rig.db.make_visible();
    rig.return_and_notify(true);
    rig.db.make_visible();
    rig.return_and_notify(true);
    // churn the cache until the entry is gone
    let mut tr = vec!["WNew; WNew; WIns 1 28 1; WIns 0 28 2; WSub 0; WSub 1; WCommit; WNotify 0; WCommit; WNotify 1".to_string()];
    let mut got = None;
    for round in 0..60 {
        for c in 0..40u64 {
            let k = 4 * (200 + 40 * round + c);
            let before = rig.db.0.wide_reads.load(SeqCst);
            let g = maps.get(k);
            tr.push(format!("WGet {k} {} {}", opt(g), rig.db.0.wide_reads.load(SeqCst) > before));
        }
        let before = rig.db.0.wide_reads.load(SeqCst);
        got = maps.get(28);
        let miss = rig.db.0.wide_reads.load(SeqCst) > before;
        tr.push(format!("WGet 28 {} {}", opt(got), miss));
        if miss { break; }
    }
    drop(maps);
    rig.finish(vec![]);
    (got, Some(2), format!("WCase [{}]", tr.join("; ")))
}

/// set fill race (public API only): a reader misses, takes its staging snapshot, scans the store
/// and is parked; a writer inserts x (log updated, value cache still vacant: nothing to update);
/// the reader installs the set it built.  A read that starts after all of that misses x.
fn witness_fill_race_set() -> (Vec<u64>, Vec<u64>) {
    // three forms: the racing operation is the first one of its batch on the key; it is a later
    // one (the batch has already written the key: `updated` is false for it); it is a remove
    for form in 0..3 {
        let rig = Rig::new(true);
        let map: Arc<SetMap<OrdSet>> = Arc::new(CacheKeyOfSetMap::new(8, rig.db.clone()));
        let mut b = rig.wb().new_write_batch();
        let mut want = vec![7];
        if form >= 1 {
            // the batch touches the key before the reader starts; evict nothing: the value cache is still vacant
            block_on(map.insert(Key(0), Elem::new(3), &mut b));
            want = vec![3, 7];
        }
        if form == 2 { block_on(map.insert(Key(0), Elem::new(9), &mut b)); }
        rig.db.0.hold.lock().unwrap().scan_armed = true;
        let m2 = map.clone();
        let reader = std::thread::spawn(move || { IS_FG.with(|f| f.set(true)); set_get(&m2, 0) });
        rig.db.wait_reader_parked();
        block_on(map.insert(Key(0), Elem::new(7), &mut b));
        if form == 2 { block_on(map.remove(&Key(0), &Elem::new(9), &mut b)); }
        rig.db.release_reader();
        let _overlapping = reader.join().unwrap();
        let mut got = set_get(&map, 0);
        got.sort();
        drop(map);
        rig.finish(vec![b]);
        if got != want { return (got, want); }
    }
    (vec![7], vec![7])
}
/// wide fill race (F8, public API only): a reader misses and reads "absent" from the store, parked;
/// a writer inserts v, the batch becomes durable, is notified, the entry is evicted (cold reads);
/// the reader installs its stale answer into the vacant slot.
fn witness_fill_race_wide() -> (Option<u64>, Option<u64>, u64) {
    let rig = Rig::new(true);
    let maps = Arc::new(Wide::new(1, &rig.db));
    let k = 4 * 7;
    rig.db.0.hold.lock().unwrap().wide_key = Some(rig.db.enc(&Key(7)));
    let m2 = maps.clone();
    let reader = std::thread::spawn(move || { IS_FG.with(|f| f.set(true)); m2.get(k) });
    rig.db.wait_reader_parked();
    let mut b = rig.wb().new_write_batch();
    maps.insert(k, 1, &mut b);
    rig.wb().submit_write_batch(b);
    rig.db.make_visible();
    rig.return_and_notify(true);
    let mut churn = 0;
    for c in 0..4000u64 { let _ = maps.get(4 * (300 + c)); churn += 1; }
    rig.db.release_reader();
    let _overlapping = reader.join().unwrap();
    let got = maps.get(k);
    drop(maps);
    rig.finish(vec![]);
    (got, Some(1), churn)
}

/// The writer of key 7 is parked inside its n-th hash of the key (between `fetch_add` and
/// `tiny_lfu.entry` for the right n); a reader starts, misses, reads "absent" and is parked after the
/// store read; the writer goes on, the batch becomes durable, is notified, the entry is evicted;
/// the reader installs.  Returns (hash calls of the insert, writer parked, reader reached the store, final get).
fn witness_guard_race(n: u64) -> (u64, bool, bool, Option<u64>) {
    let rig = Rig::new(true);
    let maps = Arc::new(Wide::new(1, &rig.db));
    let k = 4 * 7;
    let (tx, rx) = std::sync::mpsc::channel::<()>();
    let m1 = maps.clone();
    let mut b = rig.wb().new_write_batch();
    let writer = std::thread::spawn(move || {
        IS_FG.with(|f| f.set(true));
        HG_CNT.with(|c| c.set(0));
        HG_ARM.with(|a| a.set(n));
        m1.insert(k, 1, &mut b);
        HG_ARM.with(|a| a.set(0));
        let calls = HG_CNT.with(|c| c.get());
        let _ = tx.send(());
        (b, calls)
    });
    // wait until the writer is parked or done
    let t0 = Instant::now();
    let mut parked = false;
    loop {
        if HG.lock().unwrap().0 { parked = true; break; }
        if rx.try_recv().is_ok() { break; }
        assert!(t0.elapsed() < Duration::from_secs(20), "writer neither parked nor done");
        std::thread::sleep(Duration::from_micros(50));
    }
    let mut reader = None;
    let mut at_store = false;
    if parked {
        rig.db.0.hold.lock().unwrap().wide_key = Some(rig.db.enc(&Key(7)));
        let m2 = maps.clone();
        let h = std::thread::spawn(move || { IS_FG.with(|f| f.set(true)); m2.get(k) });
        // parked after the store read, or returned (a hit)
        let t1 = Instant::now();
        loop {
            if rig.db.0.hold.lock().unwrap().waiting { at_store = true; break; }
            if h.is_finished() { break; }
            if t1.elapsed() > Duration::from_secs(3) { break; }   // blocked on the entry lock of the parked writer
            std::thread::sleep(Duration::from_micros(50));
        }
        reader = Some(h);
        { let mut g = HG.lock().unwrap(); g.1 = true; HG_CV.notify_all(); }
    }
    let (b, calls) = writer.join().unwrap();
    if !at_store {
        if let Some(h) = &reader {
            let t1 = Instant::now();
            while !h.is_finished() && !rig.db.0.hold.lock().unwrap().waiting && t1.elapsed() < Duration::from_secs(3) {
                std::thread::sleep(Duration::from_micros(50));
            }
        }
    }
    rig.wb().submit_write_batch(b);
    rig.db.make_visible();
    rig.return_and_notify(true);
    for c in 0..4000u64 { let _ = maps.get(4 * (300 + c)); }
    rig.db.0.hold.lock().unwrap().wide_key = None;
    rig.db.release_reader();
    if let Some(h) = reader { let _ = h.join().unwrap(); }
    { let mut hh = rig.db.0.hold.lock().unwrap(); hh.release = false; }
    let got = maps.get(k);
    drop(maps);
    rig.finish(vec![]);
    (calls, parked, at_store, got)
}

// ---------------------------------------------------------------------------------------
// parallel readers / single writer on shared keys (free-running database)
// ---------------------------------------------------------------------------------------
struct ParOut { reads: u64, stale: u64, future: u64, non_monotonic: u64, first: Option<String>, set_reads: u64, set_bad: u64 }

fn parallel(seed: u64, cap: u64, writes: u64, readers: usize) -> ParOut {
    let rig = Rig::new(false);
    let single: Arc<CacheSingleMap<SingCol, V<0>, GatedDb>> = Arc::new(CacheSingleMap::new(cap, rig.db.clone()));
    let setm: Arc<SetMap<OrdSet>> = Arc::new(CacheKeyOfSetMap::new(cap, rig.db.clone()));
    const NK: usize = 4;
    let started: Arc<Vec<AtomicU64>> = Arc::new((0..NK).map(|_| AtomicU64::new(0)).collect());
    let done: Arc<Vec<AtomicU64>> = Arc::new((0..NK).map(|_| AtomicU64::new(0)).collect());
    let set_started = Arc::new(AtomicU64::new(0));
    let set_done = Arc::new(AtomicU64::new(0));
    let stop = Arc::new(AtomicBool::new(false));
    let out = Arc::new(Mutex::new(ParOut { reads: 0, stale: 0, future: 0, non_monotonic: 0, first: None, set_reads: 0, set_bad: 0 }));
    let mut hs = Vec::new();
    for t in 0..readers {
        let (single, setm, started, done, stop, out) = (single.clone(), setm.clone(), started.clone(), done.clone(), stop.clone(), out.clone());
        let (set_started, set_done) = (set_started.clone(), set_done.clone());
        hs.push(std::thread::spawn(move || {
            IS_FG.with(|f| f.set(true));
            let mut r = Rng::new(seed ^ (t as u64 + 1) * 7919);
            let mut last = [0u64; NK];
            let (mut reads, mut stale, mut future, mut nonmono, mut set_reads, mut set_bad) = (0, 0, 0, 0, 0, 0);
            let mut first = None;
            while !stop.load(SeqCst) {
                if r.chance(1, 3) {
                    // cold read: churn the cache
                    let _ = block_on(single.get(&Key(1000 + r.below(64))));
                    continue;
                }
                if r.chance(1, 6) {
                    // the set key only grows: {1..=n}; a read must contain everything inserted
                    // before it started and nothing not yet started
                    let lo = set_done.load(SeqCst);
                    let got = set_get(&setm, 0);
                    let hi = set_started.load(SeqCst);
                    set_reads += 1;
                    let ok = (1..=lo).all(|x| got.binary_search(&x).is_ok()) && got.iter().all(|x| *x >= 1 && *x <= hi);
                    if !ok { set_bad += 1; if first.is_none() { first = Some(format!("set read: inserted-before {lo}, started {hi}, got {} elements", got.len())); } }
                    continue;
                }
                let k = r.below(NK as u64) as usize;
                let lo = done[k].load(SeqCst);
                let got = block_on(single.get(&Key(k as u64))).map_or(0, |v| v.v);
                let hi = started[k].load(SeqCst);
                reads += 1;
                if got < lo { stale += 1; if first.is_none() { first = Some(format!("key {k}: write {lo} had returned before the read started, read returned {got}")); } }
                if got > hi { future += 1; }
                if got < last[k] { nonmono += 1; if first.is_none() { first = Some(format!("key {k}: this reader saw {} and later {got}", last[k])); } }
                last[k] = last[k].max(got);
            }
            let mut o = out.lock().unwrap();
            o.reads += reads; o.stale += stale; o.future += future; o.non_monotonic += nonmono;
            o.set_reads += set_reads; o.set_bad += set_bad;
            if o.first.is_none() { o.first = first; }
        }));
    }
    let mut r = Rng::new(seed);
    let mut setn = 0u64;
    for i in 1..=writes {
        let mut b = rig.wb().new_write_batch();
        let n = r.range(1, 3);
        for _ in 0..n {
            let k = r.below(NK as u64) as usize;
            started[k].store(i, SeqCst);
            block_on(single.insert(Key(k as u64), V::<0>::new(i), &mut b));
            done[k].store(i, SeqCst);
        }
        if r.chance(1, 4) {
            setn += 1;
            set_started.store(setn, SeqCst);
            block_on(setm.insert(Key(0), Elem::new(setn), &mut b));
            set_done.store(setn, SeqCst);
        }
        rig.wb().submit_write_batch(b);
        if r.chance(1, 8) { std::thread::yield_now(); }
    }
    stop.store(true, SeqCst);
    for h in hs { h.join().unwrap(); }
    drop(single);
    drop(setm);
    rig.finish(vec![]);
    Arc::try_unwrap(out).ok().unwrap().into_inner().unwrap()
}

fn jstr(s: &str) -> String { format!("\"{}\"", s.replace('\\', "\\\\").replace('"', "\\\"")) }

fn main() {
    IS_FG.with(|f| f.set(true));
    let a: Vec<String> = std::env::args().collect();
    let out = a.get(1).cloned().unwrap_or_else(|| "/tmp/cachemaps".into());
    let seed: u64 = a.get(2).and_then(|s| s.parse().ok()).unwrap_or(1);
    let thorough = a.get(3).map_or(false, |s| s == "thorough");
    let shards: usize = a.get(4).and_then(|s| s.parse().ok()).unwrap_or(8);
    std::fs::create_dir_all(&out).unwrap();
    let mut r = Rng::new(seed);
    let mut st = Stats::default();
    let mut cases: Vec<(String, u64)> = Vec::new(); // (term, weight)
    let t_start = Instant::now();

    // witnesses first (they decide which variant of the model the tree implements)
    let dbg = std::env::var("CM_DEBUG").is_ok();
    if dbg { eprintln!("f2..."); }
    let (f2_ord, f2_want, f2_term) = witness_f2::<OrdSet>(500);
    if dbg { eprintln!("f2 ordset done {f2_ord}"); }
    let (f2_dash, _, _) = witness_f2::<Arc<DashSet<Elem>>>(500);
    let (f3_got, f3_want, f3_term) = witness_f3();
    let (f3b_got, f3b_want, f3b_term) = witness_f3b();
    let (un_got, un_want, un_term) = witness_unordered();
    let (frs_got, frs_want) = witness_fill_race_set();
    let (mut frw_got, frw_want, frw_churn) = witness_fill_race_wide();
    // the writer parked inside its n-th hash of the key (between the count and the entry operation
    // for the right n), reader misses and reads the store meanwhile: regression for the first,
    // insufficient ordering of the repair (Cache/FillGuard.v guard_before_refuted)
    let mut guard_stale: Vec<u64> = Vec::new();
    for n in 1..=6u64 {
        let (_calls, parked, _at_store, got) = witness_guard_race(n);
        if got != Some(1) { guard_stale.push(n); if frw_got == frw_want { frw_got = got; } }
        if !parked { break; }
    }
    let f2_present = f2_ord != f2_want;
    let f3_present = f3_got != f3_want || f3b_got != f3b_want;
    cases.push((f2_term.clone(), 40));
    cases.push((f3_term.clone(), 1));
    cases.push((f3b_term.clone(), 1));
    cases.push((un_term.clone(), 4));

    let (n_wide, n_set, n_big, n_heap) = if thorough { (600, 500, 24, 600) } else { (84, 72, 6, 150) };
    for i in 0..n_wide {
        let cap = [1u64, 2, 8][i % 3];
        let len = r.range(120, 260) as usize;
        let unordered = i % 10 == 9;
        let mut rr = r.fork();
        cases.push((wide_case(&mut rr, cap, len, unordered, &mut st), 2));
    }
    for i in 0..n_set {
        let cap = [1u64, 2, 8][i % 3];
        let len = r.range(40, 140) as usize;
        let unordered = i % 12 == 11;
        let mut rr = r.fork();
        cases.push((set_case(&mut rr, cap, len, SetScript { preload: vec![], big: false }, unordered, &mut st), 1));
    }
    for i in 0..n_big {
        // set sizes across the threshold: 1000..1100 members preloaded for key 0 (and a few for key 1)
        let n = 1000 + r.below(101);
        let mut preload: Vec<(u64, u64)> = (0..n).map(|x| (0u64, x)).collect();
        for x in 0..r.below(5) { preload.push((1, x)); }
        let cap = [1u64, 2, 8][i % 3];
        let mut rr = r.fork();
        cases.push((set_case(&mut rr, cap, 60, SetScript { preload, big: true }, false, &mut st), 40));
    }
    for _ in 0..n_heap { let mut rr = r.fork(); cases.push((heap_case(&mut rr, &mut st), 1)); }
    let t_cases = t_start.elapsed().as_secs_f64();

    // parallel part
    let t_par = Instant::now();
    let rounds = if thorough { 12 } else { 3 };
    let mut par = ParOut { reads: 0, stale: 0, future: 0, non_monotonic: 0, first: None, set_reads: 0, set_bad: 0 };
    for i in 0..rounds {
        let p = parallel(seed.wrapping_add(i), [1, 2, 8][i as usize % 3], if thorough { 6000 } else { 2500 }, 3);
        par.reads += p.reads; par.stale += p.stale; par.future += p.future; par.non_monotonic += p.non_monotonic;
        par.set_reads += p.set_reads; par.set_bad += p.set_bad;
        if par.first.is_none() { par.first = p.first; }
    }
    let t_par = t_par.elapsed().as_secs_f64();

    // balance the shards by weight
    let mut files: Vec<(u64, Vec<String>)> = (0..shards).map(|_| (0, Vec::new())).collect();
    let mut order: Vec<usize> = (0..cases.len()).collect();
    order.sort_by_key(|i| std::cmp::Reverse(cases[*i].1));
    for i in order {
        let j = (0..shards).min_by_key(|j| files[*j].0).unwrap();
        files[j].0 += cases[i].1;
        files[j].1.push(cases[i].0.clone());
    }
    for (k, (_, lines)) in files.iter().enumerate() {
        let mut f = std::fs::File::create(format!("{out}/shard_{k}.txt")).unwrap();
        for l in lines { writeln!(f, "{l}").unwrap(); }
    }
    let samples: Vec<String> = cases.iter().skip(4).step_by(37).take(4).map(|c| jstr(&c.0.chars().take(300).collect::<String>())).collect();
    println!(
        "{{\"cases\":{},\"f2\":{{\"present\":{},\"expected\":{},\"got_ordset\":{},\"got_dashset\":{},\"term\":{}}},\
\"f3\":{{\"present\":{},\"expected\":{},\"got\":{},\"got_three_open_batches\":{},\"term\":{},\"term_b\":{}}},\
\"unordered\":{{\"expected_latest\":{},\"got\":{},\"term_head\":{}}},\
\"fill_race_set\":{{\"present\":{},\"expected\":{},\"got\":{}}},\"fill_race_wide\":{{\"present\":{},\"expected\":{},\"got\":{},\"cold_reads\":{},\"writer_parked_in_hash_call_stale\":{:?}}},\
\"wide\":{{\"cases\":{},\"ops\":{},\"gets\":{},\"misses\":{},\"gets_in_commit_window\":{},\"gets_of_pinned_key\":{},\"negative_hits\":{},\"unordered_cases\":{},\"commits\":{},\"notifies\":{},\"by_capacity\":{{{}}}}},\
\"set\":{{\"cases\":{},\"ops\":{},\"gets\":{},\"fetches\":{},\"big_cases\":{},\"spilled_gets\":{},\"gets_in_commit_window\":{},\"unordered_cases\":{},\"ref_mismatch_cases\":{}}},\
\"heap\":{{\"cases\":{},\"ops\":{}}},\
\"parallel\":{{\"rounds\":{},\"reads\":{},\"stale\":{},\"from_future\":{},\"non_monotonic\":{},\"set_reads\":{},\"set_bad\":{},\"first\":{}}},\
\"rust_ref_fail\":[{}],\"set_ref_mismatch\":[{}],\"ac_thread_fallbacks\":{},\"t_cases_s\":{:.1},\"t_parallel_s\":{:.1},\"samples\":[{}]}}",
        cases.len(), f2_present, f2_want, f2_ord, f2_dash, jstr(&f2_term.chars().take(80).collect::<String>()),
        f3_present, nlist(&f3_want), nlist(&f3_got), nlist(&f3b_got), jstr(&f3_term), jstr(&f3b_term),
        jstr(&opt(un_want)), jstr(&opt(un_got)), jstr(&un_term.chars().take(120).collect::<String>()),
        frs_got != frs_want, format!("{:?}", frs_want), format!("{:?}", frs_got), frw_got != frw_want, jstr(&opt(frw_want)), jstr(&opt(frw_got)), frw_churn, guard_stale,
        st.wide_cases, st.wide_ops, st.wide_gets, st.wide_misses, st.wide_gets_in_window, st.wide_gets_pinned, st.wide_neg_hits,
        st.wide_unordered_cases, st.wide_commits, st.wide_notifies, st.by_cap.iter().map(|(k, v)| format!("\"{k}\":{v}")).collect::<Vec<_>>().join(","),
        st.set_cases, st.set_ops, st.set_gets, st.set_fetches, st.set_big_cases, st.set_spilled_gets, st.set_gets_in_window,
        st.set_unordered_cases, st.set_ref_mismatch_cases,
        st.heap_cases, st.heap_ops,
        rounds, par.reads, par.stale, par.future, par.non_monotonic, par.set_reads, par.set_bad,
        par.first.as_deref().map_or("null".to_string(), jstr),
        st.ref_fail.iter().map(|s| jstr(s)).collect::<Vec<_>>().join(","),
        st.set_ref_mismatch.iter().map(|s| jstr(s)).collect::<Vec<_>>().join(","),
        AC_FALLBACK.load(SeqCst), t_cases, t_par, samples.join(","),
    );
}
