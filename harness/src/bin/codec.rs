//! C12 correspondence: drive the real serializer (crates/serialize, the derive, the
//! interned-handle wire format of crates/storage) over a universe of concrete Rust
//! types, and emit, for every generated value, the Coq description of its type and
//! value together with what the real encoder/decoder did.  The Coq side
//! (`Codec/Check.v`) re-computes both with the model and reports the index of every
//! case on which they differ.
//!
//! usage: codec <out_dir> <seed> <cases_per_type> <shards>
//! writes <out_dir>/shard_<k>.v and prints one JSON line with the distribution.
use std::{
    borrow::Cow,
    cell::{Cell, RefCell},
    cmp::Reverse,
    collections::{BTreeMap, BTreeSet, HashMap, HashSet, LinkedList, VecDeque},
    io::{self},
    marker::PhantomData,
    num::*,
    ops::{Bound, Range, RangeFrom, RangeFull, RangeInclusive, RangeTo, RangeToInclusive},
    rc::Rc,
    sync::{Arc, OnceLock},
    time::Duration,
};

use qbice_serialize::{Decode, Decoder, Encode, Plugin, postcard::PostcardDecoder, postcard::PostcardEncoder, Encoder};
use qbice_stable_hash::{StableHash, Sip128Hasher, SeededStableHasherBuilder};
use qbice_stable_type_id::Identifiable;
use qbice_storage::intern::{Interned, Interner};
use qv_harness::{coq_bytes, coq_list, rng::Rng};
use smallvec::SmallVec;

thread_local! {
    /// (type id, content term, hash) of every interned handle printed by `val`.
    static TBL: RefCell<Vec<(u64, String, u128)>> = RefCell::new(Vec::new());
    /// interned content type term -> small number standing for its STABLE_TYPE_ID
    static IDS: RefCell<Vec<(u128, u64)>> = RefCell::new(Vec::new());
}
static INTERNER: OnceLock<Interner> = OnceLock::new();
fn interner() -> &'static Interner {
    INTERNER.get_or_init(|| Interner::new(4, SeededStableHasherBuilder::<Sip128Hasher>::new(7)))
}
fn intern_id(stable: u128) -> u64 {
    IDS.with(|m| {
        let mut m = m.borrow_mut();
        if let Some((_, i)) = m.iter().find(|(s, _)| *s == stable) { return *i; }
        let i = m.len() as u64 + 1;
        m.push((stable, i));
        i
    })
}

pub trait Uni: Sized + Encode + Decode {
    /// true when decoding an arbitrary byte string yields a value whose printed form is
    /// the stream order (false for sets/maps, which re-sort or re-hash and drop duplicates,
    /// and for interned handles, whose decoding depends on the interner's content);
    /// only such types take part in the mutated-stream comparison
    const ORDERED: bool = true;
    fn ty() -> String;
    /// type term for this particular value (only differs from `ty()` where the shape of the
    /// encoding depends on the value: BitVec = bit length + that many bytes)
    fn ty_of(&self) -> String { Self::ty() }
    fn gen_(r: &mut Rng, d: u32) -> Self;
    /// model value, containers "as iterated"
    fn val(&self) -> String;
    /// canonical form after a round trip: unordered containers sorted, skipped fields defaulted
    fn cval(&self) -> String { self.val() }
}

// ---------------------------------------------------------------- integers
fn boundaries(bits: u32) -> Vec<u128> {
    let mut v = vec![0u128, 1, 2, 127, 128, 129, 255, 256];
    let mut k = 7;
    while k < bits {
        let p = 1u128 << k;
        v.extend_from_slice(&[p - 1, p, p + 1]);
        k += 7;
    }
    let max = if bits == 128 { u128::MAX } else { (1u128 << bits) - 1 };
    v.extend_from_slice(&[max, max - 1, max / 2, max / 2 + 1]);
    v.retain(|x| *x <= max);
    v
}
fn gen_unsigned(r: &mut Rng, bits: u32) -> u128 {
    if r.chance(1, 2) {
        *r.pick(&boundaries(bits))
    } else {
        let len = r.range(0, bits as u64) as u32;
        if len == 0 { 0 } else { r.u128() >> (128 - len) }
    }
}
macro_rules! uni_unsigned {
    ($t:ty, $bits:expr, $term:expr) => {
        impl Uni for $t {
            fn ty() -> String { $term.to_string() }
            fn gen_(r: &mut Rng, _d: u32) -> Self { gen_unsigned(r, $bits) as $t }
            fn val(&self) -> String { format!("(VN {})", self) }
        }
    };
}
macro_rules! uni_signed {
    ($t:ty, $u:ty, $bits:expr, $term:expr) => {
        impl Uni for $t {
            fn ty() -> String { $term.to_string() }
            fn gen_(r: &mut Rng, _d: u32) -> Self {
                // boundary table on the unsigned pattern covers min/max/-1 and zigzag edges
                if r.chance(1, 2) {
                    let z = gen_unsigned(r, $bits) as $u;
                    // inverse zigzag so that the *encoded* varint hits the boundary
                    ((z >> 1) as $t) ^ (-((z & 1) as $t))
                } else {
                    gen_unsigned(r, $bits) as $u as $t
                }
            }
            fn val(&self) -> String { format!("(VZ ({}))", self) }
        }
    };
}
uni_unsigned!(u8, 8, "TU8");
uni_unsigned!(u16, 16, "(TUInt 16)");
uni_unsigned!(u32, 32, "(TUInt 32)");
uni_unsigned!(u64, 64, "(TUInt 64)");
uni_unsigned!(u128, 128, "(TUInt 128)");
uni_unsigned!(usize, 64, "(TUInt 64)");
uni_signed!(i8, u8, 8, "TI8");
uni_signed!(i16, u16, 16, "(TSInt 16)");
uni_signed!(i32, u32, 32, "(TSInt 32)");
uni_signed!(i64, u64, 64, "(TSInt 64)");
uni_signed!(i128, u128, 128, "(TSInt 128)");
uni_signed!(isize, usize, 64, "(TSInt 64)");

macro_rules! uni_nonzero {
    ($t:ty, $inner:ty) => {
        impl Uni for $t {
            fn ty() -> String { format!("(TNonZero {})", <$inner as Uni>::ty()) }
            fn gen_(r: &mut Rng, d: u32) -> Self {
                loop { if let Some(x) = <$t>::new(<$inner as Uni>::gen_(r, d)) { return x; } }
            }
            fn val(&self) -> String { self.get().val() }
        }
    };
}
uni_nonzero!(NonZeroU8, u8);
uni_nonzero!(NonZeroU16, u16);
uni_nonzero!(NonZeroU32, u32);
uni_nonzero!(NonZeroU64, u64);
uni_nonzero!(NonZeroU128, u128);
uni_nonzero!(NonZeroUsize, usize);
uni_nonzero!(NonZeroI8, i8);
uni_nonzero!(NonZeroI16, i16);
uni_nonzero!(NonZeroI32, i32);
uni_nonzero!(NonZeroI64, i64);
uni_nonzero!(NonZeroI128, i128);
uni_nonzero!(NonZeroIsize, isize);

macro_rules! uni_atomic {
    ($t:ty, $inner:ty) => {
        impl Uni for $t {
            fn ty() -> String { <$inner as Uni>::ty() }
            fn gen_(r: &mut Rng, d: u32) -> Self { <$t>::new(<$inner as Uni>::gen_(r, d)) }
            fn val(&self) -> String { self.load(std::sync::atomic::Ordering::Relaxed).val() }
        }
    };
}
uni_atomic!(std::sync::atomic::AtomicU32, u32);
uni_atomic!(std::sync::atomic::AtomicI64, i64);
uni_atomic!(std::sync::atomic::AtomicBool, bool);
uni_atomic!(std::sync::atomic::AtomicUsize, usize);

impl Uni for bool {
    fn ty() -> String { "(TEnum TagBool [[];[]])".into() }
    fn gen_(r: &mut Rng, _d: u32) -> Self { r.chance(1, 2) }
    fn val(&self) -> String { format!("(VVar {} [])", *self as u8) }
}
impl Uni for char {
    fn ty() -> String { "TChar".into() }
    fn gen_(r: &mut Rng, _d: u32) -> Self {
        let table = [0u32, 0x7f, 0x80, 0x7ff, 0x800, 0xd7ff, 0xe000, 0xffff, 0x10000, 0x10ffff, 0x3fff, 0x4000, 0x1fffff];
        loop {
            let c = if r.chance(1, 2) { *r.pick(&table) } else { r.below(0x110000) as u32 };
            if let Some(c) = char::from_u32(c) { return c; }
        }
    }
    fn val(&self) -> String { format!("(VN {})", *self as u32) }
}
impl Uni for f32 {
    fn ty() -> String { "(TFix 4)".into() }
    fn gen_(r: &mut Rng, _d: u32) -> Self {
        let table = [0u32, 0x8000_0000, 0x7f80_0000, 0xff80_0000, 0x7fc0_0000, 0x7fc0_0001, 1, 0x3f80_0000, u32::MAX];
        f32::from_bits(if r.chance(1, 2) { *r.pick(&table) } else { r.next() as u32 })
    }
    fn val(&self) -> String { format!("(VN {})", self.to_bits()) }
}
impl Uni for f64 {
    fn ty() -> String { "(TFix 8)".into() }
    fn gen_(r: &mut Rng, _d: u32) -> Self {
        let table = [0u64, 1 << 63, 0x7ff0_0000_0000_0000, 0xfff0_0000_0000_0000, 0x7ff8_0000_0000_0000, 0x7ff8_0000_0000_0001, 1, u64::MAX];
        f64::from_bits(if r.chance(1, 2) { *r.pick(&table) } else { r.next() })
    }
    fn val(&self) -> String { format!("(VN {})", self.to_bits()) }
}

fn gen_string(r: &mut Rng) -> String {
    let n = if r.chance(1, 20) { r.range(120, 140) } else { r.below(6) };
    (0..n).map(|_| char::gen_(r, 0)).collect()
}
fn str_val(s: &str) -> String { format!("(VBytes {})", coq_bytes(s.as_bytes())) }
impl Uni for String {
    fn ty() -> String { "TStr".into() }
    fn gen_(r: &mut Rng, _d: u32) -> Self { gen_string(r) }
    fn val(&self) -> String { str_val(self) }
}
macro_rules! uni_strlike {
    ($t:ty) => {
        impl Uni for $t {
            fn ty() -> String { "TStr".into() }
            fn gen_(r: &mut Rng, _d: u32) -> Self { gen_string(r).into() }
            fn val(&self) -> String { str_val(self) }
        }
    };
}
uni_strlike!(Box<str>);
uni_strlike!(Rc<str>);
uni_strlike!(Arc<str>);
uni_strlike!(Cow<'static, str>);

// ---------------------------------------------------------------- transparent wrappers
macro_rules! uni_wrap {
    ($w:ident, $mk:expr, $get:expr) => {
        impl<T: Uni> Uni for $w<T> where $w<T>: Encode + Decode {
            const ORDERED: bool = T::ORDERED;
            fn ty() -> String { T::ty() }
            fn gen_(r: &mut Rng, d: u32) -> Self { ($mk)(T::gen_(r, d)) }
            fn val(&self) -> String { ($get)(self, |x: &T| x.val()) }
            fn cval(&self) -> String { ($get)(self, |x: &T| x.cval()) }
        }
    };
}
uni_wrap!(Box, Box::new, |s: &Box<T>, f: fn(&T) -> String| f(&**s));
uni_wrap!(Rc, Rc::new, |s: &Rc<T>, f: fn(&T) -> String| f(&**s));
uni_wrap!(Arc, Arc::new, |s: &Arc<T>, f: fn(&T) -> String| f(&**s));
uni_wrap!(RefCell, RefCell::new, |s: &RefCell<T>, f: fn(&T) -> String| f(&*s.borrow()));
uni_wrap!(Wrapping, Wrapping, |s: &Wrapping<T>, f: fn(&T) -> String| f(&s.0));
uni_wrap!(Reverse, Reverse, |s: &Reverse<T>, f: fn(&T) -> String| f(&s.0));
impl<T: Uni + Copy> Uni for Cell<T> {
    fn ty() -> String { T::ty() }
    fn gen_(r: &mut Rng, d: u32) -> Self { Cell::new(T::gen_(r, d)) }
    fn val(&self) -> String { self.get().val() }
}
impl<T: Encode + Decode> Uni for PhantomData<T> {
    fn ty() -> String { "(TTuple [])".into() }
    fn gen_(_r: &mut Rng, _d: u32) -> Self { PhantomData }
    fn val(&self) -> String { "(VList [])".into() }
}
impl Uni for () {
    fn ty() -> String { "(TTuple [])".into() }
    fn gen_(_r: &mut Rng, _d: u32) -> Self {}
    fn val(&self) -> String { "(VList [])".into() }
}
impl Uni for RangeFull {
    fn ty() -> String { "(TTuple [])".into() }
    fn gen_(_r: &mut Rng, _d: u32) -> Self { .. }
    fn val(&self) -> String { "(VList [])".into() }
}
impl Uni for Duration {
    // decoding builds the value with Duration::new, which carries nanoseconds >= 10^9 into the seconds:
    // for an arbitrary (mutated) stream the printed value is not the stream's content
    const ORDERED: bool = false;
    fn ty() -> String { "(TTuple [TUInt 64; TUInt 32])".into() }
    fn gen_(r: &mut Rng, d: u32) -> Self { Duration::new(u64::gen_(r, d), (gen_unsigned(r, 30) % 1_000_000_000) as u32) }
    fn val(&self) -> String { format!("(VList [VN {}; VN {}])", self.as_secs(), self.subsec_nanos()) }
}

// ---------------------------------------------------------------- Option / Result / Bound / ranges
impl<T: Uni> Uni for Option<T> {
    const ORDERED: bool = T::ORDERED;
    fn ty() -> String { format!("(TEnum TagBool [[];[{}]])", T::ty()) }
    fn gen_(r: &mut Rng, d: u32) -> Self { if r.chance(1, 3) { None } else { Some(T::gen_(r, d)) } }
    fn val(&self) -> String { match self { None => "(VVar 0 [])".into(), Some(x) => format!("(VVar 1 [{}])", x.val()) } }
    fn cval(&self) -> String { match self { None => "(VVar 0 [])".into(), Some(x) => format!("(VVar 1 [{}])", x.cval()) } }
}
impl<T: Uni, E: Uni> Uni for Result<T, E> {
    const ORDERED: bool = T::ORDERED && E::ORDERED;
    fn ty() -> String { format!("(TEnum TagBool [[{}];[{}]])", E::ty(), T::ty()) }
    fn gen_(r: &mut Rng, d: u32) -> Self { if r.chance(1, 2) { Ok(T::gen_(r, d)) } else { Err(E::gen_(r, d)) } }
    fn val(&self) -> String { match self { Err(x) => format!("(VVar 0 [{}])", x.val()), Ok(x) => format!("(VVar 1 [{}])", x.val()) } }
    fn cval(&self) -> String { match self { Err(x) => format!("(VVar 0 [{}])", x.cval()), Ok(x) => format!("(VVar 1 [{}])", x.cval()) } }
}
impl<T: Uni> Uni for Bound<T> {
    const ORDERED: bool = T::ORDERED;
    fn ty() -> String { let t = T::ty(); format!("(TEnum TagU8 [[];[{t}];[{t}]])") }
    fn gen_(r: &mut Rng, d: u32) -> Self {
        match r.below(3) { 0 => Bound::Unbounded, 1 => Bound::Included(T::gen_(r, d)), _ => Bound::Excluded(T::gen_(r, d)) }
    }
    fn val(&self) -> String {
        match self { Bound::Unbounded => "(VVar 0 [])".into(), Bound::Included(x) => format!("(VVar 1 [{}])", x.val()), Bound::Excluded(x) => format!("(VVar 2 [{}])", x.val()) }
    }
    fn cval(&self) -> String {
        match self { Bound::Unbounded => "(VVar 0 [])".into(), Bound::Included(x) => format!("(VVar 1 [{}])", x.cval()), Bound::Excluded(x) => format!("(VVar 2 [{}])", x.cval()) }
    }
}
impl<T: Uni> Uni for Range<T> {
    fn ty() -> String { format!("(TTuple [{0}; {0}])", T::ty()) }
    fn gen_(r: &mut Rng, d: u32) -> Self { T::gen_(r, d)..T::gen_(r, d) }
    fn val(&self) -> String { format!("(VList [{}; {}])", self.start.val(), self.end.val()) }
}
impl<T: Uni> Uni for RangeInclusive<T> {
    fn ty() -> String { format!("(TTuple [{0}; {0}])", T::ty()) }
    fn gen_(r: &mut Rng, d: u32) -> Self { T::gen_(r, d)..=T::gen_(r, d) }
    fn val(&self) -> String { format!("(VList [{}; {}])", self.start().val(), self.end().val()) }
}
impl<T: Uni> Uni for RangeFrom<T> {
    fn ty() -> String { T::ty() }
    fn gen_(r: &mut Rng, d: u32) -> Self { T::gen_(r, d).. }
    fn val(&self) -> String { self.start.val() }
}
impl<T: Uni> Uni for RangeTo<T> {
    fn ty() -> String { T::ty() }
    fn gen_(r: &mut Rng, d: u32) -> Self { ..T::gen_(r, d) }
    fn val(&self) -> String { self.end.val() }
}
impl<T: Uni> Uni for RangeToInclusive<T> {
    fn ty() -> String { T::ty() }
    fn gen_(r: &mut Rng, d: u32) -> Self { ..=T::gen_(r, d) }
    fn val(&self) -> String { self.end.val() }
}

// ---------------------------------------------------------------- sequences
fn gen_len(r: &mut Rng, d: u32) -> usize {
    if d >= 2 { r.below(3) as usize }
    else if r.chance(1, 25) { r.range(126, 131) as usize }   // cross the one-byte length boundary
    else { r.below(5) as usize }
}
fn seq_val<'a, T: Uni + 'a>(it: impl Iterator<Item = &'a T>) -> String {
    coq_list(&it.map(|x| x.val()).collect::<Vec<_>>())
}
fn seq_cval<'a, T: Uni + 'a>(it: impl Iterator<Item = &'a T>, sort: bool) -> String {
    let mut v: Vec<String> = it.map(|x| x.cval()).collect();
    if sort { v.sort(); }
    coq_list(&v)
}
macro_rules! uni_seq {
    ($($c:ident)::+ < T $(, $extra:ty)? >, [$($bound:tt)*], $ordered:expr, $stream:expr) => {
        impl<T: Uni $($bound)*> Uni for $($c)::+<T $(, $extra)?> where $($c)::+<T $(, $extra)?>: Encode + Decode + FromIterator<T> {
            const ORDERED: bool = $stream && T::ORDERED;
            fn ty() -> String { format!("(TSeq {})", T::ty()) }
            fn gen_(r: &mut Rng, d: u32) -> Self { let n = gen_len(r, d); (0..n).map(|_| T::gen_(r, d + 1)).collect() }
            fn val(&self) -> String { format!("(VList {})", seq_val(self.iter())) }
            fn cval(&self) -> String { format!("(VList {})", seq_cval(self.iter(), !$ordered)) }
        }
    };
}
uni_seq!(Vec<T>, [], true, true);
uni_seq!(VecDeque<T>, [], true, true);
uni_seq!(LinkedList<T>, [], true, true);
uni_seq!(BTreeSet<T>, [+ Ord], true, false);
uni_seq!(HashSet<T>, [+ Eq + std::hash::Hash], false, false);
impl<T: Uni> Uni for Box<[T]> where Box<[T]>: Encode + Decode {
    const ORDERED: bool = T::ORDERED;
    fn ty() -> String { format!("(TSeq {})", T::ty()) }
    fn gen_(r: &mut Rng, d: u32) -> Self { Vec::<T>::gen_(r, d).into_boxed_slice() }
    fn val(&self) -> String { format!("(VList {})", seq_val(self.iter())) }
    fn cval(&self) -> String { format!("(VList {})", seq_cval(self.iter(), false)) }
}
impl<T: Uni> Uni for Arc<[T]> where Arc<[T]>: Encode + Decode {
    const ORDERED: bool = T::ORDERED;
    fn ty() -> String { format!("(TSeq {})", T::ty()) }
    fn gen_(r: &mut Rng, d: u32) -> Self { Vec::<T>::gen_(r, d).into() }
    fn val(&self) -> String { format!("(VList {})", seq_val(self.iter())) }
    fn cval(&self) -> String { format!("(VList {})", seq_cval(self.iter(), false)) }
}
impl<T: Uni, const N: usize> Uni for SmallVec<[T; N]> where [T; N]: smallvec::Array<Item = T> {
    const ORDERED: bool = T::ORDERED;
    fn ty() -> String { format!("(TSeq {})", T::ty()) }
    fn gen_(r: &mut Rng, d: u32) -> Self { Vec::<T>::gen_(r, d).into_iter().collect() }
    fn val(&self) -> String { format!("(VList {})", seq_val(self.iter())) }
    fn cval(&self) -> String { format!("(VList {})", seq_cval(self.iter(), false)) }
}
impl<T: Uni + Eq + std::hash::Hash> Uni for dashmap::DashSet<T> {
    const ORDERED: bool = false;
    fn ty() -> String { format!("(TSeq {})", T::ty()) }
    fn gen_(r: &mut Rng, d: u32) -> Self { let n = gen_len(r, d); (0..n).map(|_| T::gen_(r, d + 1)).collect() }
    fn val(&self) -> String { coq_wrap_list(self.iter().map(|x| x.key().val()).collect()) }
    fn cval(&self) -> String { let mut v: Vec<String> = self.iter().map(|x| x.key().cval()).collect(); v.sort(); coq_wrap_list(v) }
}
fn coq_wrap_list(v: Vec<String>) -> String { format!("(VList {})", coq_list(&v)) }
impl<T: Uni, const N: usize> Uni for [T; N] {
    const ORDERED: bool = T::ORDERED;
    fn ty() -> String { format!("(TTuple {})", coq_list(&vec![T::ty(); N])) }
    fn gen_(r: &mut Rng, d: u32) -> Self { std::array::from_fn(|_| T::gen_(r, d + 1)) }
    fn val(&self) -> String { format!("(VList {})", seq_val(self.iter())) }
    fn cval(&self) -> String { format!("(VList {})", seq_cval(self.iter(), false)) }
}

// ---------------------------------------------------------------- bit vectors (feature bitvec)
// modelled at byte level: the bit length as usize, then ceil(len/8) raw bytes; the value term
// carries the bytes the ENCODER is expected to produce (eight bits per byte, first bit = least
// significant for Lsb0, most significant for Msb0, last byte zero padded), computed here from
// the bits, not from the encoder's output
macro_rules! uni_bitvec {
    ($store:ty, $order:ty, $msb:expr) => {
        impl Uni for bitvec::vec::BitVec<$store, $order> {
            const ORDERED: bool = false;
            fn ty() -> String { "(TTuple [TUInt 64])".into() }
            fn ty_of(&self) -> String { format!("(TTuple {})", coq_list(&std::iter::once("TUInt 64".to_string()).chain((0..self.len().div_ceil(8)).map(|_| "TU8".to_string())).collect::<Vec<_>>())) }
            fn gen_(r: &mut Rng, _d: u32) -> Self {
                let n = *r.pick(&[0u64, 1, 7, 8, 9, 15, 16, 17, 31, 33, 63, 64, 65, 70, 127, 129]) + r.below(2);
                let mut v = Self::new();
                for _ in 0..n { v.push(r.chance(1, 2)); }
                v
            }
            fn val(&self) -> String {
                let mut items = vec![format!("(VN {})", self.len())];
                let bits: Vec<bool> = self.iter().by_vals().collect();
                for ch in bits.chunks(8) {
                    let mut b = 0u8;
                    for (i, bit) in ch.iter().enumerate() { if *bit { b |= if $msb { 0x80 >> i } else { 1 << i }; } }
                    items.push(format!("(VN {b})"));
                }
                format!("(VList {})", coq_list(&items))
            }
            fn cval(&self) -> String { self.val() }
        }
    };
}
uni_bitvec!(u8, bitvec::order::Lsb0, false);
uni_bitvec!(u8, bitvec::order::Msb0, true);
uni_bitvec!(u16, bitvec::order::Lsb0, false);
uni_bitvec!(u32, bitvec::order::Msb0, true);
uni_bitvec!(u64, bitvec::order::Msb0, true);
uni_bitvec!(usize, bitvec::order::Lsb0, false);

// ---------------------------------------------------------------- maps (entry lists)
macro_rules! uni_map {
    ($($c:ident)::+, [$($bound:tt)*], $ordered:expr, $stream:expr) => {
        impl<K: Uni $($bound)*, V: Uni> Uni for $($c)::+<K, V> where $($c)::+<K, V>: Encode + Decode {
            const ORDERED: bool = $stream && K::ORDERED && V::ORDERED;
            fn ty() -> String { format!("(TSeq (TTuple [{}; {}]))", K::ty(), V::ty()) }
            fn gen_(r: &mut Rng, d: u32) -> Self {
                let n = gen_len(r, d); (0..n).map(|_| (K::gen_(r, d + 1), V::gen_(r, d + 1))).collect()
            }
            fn val(&self) -> String {
                coq_wrap_list(self.iter().map(|(k, v)| format!("(VList [{}; {}])", k.val(), v.val())).collect())
            }
            fn cval(&self) -> String {
                let mut v: Vec<String> = self.iter().map(|(k, v)| format!("(VList [{}; {}])", k.cval(), v.cval())).collect();
                if !$ordered { v.sort(); }
                coq_wrap_list(v)
            }
        }
    };
}
uni_map!(BTreeMap, [+ Ord], true, false);
uni_map!(HashMap, [+ Eq + std::hash::Hash], false, false);
impl<K: Uni + Eq + std::hash::Hash, V: Uni> Uni for dashmap::DashMap<K, V> {
    const ORDERED: bool = false;
    fn ty() -> String { format!("(TSeq (TTuple [{}; {}]))", K::ty(), V::ty()) }
    fn gen_(r: &mut Rng, d: u32) -> Self { let n = gen_len(r, d); (0..n).map(|_| (K::gen_(r, d + 1), V::gen_(r, d + 1))).collect() }
    fn val(&self) -> String { coq_wrap_list(self.iter().map(|e| format!("(VList [{}; {}])", e.key().val(), e.value().val())).collect()) }
    fn cval(&self) -> String {
        let mut v: Vec<String> = self.iter().map(|e| format!("(VList [{}; {}])", e.key().cval(), e.value().cval())).collect();
        v.sort();
        coq_wrap_list(v)
    }
}

// ---------------------------------------------------------------- tuples
macro_rules! uni_tuple {
    ($($n:ident),+) => {
        impl<$($n: Uni),+> Uni for ($($n,)+) {
            const ORDERED: bool = true $(&& $n::ORDERED)+;
            fn ty() -> String { format!("(TTuple {})", coq_list(&[$($n::ty()),+])) }
            fn gen_(r: &mut Rng, d: u32) -> Self { ($($n::gen_(r, d + 1),)+) }
            #[allow(non_snake_case)]
            fn val(&self) -> String { let ($($n,)+) = self; format!("(VList {})", coq_list(&[$($n.val()),+])) }
            #[allow(non_snake_case)]
            fn cval(&self) -> String { let ($($n,)+) = self; format!("(VList {})", coq_list(&[$($n.cval()),+])) }
        }
    };
}
uni_tuple!(A);
uni_tuple!(A, B);
uni_tuple!(A, B, C);
uni_tuple!(A, B, C, D);
uni_tuple!(A, B, C, D, E);
uni_tuple!(A, B, C, D, E, F, G);
uni_tuple!(A, B, C, D, E, F, G, H, I, J, K, L);

// ---------------------------------------------------------------- derived types
#[derive(Debug, Clone, PartialEq, Eq, Hash, PartialOrd, Ord, Encode, Decode, StableHash, Identifiable)]
#[serialize_crate(qbice_serialize)]
#[stable_hash_crate(qbice_stable_hash)]
#[stable_type_id_crate(qbice_stable_type_id)]
pub struct Named {
    a: u32,
    #[serialize(skip)]
    b: Vec<u8>,
    c: Option<String>,
    #[serialize(skip)]
    d: u16,
    e: i64,
}
impl Uni for Named {
    fn ty() -> String { "(TTuple [TUInt 32; TSkip (VList []); TEnum TagBool [[];[TStr]]; TSkip (VN 0); TSInt 64])".into() }
    fn gen_(r: &mut Rng, d: u32) -> Self { Named { a: u32::gen_(r, d), b: Vec::gen_(r, 2), c: Option::gen_(r, d), d: u16::gen_(r, d), e: i64::gen_(r, d) } }
    fn val(&self) -> String { format!("(VList [{}; {}; {}; {}; {}])", self.a.val(), self.b.val(), self.c.val(), self.d.val(), self.e.val()) }
    fn cval(&self) -> String { format!("(VList [{}; (VList []); {}; (VN 0); {}])", self.a.val(), self.c.val(), self.e.val()) }
}
#[derive(Debug, Clone, PartialEq, Eq, Hash, PartialOrd, Ord, Encode, Decode, StableHash, Identifiable)]
#[serialize_crate(qbice_serialize)]
#[stable_hash_crate(qbice_stable_hash)]
#[stable_type_id_crate(qbice_stable_type_id)]
pub struct TupleS(u8, #[serialize(skip)] String, i16);
impl Uni for TupleS {
    fn ty() -> String { "(TTuple [TU8; TSkip (VBytes []); TSInt 16])".into() }
    fn gen_(r: &mut Rng, d: u32) -> Self { TupleS(u8::gen_(r, d), String::gen_(r, d), i16::gen_(r, d)) }
    fn val(&self) -> String { format!("(VList [{}; {}; {}])", self.0.val(), self.1.val(), self.2.val()) }
    fn cval(&self) -> String { format!("(VList [{}; (VBytes []); {}])", self.0.val(), self.2.val()) }
}
#[derive(Debug, Clone, Copy, PartialEq, Eq, Hash, PartialOrd, Ord, Encode, Decode, StableHash, Identifiable)]
#[serialize_crate(qbice_serialize)]
#[stable_hash_crate(qbice_stable_hash)]
#[stable_type_id_crate(qbice_stable_type_id)]
pub struct UnitS;
impl Uni for UnitS {
    fn ty() -> String { "(TTuple [])".into() }
    fn gen_(_r: &mut Rng, _d: u32) -> Self { UnitS }
    fn val(&self) -> String { "(VList [])".into() }
}
#[derive(Debug, Clone, PartialEq, Eq, Hash, Encode, Decode)]
#[serialize_crate(qbice_serialize)]
pub struct Gen<T, U> { x: T, ys: Vec<U>, z: (T, U) }
impl<T: Uni, U: Uni> Uni for Gen<T, U> {
    const ORDERED: bool = T::ORDERED && U::ORDERED;
    fn ty() -> String { format!("(TTuple [{0}; TSeq {1}; TTuple [{0}; {1}]])", T::ty(), U::ty()) }
    fn gen_(r: &mut Rng, d: u32) -> Self { Gen { x: T::gen_(r, d + 1), ys: Vec::gen_(r, d + 1), z: (T::gen_(r, d + 1), U::gen_(r, d + 1)) } }
    fn val(&self) -> String { format!("(VList [{}; {}; {}])", self.x.val(), self.ys.val(), self.z.val()) }
    fn cval(&self) -> String { format!("(VList [{}; {}; {}])", self.x.cval(), self.ys.cval(), self.z.cval()) }
}
#[derive(Debug, Clone, PartialEq, Eq, Hash, PartialOrd, Ord, Encode, Decode, StableHash, Identifiable)]
#[serialize_crate(qbice_serialize)]
#[stable_hash_crate(qbice_stable_hash)]
#[stable_type_id_crate(qbice_stable_type_id)]
pub enum En {
    A,
    B(u8, String),
    C { x: i32, #[serialize(skip)] y: u16, z: Vec<u16> },
    D(#[serialize(skip)] u64),
    E(Box<Option<u128>>),
}
include!("../wide_enum.rs");

impl Uni for En {
    fn ty() -> String { "(TEnum TagUsize [[]; [TU8; TStr]; [TSInt 32; TSkip (VN 0); TSeq (TUInt 16)]; [TSkip (VN 0)]; [TEnum TagBool [[];[TUInt 128]]]])".into() }
    fn gen_(r: &mut Rng, d: u32) -> Self {
        match r.below(5) {
            0 => En::A,
            1 => En::B(u8::gen_(r, d), String::gen_(r, d)),
            2 => En::C { x: i32::gen_(r, d), y: u16::gen_(r, d), z: Vec::gen_(r, d + 1) },
            3 => En::D(u64::gen_(r, d)),
            _ => En::E(Box::new(Option::gen_(r, d))),
        }
    }
    fn val(&self) -> String {
        match self {
            En::A => "(VVar 0 [])".into(),
            En::B(a, b) => format!("(VVar 1 [{}; {}])", a.val(), b.val()),
            En::C { x, y, z } => format!("(VVar 2 [{}; {}; {}])", x.val(), y.val(), z.val()),
            En::D(a) => format!("(VVar 3 [{}])", a.val()),
            En::E(a) => format!("(VVar 4 [{}])", a.val()),
        }
    }
    fn cval(&self) -> String {
        match self {
            En::C { x, z, .. } => format!("(VVar 2 [{}; (VN 0); {}])", x.val(), z.val()),
            En::D(_) => "(VVar 3 [(VN 0)])".into(),
            _ => self.val(),
        }
    }
}
#[derive(Debug, Clone, PartialEq, Eq, Hash, Encode, Decode)]
#[serialize_crate(qbice_serialize)]
pub enum GenEn<T> { None_, One(T), Two { a: T, b: Vec<T> } }
impl<T: Uni> Uni for GenEn<T> {
    const ORDERED: bool = T::ORDERED;
    fn ty() -> String { format!("(TEnum TagUsize [[]; [{0}]; [{0}; TSeq {0}]])", T::ty()) }
    fn gen_(r: &mut Rng, d: u32) -> Self {
        match r.below(3) { 0 => GenEn::None_, 1 => GenEn::One(T::gen_(r, d + 1)), _ => GenEn::Two { a: T::gen_(r, d + 1), b: Vec::gen_(r, d + 1) } }
    }
    fn val(&self) -> String {
        match self { GenEn::None_ => "(VVar 0 [])".into(), GenEn::One(x) => format!("(VVar 1 [{}])", x.val()), GenEn::Two { a, b } => format!("(VVar 2 [{}; {}])", a.val(), b.val()) }
    }
    fn cval(&self) -> String {
        match self { GenEn::None_ => "(VVar 0 [])".into(), GenEn::One(x) => format!("(VVar 1 [{}])", x.cval()), GenEn::Two { a, b } => format!("(VVar 2 [{}; {}])", a.cval(), b.cval()) }
    }
}

// ---------------------------------------------------------------- interned handles
/// interned content without skipped fields (what the round-trip theorem requires)
#[derive(Debug, Clone, PartialEq, Eq, Hash, PartialOrd, Ord, Encode, Decode, StableHash, Identifiable)]
#[serialize_crate(qbice_serialize)]
#[stable_hash_crate(qbice_stable_hash)]
#[stable_type_id_crate(qbice_stable_type_id)]
pub struct Leaf { name: Interned<String>, n: u16 }
impl Uni for Leaf {
    const ORDERED: bool = false;
    fn ty() -> String { format!("(TTuple [{}; TUInt 16])", <Interned<String>>::ty()) }
    fn gen_(r: &mut Rng, d: u32) -> Self { Leaf { name: Interned::gen_(r, d), n: r.below(3) as u16 } }
    fn val(&self) -> String { format!("(VList [{}; {}])", self.name.val(), self.n.val()) }
}
fn small_string(r: &mut Rng) -> String { ["", "a", "hi", "héllo", "zz"][r.below(5) as usize].to_string() }
fn record<T: Identifiable + StableHash + ?Sized>(content: &T, term: &str) -> u64 {
    let id = intern_id(T::STABLE_TYPE_ID.as_u128());
    let h = interner().hash_128(content).to_u128();
    TBL.with(|t| {
        let mut t = t.borrow_mut();
        if !t.iter().any(|(i, s, _)| *i == id && s == term) { t.push((id, term.to_string(), h)); }
    });
    id
}
impl Uni for Interned<String> {
    const ORDERED: bool = false;
    fn ty() -> String { format!("(TIntern {} TStr)", intern_id(String::STABLE_TYPE_ID.as_u128())) }
    fn gen_(r: &mut Rng, _d: u32) -> Self { interner().intern(small_string(r)) }
    fn val(&self) -> String { let t = str_val(self); record::<String>(&**self, &t); format!("(VList [{t}])") }
}
impl Uni for Interned<str> {
    const ORDERED: bool = false;
    fn ty() -> String { format!("(TIntern {} TStr)", intern_id(<str as Identifiable>::STABLE_TYPE_ID.as_u128())) }
    fn gen_(r: &mut Rng, _d: u32) -> Self { interner().intern_unsized(small_string(r)) }
    fn val(&self) -> String { let t = str_val(self); record::<str>(&**self, &t); format!("(VList [{t}])") }
}
impl Uni for Interned<[u32]> {
    const ORDERED: bool = false;
    fn ty() -> String { format!("(TIntern {} (TSeq (TUInt 32)))", intern_id(<[u32] as Identifiable>::STABLE_TYPE_ID.as_u128())) }
    fn gen_(r: &mut Rng, _d: u32) -> Self { let n = r.below(3); interner().intern_unsized((0..n).map(|_| r.below(3) as u32).collect::<Vec<u32>>()) }
    fn val(&self) -> String { let t = format!("(VList {})", seq_val(self.iter())); record::<[u32]>(&**self, &t); format!("(VList [{t}])") }
}
impl Uni for Interned<Leaf> {
    const ORDERED: bool = false;
    fn ty() -> String { format!("(TIntern {} {})", intern_id(Leaf::STABLE_TYPE_ID.as_u128()), Leaf::ty()) }
    fn gen_(r: &mut Rng, d: u32) -> Self { interner().intern(Leaf::gen_(r, d)) }
    fn val(&self) -> String { let t = (**self).val(); record::<Leaf>(&**self, &t); format!("(VList [{t}])") }
}

// ---------------------------------------------------------------- driver
/// decoder wrapper that refuses absurd lengths (a mutated stream may announce 2^60
/// elements; `Vec::with_capacity` would abort the process) and remembers that it did
struct Guard<'a> { inner: PostcardDecoder<&'a [u8]>, absurd: bool }
macro_rules! fwd { ($($f:ident -> $t:ty),*) => { $(fn $f(&mut self) -> io::Result<$t> { self.inner.$f() })* } }
impl Decoder for Guard<'_> {
    fwd!(read_u8 -> u8, read_u16 -> u16, read_u32 -> u32, read_u64 -> u64, read_u128 -> u128,
         read_i8 -> i8, read_i16 -> i16, read_i32 -> i32, read_i64 -> i64, read_i128 -> i128, read_isize -> isize,
         read_char -> char, read_f32 -> f32, read_f64 -> f64);
    fn read_usize(&mut self) -> io::Result<usize> {
        let v = self.inner.read_usize()?;
        if v > 4096 { self.absurd = true; return Err(io::Error::other("absurd length")); }
        Ok(v)
    }
    fn read_raw_bytes(&mut self, len: usize) -> io::Result<Vec<u8>> { self.inner.read_raw_bytes(len) }
}

#[derive(Default)]
struct Stats { cases: u64, mutated: u64, mutated_ok: u64, mutated_err: u64, discarded: u64, rust_fail: Vec<String>, bytes_total: u64, by_type: Vec<(String, u64)> }

struct Out { shards: Vec<Vec<String>>, next: usize }
impl Out {
    fn push(&mut self, s: String) { let k = self.next % self.shards.len(); self.shards[k].push(s); self.next += 1; }
}

fn plugin() -> Plugin { let mut p = Plugin::new(); p.insert(interner().clone()); p }
/// a decoder-side plugin with an interner that has never seen any value (a new process)
fn fresh_plugin() -> Plugin {
    let mut p = Plugin::new();
    p.insert(Interner::new(4, SeededStableHasherBuilder::<Sip128Hasher>::new(7)));
    p
}

fn table_term() -> String {
    TBL.with(|t| coq_list(&t.borrow().iter().map(|(i, s, h)| format!("({i}, {s}, {h})")).collect::<Vec<_>>()))
}

fn run<T: Uni>(name: &str, r: &mut Rng, n: u64, out: &mut Out, st: &mut Stats) {
    let plugin = plugin();
    let mut count = 0;
    for _ in 0..n {
        TBL.with(|t| t.borrow_mut().clear());
        let v = T::gen_(r, 0);
        let ty = v.ty_of();
        let mut enc = PostcardEncoder::new(Vec::new());
        enc.encode(&v, &plugin).expect("encode to Vec cannot fail");
        let bytes = enc.into_inner();
        let term = v.val();
        let tbl = table_term();
        // the real decoder on bytes ++ trailer: value and exact consumption
        let mut buf = bytes.clone();
        let trailer = [0xA5u8, 0x80, 0x01];
        buf.extend_from_slice(&trailer);
        let mut dec = PostcardDecoder::new(&buf[..]);
        let fresh = fresh_plugin();
        let use_fresh = r.chance(1, 2);
        let decoded = std::panic::catch_unwind(std::panic::AssertUnwindSafe(|| dec.decode::<T>(if use_fresh { &fresh } else { &plugin })));
        let decoded = match decoded { Ok(x) => x, Err(_) => { st.rust_fail.push(format!("{name}: decoder PANICKED on its own encoding of {term} (fresh interner: {use_fresh})")); continue; } };
        match decoded {
            Ok(back) => {
                let rest = dec.into_inner();
                if rest != trailer { st.rust_fail.push(format!("{name}: consumed {} of {} bytes for {term}", buf.len() - rest.len(), bytes.len())); }
                if back.cval() != v.cval() { st.rust_fail.push(format!("{name}: decoded {} from {term}", back.cval())); }
            }
            Err(e) => st.rust_fail.push(format!("{name}: decode error {e} on own encoding of {term}")),
        }
        out.push(format!("RT {ty} {term} {} {tbl}", coq_bytes(&bytes)));
        st.cases += 1; st.bytes_total += bytes.len() as u64; count += 1;
        // mutated stream (decoder correspondence incl. error paths); only for types whose
        // printed value does not depend on a hash map's iteration order
        if T::ORDERED && !bytes.is_empty() {
            for _ in 0..2 {
                let mut m = bytes.clone();
                match r.below(4) {
                    0 => { m.truncate(r.below(m.len() as u64) as usize); }
                    1 => { let i = r.below(m.len() as u64) as usize; m[i] ^= 1 << r.below(8); }
                    2 => { let i = r.below(m.len() as u64) as usize; m[i] = *r.pick(&[0u8, 1, 2, 0x7f, 0x80, 0xff, 0xc0, 0xed, 0xf4]); }
                    _ => { let i = r.below(m.len() as u64 + 1) as usize; m.insert(i, *r.pick(&[0u8, 1, 0x80, 0xff])); }
                }
                TBL.with(|t| t.borrow_mut().clear());
                let mut g = Guard { inner: PostcardDecoder::new(&m[..]), absurd: false };
                let res = std::panic::catch_unwind(std::panic::AssertUnwindSafe(|| g.decode::<T>(&plugin)));
                if g.absurd { st.discarded += 1; continue; }
                st.mutated += 1;
                match res {
                    Ok(Ok(x)) => {
                        let consumed = m.len() - g.inner.get_ref().len();
                        let xt = x.val();
                        out.push(format!("DOK {ty} {} {xt} {consumed}", coq_bytes(&m)));
                        st.mutated_ok += 1;
                    }
                    Ok(Err(_)) => { out.push(format!("DERR {ty} {}", coq_bytes(&m))); st.mutated_err += 1; }
                    Err(_) => { out.push(format!("DERR {ty} {}", coq_bytes(&m))); st.mutated_err += 1; }
                }
            }
        }
    }
    st.by_type.push((name.to_string(), count));
}

macro_rules! universe {
    ($r:expr, $n:expr, $out:expr, $st:expr; $($t:ty),* $(,)?) => { $( run::<$t>(stringify!($t), $r, $n, $out, $st); )* };
}

/// witness of the recorded finding `c12_interned_skip_reference`: an interned value with a
/// non-default `#[serialize(skip)]` field that occurs twice is written as (value, reference by the
/// hash of the FULL value); a fresh interner registers the decoded value under the hash of the
/// value WITHOUT the skipped field, so the reference cannot be resolved
fn witness_interned_skip() -> &'static str {
    let i1 = Interner::new(4, SeededStableHasherBuilder::<Sip128Hasher>::new(7));
    let h = i1.intern(TupleS(1, "skipped".to_string(), 2));
    let v = (h.clone(), h.clone());
    let mut p1 = Plugin::new(); p1.insert(i1.clone());
    let mut e = PostcardEncoder::new(Vec::new());
    e.encode(&v, &p1).unwrap();
    let bytes = e.into_inner();
    let fresh = fresh_plugin();
    let r = std::panic::catch_unwind(std::panic::AssertUnwindSafe(|| { let mut d = PostcardDecoder::new(&bytes[..]); d.decode::<(Interned<TupleS>, Interned<TupleS>)>(&fresh) }));
    match r { Ok(Ok(x)) => if x.0.0 == 1 && x.1.0 == 1 { "ok" } else { "wrong value" }, Ok(Err(_)) => "error", Err(_) => "panic" }
}

fn main() {
    let args: Vec<String> = std::env::args().collect();
    let dir = &args[1];
    let seed: u64 = args[2].parse().unwrap();
    let n: u64 = args[3].parse().unwrap();
    let shards: usize = args[4].parse().unwrap();
    if std::env::var("QV_PANIC_TRACE").is_err() { std::panic::set_hook(Box::new(|_| {})); }
    let mut r = Rng::new(seed);
    let mut out = Out { shards: vec![Vec::new(); shards], next: 0 };
    let mut st = Stats::default();
    universe!(&mut r, n, &mut out, &mut st;
        u8, i8, u16, i16, u32, i32, u64, i64, u128, i128, usize, isize, bool, char, f32, f64, String, (),
        Box<str>, Rc<str>, Arc<str>, Cow<'static, str>,
        Box<u32>, Rc<String>, Arc<i64>, Cell<u16>, RefCell<Vec<u8>>, Wrapping<u32>, Reverse<i16>,
        NonZeroU8, NonZeroU16, NonZeroU32, NonZeroU64, NonZeroU128, NonZeroUsize,
        NonZeroI8, NonZeroI16, NonZeroI32, NonZeroI64, NonZeroI128, NonZeroIsize,
        std::sync::atomic::AtomicU32, std::sync::atomic::AtomicI64, std::sync::atomic::AtomicBool, std::sync::atomic::AtomicUsize,
        PhantomData<u8>, RangeFull, Duration,
        Option<u8>, Option<Option<i32>>, Option<String>, Result<u16, String>, Result<Vec<u8>, ()>, Bound<i64>, Bound<String>,
        Range<u32>, RangeInclusive<i8>, RangeFrom<u64>, RangeTo<i16>, RangeToInclusive<u128>,
        Vec<u8>, Vec<u64>, Vec<String>, Vec<Vec<i16>>, Vec<()>, Vec<Option<bool>>, VecDeque<i32>, LinkedList<u16>,
        Box<[u32]>, Arc<[String]>, [u8; 0], [i32; 3], [Vec<u8>; 2], [[u16; 2]; 2],
        SmallVec<[u32; 4]>, SmallVec<[String; 1]>,
        BTreeSet<i64>, BTreeSet<String>, HashSet<u32>, HashSet<String>, dashmap::DashSet<u16>,
        BTreeMap<u8, String>, BTreeMap<String, Vec<u16>>, HashMap<u32, i32>, HashMap<String, Option<u8>>, dashmap::DashMap<u8, u8>,
        (u8,), (u8, i16), (String, u32, bool), (u8, (i8, (u16, Vec<u8>))), (i128, u128, char, f64, ()),
        (u8, u16, u32, u64, u128, usize, i8), (u8, i8, u16, i16, u32, i32, u64, i64, bool, char, String, ()),
        Wide, Vec<(Option<Wide>, u16)>, Named, TupleS, UnitS, Gen<u8, String>, Gen<Vec<i32>, Option<u16>>, En, GenEn<u64>, GenEn<En>, Vec<Named>, Option<En>,
        BTreeMap<u16, Named>, BTreeMap<i8, En>, Vec<(Named, En)>,
        Interned<String>, Interned<str>, Interned<[u32]>, Interned<Leaf>, Vec<Interned<String>>, Vec<Interned<Leaf>>,
        (Interned<String>, Interned<str>, Interned<String>), BTreeMap<u8, Interned<Leaf>>, Vec<Option<Interned<[u32]>>>,
        (Vec<Interned<Leaf>>, Interned<String>, Vec<Interned<Leaf>>),
        bitvec::vec::BitVec<u8, bitvec::order::Lsb0>, bitvec::vec::BitVec<u8, bitvec::order::Msb0>, bitvec::vec::BitVec<u16, bitvec::order::Lsb0>,
        bitvec::vec::BitVec<u32, bitvec::order::Msb0>, bitvec::vec::BitVec<u64, bitvec::order::Msb0>, bitvec::vec::BitVec<usize, bitvec::order::Lsb0>,
    );
    std::fs::create_dir_all(dir).unwrap();
    for (k, lines) in out.shards.iter().enumerate() {
        std::fs::write(format!("{dir}/shard_{k}.txt"), lines.join("\n") + "\n").unwrap();
    }
    let types = st.by_type.len();
    println!(
        "{{\"cases\":{},\"types\":{},\"mutated\":{},\"mutated_ok\":{},\"mutated_err\":{},\"discarded_absurd_len\":{},\"bytes_total\":{},\"interned_skip_fresh_decode\":\"{}\",\"rust_fail\":{:?}}}",
        st.cases, types, st.mutated, st.mutated_ok, st.mutated_err, st.discarded, st.bytes_total, witness_interned_skip(), st.rust_fail
    );
}
