//! C15 — deterministic replay of small-step interleavings on the real interner.
//!
//! Needs /repo patched with /verif/patches/hook_c15_rendezvous.diff and is built with
//! `--features qbice_storage/verif_hooks` (the check does both only when the hook exists).
//!
//! usage: intern_replay <out_dir> <seed> <cases> <steps_per_case>
//!
//! 2..4 worker threads own the handles; a director thread issues ONE step at a time:
//!   PProbe  — the worker calls intern / intern_unsized; if the read-lock probe misses, the
//!             rendezvous hook parks the worker before the write lock (observed `false`),
//!             otherwise the call returns (observed `true`);
//!   PLocked — a parked worker is resumed and finishes its call under the write lock;
//!   PClone / PDrop / PGet / PVacuum — complete operations by an idle worker.
//! Between a worker's PProbe and PLocked any other worker may run any number of steps,
//! including probes that park as well.  After every step the director records the
//! pointer-identity classes and contents of all live handles (newest first) and judges the
//! property's oracle; the `Par` cases are replayed on the model by Intern/Check.v.
use std::{
    collections::HashMap,
    fs,
    sync::mpsc::{Receiver, Sender, channel},
    thread,
};

use qbice_stable_hash::{Compact128, SeededStableHasherBuilder, Sip128Hasher};
use qbice_storage::intern::{Interned, Interner, verif_hooks};
use qv_harness::{coq_list, rng::Rng};

const NTY: u64 = 4;
const NVAL: u64 = 6;
fn s_val(v: u64) -> String { ["a", "b", "ab", "héllo", "a\0", "zz"][v as usize].to_string() }
fn sl_val(v: u64) -> Vec<u32> { [vec![0u32], vec![1], vec![0, 0], vec![0, 1], vec![1, 0, 2], vec![7; 5]][v as usize].clone() }

enum Hd { U(Interned<u32>), S(Interned<String>), Str(Interned<str>), Sl(Interned<[u32]>) }
impl Hd {
    fn addr(&self) -> usize {
        match self {
            Hd::U(h) => &**h as *const u32 as usize,
            Hd::S(h) => &**h as *const String as usize,
            Hd::Str(h) => h.as_ptr() as usize,
            Hd::Sl(h) => h.as_ptr() as usize,
        }
    }
    fn ty(&self) -> u64 { match self { Hd::U(_) => 1, Hd::S(_) => 2, Hd::Str(_) => 3, Hd::Sl(_) => 4 } }
    fn val(&self) -> u64 {
        (0..NVAL).find(|&v| match self {
            Hd::U(h) => **h == v as u32,
            Hd::S(h) => **h == s_val(v),
            Hd::Str(h) => &**h == s_val(v).as_str(),
            Hd::Sl(h) => &**h == sl_val(v).as_slice(),
        }).unwrap_or(99)
    }
    fn dup(&self) -> Hd {
        match self { Hd::U(h) => Hd::U(h.clone()), Hd::S(h) => Hd::S(h.clone()), Hd::Str(h) => Hd::Str(h.clone()), Hd::Sl(h) => Hd::Sl(h.clone()) }
    }
    fn info(&self) -> Info { Info { addr: self.addr(), ty: self.ty(), val: self.val() } }
}
fn do_intern(i: &Interner, ty: u64, v: u64) -> Hd {
    match ty {
        1 => Hd::U(i.intern(v as u32)),
        2 => Hd::S(i.intern(s_val(v))),
        3 => Hd::Str(i.intern_unsized(s_val(v))),
        _ => Hd::Sl(i.intern_unsized(sl_val(v))),
    }
}
fn hash_of(i: &Interner, ty: u64, v: u64) -> Compact128 {
    match ty {
        1 => i.hash_128(&(v as u32)),
        2 => i.hash_128(&s_val(v)),
        3 => i.hash_128(s_val(v).as_str()),
        _ => i.hash_128(sl_val(v).as_slice()),
    }
}
fn do_get(i: &Interner, ty: u64, h: Compact128) -> Option<Hd> {
    match ty {
        1 => i.get_from_hash::<u32>(h).map(Hd::U),
        2 => i.get_from_hash::<String>(h).map(Hd::S),
        3 => i.get_from_hash::<str>(h).map(Hd::Str),
        _ => i.get_from_hash::<[u32]>(h).map(Hd::Sl),
    }
}

#[derive(Clone, Copy)]
struct Info { addr: usize, ty: u64, val: u64 }
enum Cmd { Intern { ty: u64, v: u64, id: u64 }, Clone { src: u64, id: u64 }, Drop { id: u64 }, Get { ty: u64, v: u64, id: u64 }, Vacuum, Quit }
enum Msg { Paused, Done(Option<Info>) }

fn worker(it: Interner, cmds: Receiver<Cmd>, resume: Receiver<()>, out: Sender<Msg>) {
    let out2 = out.clone();
    verif_hooks::set_between_probe_and_lock(Some(Box::new(move || {
        out2.send(Msg::Paused).unwrap();
        resume.recv().unwrap();
    })));
    let mut mine: HashMap<u64, Hd> = HashMap::new();
    for c in cmds {
        match c {
            Cmd::Intern { ty, v, id } => { let h = do_intern(&it, ty, v); let i = h.info(); mine.insert(id, h); out.send(Msg::Done(Some(i))).unwrap(); }
            Cmd::Clone { src, id } => { let h = mine[&src].dup(); let i = h.info(); mine.insert(id, h); out.send(Msg::Done(Some(i))).unwrap(); }
            Cmd::Drop { id } => { drop(mine.remove(&id)); out.send(Msg::Done(None)).unwrap(); }
            Cmd::Get { ty, v, id } => {
                let r = do_get(&it, ty, hash_of(&it, ty, v));
                let i = r.as_ref().map(Hd::info);
                if let Some(h) = r { mine.insert(id, h); }
                out.send(Msg::Done(i)).unwrap();
            }
            Cmd::Vacuum => { it.vacuum(); out.send(Msg::Done(None)).unwrap(); }
            Cmd::Quit => break,
        }
    }
    verif_hooks::set_between_probe_and_lock(None);
}

struct Entry { owner: usize, id: u64, info: Info }
#[derive(Default)]
struct Stats { cases: u64, steps: u64, probes: u64, parked: u64, probe_hits: u64, locked: u64, locked_found_other: u64, locked_allocated: u64,
    steps_while_other_parked: u64, two_parked: u64, get_some: u64, get_none: u64, clones: u64, drops: u64, vacuums: u64,
    vacuum_while_parked: u64, dead_weak_replaced_while_parked: u64, fails: Vec<String> }

fn case(r: &mut Rng, nsteps: u64, lines: &mut Vec<String>, st: &mut Stats) {
    let nthreads = r.range(2, 4) as usize;
    let it = Interner::new(4, SeededStableHasherBuilder::<Sip128Hasher>::new(r.next()));
    let mut cmd_tx = Vec::new();
    let mut res_tx = Vec::new();
    let mut msg_rx = Vec::new();
    let mut joins = Vec::new();
    for _ in 0..nthreads {
        let (ct, cr) = channel();
        let (rt, rr) = channel();
        let (mt, mr) = channel();
        let it2 = it.clone();
        joins.push(thread::spawn(move || worker(it2, cr, rr, mt)));
        cmd_tx.push(ct); res_tx.push(rt); msg_rx.push(mr);
    }
    let hot: Vec<(u64, u64)> = (0..2).map(|_| (r.range(1, NTY), r.below(NVAL))).collect();
    let mut live: Vec<Entry> = Vec::new(); // newest first
    let mut parked: Vec<Option<(u64, u64, u64)>> = vec![None; nthreads]; // (ty, v, id)
    let mut next_id = 0u64;
    let mut steps = Vec::new();
    let mut obs = Vec::new();
    let mut n = 0;
    while n < nsteps || parked.iter().any(Option::is_some) {
        let finishing = n >= nsteps;
        let t = if finishing { parked.iter().position(Option::is_some).unwrap() } else { r.below(nthreads as u64) as usize };
        let mut flag = true;
        let mut created: Option<(u64, u64)> = None;
        let others_parked = parked.iter().enumerate().any(|(i, p)| i != t && p.is_some());
        if let Some((ty, v, id)) = parked[t] {
            if !finishing && r.chance(1, 2) { continue; } // let the others run a little longer
            let had = live.iter().find(|e| e.info.ty == ty && e.info.val == v).map(|e| e.info.addr);
            res_tx[t].send(()).unwrap();
            match msg_rx[t].recv().unwrap() {
                Msg::Done(Some(i)) => {
                    match had { Some(a) => { st.locked_found_other += 1; if a != i.addr { st.fails.push(format!("resumed intern ({ty},{v}) allocated {:#x} while {:#x} is alive", i.addr, a)); } }
                                None => st.locked_allocated += 1 }
                    live.insert(0, Entry { owner: t, id, info: i });
                    created = Some((i.ty, i.val));
                }
                _ => st.fails.push("resumed intern did not return a handle".into()),
            }
            parked[t] = None;
            steps.push(format!("({}, PLocked)", t + 1));
            st.locked += 1;
        } else {
            let k = r.below(100);
            let own: Vec<usize> = live.iter().enumerate().filter(|(_, e)| e.owner == t).map(|(i, _)| i).collect();
            let (ty, v) = if r.chance(3, 4) { *r.pick(&hot) } else { (r.range(1, NTY), r.below(NVAL)) };
            if k < 45 {
                let id = next_id; next_id += 1;
                cmd_tx[t].send(Cmd::Intern { ty, v, id }).unwrap();
                match msg_rx[t].recv().unwrap() {
                    Msg::Paused => { parked[t] = Some((ty, v, id)); flag = false; st.parked += 1; if others_parked { st.two_parked += 1; } }
                    Msg::Done(Some(i)) => { live.insert(0, Entry { owner: t, id, info: i }); created = Some((i.ty, i.val)); st.probe_hits += 1; }
                    Msg::Done(None) => st.fails.push("intern returned nothing".into()),
                }
                steps.push(format!("({}, PProbe {ty} {v} {})", t + 1, ty >= 3));
                st.probes += 1;
            } else if k < 55 && !own.is_empty() && live.len() < 14 {
                let i = *r.pick(&own);
                let id = next_id; next_id += 1;
                cmd_tx[t].send(Cmd::Clone { src: live[i].id, id }).unwrap();
                if let Msg::Done(Some(info)) = msg_rx[t].recv().unwrap() { live.insert(0, Entry { owner: t, id, info }); }
                steps.push(format!("({}, PClone {i}%nat)", t + 1));
                st.clones += 1;
            } else if k < 80 && !own.is_empty() {
                let i = *r.pick(&own);
                let e = live.remove(i);
                cmd_tx[t].send(Cmd::Drop { id: e.id }).unwrap();
                let _ = msg_rx[t].recv().unwrap();
                steps.push(format!("({}, PDrop {i}%nat)", t + 1));
                st.drops += 1;
            } else if k < 90 {
                let id = next_id; next_id += 1;
                cmd_tx[t].send(Cmd::Get { ty, v, id }).unwrap();
                match msg_rx[t].recv().unwrap() {
                    Msg::Done(Some(info)) => { live.insert(0, Entry { owner: t, id, info }); created = Some((info.ty, info.val)); st.get_some += 1; }
                    _ => { flag = false; st.get_none += 1;
                           if live.iter().any(|e| e.info.ty == ty && e.info.val == v) { st.fails.push(format!("get_from_hash({ty},{v}) = None while a handle is alive")); } }
                }
                steps.push(format!("({}, PGet {ty} {v})", t + 1));
            } else {
                cmd_tx[t].send(Cmd::Vacuum).unwrap();
                let _ = msg_rx[t].recv().unwrap();
                steps.push(format!("({}, PVacuum)", t + 1));
                st.vacuums += 1;
                if others_parked { st.vacuum_while_parked += 1; }
            }
            if others_parked { st.steps_while_other_parked += 1; }
        }
        // the window the property record names: a handle for the key a parked thread is about to
        // insert appears (allocated, dead weak replaced, or looked up) while that thread is parked
        if let Some((cty, cv)) = created {
            if parked.iter().enumerate().any(|(i, p)| i != t && p.is_some_and(|(pt, pv, _)| pt == cty && pv == cv)) { st.dead_weak_replaced_while_parked += 1; }
        }
        // observe + oracle
        let addrs: Vec<usize> = live.iter().map(|e| e.info.addr).collect();
        let classes: Vec<String> = addrs.iter().map(|a| addrs.iter().position(|b| b == a).unwrap().to_string()).collect();
        let contents: Vec<String> = live.iter().map(|e| format!("({}, {})", e.info.ty, e.info.val)).collect();
        for (i, a) in live.iter().enumerate() { for b in live.iter().skip(i + 1) {
            let same = a.info.ty == b.info.ty && a.info.val == b.info.val;
            if same != (a.info.addr == b.info.addr) { st.fails.push(format!("replay: ({},{}) vs ({},{}) same_key={same} addr_eq={}", a.info.ty, a.info.val, b.info.ty, b.info.val, a.info.addr == b.info.addr)); }
        } }
        obs.push(format!("({flag}, {}, {})", coq_list(&classes), coq_list(&contents)));
        n += 1;
        st.steps += 1;
    }
    for t in 0..nthreads { cmd_tx[t].send(Cmd::Quit).unwrap(); }
    for j in joins { j.join().unwrap(); }
    let keys: Vec<String> = (1..=NTY).flat_map(|t| (0..NVAL).map(move |v| format!("({t}, {v})"))).collect();
    lines.push(format!("Par {} {} {}", coq_list(&keys), coq_list(&steps), coq_list(&obs)));
    st.cases += 1;
}

fn main() {
    let args: Vec<String> = std::env::args().collect();
    let dir = &args[1];
    let seed: u64 = args[2].parse().unwrap();
    let cases: u64 = args[3].parse().unwrap();
    let nsteps: u64 = args[4].parse().unwrap();
    fs::create_dir_all(dir).unwrap();
    let mut r = Rng::new(seed ^ 0xC15);
    let mut st = Stats::default();
    let shards = 8usize;
    let mut out: Vec<Vec<String>> = vec![Vec::new(); shards];
    for c in 0..cases { case(&mut r, nsteps, &mut out[c as usize % shards], &mut st); }
    for (k, lines) in out.iter().enumerate() { fs::write(format!("{dir}/par_{k}.txt"), lines.join("\n") + "\n").unwrap(); }
    let esc = |s: &String| format!("\"{}\"", s.replace('\\', "\\\\").replace('"', "'"));
    println!("{{\"rust_fail\":[{}],\"n_fail\":{},\"par_cases\":{},\"par_steps\":{},\"probes\":{},\"probe_parked\":{},\"probe_hits\":{},\"resumed\":{},\"resumed_found_other_threads_allocation\":{},\"resumed_allocated\":{},\"steps_while_another_thread_parked\":{},\"probes_parked_while_another_parked\":{},\"vacuum_while_parked\":{},\"same_key_handle_created_while_parked\":{},\"get_some\":{},\"get_none\":{},\"clones\":{},\"drops\":{},\"vacuums\":{}}}",
        st.fails.iter().take(20).map(esc).collect::<Vec<_>>().join(","), st.fails.len(), st.cases, st.steps, st.probes, st.parked, st.probe_hits, st.locked,
        st.locked_found_other, st.locked_allocated, st.steps_while_other_parked, st.two_parked, st.vacuum_while_parked, st.dead_weak_replaced_while_parked,
        st.get_some, st.get_none, st.clones, st.drops, st.vacuums);
}
