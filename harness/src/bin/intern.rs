//! C15 — correspondence and oracle runs for the interner (crates/storage/src/intern.rs).
//!
//! usage: intern <out_dir> <seed> <seq_cases> <share_cases> <stress_ops_per_thread> <burst_rounds>
//!
//! (a) `Seq` cases: single-threaded random operation sequences (intern / intern_unsized /
//!     clone / drop / get_from_hash / vacuum) over 4 types x 6 values on a real `Interner`;
//!     after every operation the pointer-identity classes and contents of all live handles
//!     are written out for the Coq model (Intern/Check.v) to reproduce.
//! (b) stress: 2..16 real threads doing the same operations concurrently (with explicit
//!     `vacuum()` calls and, in every second configuration, the background vacuum thread),
//!     judging the property's own oracle continuously: handles for one (type, value) that
//!     are alive at the same time are pointer-equal, content equals the value, handles of
//!     different (type, value) never share an address, get_from_hash never misses a key for
//!     which the caller holds a handle.  Plus barrier-synchronised bursts in which all
//!     threads intern the same currently-dead value at once (the probe / re-check window).
//! (c) `Share` cases: structures with repeated and nested handles encoded with the
//!     postcard encoder and the Interner plugin, decoded into the same and into a fresh
//!     interner: values equal, pointer-identity classes of the decoded handles equal the
//!     value-equality classes of the original; bytes and classes go to the Coq model.
//!
//! Writes `<out_dir>/shard_<k>.txt` (one Coq term per line) and prints one JSON line.
use std::{
    fs,
    sync::{
        Arc, Barrier, Mutex,
        atomic::{AtomicU64, AtomicUsize, Ordering},
    },
    time::{Duration, Instant},
};

use qbice_serialize::{Decode, Decoder, Encode, Encoder, Plugin, postcard::PostcardDecoder, postcard::PostcardEncoder};
use qbice_stable_hash::{Compact128, SeededStableHasherBuilder, Sip128Hasher, StableHash};
use qbice_stable_type_id::Identifiable;
use qbice_storage::intern::{Interned, Interner};
use qv_harness::{coq_bytes, coq_list, rng::Rng};

const NTY: u64 = 4;
const NVAL: u64 = 6;

fn s_val(v: u64) -> String { ["a", "b", "ab", "héllo", "a\0", "zz"][v as usize].to_string() }
fn sl_val(v: u64) -> Vec<u32> { [vec![0u32], vec![1], vec![0, 0], vec![0, 1], vec![1, 0, 2], vec![7; 5]][v as usize].clone() }

/// a live handle of one of the four types
enum Hd {
    U(Interned<u32>),
    S(Interned<String>),
    Str(Interned<str>),
    Sl(Interned<[u32]>),
}
impl Hd {
    fn addr(&self) -> usize {
        match self {
            Hd::U(h) => &**h as *const u32 as usize,
            Hd::S(h) => &**h as *const String as usize,
            Hd::Str(h) => h.as_ptr() as usize,
            Hd::Sl(h) => h.as_ptr() as usize,
        }
    }
    fn ty(&self) -> u64 { match self { Hd::U(_) => 1, Hd::S(_) => 2, Hd::Str(_) => 3, Hd::Sl(_) => 4 } }
    /// the value number of the content, read through the handle
    fn val(&self) -> Option<u64> {
        (0..NVAL).find(|&v| match self {
            Hd::U(h) => **h == v as u32,
            Hd::S(h) => **h == s_val(v),
            Hd::Str(h) => &**h == s_val(v).as_str(),
            Hd::Sl(h) => &**h == sl_val(v).as_slice(),
        })
    }
    fn dup(&self) -> Hd {
        match self { Hd::U(h) => Hd::U(h.clone()), Hd::S(h) => Hd::S(h.clone()), Hd::Str(h) => Hd::Str(h.clone()), Hd::Sl(h) => Hd::Sl(h.clone()) }
    }
}
fn do_intern(i: &Interner, ty: u64, v: u64, r: &mut Rng) -> Hd {
    match ty {
        1 => Hd::U(i.intern(v as u32)),
        2 => Hd::S(i.intern(s_val(v))),
        // intern_unsized from the owned forms the code base uses
        3 => if r.chance(1, 2) { Hd::Str(i.intern_unsized(s_val(v))) } else { Hd::Str(i.intern_unsized(s_val(v).into_boxed_str())) },
        _ => if r.chance(1, 2) { Hd::Sl(i.intern_unsized(sl_val(v))) } else { Hd::Sl(i.intern_unsized(sl_val(v).into_boxed_slice())) },
    }
}
fn hash_of(i: &Interner, ty: u64, v: u64) -> Compact128 {
    match ty {
        1 => i.hash_128(&(v as u32)),
        2 => i.hash_128(&s_val(v)),
        3 => i.hash_128(s_val(v).as_str()),
        _ => i.hash_128(sl_val(v).as_slice()),
    }
}
fn do_get(i: &Interner, ty: u64, h: Compact128) -> Option<Hd> {
    match ty {
        1 => i.get_from_hash::<u32>(h).map(Hd::U),
        2 => i.get_from_hash::<String>(h).map(Hd::S),
        3 => i.get_from_hash::<str>(h).map(Hd::Str),
        _ => i.get_from_hash::<[u32]>(h).map(Hd::Sl),
    }
}
fn new_interner(seed: u64, background: bool) -> Interner {
    let b = SeededStableHasherBuilder::<Sip128Hasher>::new(seed);
    if background { Interner::new_with_vacuum(4, b, Duration::from_micros(300)) } else { Interner::new(4, b) }
}

struct Out { shards: Vec<Vec<String>>, next: usize }
impl Out {
    fn push(&mut self, s: String) { let k = self.next % self.shards.len(); self.shards[k].push(s); self.next += 1; }
}

#[derive(Default)]
struct Stats {
    fails: Vec<String>,
    // (a)
    seq_cases: u64, seq_ops: u64, seq_by_kind: [u64; 5], seq_get_some: u64, seq_get_none: u64,
    seq_shared_states: u64, seq_max_live: u64, seq_background: u64, seq_reintern_after_death: u64,
    hash_pairs_checked: u64,
    // (c)
    share_cases: u64, share_handles: u64, share_repeated: u64, share_nested: u64, share_bytes: u64,
    share_by_ref: u64, cross_seed_panics: u64, cross_seed_tried: u64,
}

// ------------------------------------------------------------------ (a) sequential
fn seq_case(r: &mut Rng, nops: u64, out: &mut Out, st: &mut Stats) {
    let background = r.chance(1, 4);
    let it = new_interner(r.next(), background);
    if background { st.seq_background += 1; }
    // H-hash on the domain: the real hashes of the values of one type are pairwise different
    for ty in 1..=NTY {
        for a in 0..NVAL { for b in a + 1..NVAL {
            st.hash_pairs_checked += 1;
            if hash_of(&it, ty, a) == hash_of(&it, ty, b) { st.fails.push(format!("hash collision ty {ty} values {a} {b}")); }
        } }
    }
    let mut live: Vec<Hd> = Vec::new(); // newest first, like the model's list
    let mut ever: Vec<(u64, u64)> = Vec::new();
    let mut ops = Vec::new();
    let mut obs = Vec::new();
    // a few values get most of the traffic so that sharing, death and re-interning happen
    let hot: Vec<(u64, u64)> = (0..3).map(|_| (r.range(1, NTY), r.below(NVAL))).collect();
    for _ in 0..nops {
        let k = r.below(100);
        let mut found = true;
        if k < 40 || live.is_empty() && k < 75 {
            let (ty, v) = if r.chance(2, 3) { *r.pick(&hot) } else { (r.range(1, NTY), r.below(NVAL)) };
            let had_live = live.iter().any(|h| h.ty() == ty && h.val() == Some(v));
            if !had_live && ever.contains(&(ty, v)) { st.seq_reintern_after_death += 1; }
            ever.push((ty, v));
            let h = do_intern(&it, ty, v, r);
            live.insert(0, h);
            ops.push(format!("OIntern {ty} {v} {}", ty >= 3));
            st.seq_by_kind[0] += 1;
        } else if k < 52 && !live.is_empty() && live.len() < 12 {
            let i = r.below(live.len() as u64) as usize;
            let h = live[i].dup();
            live.insert(0, h);
            ops.push(format!("OClone {i}%nat"));
            st.seq_by_kind[1] += 1;
        } else if k < 77 && !live.is_empty() {
            let i = r.below(live.len() as u64) as usize;
            drop(live.remove(i));
            ops.push(format!("ODrop {i}%nat"));
            st.seq_by_kind[2] += 1;
        } else if k < 90 {
            let (ty, v) = if r.chance(2, 3) { *r.pick(&hot) } else { (r.range(1, NTY), r.below(NVAL)) };
            match do_get(&it, ty, hash_of(&it, ty, v)) {
                Some(h) => { live.insert(0, h); st.seq_get_some += 1; }
                None => { found = false; st.seq_get_none += 1; }
            }
            ops.push(format!("OGet {ty} {v}"));
            st.seq_by_kind[3] += 1;
        } else {
            it.vacuum();
            ops.push("OVacuum".to_string());
            st.seq_by_kind[4] += 1;
        }
        // observe
        let addrs: Vec<usize> = live.iter().map(Hd::addr).collect();
        let classes: Vec<String> = addrs.iter().map(|a| addrs.iter().position(|b| b == a).unwrap().to_string()).collect();
        let mut contents = Vec::new();
        for h in &live {
            match h.val() {
                Some(v) => contents.push(format!("({}, {})", h.ty(), v)),
                None => { st.fails.push("a handle's content is none of the domain values".into()); contents.push("(0, 99)".into()); }
            }
        }
        // the property's own oracle, independent of the model
        for (i, a) in live.iter().enumerate() { for b in live.iter().skip(i + 1) {
            let same_key = a.ty() == b.ty() && a.val() == b.val();
            if same_key != (a.addr() == b.addr()) {
                st.fails.push(format!("seq: handles ({},{:?}) ({},{:?}) same_key={} but addr_eq={}", a.ty(), a.val(), b.ty(), b.val(), same_key, a.addr() == b.addr()));
            }
        } }
        if classes.iter().enumerate().any(|(i, c)| c.parse::<usize>().unwrap() != i) { st.seq_shared_states += 1; }
        st.seq_max_live = st.seq_max_live.max(live.len() as u64);
        obs.push(format!("({found}, {}, {})", coq_list(&classes), coq_list(&contents)));
        st.seq_ops += 1;
    }
    let keys: Vec<String> = (1..=NTY).flat_map(|t| (0..NVAL).map(move |v| format!("({t}, {v})"))).collect();
    out.push(format!("Seq {} {} {}", coq_list(&keys), coq_list(&ops), coq_list(&obs)));
    st.seq_cases += 1;
}

// ------------------------------------------------------------------ (b) stress
struct Shared {
    it: Interner,
    /// per key: (address, number of registered live handles)
    reg: Vec<Mutex<(usize, usize)>>,
    fails: Mutex<Vec<String>>,
    cross_checks: AtomicU64,
    ops: [AtomicU64; 6],
    get_some: AtomicU64,
    get_none: AtomicU64,
}
fn key_ix(ty: u64, v: u64) -> usize { ((ty - 1) * NVAL + v) as usize }
impl Shared {
    fn fail(&self, s: String) { let mut f = self.fails.lock().unwrap(); if f.len() < 20 { f.push(s); } }
    /// the handle is alive in the caller and stays alive until `unregister`
    fn register(&self, h: &Hd, ty: u64, v: u64, how: &str) {
        if h.ty() != ty || h.val() != Some(v) {
            self.fail(format!("{how}: asked for ({ty},{v}), handle holds ({},{:?})", h.ty(), h.val()));
        }
        let mut g = self.reg[key_ix(ty, v)].lock().unwrap();
        if g.1 > 0 {
            self.cross_checks.fetch_add(1, Ordering::Relaxed);
            if g.0 != h.addr() {
                self.fail(format!("{how}: two live allocations for ({ty},{v}): {:#x} registered by {} handles, got {:#x}", g.0, g.1, h.addr()));
            }
        } else {
            g.0 = h.addr();
        }
        g.1 += 1;
    }
    fn unregister(&self, ty: u64, v: u64) {
        let mut g = self.reg[key_ix(ty, v)].lock().unwrap();
        g.1 -= 1;
    }
}
fn check_local(sh: &Shared, local: &[(Hd, u64, u64)], h: &Hd, ty: u64, v: u64) {
    for (o, oty, ov) in local {
        let same = *oty == ty && *ov == v;
        if same != (o.addr() == h.addr()) {
            sh.fail(format!("thread-local: ({oty},{ov}) vs ({ty},{v}): same_key={same} addr_eq={}", o.addr() == h.addr()));
        }
    }
}
fn stress_thread(sh: &Shared, mut r: Rng, nops: u64, pinned: &[(u64, u64, usize)]) {
    let mut local: Vec<(Hd, u64, u64)> = Vec::new();
    for _ in 0..nops {
        let k = r.below(100);
        // a small hot set keeps several threads on the same keys
        let (ty, v) = if r.chance(3, 4) { (r.range(1, 2) * 2 - r.below(2), r.below(2) + 1) } else { (r.range(1, NTY), r.below(NVAL)) };
        if k < 38 || local.is_empty() && k < 70 {
            let h = do_intern(&sh.it, ty, v, &mut r);
            check_local(sh, &local, &h, ty, v);
            if let Some(p) = pinned.iter().find(|p| p.0 == ty && p.1 == v) {
                if p.2 != h.addr() { sh.fail(format!("intern: pinned ({ty},{v}) at {:#x}, got {:#x}", p.2, h.addr())); }
            }
            sh.register(&h, ty, v, "intern");
            local.push((h, ty, v));
            sh.ops[0].fetch_add(1, Ordering::Relaxed);
        } else if k < 48 && !local.is_empty() && local.len() < 10 {
            let i = r.below(local.len() as u64) as usize;
            let (h, ty, v) = (local[i].0.dup(), local[i].1, local[i].2);
            check_local(sh, &local, &h, ty, v);
            sh.register(&h, ty, v, "clone");
            local.push((h, ty, v));
            sh.ops[1].fetch_add(1, Ordering::Relaxed);
        } else if k < 80 && !local.is_empty() {
            let i = r.below(local.len() as u64) as usize;
            let (h, ty, v) = local.swap_remove(i);
            sh.unregister(ty, v);
            drop(h);
            sh.ops[2].fetch_add(1, Ordering::Relaxed);
        } else if k < 96 {
            let holds = local.iter().any(|(_, t, x)| *t == ty && *x == v) || pinned.iter().any(|p| p.0 == ty && p.1 == v);
            match do_get(&sh.it, ty, hash_of(&sh.it, ty, v)) {
                Some(h) => {
                    check_local(sh, &local, &h, ty, v);
                    sh.register(&h, ty, v, "get_from_hash");
                    local.push((h, ty, v));
                    sh.get_some.fetch_add(1, Ordering::Relaxed);
                }
                None => {
                    if holds { sh.fail(format!("get_from_hash({ty},{v}) = None while the caller holds a handle for it")); }
                    sh.get_none.fetch_add(1, Ordering::Relaxed);
                }
            }
            sh.ops[3].fetch_add(1, Ordering::Relaxed);
        } else {
            sh.it.vacuum();
            sh.ops[4].fetch_add(1, Ordering::Relaxed);
        }
        if local.len() >= 10 {
            while local.len() > 3 { let (h, ty, v) = local.pop().unwrap(); sh.unregister(ty, v); drop(h); }
        }
    }
    for (h, ty, v) in local.drain(..) { sh.unregister(ty, v); drop(h); }
}

struct StressReport { threads: u64, background: bool, ops: [u64; 6], cross: u64, get_some: u64, get_none: u64, bursts: u64, burst_all_equal: u64, ms: u128 }

fn stress_config(seed: u64, threads: u64, background: bool, nops: u64, bursts: u64, fails: &mut Vec<String>) -> StressReport {
    let t0 = Instant::now();
    let mut r = Rng::new(seed ^ (threads << 8) ^ background as u64);
    let sh = Arc::new(Shared {
        it: new_interner(r.next(), background),
        reg: (0..NTY * NVAL).map(|_| Mutex::new((0, 0))).collect(),
        fails: Mutex::new(Vec::new()),
        cross_checks: AtomicU64::new(0),
        ops: Default::default(),
        get_some: AtomicU64::new(0),
        get_none: AtomicU64::new(0),
    });
    // value 0 of every type is held by the main thread for the whole run
    let mut pinned_h = Vec::new();
    let mut pinned = Vec::new();
    for ty in 1..=NTY {
        let h = do_intern(&sh.it, ty, 0, &mut r);
        sh.register(&h, ty, 0, "pin");
        pinned.push((ty, 0u64, h.addr()));
        pinned_h.push(h);
    }
    std::thread::scope(|s| {
        for _ in 0..threads {
            let sh = sh.clone();
            let rr = r.fork();
            let pinned = pinned.clone();
            s.spawn(move || stress_thread(&sh, rr, nops, &pinned));
        }
    });
    // bursts: every thread interns the same value at the same moment; nobody held it before
    let barrier = Arc::new(Barrier::new(threads as usize));
    let slots: Arc<Vec<AtomicUsize>> = Arc::new((0..threads).map(|_| AtomicUsize::new(0)).collect());
    let all_equal = Arc::new(AtomicU64::new(0));
    std::thread::scope(|s| {
        for t in 0..threads {
            let (sh, barrier, slots, all_equal) = (sh.clone(), barrier.clone(), slots.clone(), all_equal.clone());
            let mut rr = r.fork();
            s.spawn(move || {
                for round in 0..bursts {
                    let ty = round % NTY + 1;
                    let v = 1 + (round / NTY) % (NVAL - 1);
                    let spin = rr.below(40);
                    barrier.wait();
                    for _ in 0..spin { std::hint::spin_loop(); }
                    let h = if round % 5 == 4 && t % 2 == 1 {
                        // half of the threads use the lookup in some rounds: Some must be the same allocation
                        do_get(&sh.it, ty, hash_of(&sh.it, ty, v))
                    } else { Some(do_intern(&sh.it, ty, v, &mut rr)) };
                    if let Some(h) = &h {
                        if h.ty() != ty || h.val() != Some(v) { sh.fail(format!("burst: asked ({ty},{v}) got ({},{:?})", h.ty(), h.val())); }
                    }
                    slots[t as usize].store(h.as_ref().map_or(0, Hd::addr), Ordering::SeqCst);
                    barrier.wait();
                    // all handles are alive here
                    if t == 0 {
                        let a: Vec<usize> = slots.iter().map(|x| x.load(Ordering::SeqCst)).filter(|x| *x != 0).collect();
                        if a.iter().any(|x| *x != a[0]) { sh.fail(format!("burst round {round}: ({ty},{v}) interned at the same time gave addresses {a:x?}")); }
                        else { all_equal.fetch_add(1, Ordering::Relaxed); }
                    }
                    barrier.wait();
                    if round % 3 == 0 && t == 1 { sh.it.vacuum(); }
                    drop(h);
                    if round % 7 == 0 && t == 0 { sh.it.vacuum(); }
                }
            });
        }
    });
    for (h, p) in pinned_h.iter().zip(&pinned) { if h.addr() != p.2 || h.val() != Some(0) { sh.fail("pinned handle changed".into()); } }
    fails.extend(sh.fails.lock().unwrap().iter().map(|f| format!("threads={threads} background={background}: {f}")));
    let mut ops = [0u64; 6];
    for (i, o) in sh.ops.iter().enumerate() { ops[i] = o.load(Ordering::Relaxed); }
    StressReport { threads, background, ops, cross: sh.cross_checks.load(Ordering::Relaxed), get_some: sh.get_some.load(Ordering::Relaxed),
        get_none: sh.get_none.load(Ordering::Relaxed), bursts, burst_all_equal: all_equal.load(Ordering::Relaxed), ms: t0.elapsed().as_millis() }
}

// ------------------------------------------------------------------ (c) sharing through the codec
#[derive(Debug, Clone, PartialEq, Eq, Hash, Encode, Decode, StableHash, Identifiable)]
#[serialize_crate(qbice_serialize)]
#[stable_hash_crate(qbice_stable_hash)]
#[stable_type_id_crate(qbice_stable_type_id)]
pub struct Node { name: Interned<String>, n: u16, kids: Vec<Interned<String>> }

#[derive(Debug, Clone, PartialEq, Eq, Hash, Encode, Decode, StableHash, Identifiable)]
#[serialize_crate(qbice_serialize)]
#[stable_hash_crate(qbice_stable_hash)]
#[stable_type_id_crate(qbice_stable_type_id)]
pub struct Outer { a: Interned<Node>, b: Interned<Node>, tag: Interned<str> }

/// (type id, content term, hash) table for the model's hash oracle, handle list in [occ] order
#[derive(Default)]
struct Walk { tbl: Vec<(u64, String, u128)>, handles: Vec<(usize, String)>, ids: Vec<(u128, u64)> }
impl Walk {
    fn id(&mut self, stable: u128) -> u64 {
        if let Some((_, i)) = self.ids.iter().find(|(s, _)| *s == stable) { return *i; }
        let i = self.ids.len() as u64 + 1;
        self.ids.push((stable, i));
        i
    }
}
fn type_id<T: Identifiable + ?Sized>(w: &mut Walk) -> u64 { w.id(T::STABLE_TYPE_ID.as_u128()) }

trait Sh: Sized + Encode + Decode + PartialEq {
    fn ty(w: &mut Walk) -> String;
    fn gen_(it: &Interner, r: &mut Rng) -> Self;
    /// prints the model value and records handles (pre-order: a handle, then the handles of its content)
    fn val(&self, it: &Interner, w: &mut Walk) -> String;
}
fn str_term(s: &str) -> String { format!("(VBytes {})", coq_bytes(s.as_bytes())) }
fn small_string(r: &mut Rng) -> String { ["", "a", "hi", "héllo"][r.below(4) as usize].to_string() }
fn handle<T: Identifiable + StableHash + ?Sized>(it: &Interner, w: &mut Walk, addr: usize, content: &T, inner: impl FnOnce(&mut Walk) -> String) -> String {
    let id = type_id::<T>(w);
    // reserve the position first: the handle comes before the handles of its content
    let pos = w.handles.len();
    w.handles.push((addr, String::new()));
    let term = inner(w);
    w.handles[pos].1 = format!("{id}:{term}");
    let h = it.hash_128(content).to_u128();
    if !w.tbl.iter().any(|(i, s, _)| *i == id && *s == term) { w.tbl.push((id, term.clone(), h)); }
    format!("(VList [{term}])")
}
impl Sh for Interned<String> {
    fn ty(w: &mut Walk) -> String { format!("(TIntern {} TStr)", type_id::<String>(w)) }
    fn gen_(it: &Interner, r: &mut Rng) -> Self { it.intern(small_string(r)) }
    fn val(&self, it: &Interner, w: &mut Walk) -> String { handle::<String>(it, w, &**self as *const String as usize, &**self, |_| str_term(self)) }
}
impl Sh for Interned<str> {
    fn ty(w: &mut Walk) -> String { format!("(TIntern {} TStr)", type_id::<str>(w)) }
    // never empty: the data pointer of an empty str is one past its allocation
    fn gen_(it: &Interner, r: &mut Rng) -> Self { it.intern_unsized(["a", "hi", "héllo", "b"][r.below(4) as usize].to_string()) }
    fn val(&self, it: &Interner, w: &mut Walk) -> String {
        handle::<str>(it, w, self.as_ptr() as usize, &**self, |_| str_term(self))
    }
}
impl Sh for Interned<[u32]> {
    fn ty(w: &mut Walk) -> String { format!("(TIntern {} (TSeq (TUInt 32)))", type_id::<[u32]>(w)) }
    fn gen_(it: &Interner, r: &mut Rng) -> Self { let n = 1 + r.below(3); it.intern_unsized((0..n).map(|_| r.below(2) as u32).collect::<Vec<u32>>()) }
    fn val(&self, it: &Interner, w: &mut Walk) -> String {
        handle::<[u32]>(it, w, self.as_ptr() as usize, &**self, |_| format!("(VList {})", coq_list(&self.iter().map(|x| format!("(VN {x})")).collect::<Vec<_>>())))
    }
}
impl Sh for u16 {
    fn ty(_: &mut Walk) -> String { "(TUInt 16)".into() }
    fn gen_(_: &Interner, r: &mut Rng) -> Self { r.below(2) as u16 }
    fn val(&self, _: &Interner, _: &mut Walk) -> String { format!("(VN {self})") }
}
impl Sh for Node {
    fn ty(w: &mut Walk) -> String { format!("(TTuple [{}; (TUInt 16); (TSeq {})])", <Interned<String>>::ty(w), <Interned<String>>::ty(w)) }
    fn gen_(it: &Interner, r: &mut Rng) -> Self { Node { name: Sh::gen_(it, r), n: r.below(2) as u16, kids: (0..r.below(3)).map(|_| Sh::gen_(it, r)).collect() } }
    fn val(&self, it: &Interner, w: &mut Walk) -> String {
        let a = self.name.val(it, w);
        let b = self.n.val(it, w);
        let c = self.kids.val(it, w);
        format!("(VList [{a}; {b}; {c}])")
    }
}
impl Sh for Interned<Node> {
    fn ty(w: &mut Walk) -> String { let id = type_id::<Node>(w); format!("(TIntern {id} {})", Node::ty(w)) }
    fn gen_(it: &Interner, r: &mut Rng) -> Self { it.intern(Node::gen_(it, r)) }
    fn val(&self, it: &Interner, w: &mut Walk) -> String { handle::<Node>(it, w, &**self as *const Node as usize, &**self, |w| (**self).val(it, w)) }
}
impl Sh for Outer {
    fn ty(w: &mut Walk) -> String { format!("(TTuple [{}; {}; {}])", <Interned<Node>>::ty(w), <Interned<Node>>::ty(w), <Interned<str>>::ty(w)) }
    fn gen_(it: &Interner, r: &mut Rng) -> Self {
        let a: Interned<Node> = Sh::gen_(it, r);
        let b = if r.chance(1, 2) { a.clone() } else { Sh::gen_(it, r) };
        Outer { a, b, tag: Sh::gen_(it, r) }
    }
    fn val(&self, it: &Interner, w: &mut Walk) -> String {
        let a = self.a.val(it, w);
        let b = self.b.val(it, w);
        let c = self.tag.val(it, w);
        format!("(VList [{a}; {b}; {c}])")
    }
}
impl Sh for Interned<Outer> {
    fn ty(w: &mut Walk) -> String { let id = type_id::<Outer>(w); format!("(TIntern {id} {})", Outer::ty(w)) }
    fn gen_(it: &Interner, r: &mut Rng) -> Self { it.intern(Outer::gen_(it, r)) }
    fn val(&self, it: &Interner, w: &mut Walk) -> String { handle::<Outer>(it, w, &**self as *const Outer as usize, &**self, |w| (**self).val(it, w)) }
}
impl<T: Sh> Sh for Vec<T> {
    fn ty(w: &mut Walk) -> String { format!("(TSeq {})", T::ty(w)) }
    fn gen_(it: &Interner, r: &mut Rng) -> Self { (0..r.below(5)).map(|_| T::gen_(it, r)).collect() }
    fn val(&self, it: &Interner, w: &mut Walk) -> String { let items: Vec<String> = self.iter().map(|x| x.val(it, w)).collect(); format!("(VList {})", coq_list(&items)) }
}
impl<T: Sh> Sh for Option<T> {
    fn ty(w: &mut Walk) -> String { format!("(TEnum TagBool [[]; [{}]])", T::ty(w)) }
    fn gen_(it: &Interner, r: &mut Rng) -> Self { if r.chance(1, 3) { None } else { Some(T::gen_(it, r)) } }
    fn val(&self, it: &Interner, w: &mut Walk) -> String {
        match self { None => "(VVar 0 [])".into(), Some(x) => format!("(VVar 1 [{}])", x.val(it, w)) }
    }
}
impl<A: Sh, B: Sh, C: Sh> Sh for (A, B, C) {
    fn ty(w: &mut Walk) -> String { format!("(TTuple [{}; {}; {}])", A::ty(w), B::ty(w), C::ty(w)) }
    fn gen_(it: &Interner, r: &mut Rng) -> Self { (A::gen_(it, r), B::gen_(it, r), C::gen_(it, r)) }
    fn val(&self, it: &Interner, w: &mut Walk) -> String {
        let a = self.0.val(it, w);
        let b = self.1.val(it, w);
        let c = self.2.val(it, w);
        format!("(VList [{a}; {b}; {c}])")
    }
}

fn classes_by<T: PartialEq>(xs: &[T]) -> Vec<usize> { xs.iter().map(|a| xs.iter().position(|b| b == a).unwrap()).collect() }

fn share_case<T: Sh + std::fmt::Debug>(name: &str, seed: u64, r: &mut Rng, out: &mut Out, st: &mut Stats) {
    let it = new_interner(seed, false);
    let mut plugin = Plugin::new();
    plugin.insert(it.clone());
    let v = T::gen_(&it, r);
    let mut w = Walk::default();
    let ty = T::ty(&mut w);
    let term = v.val(&it, &mut w);
    let orig: Vec<(usize, String)> = std::mem::take(&mut w.handles);
    let key_classes = classes_by(&orig.iter().map(|h| h.1.clone()).collect::<Vec<_>>());
    let addr_classes = classes_by(&orig.iter().map(|h| h.0).collect::<Vec<_>>());
    if key_classes != addr_classes { st.fails.push(format!("{name}: original handles: value classes {key_classes:?} but pointer classes {addr_classes:?} in {term}")); }
    let mut enc = PostcardEncoder::new(Vec::new());
    enc.encode(&v, &plugin).expect("encode to Vec cannot fail");
    let bytes = enc.into_inner();
    // into the same interner: the decoded handles ARE the original allocations
    {
        let mut dec = PostcardDecoder::new(&bytes[..]);
        match dec.decode::<T>(&plugin) {
            Ok(back) => {
                if back != v { st.fails.push(format!("{name}: same interner: decoded {back:?} from {v:?}")); }
                let mut w2 = Walk { ids: w.ids.clone(), ..Walk::default() };
                back.val(&it, &mut w2);
                let a2: Vec<usize> = w2.handles.iter().map(|h| h.0).collect();
                let a1: Vec<usize> = orig.iter().map(|h| h.0).collect();
                if a1 != a2 { st.fails.push(format!("{name}: same interner: decoded handles are not the original allocations for {term}")); }
            }
            Err(e) => st.fails.push(format!("{name}: same interner: decode error {e} for {term}")),
        }
    }
    // into a fresh interner (a new process): sharing must be rebuilt from the stream
    let fresh = new_interner(seed, false);
    let mut fresh_plugin = Plugin::new();
    fresh_plugin.insert(fresh.clone());
    let mut dec = PostcardDecoder::new(&bytes[..]);
    let decoded = std::panic::catch_unwind(std::panic::AssertUnwindSafe(|| dec.decode::<T>(&fresh_plugin)));
    let decoded = match decoded {
        Ok(d) => d.map_err(|e| e.to_string()),
        Err(p) => Err(format!("PANIC: {}", p.downcast_ref::<String>().cloned().or_else(|| p.downcast_ref::<&str>().map(|x| (*x).to_string())).unwrap_or_default())),
    };
    let classes = match decoded {
        Ok(back) => {
            if back != v { st.fails.push(format!("{name}: fresh interner: decoded {back:?} from {v:?}")); }
            let mut w2 = Walk { ids: w.ids.clone(), ..Walk::default() };
            back.val(&fresh, &mut w2);
            let c = classes_by(&w2.handles.iter().map(|h| h.0).collect::<Vec<_>>());
            if c != key_classes { st.fails.push(format!("{name}: fresh interner: sharing lost: pointer classes {c:?}, value classes {key_classes:?} for {term}")); }
            let keys2 = classes_by(&w2.handles.iter().map(|h| h.1.clone()).collect::<Vec<_>>());
            if keys2 != key_classes { st.fails.push(format!("{name}: fresh interner: decoded structure has other handle values for {term}")); }
            c
        }
        Err(e) => { st.fails.push(format!("{name}: fresh interner: decode error {e} for {term}")); Vec::new() }
    };
    // observation only: an interner with another hasher seed cannot resolve by-reference handles
    let n_ref = key_classes.iter().enumerate().filter(|(i, c)| **c != *i).count() as u64;
    if n_ref > 0 && st.cross_seed_tried < 40 {
        st.cross_seed_tried += 1;
        let other = new_interner(seed ^ 0x55, false);
        let mut p = Plugin::new();
        p.insert(other);
        let b2 = bytes.clone();
        let res = std::panic::catch_unwind(std::panic::AssertUnwindSafe(|| { let mut d = PostcardDecoder::new(&b2[..]); d.decode::<T>(&p).is_ok() }));
        if res.is_err() { st.cross_seed_panics += 1; }
    }
    let tbl = coq_list(&w.tbl.iter().map(|(i, s, h)| format!("({i}, {s}, {h})")).collect::<Vec<_>>());
    let cls = coq_list(&classes.iter().map(|c| c.to_string()).collect::<Vec<_>>());
    out.push(format!("Share {ty} {term} {} {tbl} {cls}", coq_bytes(&bytes)));
    st.share_cases += 1;
    st.share_handles += orig.len() as u64;
    st.share_by_ref += n_ref;
    if n_ref > 0 { st.share_repeated += 1; }
    if orig.iter().any(|h| h.1.matches("VList [").count() > 1) { st.share_nested += 1; }
    st.share_bytes += bytes.len() as u64;
}

fn main() {
    let args: Vec<String> = std::env::args().collect();
    let dir = &args[1];
    let seed: u64 = args[2].parse().unwrap();
    let seq_cases: u64 = args[3].parse().unwrap();
    let share_cases: u64 = args[4].parse().unwrap();
    let stress_ops: u64 = args[5].parse().unwrap();
    let bursts: u64 = args[6].parse().unwrap();
    let shards = 8usize;
    fs::create_dir_all(dir).unwrap();
    std::panic::set_hook(Box::new(|_| {}));
    let mut r = Rng::new(seed);
    let mut out = Out { shards: vec![Vec::new(); shards], next: 0 };
    let mut st = Stats::default();
    let t0 = Instant::now();
    for c in 0..seq_cases { let n = if c % 8 == 7 { 120 } else { 40 }; seq_case(&mut r, n, &mut out, &mut st); }
    let seq_ms = t0.elapsed().as_millis();
    let t1 = Instant::now();
    for c in 0..share_cases {
        let s = r.next();
        match c % 7 {
            0 => share_case::<Vec<Interned<String>>>("Vec<Interned<String>>", s, &mut r, &mut out, &mut st),
            1 => share_case::<(Interned<str>, Vec<Interned<str>>, Interned<String>)>("(Interned<str>,Vec<Interned<str>>,Interned<String>)", s, &mut r, &mut out, &mut st),
            2 => share_case::<Vec<Interned<Node>>>("Vec<Interned<Node>>", s, &mut r, &mut out, &mut st),
            3 => share_case::<Vec<Option<Interned<[u32]>>>>("Vec<Option<Interned<[u32]>>>", s, &mut r, &mut out, &mut st),
            4 => share_case::<(Interned<Node>, Interned<String>, Vec<Interned<Node>>)>("(Interned<Node>,Interned<String>,Vec<Interned<Node>>)", s, &mut r, &mut out, &mut st),
            5 => share_case::<Vec<Interned<Outer>>>("Vec<Interned<Outer>>", s, &mut r, &mut out, &mut st),
            _ => share_case::<(Vec<Interned<Outer>>, Vec<Interned<Node>>, Vec<Interned<String>>)>("(Vec<Interned<Outer>>,Vec<Interned<Node>>,Vec<Interned<String>>)", s, &mut r, &mut out, &mut st),
        }
    }
    let share_ms = t1.elapsed().as_millis();
    let mut reports = Vec::new();
    let mut stress_fails = Vec::new();
    if stress_ops > 0 {
        for (i, threads) in [2u64, 3, 4, 8, 16].iter().enumerate() {
            for background in [false, true] {
                if background && i % 2 == 1 && stress_ops < 50_000 { continue; }
                reports.push(stress_config(seed, *threads, background, stress_ops, bursts, &mut stress_fails));
            }
        }
    }
    for (k, lines) in out.shards.iter().enumerate() {
        fs::write(format!("{dir}/shard_{k}.txt"), lines.join("\n") + "\n").unwrap();
    }
    let esc = |s: &String| format!("\"{}\"", s.replace('\\', "\\\\").replace('"', "'").replace('\n', " "));
    let fails: Vec<String> = st.fails.iter().chain(stress_fails.iter()).take(20).map(esc).collect();
    let reps: Vec<String> = reports.iter().map(|p| format!(
        "{{\"threads\":{},\"background_vacuum\":{},\"intern\":{},\"clone\":{},\"drop\":{},\"get_from_hash\":{},\"vacuum\":{},\"get_some\":{},\"get_none\":{},\"cross_thread_pointer_checks\":{},\"bursts\":{},\"bursts_all_equal\":{},\"ms\":{}}}",
        p.threads, p.background, p.ops[0], p.ops[1], p.ops[2], p.ops[3], p.ops[4], p.get_some, p.get_none, p.cross, p.bursts, p.burst_all_equal, p.ms)).collect();
    let total_stress_ops: u64 = reports.iter().map(|p| p.ops.iter().sum::<u64>()).sum();
    let total_cross: u64 = reports.iter().map(|p| p.cross).sum();
    let total_bursts: u64 = reports.iter().map(|p| p.bursts).sum();
    println!(
        "{{\"rust_fail\":[{}],\"n_fail\":{},\"seq_cases\":{},\"seq_ops\":{},\"seq_intern\":{},\"seq_clone\":{},\"seq_drop\":{},\"seq_get\":{},\"seq_vacuum\":{},\"seq_get_some\":{},\"seq_get_none\":{},\"seq_states_with_shared_handles\":{},\"seq_max_live\":{},\"seq_cases_with_background_vacuum\":{},\"seq_reintern_after_death\":{},\"hash_pairs_checked\":{},\"seq_ms\":{},\"share_cases\":{},\"share_handles\":{},\"share_by_reference\":{},\"share_cases_with_repeats\":{},\"share_cases_with_nested_handles\":{},\"share_bytes\":{},\"share_ms\":{},\"cross_seed_tried\":{},\"cross_seed_panics\":{},\"stress_configs\":[{}],\"stress_ops\":{},\"stress_cross_thread_pointer_checks\":{},\"stress_bursts\":{}}}",
        fails.join(","), st.fails.len() + stress_fails.len(), st.seq_cases, st.seq_ops, st.seq_by_kind[0], st.seq_by_kind[1], st.seq_by_kind[2], st.seq_by_kind[3], st.seq_by_kind[4],
        st.seq_get_some, st.seq_get_none, st.seq_shared_states, st.seq_max_live, st.seq_background, st.seq_reintern_after_death, st.hash_pairs_checked, seq_ms,
        st.share_cases, st.share_handles, st.share_by_ref, st.share_repeated, st.share_nested, st.share_bytes, share_ms, st.cross_seed_tried, st.cross_seed_panics,
        reps.join(","), total_stress_ops, total_cross, total_bursts);
}
