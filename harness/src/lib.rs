//! Shared helpers of the verification harness: one PRNG, Coq term printing.
pub mod rng {
    /// splitmix64 — every random choice of a harness run derives from one of these.
    #[derive(Clone, Debug)]
    pub struct Rng(pub u64);
    impl Rng {
        pub fn new(seed: u64) -> Self { Rng(seed ^ 0x9E37_79B9_7F4A_7C15) }
        pub fn next(&mut self) -> u64 {
            self.0 = self.0.wrapping_add(0x9E37_79B9_7F4A_7C15);
            let mut z = self.0;
            z = (z ^ (z >> 30)).wrapping_mul(0xBF58_476D_1CE4_E5B9);
            z = (z ^ (z >> 27)).wrapping_mul(0x94D0_49BB_1331_11EB);
            z ^ (z >> 31)
        }
        pub fn below(&mut self, n: u64) -> u64 { if n == 0 { 0 } else { self.next() % n } }
        pub fn range(&mut self, lo: u64, hi: u64) -> u64 { lo + self.below(hi - lo + 1) }
        pub fn chance(&mut self, num: u64, den: u64) -> bool { self.below(den) < num }
        pub fn pick<'a, T>(&mut self, xs: &'a [T]) -> &'a T { &xs[self.below(xs.len() as u64) as usize] }
        pub fn u128(&mut self) -> u128 { ((self.next() as u128) << 64) | self.next() as u128 }
        pub fn fork(&mut self) -> Rng { Rng(self.next()) }
    }
}

pub fn coq_bytes(bs: &[u8]) -> String {
    let mut s = String::with_capacity(bs.len() * 4 + 2);
    s.push('[');
    for (i, b) in bs.iter().enumerate() {
        if i > 0 { s.push(';'); }
        s.push_str(&b.to_string());
    }
    s.push(']');
    s
}

pub fn coq_list(items: &[String]) -> String { format!("[{}]", items.join("; ")) }

pub fn env_u64(name: &str, default: u64) -> u64 {
    std::env::var(name).ok().and_then(|s| s.parse().ok()).unwrap_or(default)
}
pub mod memdb;
pub mod prog;
pub mod hist;
