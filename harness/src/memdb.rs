//! In-memory implementation of the public `KvDatabase` / `WriteBatch` traits that
//! (a) logs every physical commit in order, (b) can be rebuilt from any prefix of that
//! log (crash points), (c) survives "closing" the engine (restart), (d) has a
//! programmable `should_write_more` (physical grouping), (e) dumps its content.
use std::{
    any::TypeId,
    collections::{BTreeMap, BTreeSet},
    sync::{Arc, Mutex, atomic::{AtomicU64, Ordering}},
};

use qbice_serialize::{Decode, Encode, Plugin, postcard};
use qbice_storage::kv_database::{
    KeyOfSetColumn, KvDatabase, KvDatabaseFactory, SerializationBuffer, WideColumn,
    WideColumnValue, WriteBatch,
};

#[derive(Clone, Debug, PartialEq, Eq, PartialOrd, Ord)]
pub enum Op {
    Put { col: u64, disc: Vec<u8>, key: Vec<u8>, val: Vec<u8> },
    Del { col: u64, disc: Vec<u8>, key: Vec<u8> },
    Ins { col: u64, key: Vec<u8>, elem: Vec<u8> },
    Rem { col: u64, key: Vec<u8>, elem: Vec<u8> },
}

#[derive(Default, Clone, Debug, PartialEq, Eq)]
pub struct Store {
    pub wide: BTreeMap<(u64, Vec<u8>, Vec<u8>), Vec<u8>>,
    pub sets: BTreeMap<(u64, Vec<u8>), BTreeSet<Vec<u8>>>,
}
impl Store {
    pub fn apply(&mut self, op: &Op) {
        match op {
            Op::Put { col, disc, key, val } => { self.wide.insert((*col, disc.clone(), key.clone()), val.clone()); }
            Op::Del { col, disc, key } => { self.wide.remove(&(*col, disc.clone(), key.clone())); }
            Op::Ins { col, key, elem } => { self.sets.entry((*col, key.clone())).or_default().insert(elem.clone()); }
            Op::Rem { col, key, elem } => {
                if let Some(s) = self.sets.get_mut(&(*col, key.clone())) { s.remove(elem); if s.is_empty() { self.sets.remove(&(*col, key.clone())); } }
            }
        }
    }
    pub fn from_log(log: &[Vec<Op>]) -> Self {
        let mut s = Store::default();
        for c in log { for op in c { s.apply(op); } }
        s
    }
}

#[derive(Default)]
pub struct Shared {
    pub store: Mutex<Store>,
    /// physical commits in the order they were applied
    pub log: Mutex<Vec<Vec<Op>>>,
    /// `should_write_more` answers true this many more times (then false)
    pub group_budget: AtomicU64,
    /// grouping policy: every commit may absorb up to this many further logical batches
    pub group_max: AtomicU64,
}

#[derive(Clone)]
pub struct MemDb { pub shared: Arc<Shared>, pub plugin: Arc<Plugin> }

fn col_id<T: 'static>() -> u64 {
    use std::hash::{Hash, Hasher};
    // TypeId is process-local; within one harness process that is all we need
    let mut h = std::collections::hash_map::DefaultHasher::new();
    TypeId::of::<T>().hash(&mut h);
    h.finish()
}

fn enc<T: Encode>(v: &T, p: &Plugin) -> Vec<u8> { postcard::encode(v, p).expect("encode") }

#[derive(Default)]
pub struct Buf { pub ops: Vec<Op>, plugin: Option<Arc<Plugin>> }
impl Buf {
    fn p(&self) -> &Plugin { self.plugin.as_ref().unwrap() }
}
impl SerializationBuffer for Buf {
    fn put<W: WideColumn, C: WideColumnValue<W>>(&mut self, key: &W::Key, value: &C) {
        let op = Op::Put { col: col_id::<W>(), disc: enc(&C::discriminant(), self.p()), key: enc(key, self.p()), val: enc(value, self.p()) };
        self.ops.push(op);
    }
    fn delete<W: WideColumn, C: WideColumnValue<W>>(&mut self, key: &W::Key) {
        let op = Op::Del { col: col_id::<W>(), disc: enc(&C::discriminant(), self.p()), key: enc(key, self.p()) };
        self.ops.push(op);
    }
    fn insert_member<C: KeyOfSetColumn>(&mut self, key: &C::Key, value: &C::Element) {
        let op = Op::Ins { col: col_id::<C>(), key: enc(key, self.p()), elem: enc(value, self.p()) };
        self.ops.push(op);
    }
    fn delete_member<C: KeyOfSetColumn>(&mut self, key: &C::Key, value: &C::Element) {
        let op = Op::Rem { col: col_id::<C>(), key: enc(key, self.p()), elem: enc(value, self.p()) };
        self.ops.push(op);
    }
}

pub struct Batch { db: MemDb, buf: Buf, absorbed: u64 }
impl WriteBatch for Batch {
    type SerializationBuffer = Buf;
    fn put<W: WideColumn, C: WideColumnValue<W>>(&mut self, key: &W::Key, value: &C) { self.buf.put::<W, C>(key, value); }
    fn delete<W: WideColumn, C: WideColumnValue<W>>(&mut self, key: &W::Key) { self.buf.delete::<W, C>(key); }
    fn insert_member<C: KeyOfSetColumn>(&mut self, key: &C::Key, value: &C::Element) { self.buf.insert_member::<C>(key, value); }
    fn delete_member<C: KeyOfSetColumn>(&mut self, key: &C::Key, value: &C::Element) { self.buf.delete_member::<C>(key, value); }
    fn consume_serialization_buffer(&mut self, buffer: Buf) { self.buf.ops.extend(buffer.ops); self.absorbed += 1; }
    fn commit(self) {
        let mut store = self.db.shared.store.lock().unwrap();
        for op in &self.buf.ops { store.apply(op); }
        self.db.shared.log.lock().unwrap().push(self.buf.ops);
    }
    fn should_write_more(&self) -> bool { self.absorbed < self.db.shared.group_max.load(Ordering::SeqCst) }
}

impl KvDatabase for MemDb {
    type WriteBatch = Batch;
    type SerializationBuffer = Buf;
    type ScanMemberIterator<C: KeyOfSetColumn> = std::vec::IntoIter<C::Element>;

    fn get_wide_column<W: WideColumn, C: WideColumnValue<W>>(&self, key: &W::Key) -> Option<C> {
        let k = (col_id::<W>(), enc(&C::discriminant(), &self.plugin), enc(key, &self.plugin));
        let bytes = self.shared.store.lock().unwrap().wide.get(&k).cloned()?;
        Some(postcard::decode::<C>(&bytes, &self.plugin).expect("stored value decodes"))
    }
    fn scan_members<C: KeyOfSetColumn>(&self, key: &C::Key) -> Self::ScanMemberIterator<C> {
        let k = (col_id::<C>(), enc(key, &self.plugin));
        let v: Vec<C::Element> = self.shared.store.lock().unwrap().sets.get(&k).map(|s| {
            s.iter().map(|b| postcard::decode::<C::Element>(b, &self.plugin).expect("stored element decodes")).collect()
        }).unwrap_or_default();
        v.into_iter()
    }
    fn write_batch(&self) -> Batch { Batch { db: self.clone(), buf: Buf { ops: Vec::new(), plugin: Some(self.plugin.clone()) }, absorbed: 0 } }
    fn serialization_buffer(&self) -> Buf { Buf { ops: Vec::new(), plugin: Some(self.plugin.clone()) } }
}

/// opens a MemDb over a shared state (so that a second engine can be opened on the
/// same "disk" after the first one was dropped)
pub struct MemDbFactory(pub Arc<Shared>);
impl KvDatabaseFactory for MemDbFactory {
    type KvDatabase = MemDb;
    type Error = std::convert::Infallible;
    fn open(self, serialization_plugin: Plugin) -> Result<MemDb, Self::Error> {
        Ok(MemDb { shared: self.0, plugin: Arc::new(serialization_plugin) })
    }
}

impl Shared {
    pub fn new() -> Arc<Self> { Arc::new(Shared::default()) }
    /// a new "disk" holding exactly the first `k` physical commits of this one
    pub fn prefix(&self, k: usize) -> Arc<Self> {
        let log = self.log.lock().unwrap();
        let pre: Vec<Vec<Op>> = log[..k].to_vec();
        let s = Shared::default();
        *s.store.lock().unwrap() = Store::from_log(&pre);
        *s.log.lock().unwrap() = pre;
        Arc::new(s)
    }
    pub fn commits(&self) -> usize { self.log.lock().unwrap().len() }
}

// unused-import guards
#[allow(dead_code)]
fn _assert_traits<T: Decode>() {}
