//! Interpreted query programs for the engine-level checks (C01–C08): five query types,
//! one per node kind, whose executors interpret a shared program table.  The same
//! table is printed as a Coq term for the model (`Engine/Prog.v`).
use std::{
    collections::{BTreeMap, HashMap},
    future::Future,
    hash::BuildHasherDefault,
    pin::Pin,
    sync::{Arc, Mutex, atomic::{AtomicBool, AtomicI64, AtomicU64, Ordering}},
};

use fxhash::FxHasher;
use qbice::{
    Config, Decode, Encode, Engine, Identifiable, StableHash, TrackedEngine,
    executor::Executor,
    query::{ExecutionStyle, Query},
    serialize::Plugin,
    stable_hash::{SeededStableHasherBuilder, Sip128Hasher},
    storage::storage_engine::{
        db_backed::{Configuration, DbBacked, DbBackedFactory},
        in_memory::{InMemoryStorageEngine, InMemoryStorageEngineFactory},
    },
};

use crate::memdb::{MemDb, MemDbFactory, Shared};

#[derive(Clone, Copy, PartialEq, Eq, Hash, Debug, PartialOrd, Ord)]
pub enum Kind { Input, Normal, Firewall, Projection, External }

#[derive(Clone, Copy, PartialEq, Eq, Hash, Debug, PartialOrd, Ord)]
pub struct Node { pub kind: Kind, pub idx: u32 }
impl Node {
    pub fn coq(&self) -> String {
        let k = match self.kind { Kind::Input => "KInput", Kind::Normal => "KNormal", Kind::Firewall => "KFirewall", Kind::Projection => "KProjection", Kind::External => "KExternal" };
        format!("(mkNode {k} {})", self.idx)
    }
    pub fn short(&self) -> String {
        let k = match self.kind { Kind::Input => "I", Kind::Normal => "N", Kind::Firewall => "F", Kind::Projection => "P", Kind::External => "E" };
        format!("{k}{}", self.idx)
    }
}

#[derive(Clone, Debug, PartialEq, Eq)]
pub enum Expr {
    Const(i64),
    Read(Node),
    Add(Box<Expr>, Box<Expr>),
    Mul(Box<Expr>, Box<Expr>),
    Mod(Box<Expr>, i64),
    Lt(Box<Expr>, Box<Expr>),
    If(Box<Expr>, Box<Expr>, Box<Expr>),
    /// unordered group: the members are requested concurrently inside
    /// start/end_unordered_callee_group; the value is their sum
    Group(Vec<Node>),
    /// like Group, but every member is requested from its own spawned task holding a clone of the
    /// tracked engine (true concurrency inside an executor); oracle-only scenarios, not in the model
    Spawn(Vec<Node>),
    /// sleep that many milliseconds, then evaluate (to stage interleavings); oracle-only
    Delay(u64, Box<Expr>),
}
impl Expr {
    pub fn coq(&self) -> String {
        match self {
            Expr::Const(z) => format!("(EConst ({z}))"),
            Expr::Read(n) => format!("(ERead {})", n.coq()),
            Expr::Add(a, b) => format!("(EAdd {} {})", a.coq(), b.coq()),
            Expr::Mul(a, b) => format!("(EMul {} {})", a.coq(), b.coq()),
            Expr::Mod(a, m) => format!("(EMod {} ({m}))", a.coq()),
            Expr::Lt(a, b) => format!("(ELt {} {})", a.coq(), b.coq()),
            Expr::If(c, a, b) => format!("(EIf {} {} {})", c.coq(), a.coq(), b.coq()),
            Expr::Group(ns) | Expr::Spawn(ns) => format!("(EGroup [{}])", ns.iter().map(|n| n.coq()).collect::<Vec<_>>().join("; ")),
            Expr::Delay(_, e) => e.coq(),
        }
    }
    pub fn may_read(&self, out: &mut Vec<Node>) {
        match self {
            Expr::Const(_) => {}
            Expr::Read(n) => out.push(*n),
            Expr::Add(a, b) | Expr::Mul(a, b) | Expr::Lt(a, b) => { a.may_read(out); b.may_read(out); }
            Expr::Mod(a, _) => a.may_read(out),
            Expr::If(c, a, b) => { c.may_read(out); a.may_read(out); b.may_read(out); }
            Expr::Group(ns) | Expr::Spawn(ns) => out.extend(ns.iter().copied()),
            Expr::Delay(_, e) => e.may_read(out),
        }
    }
}

pub const SCC_NORMAL: i64 = -1;
pub const SCC_FIREWALL: i64 = -2;
pub const SCC_PROJECTION: i64 = -3;
pub fn scc_default(k: Kind) -> i64 { match k { Kind::Normal => SCC_NORMAL, Kind::Firewall => SCC_FIREWALL, Kind::Projection => SCC_PROJECTION, _ => 0 } }

#[derive(Clone, Debug, Default)]
pub struct Program { pub exprs: BTreeMap<Node, Expr> }
impl Program {
    pub fn coq(&self) -> String {
        format!("[{}]", self.exprs.iter().map(|(n, e)| format!("({}, {})", n.coq(), e.coq())).collect::<Vec<_>>().join("; "))
    }
}

#[derive(Clone, Debug, PartialEq, Eq)]
pub enum Event {
    /// executor invoked for a node (in the order invocations started)
    Exec(Node),
    /// a dependency value handed to an executor
    Read { by: Node, dep: Node, value: i64 },
    Done { node: Node, value: i64 },
}

/// everything the executors share with the driver
pub struct World {
    pub prog: Program,
    /// external world values (what an ExternalInput executor reads), by index
    pub ext: Vec<AtomicI64>,
    pub log: Mutex<Vec<Event>>,
    /// node whose executor panics when it runs (C05), u64::MAX = none; encoded kind*2^32+idx
    pub panic_node: AtomicU64,
    /// executors spin (yielding) while this is set and the node matches `stall_node`
    pub stall_node: AtomicU64,
    /// executors abandon every n-th sub-query after a few polls and ask again (0: never)
    pub abandon_every: AtomicU64, pub read_count: AtomicU64, pub abandoned: AtomicU64,
    pub stall: AtomicBool,
    pub exec_count: AtomicU64,
    /// node whose executor first spawns a helper task that keeps a clone of its tracked engine
    /// alive until `helper_hold` is cleared (keeps the query in computing state after it returned)
    pub helper_node: AtomicU64,
    pub helper_hold: AtomicBool,
    /// single-flight oracle: keys whose executor is running right now, and how often a second
    /// executor for the same key was started meanwhile
    pub executing: Mutex<std::collections::HashSet<u64>>,
    pub concurrent_same_key: AtomicU64,
    /// executors yield this many times before returning (widens the windows in stress runs)
    pub exec_yields: AtomicU64,
}
pub fn trace_on() -> bool { static T: std::sync::OnceLock<bool> = std::sync::OnceLock::new(); *T.get_or_init(|| std::env::var("QV_TRACE").is_ok()) }
pub fn node_code(n: Node) -> u64 { ((n.kind as u64) << 32) | n.idx as u64 }
impl World {
    pub fn new(prog: Program, n_ext: usize) -> Arc<Self> {
        Arc::new(World {
            prog, ext: (0..n_ext).map(|_| AtomicI64::new(0)).collect(), log: Mutex::new(Vec::new()),
            panic_node: AtomicU64::new(u64::MAX), stall_node: AtomicU64::new(u64::MAX), abandon_every: AtomicU64::new(0), read_count: AtomicU64::new(0), abandoned: AtomicU64::new(0), stall: AtomicBool::new(false),
            exec_count: AtomicU64::new(0), helper_node: AtomicU64::new(u64::MAX), helper_hold: AtomicBool::new(false),
            executing: Mutex::new(Default::default()), concurrent_same_key: AtomicU64::new(0), exec_yields: AtomicU64::new(0),
        })
    }
    pub fn take_log(&self) -> Vec<Event> { std::mem::take(&mut *self.log.lock().unwrap()) }
}

macro_rules! query_type {
    ($name:ident) => {
        #[derive(Debug, Clone, Copy, PartialEq, Eq, PartialOrd, Ord, Hash, StableHash, Encode, Decode, Identifiable)]
        #[serialize_crate(qbice::serialize)]
        #[stable_hash_crate(qbice::stable_hash)]
        #[stable_type_id_crate(qbice::stable_type_id)]
        pub struct $name(pub u32);
        impl Query for $name { type Value = i64; }
    };
}
query_type!(Var);
query_type!(Nrm);
query_type!(Fw);
query_type!(Prj);
query_type!(Ext);

pub struct NodeExec(pub Arc<World>);

type BoxFut<'a, T> = Pin<Box<dyn Future<Output = T> + Send + 'a>>;

pub async fn query_node<C: Config>(engine: &TrackedEngine<C>, n: Node) -> i64 {
    match n.kind {
        Kind::Input => engine.query(&Var(n.idx)).await,
        Kind::Normal => engine.query(&Nrm(n.idx)).await,
        Kind::Firewall => engine.query(&Fw(n.idx)).await,
        Kind::Projection => engine.query(&Prj(n.idx)).await,
        Kind::External => engine.query(&Ext(n.idx)).await,
    }
}

fn eval<'a, C: Config>(w: &'a World, me: Node, e: &'a Expr, engine: &'a TrackedEngine<C>) -> BoxFut<'a, i64> {
    Box::pin(async move {
        match e {
            Expr::Delay(ms, inner) => { tokio::time::sleep(std::time::Duration::from_millis(*ms)).await; eval(w, me, inner, engine).await }
            Expr::Spawn(ns) => {
                let mut hs = Vec::new();
                for n in ns { let e2 = engine.clone(); let n = *n; hs.push((n, tokio::spawn(async move { query_node(&e2, n).await }))); }
                let mut s = 0i64;
                let mut panic = None;
                for (n, h) in hs {
                    match h.await {
                        Ok(v) => { w.log.lock().unwrap().push(Event::Read { by: me, dep: n, value: v }); s = s.wrapping_add(v); }
                        Err(e) => { if panic.is_none() { panic = Some(e); } }
                    }
                }
                if let Some(e) = panic { std::panic::resume_unwind(e.into_panic()); }
                s
            }
            Expr::Const(z) => *z,
            Expr::Read(n) => {
                // an executor that gives up on a sub-query (as with a timeout or `select!`) and asks again:
                // every `abandon_every`-th read is first started, polled a few times and dropped while pending
                let every = w.abandon_every.load(Ordering::SeqCst);
                if every > 0 && w.read_count.fetch_add(1, Ordering::SeqCst) % every == every - 1 {
                    let fut = query_node(engine, *n);
                    tokio::pin!(fut);
                    let polls = 1 + (w.read_count.load(Ordering::SeqCst) % 3);
                    for _ in 0..polls { if let std::task::Poll::Ready(_) = futures::poll!(fut.as_mut()) { break; } }
                    w.abandoned.fetch_add(1, Ordering::SeqCst);
                }
                let v = query_node(engine, *n).await;
                w.log.lock().unwrap().push(Event::Read { by: me, dep: *n, value: v });
                v
            }
            Expr::Add(a, b) => { let x = eval(w, me, a, engine).await; let y = eval(w, me, b, engine).await; x.wrapping_add(y) }
            Expr::Mul(a, b) => { let x = eval(w, me, a, engine).await; let y = eval(w, me, b, engine).await; x.wrapping_mul(y) }
            Expr::Mod(a, m) => { let x = eval(w, me, a, engine).await; x.rem_euclid(*m) }
            Expr::Lt(a, b) => { let x = eval(w, me, a, engine).await; let y = eval(w, me, b, engine).await; (x < y) as i64 }
            Expr::If(c, a, b) => { if eval(w, me, c, engine).await != 0 { eval(w, me, a, engine).await } else { eval(w, me, b, engine).await } }
            Expr::Group(ns) => {
                unsafe { engine.start_unordered_callee_group(); }
                let futs = ns.iter().map(|n| { let n = *n; async move { (n, query_node(engine, n).await) } });
                let vals = futures::future::join_all(futs).await;
                unsafe { engine.end_unordered_callee_group(); }
                let mut s = 0i64;
                for (n, v) in vals { w.log.lock().unwrap().push(Event::Read { by: me, dep: n, value: v }); s = s.wrapping_add(v); }
                s
            }
        }
    })
}

struct Executing<'a>(&'a World, u64);
impl Drop for Executing<'_> { fn drop(&mut self) { self.0.executing.lock().unwrap().remove(&self.1); } }

async fn run_node<C: Config>(w: &World, me: Node, engine: &TrackedEngine<C>) -> i64 {
    if !w.executing.lock().unwrap().insert(node_code(me)) { w.concurrent_same_key.fetch_add(1, Ordering::SeqCst); }
    let _running = Executing(w, node_code(me));
    for _ in 0..w.exec_yields.load(Ordering::Relaxed) { tokio::task::yield_now().await; }
    w.log.lock().unwrap().push(Event::Exec(me));
    w.exec_count.fetch_add(1, Ordering::SeqCst);
    if trace_on() { eprintln!("      exec {}", me.short()); }
    if w.panic_node.load(Ordering::SeqCst) == node_code(me) { panic!("executor of {} panics on request", me.short()); }
    while w.stall.load(Ordering::SeqCst) && w.stall_node.load(Ordering::SeqCst) == node_code(me) {
        tokio::task::yield_now().await;
    }
    if w.helper_node.load(Ordering::SeqCst) == node_code(me) {
        let keep = engine.clone();
        let w2: &'static World = unsafe { &*(w as *const World) };   // the World outlives the runtime in the harness
        tokio::spawn(async move {
            while w2.helper_hold.load(Ordering::SeqCst) { tokio::task::yield_now().await; }
            drop(keep);
        });
    }
    let v = if me.kind == Kind::External {
        w.ext[me.idx as usize].load(Ordering::SeqCst)
    } else {
        let e = w.prog.exprs.get(&me).unwrap_or_else(|| panic!("no expression for {}", me.short()));
        eval(w, me, e, engine).await
    };
    w.log.lock().unwrap().push(Event::Done { node: me, value: v });
    if trace_on() { eprintln!("      done {} = {}", me.short(), v); }
    v
}

macro_rules! executor {
    ($q:ident, $kind:expr, $style:expr, $scc:expr) => {
        impl<C: Config> Executor<$q, C> for NodeExec {
            async fn execute(&self, query: &$q, engine: &TrackedEngine<C>) -> i64 {
                run_node(&self.0, Node { kind: $kind, idx: query.0 }, engine).await
            }
            fn execution_style() -> ExecutionStyle { $style }
            fn scc_value() -> i64 { $scc }
        }
    };
}
executor!(Nrm, Kind::Normal, ExecutionStyle::Normal, SCC_NORMAL);
executor!(Fw, Kind::Firewall, ExecutionStyle::Firewall, SCC_FIREWALL);
executor!(Prj, Kind::Projection, ExecutionStyle::Projection, SCC_PROJECTION);
executor!(Ext, Kind::External, ExecutionStyle::ExternalInput, 0);

#[derive(Debug, Clone, Copy, PartialEq, Eq, PartialOrd, Ord, Hash, Default, Identifiable)]
#[stable_type_id_crate(qbice::stable_type_id)]
pub struct MemCfg;
impl Config for MemCfg {
    type StorageEngine = InMemoryStorageEngine;
    type BuildStableHasher = SeededStableHasherBuilder<Sip128Hasher>;
    type BuildHasher = BuildHasherDefault<FxHasher>;
}
#[derive(Debug, Clone, Copy, PartialEq, Eq, PartialOrd, Ord, Hash, Default, Identifiable)]
#[stable_type_id_crate(qbice::stable_type_id)]
pub struct DbCfg;
impl Config for DbCfg {
    type StorageEngine = DbBacked<MemDb>;
    type BuildStableHasher = SeededStableHasherBuilder<Sip128Hasher>;
    type BuildHasher = BuildHasherDefault<FxHasher>;
}

fn register<C: Config>(e: &mut Engine<C>, w: &Arc<World>) {
    let ex = Arc::new(NodeExec(w.clone()));
    e.register_executor::<Nrm, _>(ex.clone());
    e.register_executor::<Fw, _>(ex.clone());
    e.register_executor::<Prj, _>(ex.clone());
    e.register_executor::<Ext, _>(ex);
}

/// in-memory engine that yields to the runtime at every query (many suspension points: C05)
pub async fn open_mem_yielding(w: &Arc<World>) -> Arc<Engine<MemCfg>> {
    use qbice::engine::{EngineOptions, YieldFrequency};
    let mut e = Engine::<MemCfg>::new_with_options()
        .serialization_plugin(Plugin::default())
        .storage_engine_factory(InMemoryStorageEngineFactory)
        .stable_hasher(SeededStableHasherBuilder::<Sip128Hasher>::new(0))
        .options(EngineOptions::builder().yield_frequency(YieldFrequency::EveryNQuery(0)).build())
        .build().await.unwrap();
    register(&mut e, w);
    Arc::new(e)
}

pub async fn open_mem(w: &Arc<World>) -> Arc<Engine<MemCfg>> {
    let mut e = Engine::<MemCfg>::new_with(Plugin::default(), InMemoryStorageEngineFactory, SeededStableHasherBuilder::<Sip128Hasher>::new(0)).await.unwrap();
    register(&mut e, w);
    Arc::new(e)
}

pub async fn open_db(w: &Arc<World>, disk: &Arc<Shared>, cache_capacity: u64, workers: usize) -> Arc<Engine<DbCfg>> {
    let f = DbBackedFactory::builder()
        .configuration(Configuration::builder().cache_capacity(cache_capacity).serialization_workers(workers).build())
        .db_factory(MemDbFactory(disk.clone()))
        .build();
    let mut e = Engine::<DbCfg>::new_with(Plugin::default(), f, SeededStableHasherBuilder::<Sip128Hasher>::new(0)).await.unwrap();
    register(&mut e, w);
    Arc::new(e)
}

/// from-scratch evaluation (the oracle of C01): value of `n` for given inputs / external
/// values; `None` when an input is unset or when the evaluation meets a dependency cycle
/// (then the answer depends on where the cycle is entered and is judged by the model only)
pub fn oracle(prog: &Program, inputs: &HashMap<u32, i64>, ext: &HashMap<u32, i64>, n: Node, _depth: u32) -> Option<i64> {
    let mut stack = Vec::new();
    oracle_in(prog, inputs, ext, n, &mut stack)
}
fn oracle_in(prog: &Program, inputs: &HashMap<u32, i64>, ext: &HashMap<u32, i64>, n: Node, stack: &mut Vec<Node>) -> Option<i64> {
    match n.kind {
        Kind::Input => inputs.get(&n.idx).copied(),
        Kind::External => ext.get(&n.idx).copied(),
        _ => {
            if stack.contains(&n) { return None; }
            stack.push(n);
            let r = ev(prog, inputs, ext, prog.exprs.get(&n)?, stack);
            stack.pop();
            r
        }
    }
}
fn ev(p: &Program, i: &HashMap<u32, i64>, x: &HashMap<u32, i64>, e: &Expr, d: &mut Vec<Node>) -> Option<i64> {
    Some(match e {
        Expr::Const(z) => *z,
        Expr::Read(n) => oracle_in(p, i, x, *n, d)?,
        Expr::Add(a, b) => ev(p, i, x, a, d)?.wrapping_add(ev(p, i, x, b, d)?),
        Expr::Mul(a, b) => ev(p, i, x, a, d)?.wrapping_mul(ev(p, i, x, b, d)?),
        Expr::Mod(a, m) => ev(p, i, x, a, d)?.rem_euclid(*m),
        Expr::Lt(a, b) => (ev(p, i, x, a, d)? < ev(p, i, x, b, d)?) as i64,
        Expr::If(c, a, b) => if ev(p, i, x, c, d)? != 0 { ev(p, i, x, a, d)? } else { ev(p, i, x, b, d)? },
        Expr::Group(ns) | Expr::Spawn(ns) => { let mut s = 0i64; for n in ns { s = s.wrapping_add(oracle_in(p, i, x, *n, d)?); } s }
        Expr::Delay(_, e) => ev(p, i, x, e, d)?,
    })
}


/// From-scratch evaluation WITH dependency cycles (the oracle of C06): demand-driven evaluation of
/// `root` on a fresh engine as the property describes it - a read of a query that is being
/// evaluated closes a cycle; every query on the evaluation stack from that query up to the reader
/// lies on the cycle, is unwound by the cyclic error and takes its executor's cycle default; a query
/// outside the cycle that reads a member sees that default as an ordinary value.  `None`: an input
/// is unset.
pub fn oracle_cyclic(prog: &Program, inputs: &HashMap<u32, i64>, ext: &HashMap<u32, i64>, root: Node) -> Option<i64> {
    struct Ev<'a> { p: &'a Program, i: &'a HashMap<u32, i64>, x: &'a HashMap<u32, i64>, memo: HashMap<Node, i64>, stack: Vec<Node>, marked: std::collections::HashSet<Node>, unset: bool }
    enum R { Val(i64), Cyc }
    impl Ev<'_> {
        /// what the reader on top of the stack gets
        fn read(&mut self, n: Node) -> R {
            let v = match n.kind {
                Kind::Input => match self.i.get(&n.idx) { Some(v) => *v, None => { self.unset = true; 0 } },
                Kind::External => match self.x.get(&n.idx) { Some(v) => *v, None => { self.unset = true; 0 } },
                _ => {
                    if let Some(v) = self.memo.get(&n) { *v }
                    else if let Some(pos) = self.stack.iter().position(|m| *m == n) {
                        for m in self.stack[pos..].to_vec() { self.marked.insert(m); }
                        return R::Cyc;
                    } else {
                        self.stack.push(n);
                        let r = match self.p.exprs.get(&n) { Some(e) => self.ev(&e.clone()), None => { self.unset = true; R::Val(0) } };
                        self.stack.pop();
                        let v = if self.marked.contains(&n) { scc_default(n.kind) } else { match r { R::Val(v) => v, R::Cyc => scc_default(n.kind) } };
                        self.memo.insert(n, v);
                        v
                    }
                }
            };
            // a reader that is itself on the cycle is unwound
            if self.stack.last().is_some_and(|top| self.marked.contains(top)) { R::Cyc } else { R::Val(v) }
        }
        fn ev(&mut self, e: &Expr) -> R {
            macro_rules! get { ($x:expr) => { match $x { R::Val(v) => v, R::Cyc => return R::Cyc } } }
            R::Val(match e {
                Expr::Const(z) => *z,
                Expr::Read(n) => get!(self.read(*n)),
                Expr::Add(a, b) => { let x = get!(self.ev(a)); let y = get!(self.ev(b)); x.wrapping_add(y) }
                Expr::Mul(a, b) => { let x = get!(self.ev(a)); let y = get!(self.ev(b)); x.wrapping_mul(y) }
                Expr::Mod(a, m) => get!(self.ev(a)).rem_euclid(*m),
                Expr::Lt(a, b) => { let x = get!(self.ev(a)); let y = get!(self.ev(b)); (x < y) as i64 }
                Expr::If(c, a, b) => { let x = get!(self.ev(c)); if x != 0 { get!(self.ev(a)) } else { get!(self.ev(b)) } }
                Expr::Group(ns) | Expr::Spawn(ns) => { let mut s = 0i64; for n in ns { s = s.wrapping_add(get!(self.read(*n))); } s }
                Expr::Delay(_, e) => get!(self.ev(e)),
            })
        }
    }
    let mut ev = Ev { p: prog, i: inputs, x: ext, memo: HashMap::new(), stack: Vec::new(), marked: Default::default(), unset: false };
    let r = ev.read(root);
    if ev.unset { return None; }
    match r { R::Val(v) => Some(v), R::Cyc => None }
}
