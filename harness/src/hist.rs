//! Random programs and histories for the engine-level checks, the runner that drives the
//! real engine through a history, and the model-independent oracles (C01: from-scratch
//! values, C03: justification of every executor invocation).
use std::{
    collections::{HashMap, HashSet},
    panic::AssertUnwindSafe,
    sync::{Arc, atomic::Ordering},
};

use futures::FutureExt;
use qbice::{Config, Engine};

use crate::{
    prog::{Event, Expr, Kind, Node, Program, Var, World, oracle, query_node, Ext},
    rng::Rng,
};

#[derive(Clone, Debug, PartialEq, Eq)]
pub enum Op {
    /// one input session: writes (var, value), types to refresh (only External exists), then commit
    Session { sets: Vec<(u32, i64)>, refresh: bool },
    Query(Node),
    /// change what the outside world would answer for an external input
    SetWorld(u32, i64),
    /// drop the engine and open a new one on the same store (db-backed runs only)
    Restart,
}
impl Op {
    pub fn coq(&self) -> String {
        match self {
            Op::Session { sets, refresh } => format!("(OSession [{}] {})", sets.iter().map(|(v, x)| format!("({v}%N, ({x}))")).collect::<Vec<_>>().join("; "), refresh),
            Op::Query(n) => format!("(OQuery {})", n.coq()),
            Op::SetWorld(i, v) => format!("(OSetWorld {i} ({v}))"),
            Op::Restart => "ORestart".into(),
        }
    }
}

#[derive(Clone, Debug)]
pub struct Scenario { pub prog: Program, pub n_inputs: u32, pub n_ext: u32, pub ops: Vec<Op> }

pub struct GenCfg { pub max_nodes: u32, pub max_ops: u32, pub allow_fw: bool, pub allow_proj: bool, pub allow_ext: bool, pub allow_group: bool, pub restarts: bool, pub cyclic: bool,
    /// firewalls read no firewall or projection (directly or through normal queries) and projections read firewalls only:
    /// the parallel repair tasks of one request then cannot meet, and executions / bookkeeping are a function of the history
    pub layered: bool }

fn gen_expr(r: &mut Rng, leaves: &[Node], depth: u32, allow_group: bool) -> Expr {
    if leaves.is_empty() { return Expr::Const(r.below(5) as i64); }
    if depth == 0 || r.chance(1, 4) {
        return if r.chance(1, 6) { Expr::Const(r.below(5) as i64) } else { Expr::Read(*r.pick(leaves)) };
    }
    // a dependency that is read but does not influence the value, switched by a condition: the
    // dependency set (and the transitive firewall callees) change while the value does not
    if r.chance(1, 7) {
        let cond = Expr::Mod(Box::new(Expr::Read(*r.pick(leaves))), 2);
        let ghost = Expr::If(Box::new(cond), Box::new(Expr::Read(*r.pick(leaves))), Box::new(if r.chance(1, 2) { Expr::Const(0) } else { Expr::Read(*r.pick(leaves)) }));
        return Expr::Add(Box::new(gen_expr(r, leaves, depth - 1, allow_group)), Box::new(Expr::Mul(Box::new(Expr::Const(0)), Box::new(ghost))));
    }
    match r.below(10) {
        0 | 1 => Expr::Add(Box::new(gen_expr(r, leaves, depth - 1, allow_group)), Box::new(gen_expr(r, leaves, depth - 1, allow_group))),
        2 => Expr::Mul(Box::new(gen_expr(r, leaves, depth - 1, allow_group)), Box::new(gen_expr(r, leaves, depth - 1, allow_group))),
        3 => Expr::Lt(Box::new(gen_expr(r, leaves, depth - 1, allow_group)), Box::new(gen_expr(r, leaves, depth - 1, allow_group))),
        4 | 5 | 6 => Expr::If(
            Box::new(Expr::Mod(Box::new(gen_expr(r, leaves, depth - 1, allow_group)), 2)),
            Box::new(gen_expr(r, leaves, depth - 1, allow_group)),
            Box::new(gen_expr(r, leaves, depth - 1, allow_group)),
        ),
        7 if allow_group && { let mut d = leaves.to_vec(); d.sort(); d.dedup(); d.len() >= 2 } => {
            let distinct = { let mut d = leaves.to_vec(); d.sort(); d.dedup(); d.len() as u64 };
            let k = r.range(2, distinct.min(4));
            let mut ns: Vec<Node> = Vec::new();
            while (ns.len() as u64) < k { let n = *r.pick(leaves); if !ns.contains(&n) { ns.push(n); } }
            Expr::Group(ns)
        }
        _ => Expr::Read(*r.pick(leaves)),
    }
}

pub fn gen_scenario(r: &mut Rng, c: &GenCfg) -> Scenario {
    let n_inputs = r.range(2, 4) as u32;
    let n_ext = if c.allow_ext { r.below(3) as u32 } else { 0 };
    let n_exec = r.range(2, c.max_nodes as u64) as u32;
    let mut prog = Program::default();
    let mut avail: Vec<Node> = (0..n_inputs).map(|i| Node { kind: Kind::Input, idx: i }).collect();
    avail.extend((0..n_ext).map(|i| Node { kind: Kind::External, idx: i }));
    let mut counters = [0u32; 5];
    let mut tainted: std::collections::HashSet<Node> = std::collections::HashSet::new();
    // cyclic programs: decide all node names first so that a body may read any of them
    let mut planned: Vec<Node> = Vec::new();
    if c.cyclic {
        let mut cnt = [0u32; 5];
        let mut have_fw = false;
        for _ in 0..n_exec {
            let roll = r.below(100);
            let kind = if c.allow_proj && have_fw && roll < 20 { Kind::Projection } else if c.allow_fw && roll < 45 { Kind::Firewall } else { Kind::Normal };
            if kind == Kind::Firewall { have_fw = true; }
            planned.push(Node { kind, idx: cnt[kind as usize] }); cnt[kind as usize] += 1;
        }
    }
    for k in 0..n_exec {
        let mut fwprj: Vec<Node> = avail.iter().copied().filter(|n| matches!(n.kind, Kind::Firewall | Kind::Projection)).collect();
        let roll = r.below(100);
        let kind = if c.cyclic { planned[k as usize].kind }
                   else if c.allow_proj && !fwprj.is_empty() && roll < 25 { Kind::Projection }
                   else if c.allow_fw && roll < 50 { Kind::Firewall } else { Kind::Normal };
        let idx = counters[kind as usize]; counters[kind as usize] += 1;
        if c.cyclic {
            // back/self edges: every planned node (including this one and later ones) may be read
            let later: Vec<Node> = planned.iter().copied().filter(|n| !avail.contains(n)).collect();
            fwprj.extend(later.iter().copied().filter(|n| matches!(n.kind, Kind::Firewall | Kind::Projection)));
            if r.chance(1, 2) { for n in later.iter().take(2) { avail.push(*n); } }
        }
        let leaves: Vec<Node> = if kind == Kind::Projection { if c.layered { fwprj.iter().copied().filter(|n| n.kind == Kind::Firewall).collect() } else { fwprj } } else {
            // bias towards recent nodes so that chains form, keep inputs reachable
            let avail: Vec<Node> = if c.layered && kind == Kind::Firewall { avail.iter().copied().filter(|n| !tainted.contains(n)).collect() } else { avail.clone() };
            let mut l = avail.clone();
            let recent: Vec<Node> = avail.iter().rev().take(4).copied().collect();
            l.extend(recent.iter().copied()); l.extend(recent);
            l
        };
        let body = gen_expr(r, &leaves, 3, c.allow_group);
        // modulus 1 (value always 0) makes queries that re-execute without ever changing: early cut-off
        let m = *r.pick(&[2i64, 3, 5, 10, 100, 2, 3, 1]);
        let n = Node { kind, idx };
        { let mut v = Vec::new(); body.may_read(&mut v); if kind != Kind::Normal || v.iter().any(|d| tainted.contains(d)) { tainted.insert(n); } }
        prog.exprs.insert(n, Expr::Mod(Box::new(body), m));
        if c.cyclic { avail.retain(|x| planned.contains(x) == false || prog.exprs.contains_key(x)); }
        if !avail.contains(&n) { avail.push(n); }
    }
    let execs: Vec<Node> = prog.exprs.keys().copied().collect();
    let mut ops = vec![Op::Session { sets: (0..n_inputs).map(|i| (i, r.below(6) as i64)).collect(), refresh: false }];
    let mut hist_vals: Vec<Vec<i64>> = vec![Vec::new(); n_inputs as usize];
    if let Op::Session { sets, .. } = &ops[0] { for (v, x) in sets { hist_vals[*v as usize].push(*x); } }
    let n_ops = r.range(3, c.max_ops as u64);
    for _ in 0..n_ops {
        let roll = r.below(100);
        if roll < 50 {
            // queries: mostly roots (late nodes), sometimes inner nodes, sometimes repeated
            // mostly roots; sometimes any node; sometimes a firewall / projection asked for directly (its update then
            // happens outside any transitive-firewall repair)
            let inner: Vec<Node> = execs.iter().copied().filter(|n| matches!(n.kind, Kind::Firewall | Kind::Projection)).collect();
            let n = if !inner.is_empty() && r.chance(1, 5) { *r.pick(&inner) }
                    else if r.chance(2, 3) { execs[execs.len() - 1 - r.below((execs.len() as u64).min(3)) as usize] } else { *r.pick(&avail) };
            ops.push(Op::Query(n));
            if r.chance(1, 5) { ops.push(Op::Query(n)); }
        } else if roll < 85 {
            let k = r.range(1, 3);
            let mut sets = Vec::new();
            for _ in 0..k {
                let v = r.below(n_inputs as u64) as u32;
                let cur = *hist_vals[v as usize].last().unwrap();
                let x = match r.below(10) {
                    0 | 1 | 2 => cur,                                           // unchanged write
                    3 | 4 => *r.pick(&hist_vals[v as usize]),                  // revert to an earlier value
                    _ => r.below(6) as i64,
                };
                hist_vals[v as usize].push(x);
                sets.push((v, x));
            }
            ops.push(Op::Session { sets, refresh: n_ext > 0 && r.chance(1, 3) });
        } else if roll < 93 && n_ext > 0 {
            ops.push(Op::SetWorld(r.below(n_ext as u64) as u32, r.below(6) as i64));
        } else if roll < 97 && c.restarts {
            ops.push(Op::Restart);
        } else {
            ops.push(Op::Session { sets: vec![], refresh: n_ext > 0 });       // empty / refresh-only session
        }
    }
    // end with a query of every root so that the final state is judged
    ops.push(Op::Query(*execs.last().unwrap()));
    Scenario { prog, n_inputs, n_ext, ops }
}

#[derive(Clone, Debug, PartialEq, Eq)]
pub enum Outcome { Value(i64), Panic(String), SessionDone(Vec<&'static str>), World, Restarted }

#[derive(Clone, Debug)]
pub struct OpResult { pub outcome: Outcome, pub events: Vec<Event>, pub dirtied: Option<usize>, pub state: Option<String> }
impl OpResult {
    /// Coq term of what the real engine did for one op: result, executed nodes (in
    /// start order) and the statistic — compared with the model
    pub fn coq(&self) -> String {
        let execs: Vec<String> = self.events.iter().filter_map(|e| if let Event::Exec(n) = e { Some(n.coq()) } else { None }).collect();
        let out = match &self.outcome {
            Outcome::Value(v) => format!("(RValue ({v}))"),
            Outcome::Panic(_) => "RPanic".to_string(),
            Outcome::SessionDone(rs) => format!("(RSession [{}])", rs.join("; ")),
            Outcome::World => "RUnit".into(),
            Outcome::Restarted => "RUnit".into(),
        };
        let d = match self.dirtied { Some(d) => format!("(Some {d}%N)"), None => "None".into() };
        format!("(mkRes {out} [{}] {d})", execs.join("; "))
    }
}

pub enum Opened<C: Config> { E(Arc<Engine<C>>) }

/// run one op on an engine
pub async fn run_op<C: Config>(engine: &Arc<Engine<C>>, w: &Arc<World>, op: &Op) -> OpResult {
    w.take_log();
    if crate::prog::trace_on() { eprintln!("op {:?}", op); }
    match op {
        Op::Session { sets, refresh } => {
            let mut s = engine.input_session().await;
            let mut rs = Vec::new();
            for (v, x) in sets {
                let r = s.set_input(Var(*v), *x).await;
                rs.push(match r { qbice::SetInputResult::Fresh => "SFresh", qbice::SetInputResult::Updated => "SUpdated", qbice::SetInputResult::Unchanged => "SUnchanged" });
            }
            if *refresh { s.refresh::<Ext>().await; }
            s.commit().await;
            OpResult { outcome: Outcome::SessionDone(rs), events: w.take_log(), dirtied: None, state: None }
        }
        Op::Query(n) => {
            let t = engine.clone().tracked().await;
            let r = AssertUnwindSafe(query_node(&t, *n)).catch_unwind().await;
            let dirtied = t.get_dirtied_edges_count();
            drop(t);
            let outcome = match r {
                Ok(v) => Outcome::Value(v),
                Err(p) => Outcome::Panic(p.downcast_ref::<String>().cloned().or_else(|| p.downcast_ref::<&str>().map(|s| s.to_string())).unwrap_or_else(|| "non-string panic".into())),
            };
            OpResult { outcome, events: w.take_log(), dirtied: Some(dirtied), state: None }
        }
        Op::SetWorld(i, v) => { w.ext[*i as usize].store(*v, Ordering::SeqCst); OpResult { outcome: Outcome::World, events: vec![], dirtied: None, state: None } }
        Op::Restart => OpResult { outcome: Outcome::Restarted, events: vec![], dirtied: None, state: None },
    }
}

/// model-independent judgement of a finished run (C01 values, C03 justification)
#[derive(Default, Debug)]
pub struct Judge {
    pub inputs: HashMap<u32, i64>,
    /// what each external input's executor last returned (the committed external value)
    pub ext_seen: HashMap<u32, i64>,
    /// reads of the last completed execution of each node: (dep, value seen)
    pub prev_reads: HashMap<Node, Vec<(Node, i64)>>,
    pub computed: HashSet<Node>,
    pub epoch: u64,
    pub ran_in_epoch: HashSet<(Node, u64)>,
    pub violations_c01: Vec<String>,
    pub violations_c03: Vec<String>,
    /// (was: instances of the finding `c03_projection_changeback`, repaired in /repo by 2e5f36f; such executions are
    /// ordinary C03 violations now, the field stays empty)
    pub known_c03_changeback: Vec<String>,
    /// every value each node's executor returned, with the step at which it did
    pub done_hist: HashMap<Node, Vec<(usize, i64)>>,
    /// step of the last execution of each node
    pub last_run: HashMap<Node, usize>,
    pub execs: u64, pub repairs_without_exec: u64, pub queries: u64,
    /// cyclic programs: answers whose from-scratch evaluation meets a cycle are not judged here
    pub cyclic: bool, pub judged: u64, pub skipped_cyclic: u64, pub judged_cyclic: u64,
    /// nothing had been computed when the current operation started (a fresh engine)
    pub fresh_before_this_op: bool,
    /// instances of the recorded finding c06_incremental_scc_membership
    pub cyclic_incremental: Vec<String>,
    /// queries that took a cycle default at some point of this history (executor invoked, no value returned)
    pub took_default: std::collections::HashSet<Node>,
    /// an instance of that finding has occurred in this history: later mismatches are its consequences
    pub tainted: bool,
}
impl Judge {
    pub fn observe(&mut self, prog: &Program, op: &Op, res: &OpResult, step: usize) {
        match op {
            Op::Session { sets, .. } => { for (v, x) in sets { self.inputs.insert(*v, *x); } self.epoch += 1; }
            Op::Restart | Op::SetWorld(..) => {}
            Op::Query(_) => { self.queries += 1; }
        }
        let in_session = matches!(op, Op::Session { .. });
        self.fresh_before_this_op = self.computed.is_empty();
        // executions: gather per node the reads of this op
        let mut cur_reads: HashMap<Node, Vec<(Node, i64)>> = HashMap::new();
        let mut order: Vec<Node> = Vec::new();
        for e in &res.events {
            match e {
                Event::Exec(n) => {
                    self.execs += 1; order.push(*n); cur_reads.insert(*n, Vec::new());
                    if !self.ran_in_epoch.insert((*n, self.epoch)) {
                        self.violations_c03.push(format!("step {step}: {} executed twice between two input sessions", n.short()));
                    }
                }
                Event::Read { by, dep, value } => { cur_reads.entry(*by).or_default().push((*dep, *value)); }
                Event::Done { node, value } => {
                    if node.kind == Kind::External { self.ext_seen.insert(node.idx, *value); }
                }
            }
        }
        // values returned in this op / before this op
        let mut done_now: HashMap<Node, i64> = HashMap::new();
        for e in &res.events { if let Event::Done { node, value } = e { done_now.insert(*node, *value); } }
        // C03: justification, judged against the from-scratch values of the *current* inputs
        for n in &order {
            if self.cyclic { break; }   // C03 quantifies over acyclic programs only
            if n.kind == Kind::External {
                if self.computed.contains(n) && !in_session {
                    self.violations_c03.push(format!("step {step}: external input {} re-executed outside refresh", n.short()));
                }
                continue;
            }
            if self.computed.contains(n) {
                let prev = self.prev_reads.get(n).cloned().unwrap_or_default();
                let changed = prev.iter().any(|(d, seen)| { let o = oracle(prog, &self.inputs, &self.ext_seen, *d, 0); (self.cyclic && o.is_none()) || o != Some(*seen) });
                // recorded finding: backward projection re-runs a projection whenever a
                // firewall/projection it reads changed relative to that dependency's own previous
                // run, even if its value is again the one the projection saw at its last run
                // (the dependency changed and changed back while the projection was not re-run)
                let since = self.last_run.get(n).copied().unwrap_or(0);
                let changeback = n.kind == Kind::Projection && prev.iter().any(|(d, seen)| {
                    matches!(d.kind, Kind::Firewall | Kind::Projection)
                        && (done_now.get(d).is_some_and(|now| now != seen)
                            || self.done_hist.get(d).is_some_and(|h| h.iter().any(|(st, v)| *st > since && v != seen)))
                });
                if !changed && changeback {
                    self.violations_c03.push(format!("step {step}: projection {} re-executed by backward projection; its reads {:?} are unchanged since its own last run", n.short(), prev.iter().map(|(d, v)| (d.short(), *v)).collect::<Vec<_>>()));
                } else if !changed {
                    self.violations_c03.push(format!("step {step}: {} re-executed although none of its previous reads {:?} changed", n.short(), prev.iter().map(|(d, v)| (d.short(), *v)).collect::<Vec<_>>()));
                }
            }
        }
        if self.cyclic {
            for n in &order { if n.kind != Kind::External && !res.events.iter().any(|e| matches!(e, Event::Done { node, .. } if node == n)) { self.took_default.insert(*n); } }
        }
        for n in &order { self.computed.insert(*n); }
        for (n, v) in done_now { self.done_hist.entry(n).or_default().push((step, v)); }
        for n in &order { self.last_run.insert(*n, step); }
        for (n, rs) in cur_reads { if order.contains(&n) { self.prev_reads.insert(n, rs); } }
        // C01: every value handed out equals the from-scratch value
        for e in &res.events {
            if let Event::Read { by, dep, value } = e {
                let want = oracle(prog, &self.inputs, &self.ext_seen, *dep, 0);
                if self.cyclic && want.is_none() { self.skipped_cyclic += 1; continue; }
                self.judged += 1;
                if want != Some(*value) && self.cyclic && (self.tainted || (*value == crate::prog::scc_default(dep.kind) && self.took_default.contains(dep))) {
                    // a cycle default that outlived its cycle (recorded finding c06_incremental_scc_membership), or a consequence of an earlier instance in this history
                    self.tainted = true;
                    self.cyclic_incremental.push(format!("step {step}: executor of {} was handed {}={} but from-scratch gives {:?}", by.short(), dep.short(), value, want));
                } else if want != Some(*value) {
                    self.violations_c01.push(format!("step {step}: executor of {} was handed {}={} but from-scratch gives {:?}", by.short(), dep.short(), value, want));
                }
            }
        }
        if let (Op::Query(n), Outcome::Value(v)) = (op, &res.outcome) {
            let mut want = oracle(prog, &self.inputs, &self.ext_seen, *n, 0);
            // the evaluation meets a cycle: from-scratch evaluation with cycle defaults (C06)
            let mut through_cycle = false;
            if self.cyclic && want.is_none() { want = crate::prog::oracle_cyclic(prog, &self.inputs, &self.ext_seen, *n); self.judged_cyclic += 1; through_cycle = true; }
            if self.cyclic && want.is_none() { self.skipped_cyclic += 1; }
            else if want != Some(*v) && self.cyclic && !self.fresh_before_this_op
                    && (self.tainted || (!through_cycle && *v == crate::prog::scc_default(n.kind) && self.took_default.contains(n))) {
                self.tainted = true;
                self.cyclic_incremental.push(format!("step {step}: query {} returned {} but from-scratch gives {:?}", n.short(), v, want));
            }
            else if through_cycle && want != Some(*v) && !self.fresh_before_this_op {
                self.tainted = true;
                // recorded finding c06_incremental_scc_membership: results computed in earlier requests are reused
                // although cycle membership has changed since (see known_findings.txt); a FRESH evaluation is judged strictly
                self.cyclic_incremental.push(format!("step {step}: query {} returned {} but from-scratch with cycle defaults gives {:?}", n.short(), v, want));
            }
            else if want != Some(*v) {
                self.violations_c01.push(format!("step {step}: query {} returned {} but from-scratch gives {:?}", n.short(), v, want));
            }
            if res.events.iter().all(|e| !matches!(e, Event::Exec(_))) { self.repairs_without_exec += 1; }
        }
        if let (Op::Query(n), Outcome::Panic(p)) = (op, &res.outcome) {
            self.violations_c01.push(format!("step {step}: query {} panicked: {}", n.short(), p));
        }
    }
}

pub fn scenario_coq(s: &Scenario) -> String {
    format!("{} [{}]", s.prog.coq(), s.ops.iter().map(|o| o.coq()).collect::<Vec<_>>().join("; "))
}

// ---------------------------------------------------------------- replay: parse the printed form back
pub mod parse {
    use super::*;
    #[derive(Debug, Clone, PartialEq)]
    enum Tok { L, R, LB, RB, Semi, Comma, Id(String), Num(i64) }
    fn lex(s: &str) -> Vec<Tok> {
        let cs: Vec<char> = s.chars().collect();
        let mut i = 0; let mut out = Vec::new();
        while i < cs.len() {
            let c = cs[i];
            match c {
                '(' => { out.push(Tok::L); i += 1; }
                ')' => { out.push(Tok::R); i += 1; }
                '[' => { out.push(Tok::LB); i += 1; }
                ']' => { out.push(Tok::RB); i += 1; }
                ';' => { out.push(Tok::Semi); i += 1; }
                ',' => { out.push(Tok::Comma); i += 1; }
                '%' => { i += 1; while i < cs.len() && cs[i].is_alphanumeric() { i += 1; } }   // scope suffix %N
                c if c.is_whitespace() => i += 1,
                c if c == '-' || c.is_ascii_digit() => {
                    let st = i; i += 1; while i < cs.len() && cs[i].is_ascii_digit() { i += 1; }
                    out.push(Tok::Num(cs[st..i].iter().collect::<String>().parse().unwrap()));
                }
                _ => { let st = i; while i < cs.len() && (cs[i].is_alphanumeric() || cs[i] == '_') { i += 1; } out.push(Tok::Id(cs[st..i].iter().collect())); }
            }
        }
        out
    }
    struct P { t: Vec<Tok>, i: usize }
    impl P {
        fn peek(&self) -> &Tok { &self.t[self.i] }
        fn next(&mut self) -> Tok { let x = self.t[self.i].clone(); self.i += 1; x }
        fn eat(&mut self, t: Tok) { let x = self.next(); assert_eq!(x, t, "at token {}", self.i); }
        fn id(&mut self) -> String { match self.next() { Tok::Id(s) => s, t => panic!("identifier expected, got {t:?}") } }
        fn num(&mut self) -> i64 {
            match self.next() { Tok::Num(n) => n, Tok::L => { let n = self.num(); self.eat(Tok::R); n } t => panic!("number expected, got {t:?}") }
        }
        fn list<T>(&mut self, mut f: impl FnMut(&mut P) -> T) -> Vec<T> {
            self.eat(Tok::LB); let mut v = Vec::new();
            while *self.peek() != Tok::RB { v.push(f(self)); if *self.peek() == Tok::Semi { self.next(); } }
            self.eat(Tok::RB); v
        }
        fn node(&mut self) -> Node {
            self.eat(Tok::L); assert_eq!(self.id(), "mkNode");
            let kind = match self.id().as_str() { "KInput" => Kind::Input, "KNormal" => Kind::Normal, "KFirewall" => Kind::Firewall, "KProjection" => Kind::Projection, "KExternal" => Kind::External, k => panic!("kind {k}") };
            let idx = self.num() as u32; self.eat(Tok::R); Node { kind, idx }
        }
        fn expr(&mut self) -> Expr {
            self.eat(Tok::L);
            let e = match self.id().as_str() {
                "EConst" => Expr::Const(self.num()),
                "ERead" => Expr::Read(self.node()),
                "EAdd" => { let a = self.expr(); let b = self.expr(); Expr::Add(Box::new(a), Box::new(b)) }
                "EMul" => { let a = self.expr(); let b = self.expr(); Expr::Mul(Box::new(a), Box::new(b)) }
                "ELt" => { let a = self.expr(); let b = self.expr(); Expr::Lt(Box::new(a), Box::new(b)) }
                "EMod" => { let a = self.expr(); let m = self.num(); Expr::Mod(Box::new(a), m) }
                "EIf" => { let c = self.expr(); let a = self.expr(); let b = self.expr(); Expr::If(Box::new(c), Box::new(a), Box::new(b)) }
                "EGroup" => Expr::Group(self.list(|p| p.node())),
                k => panic!("expr {k}"),
            };
            self.eat(Tok::R); e
        }
        fn op(&mut self) -> Op {
            if let Tok::Id(s) = self.peek().clone() { if s == "ORestart" { self.next(); return Op::Restart; } }
            self.eat(Tok::L);
            let o = match self.id().as_str() {
                "OSession" => {
                    let sets = self.list(|p| { p.eat(Tok::L); let v = p.num() as u32; p.eat(Tok::Comma); let x = p.num(); p.eat(Tok::R); (v, x) });
                    let refresh = self.id() == "true"; Op::Session { sets, refresh }
                }
                "OQuery" => Op::Query(self.node()),
                "OSetWorld" => { let i = self.num() as u32; let v = self.num(); Op::SetWorld(i, v) }
                "ORestart" => Op::Restart,
                k => panic!("op {k}"),
            };
            self.eat(Tok::R); o
        }
    }
    /// parses `[program] [ops]` as printed by `scenario_coq` (an optional leading `mkCase` and
    /// anything after the two lists are ignored)
    pub fn scenario(s: &str) -> Scenario {
        let mut p = P { t: lex(s), i: 0 };
        if let Tok::Id(x) = p.peek().clone() { if x == "mkCase" { p.next(); } }
        let entries = p.list(|p| { p.eat(Tok::L); let n = p.node(); p.eat(Tok::Comma); let e = p.expr(); p.eat(Tok::R); (n, e) });
        let ops = p.list(|p| p.op());
        let mut prog = Program::default();
        let (mut n_inputs, mut n_ext) = (0u32, 0u32);
        let mut seen = |n: Node| { if n.kind == Kind::Input { n_inputs = n_inputs.max(n.idx + 1); } if n.kind == Kind::External { n_ext = n_ext.max(n.idx + 1); } };
        for (n, e) in &entries { let mut v = Vec::new(); e.may_read(&mut v); for d in v { seen(d); } seen(*n); }
        for o in &ops { match o { Op::Session { sets, .. } => for (v, _) in sets { seen(Node { kind: Kind::Input, idx: *v }); }, Op::Query(n) => seen(*n), Op::SetWorld(i, _) => seen(Node { kind: Kind::External, idx: *i }), _ => {} } }
        for (n, e) in entries { prog.exprs.insert(n, e); }
        Scenario { prog, n_inputs, n_ext, ops }
    }
}


// ---------------------------------------------------------------- state dump (verif_hooks)
/// the persisted bookkeeping of every node of the scenario, as a Coq term `[(node, mkDump …); …]`
pub async fn dump_state<C: Config>(engine: &Arc<Engine<C>>, nodes: &[Node]) -> String {
    use qbice::verif_hooks::{NodeDump, dump_node};
    use crate::prog::{Fw, Nrm, Prj};
    let mut dumps: Vec<(Node, NodeDump)> = Vec::new();
    for n in nodes {
        let d = match n.kind {
            Kind::Input => dump_node(engine, &Var(n.idx)).await,
            Kind::Normal => dump_node(engine, &Nrm(n.idx)).await,
            Kind::Firewall => dump_node(engine, &Fw(n.idx)).await,
            Kind::Projection => dump_node(engine, &Prj(n.idx)).await,
            Kind::External => dump_node(engine, &Ext(n.idx)).await,
        };
        dumps.push((*n, d));
    }
    let name = |id: &qbice::query::QueryID| -> String {
        dumps.iter().find(|(_, d)| d.id == *id).map(|(n, _)| n.coq()).unwrap_or_else(|| "(mkNode KInput 999999)".to_string())
    };
    let optn = |o: Option<u64>| match o { Some(x) => format!("(Some {x}%N)"), None => "None".to_string() };
    let list = |v: &Vec<qbice::query::QueryID>| format!("[{}]", v.iter().map(|i| name(i)).collect::<Vec<_>>().join("; "));
    let items: Vec<String> = dumps.iter().map(|(n, d)| format!("({}, mkDump {} {} {} {} {} {} {} {} {})", n.coq(), optn(d.last_verified), optn(d.pending_backward_projection),
        list(&d.transitive_firewall_callees), list(&d.forward), list(&d.observed), list(&d.dirty_forward), list(&d.observed_value_current), list(&d.observed_tfc_current), list(&d.backward))).collect();
    format!("[{}]", items.join("; "))
}
pub fn scenario_nodes(s: &Scenario) -> Vec<Node> {
    let mut v: Vec<Node> = (0..s.n_inputs).map(|i| Node { kind: Kind::Input, idx: i }).collect();
    v.extend((0..s.n_ext).map(|i| Node { kind: Kind::External, idx: i }));
    v.extend(s.prog.exprs.keys().copied());
    v
}


/// Structured generator for the transitive-firewall-callee bookkeeping: firewalls F_j over inputs,
/// "ghost" queries whose VALUE is constant but whose dependency on a firewall is switched by an
/// input, "flat" queries that re-execute without changing, and tops that read several of them in
/// order.  Histories toggle switches and flat inputs together, query the tops, then change what is
/// under the firewalls and query the tops again.
/// `proj`: some ghosts are PROJECTIONS over firewalls (their switch is a firewall too); `proj_links`: projections over those projections.
/// `groups`: tops read part of their dependencies inside an unordered group (before or after the single reads).
pub fn gen_scenario_tfc(r: &mut Rng, proj: bool, proj_links: bool, groups: bool) -> Scenario {
    let n_fw = r.range(1, 3) as u32;
    let n_ghost = r.range(1, 3) as u32;
    let n_flat = r.range(1, 2) as u32;
    let n_top = r.range(1, 3) as u32;
    // inputs: fw sources 0..n_fw, switches n_fw..n_fw+n_ghost, flat sources after that
    let sw0 = n_fw; let fl0 = n_fw + n_ghost; let n_inputs = fl0 + n_flat;
    let inp = |i: u32| Node { kind: Kind::Input, idx: i };
    let nrm = |i: u32| Node { kind: Kind::Normal, idx: i };
    let fw = |i: u32| Node { kind: Kind::Firewall, idx: i };
    let rd = |n: Node| Box::new(Expr::Read(n));
    let mut prog = Program::default();
    for j in 0..n_fw { prog.exprs.insert(fw(j), Expr::Mod(rd(inp(j)), *r.pick(&[2i64, 3, 5]))); }
    let mut mids: Vec<Node> = Vec::new();
    let prj = |i: u32| Node { kind: Kind::Projection, idx: i };
    let mut n_prj = 0u32;
    for k in 0..n_ghost {
        let f = fw(r.below(n_fw as u64) as u32);
        if proj && r.chance(2, 3) {
            // the switch goes through a firewall of its own (a projection may only read firewalls / projections)
            let fsw = fw(n_fw + k);
            prog.exprs.insert(fsw, Expr::Mod(rd(inp(sw0 + k)), 4));
            let other: Expr = if r.chance(1, 3) { Expr::Const(0) } else { Expr::Read(fw(r.below(n_fw as u64) as u32)) };
            let ghost = Expr::If(Box::new(Expr::Mod(rd(fsw), 2)), rd(f), Box::new(other));
            let body = if r.chance(1, 3) { Expr::Add(Box::new(Expr::Const(r.below(4) as i64)), Box::new(Expr::Mul(Box::new(Expr::Const(0)), Box::new(ghost)))) }
                       else { Expr::Add(Box::new(Expr::Const(r.below(4) as i64)), Box::new(ghost)) };
            let mut p = prj(n_prj); n_prj += 1;
            prog.exprs.insert(p, body);
            if proj_links && r.chance(1, 2) { let q = prj(n_prj); n_prj += 1; prog.exprs.insert(q, Expr::Add(rd(p), Box::new(Expr::Const(0)))); p = q; }
            // tops are normal queries; sometimes put a normal query in between
            if r.chance(1, 2) { prog.exprs.insert(nrm(k), Expr::Add(rd(p), Box::new(Expr::Const(0)))); mids.push(nrm(k)); } else { mids.push(p); }
            continue;
        }
        let other: Expr = if r.chance(1, 2) { Expr::Const(0) } else { Expr::Read(fw(r.below(n_fw as u64) as u32)) };
        let ghost = Expr::If(Box::new(Expr::Mod(rd(inp(sw0 + k)), 2)), rd(f), Box::new(other));
        // either value-neutral (0 * ghost) or value-carrying: with two firewalls that currently agree the
        // switch changes the dependency but not the value, and a later change under the firewall must show
        let body = if r.chance(1, 2) { Expr::Add(Box::new(Expr::Const(r.below(4) as i64)), Box::new(Expr::Mul(Box::new(Expr::Const(0)), Box::new(ghost)))) }
                   else { Expr::Add(Box::new(Expr::Const(r.below(4) as i64)), Box::new(ghost)) };
        prog.exprs.insert(nrm(k), body); mids.push(nrm(k));
    }
    for k in 0..n_flat {
        let body = Expr::Add(Box::new(Expr::Const(r.below(4) as i64)), Box::new(Expr::Mul(Box::new(Expr::Const(0)), rd(inp(fl0 + k)))));
        prog.exprs.insert(nrm(n_ghost + k), body); mids.push(nrm(n_ghost + k));
    }
    // sometimes a layer of links between the ghosts and the tops (value-preserving or summing), so that a
    // switch below has to travel through queries that were verified on behalf of another top
    let mut next = n_ghost + n_flat;
    if r.chance(1, 2) {
        let n_link = r.range(1, 3) as u32;
        let mut links = Vec::new();
        for _ in 0..n_link {
            let a = *r.pick(&mids);
            let e = if r.chance(1, 2) { Expr::Add(rd(a), Box::new(Expr::Const(0))) } else { Expr::Add(rd(a), rd(*r.pick(&mids))) };
            let n = nrm(next); next += 1;
            prog.exprs.insert(n, e); links.push(n);
        }
        mids.extend(links);
    }
    let mut tops = Vec::new();
    for t in 0..n_top {
        let k = r.range(2, mids.len() as u64 + 1) as usize;
        let mut e = Expr::Const(t as i64);
        if groups && r.chance(2, 3) {
            // single reads and one unordered group (no duplicates inside a group), in either order
            let mut members: Vec<Node> = Vec::new();
            for _ in 0..r.range(1, 3) { let m = *r.pick(&mids); if !members.contains(&m) { members.push(m); } }
            let singles: Vec<Node> = (0..r.range(1, 2)).map(|_| *r.pick(&mids)).collect();
            let g = Expr::Group(members);
            if r.chance(1, 2) {
                for m in &singles { e = Expr::Add(Box::new(e), rd(*m)); }
                e = Expr::Add(Box::new(e), Box::new(g));
            } else {
                e = Expr::Add(Box::new(e), Box::new(g));
                for m in &singles { e = Expr::Add(Box::new(e), rd(*m)); }
            }
        } else {
            for _ in 0..k { e = Expr::Add(Box::new(e), rd(*r.pick(&mids))); }
        }
        // sometimes a second level, so that the bookkeeping has to travel further up
        let n = nrm(next + t);
        prog.exprs.insert(n, e); tops.push(n);
    }
    if r.chance(1, 2) {
        let n = nrm(next + n_top);
        let mut e = Expr::Const(0);
        for t in &tops { e = Expr::Add(Box::new(e), rd(*t)); }
        prog.exprs.insert(n, e); tops.push(n);
    }
    let mut ops = vec![Op::Session { sets: (0..n_inputs).map(|i| (i, r.below(4) as i64)).collect(), refresh: false }];
    for t in &tops { ops.push(Op::Query(*t)); }
    for _ in 0..r.range(2, 5) {
        // toggle some switches and flat inputs together
        let mut sets = Vec::new();
        for k in 0..n_ghost { if r.chance(2, 3) { sets.push((sw0 + k, r.below(4) as i64)); } }
        for k in 0..n_flat { if r.chance(2, 3) { sets.push((fl0 + k, r.below(4) as i64)); } }
        if r.chance(1, 3) { sets.reverse(); }
        ops.push(Op::Session { sets, refresh: false });
        for t in &tops { if r.chance(3, 4) { ops.push(Op::Query(*t)); } }
        // change what is under the firewalls
        let mut sets = Vec::new();
        for j in 0..n_fw { if r.chance(2, 3) { sets.push((j, r.below(7) as i64)); } }
        ops.push(Op::Session { sets, refresh: false });
        if r.chance(1, 3) {
            // the user asks for a firewall itself: no backward projection runs for that request, the dirt of
            // the changed firewall has to travel through the (chains of) projections above it on its own;
            // the next session then voids the pending marks
            ops.push(Op::Query(Node { kind: Kind::Firewall, idx: r.below(n_fw as u64) as u32 }));
            let other = if n_flat > 0 { fl0 } else if n_ghost > 0 { sw0 } else { 0 };
            ops.push(Op::Session { sets: vec![(other, r.below(4) as i64)], refresh: false });
        }
        for t in &tops { if r.chance(3, 4) { ops.push(Op::Query(*t)); } }
        if r.chance(1, 4) { ops.push(Op::Query(*r.pick(&mids))); }
    }
    for t in &tops { ops.push(Op::Query(*t)); }
    Scenario { prog, n_inputs, n_ext: 0, ops }
}


/// Unordered dependency groups whose members take different (real) time: leaves over inputs, some of them
/// slow (`Delay`), group readers over several leaves, a top over the group readers.  Sessions change several
/// inputs at once, so that while one member of a group reports a change another is still inside its executor.
pub fn gen_scenario_gdelay(r: &mut Rng) -> Scenario {
    let n_leaf = r.range(2, 5) as u32;
    let inp = |i: u32| Node { kind: Kind::Input, idx: i };
    let nrm = |i: u32| Node { kind: Kind::Normal, idx: i };
    let rd = |n: Node| Box::new(Expr::Read(n));
    let mut prog = Program::default();
    for j in 0..n_leaf {
        let body = Expr::Add(rd(inp(j)), Box::new(Expr::Const(r.below(3) as i64)));
        let body = match r.below(3) { 0 => body, 1 => Expr::Delay(1, Box::new(body)), _ => Expr::Delay(r.range(2, 5), Box::new(body)) };
        prog.exprs.insert(nrm(j), body);
    }
    let n_grp = r.range(1, 2) as u32;
    let mut groups = Vec::new();
    for g in 0..n_grp {
        let mut members: Vec<Node> = Vec::new();
        for j in 0..n_leaf { if r.chance(3, 4) { members.push(nrm(j)); } }
        if members.len() < 2 { members = vec![nrm(0), nrm(1)]; }
        if r.chance(1, 2) { members.reverse(); }
        let n = nrm(n_leaf + g);
        let e = if r.chance(1, 3) { Expr::Add(rd(nrm(r.below(n_leaf as u64) as u32)), Box::new(Expr::Group(members))) } else { Expr::Group(members) };
        prog.exprs.insert(n, e); groups.push(n);
    }
    let top = nrm(n_leaf + n_grp);
    let mut e = Expr::Const(0);
    for g in &groups { e = Expr::Add(Box::new(e), rd(*g)); }
    prog.exprs.insert(top, e);
    let mut ops = vec![Op::Session { sets: (0..n_leaf).map(|i| (i, r.below(4) as i64)).collect(), refresh: false }, Op::Query(top)];
    for _ in 0..r.range(2, 4) {
        let mut sets = Vec::new();
        for j in 0..n_leaf { if r.chance(2, 3) { sets.push((j, r.below(50) as i64)); } }
        ops.push(Op::Session { sets, refresh: false });
        ops.push(Op::Query(if r.chance(3, 4) { top } else { *r.pick(&groups) }));
        if r.chance(1, 3) { ops.push(Op::Query(top)); }
    }
    Scenario { prog, n_inputs: n_leaf, n_ext: 0, ops }
}
