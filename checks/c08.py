"""C08 — a crash loses recent work but never yields wrong answers."""
import json, os, subprocess
import vlib, engine_common as ec

TB = ["Print Assumptions: C08_store_is_batch_prefix, C08_store_content, C08_core_sound_after_crash, C08_model_sound_after_crash closed under the global context",
      "store layer = C10's reorder-pipeline model; engine layer = core fragment with the crash modelled as completed sub-requests + restart",
      "H-backend: a backend commit applies one physical batch atomically and a crash keeps a prefix of physical batches (the in-memory store used here has that by construction; RocksDB WAL-off/atomic flush and Fjall batches are not crash-tested here)",
      "partial: 'store content at a batch boundary = the model's persisted columns' is validated by reopening the real engine on EVERY prefix of the physical commit log of random histories (cache capacities 1..64, grouping 0..3) and judging it with the from-scratch oracle, not proved",
      ] + ec.ENGINE_TB

def run_crash(seed, n):
    try:
        p = subprocess.run([vlib.bin_path("engine"), "crash", str(seed), str(n)], capture_output=True, text=True, timeout=2400)
        return json.loads(p.stdout.strip().splitlines()[-1])
    except subprocess.TimeoutExpired:
        return {"violations": [{"violation": "the harness process itself hung"}], "histories": n}

def run(ctx):
    ok, info = vlib.prove_stage("C08")
    rc, out, _ = vlib.cargo_build(["engine"])
    if rc != 0:
        raise vlib.CheckError("harness does not build against /repo:\n" + out[-3000:])
    quick = ctx.tier == "quick"
    st = run_crash(ctx.seed, 250 if quick else 5000)
    if st["violations"]:
        ctx.violation("crash_failure.json", {"what": "an engine opened on a prefix of the physical commit log failed to open, showed inputs of no committed session, gave a wrong answer, or hung",
                                             "first": st["violations"][0], "count": len(st["violations"]), "rerun": f".build/target/debug/engine crash {ctx.seed} {250 if quick else 5000}"})
    elif not ok:
        st2 = run_crash(ctx.seed + 55, 3000)
        if st2["violations"]:
            ctx.violation("crash_failure.json", {"what": "found by the extended search", "first": st2["violations"][0]})
        else:
            ctx.violation("broken_obligation.json", {"no_longer_checks": "theorem/build: " + str(info.get("failed_at", "?")), "make_tail": info.get("make_tail", "")[-1500:],
                                                     "search": f"{st2.get('prefixes_reopened')} further crash points: all recovered correctly"}, found_input=False)
    cov = vlib.proof_coverage(info, "./check C08", TB)
    cov.update({"evaluations": st.get("prefixes_reopened", 0), "distinct_nontrivial": st.get("prefixes_reopened", 0) - st.get("empty_prefixes", 0),
                "traces_validated_against_impl": st.get("queries_after_crash", 0),
                "rule": "for each random history (all kinds, restarts, db-backed engine over the logging in-memory store) the engine is reopened on every prefix of the physical commit log (every boundary between physical commits, up to 40 per history); non-trivial = prefixes that contain at least one session; each must show the inputs of a committed session, answer every query of the program with the from-scratch value for those inputs, and accept a further session",
                "samples": [{k: st.get(k) for k in ("histories", "physical_commits", "prefixes_reopened", "empty_prefixes", "queries_after_crash", "executions_after_crash", "group_max_distribution")}]})
    return ctx.finish("proof", cov, TB)

def replay(ctx, path):
    print(open(path).read()[:3000])
    return run(ctx)
