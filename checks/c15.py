"""C15 — interning is canonical under concurrency and survives encoding."""
import glob, json, os
import vlib

HEADER = """From QV Require Import Common.Prelude Intern.Model Codec.Varint Codec.Model Intern.Sharing Intern.Check.
Open Scope N_scope."""

TB = [
    "Print Assumptions: all C15_* theorems closed under the global context (no axioms)",
    "model = Intern/Model.v, written by hand from crates/storage/src/intern.rs: one step = one critical section of the code (read-lock probe; write-lock re-check/insert; one retain callback of the vacuum; one atomic Arc operation); locks are not state, so the model admits every interleaving of these steps (a superset of what the locks allow)",
    "H-atomic: Arc/Weak counting is linearizable (upgrade fails iff the strong count is 0, a count of 0 is final), parking_lot RwLock excludes writers from readers; under this every execution of the code is a schedule of the model. This step is argued in Model.v's header, not proved; no hook exists in /repo to replay a chosen interleaving on the real threads, the multi-threaded runs sample interleavings",
    "H-hash: within one type id equal 128-bit hashes mean equal values on the domain in play (Section hypothesis; necessity shown by C15_content_needs_H_hash; checked on the harness domain on every run)",
    "H-conv: Arc::<T>::from(q) holds what q.borrow() shows (intern_unsized; true of String/Box<str>/Vec<T>/Box<[T]>, a Section hypothesis)",
    "distinct Rust types have distinct STABLE_TYPE_IDs (C14); handles made by Interned::new_duplicating are outside the interner and outside the statement",
    "encode/decode part: Codec/Model.v (tied byte-exactly to crates/serialize by C12's correspondence and again here on the Share cases); an entry of the decode-side interner stands for the allocation kept alive by the value under construction",
    "a handle stored inside an interned value is a handle held by a pseudo-thread that drops it when the allocation dies (covered by 'any number of threads, any schedule'); the destructor runs in whichever thread dropped last, possibly the vacuum thread under the shard's write lock (modelled: dies_in_vacuum)",
]


def harness(ctx, seed, seq, share, stress_ops, bursts, out):
    os.makedirs(out, exist_ok=True)
    for f in glob.glob(os.path.join(out, "shard_*")):
        os.remove(f)
    rc, txt = vlib.sh([vlib.bin_path("intern"), out, str(seed), str(seq), str(share), str(stress_ops), str(bursts)], timeout=2400)
    if rc != 0:
        raise vlib.CheckError("intern harness failed:\n" + txt[-2000:])
    return json.loads(txt.strip().splitlines()[-1])


def hook_present():
    """the rendezvous hook of patches/hook_c15_rendezvous.diff (feature verif_hooks of qbice_storage)"""
    try:
        return ("verif_hooks" in open(os.path.join(vlib.REPO, "crates/storage/Cargo.toml")).read()
                and "between_probe_and_lock" in open(os.path.join(vlib.REPO, "crates/storage/src/intern.rs")).read())
    except OSError:
        return False


def replay_harness(ctx, seed, cases, steps, out):
    for f in glob.glob(os.path.join(out, "par_*")):
        os.remove(f)
    rc, txt = vlib.sh([vlib.bin_path("intern_replay"), out, str(seed), str(cases), str(steps)], timeout=1200)
    if rc != 0:
        raise vlib.CheckError("intern_replay harness failed:\n" + txt[-2000:])
    return json.loads(txt.strip().splitlines()[-1])


def run(ctx):
    ok, info = vlib.prove_stage("C15", ["theories/Intern/Check.vo"])
    rc, out, wall = vlib.cargo_build(["intern"])
    if rc != 0:
        raise vlib.CheckError("harness does not build against /repo:\n" + out[-3000:])
    quick = ctx.tier == "quick"
    seq, share = (160, 210) if quick else (1600, 2100)
    stress_ops, bursts = (40000, 1500) if quick else (400000, 20000)
    cdir = os.path.join(ctx.rundir, "cases")
    st = harness(ctx, ctx.seed, seq, share, stress_ops, bursts, cdir)
    shard_files = sorted(glob.glob(os.path.join(cdir, "shard_*.txt")))
    # deterministic small-step interleavings, only when /repo carries the rendezvous hook
    par = None
    if hook_present():
        rc, out, _ = vlib.cargo_build(["intern_replay"], features=["c15_hook", "qbice_storage/verif_hooks"])
        if rc != 0:
            raise vlib.CheckError("intern_replay does not build against /repo with verif_hooks:\n" + out[-3000:])
        par = replay_harness(ctx, ctx.seed, 200 if quick else 2000, 50, cdir)
        shard_files += sorted(glob.glob(os.path.join(cdir, "par_*.txt")))
        st["rust_fail"] = st["rust_fail"] + par["rust_fail"]
        st["n_fail"] += par["n_fail"]
    else:
        for f in glob.glob(os.path.join(cdir, "par_*")):
            os.remove(f)
    fails, errors, total = vlib.run_coq_cases("C15", shard_files, HEADER)
    samples = []
    for f in shard_files[:1]:
        lines = open(f).read().splitlines()
        samples = [l[:1500] for l in lines if l.startswith("Seq")][:1] + [l[:1500] for l in lines if l.startswith("Share")][:2]
    rerun = f"intern <dir> {ctx.seed} {seq} {share} {stress_ops} {bursts}"
    # decide: the property's own oracle on the real code first
    if st["rust_fail"]:
        ctx.violation("canonicity_fail.json", {
            "what": "the real interner violated the C15 oracle (pointer identity / content / sharing after decode)",
            "failures": st["rust_fail"], "n_failures": st["n_fail"], "rerun": rerun,
            "note": "multi-threaded failures depend on the interleaving: rerun several times; the seed fixes the operation streams, not the schedule"})
    disagreements = []
    for path, idx in fails.items():
        lines = [l for l in open(path).read().splitlines() if l.strip()]
        for i in idx[:5]:
            disagreements.append({"shard": os.path.basename(path), "index": i, "case": lines[i][:4000]})
    if errors:
        disagreements.append({"coqc_error": errors[0][1]})
    if (disagreements or not ok) and not st["rust_fail"]:
        # the model or a proof no longer matches the code: look harder for a real failing run
        st2 = harness(ctx, ctx.seed + 1000003, 400, 400, 150000, 6000, os.path.join(ctx.rundir, "search"))
        if st2["rust_fail"]:
            ctx.violation("canonicity_fail.json", {"what": "the real interner violated the C15 oracle", "failures": st2["rust_fail"],
                                                   "rerun": f"intern <dir> {ctx.seed + 1000003} 400 400 150000 6000"})
        else:
            what = ("theorem/build: " + info.get("failed_at", str({k: info.get(k) for k in ("forbidden", "unexpected_axioms", "unprinted_theorems")}))) if not ok \
                else "correspondence Intern/Model.v + Intern/Sharing.v <-> crates/storage/src/intern.rs (intern harness)"
            ctx.violation("broken_obligation.json", {
                "no_longer_checks": what, "disagreements": disagreements[:10],
                "search": f"{st2['seq_ops']} further sequential operations, {st2['stress_ops']} concurrent operations, {st2['stress_bursts']} bursts and {st2['share_cases']} encode/decode cases on the real code without an oracle failure",
                "make_tail": info.get("make_tail", "")[-1500:]}, found_input=False)
    cov = vlib.proof_coverage(info, "./check C15 (coq_makefile+make closure of Properties/C15.vo; coqc Properties/C15.v; coqc cases)", TB)
    dist = {k: st[k] for k in st if k not in ("rust_fail",)}
    cov.update({
        "traces_validated_against_impl": total,
        "evaluations": total + st["stress_ops"] + st["stress_bursts"],
        "distinct_nontrivial": st["seq_cases"] + st["share_cases_with_repeats"] + (par["par_cases"] if par else 0),
        "interleaving_replay": par if par else "skipped: /repo has no rendezvous hook (patches/hook_c15_rendezvous.diff not applied); the probe/re-check window is then only sampled by the multi-threaded runs",
        "rule": "Seq case = one random single-threaded operation sequence (40 or 120 operations, 4 types x 6 values, hot keys) replayed on the model with per-operation comparison of pointer classes, contents and get_from_hash results; all are non-trivial (distinct random streams; states with shared handles counted in seq_states_with_shared_handles). Share case = one generated structure encoded and decoded by the real code and by the model; non-trivial = it contains a repeated handle (share_cases_with_repeats, counted by the harness). Stress operations and bursts are judged by the oracle only (not replayed on the model) and are counted in evaluations, not in distinct_nontrivial",
        "samples": samples,
        "input_distribution": dist,
        "disagreements_checked": len(disagreements),
        "mutation_calibration": "measured when the check was built, on a scratch copy of /repo (not on this run): (1) re-check under the write lock removed from intern/intern_unsized: this harness with the quick parameters reported oracle failures in all 8 thread configurations in 3 of 3 runs (20 recorded per configuration = the cap; 1-4 % of the burst rounds with >= 3 threads returned two allocations), and with the rendezvous hook 61 of 120 Par cases disagreed with the model; (2) vacuum retaining only entries with more than one strong reference: 1957 sequential oracle failures and Seq cases disagreeing with the model",
    })
    return ctx.finish("proof", cov, TB)


def replay(ctx, path):
    print(open(path).read())
    return run(ctx)
