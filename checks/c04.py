"""C04 — input sessions are atomic and readers see one input snapshot."""
import json, os, subprocess
import vlib

TB = ["Print Assumptions: C04_generic, C04_generic_converse, C04_atomic, C04_commit_atomic_under_cancellation, C04_commit_inner_guard_refuted closed under the global context",
      "C04_commit_atomic_under_cancellation is instantiated with the scope of the run-to-completion wrapper `.guarded()` inside InputSession::commit read from input_session.rs on this run (whole block / propagation only / none); its step model Conc/CommitCancel.v has three steps (take, propagate, release) and does not model tokio or fast_async_guard: that a guarded future really runs to completion once polled is validated by the cancelled-commit rounds of `engine c04`",
      "protocol model Conc/PhaseLock.v (lock/batch/bump/stamp of the writer, lock/load of readers, arbitrary scheduler, any number of readers); C04_atomic is instantiated with the ORDER of those calls read from database/sync.rs on this run (tools/gen_sources.py, fixed code shape: first occurrence of write_owned/new_write_batch/fetch_add/timestamp_map.insert and read_owned/load inside the two functions)",
      "H-atomic: tokio RwLock gives mutual exclusion between write_owned and read_owned guards; AtomicU64 SeqCst; the guard is released only by dropping the session/tracked engine (a dropped session commits in a spawned task that keeps the guard)",
      "partial: that the Rust futures take exactly these steps and make progress (tokio fairness) is validated by the stress run (no stale answer after an own commit, no torn or unstable snapshot, writer waits for a pinned reader and proceeds after it is dropped; a commit() future dropped after 1-4 polls while a reader waits in tracked(): the reader sees the whole session through a chain of 250 queries), not proved",
      ]

def c04_run(millis, readers):
    try:
        p = subprocess.run([vlib.bin_path("engine"), "c04", str(millis), str(readers)], capture_output=True, text=True, timeout=millis / 1000 + 60)
        return json.loads(p.stdout.strip().splitlines()[-1])
    except subprocess.TimeoutExpired:
        return {"hang": True}
    except Exception as e:   # no output / crash
        return {"crash": str(e)}

def bad(r):
    if r.get("hang") or r.get("crash"):
        return "engine did not finish (hang or crash)"
    if r["stale_after_own_commit"] or r["torn_or_unstable_snapshots"]:
        return "stale answer after an own commit, or a tracked engine saw a torn / changing input snapshot"
    if not r["writer_waited_for_pinned_reader"] or r["pinned_during_i1"] != r["pinned_before"] or r["pinned_during"] != r["pinned_before"] + 1:
        return "a tracked engine that was still alive observed a later session"
    if not r["writer_progressed_after_drop"] or r["after"] != -4:
        return "the session did not take effect after the reader was dropped"
    if r.get("cancelled_commit_failures"):
        return "a session whose commit() future was dropped after a few polls did not take effect all at once: " + r["cancelled_commit_failures"][0]
    return None

def run(ctx):
    vlib.sh(["python3", os.path.join(vlib.VERIF, "tools", "gen_sources.py")], check=True)
    order = open(os.path.join(vlib.COQ, "theories", "Generated", "PhaseOrder.v")).read()
    scope = open(os.path.join(vlib.COQ, "theories", "Generated", "CommitGuardScope.v")).read()
    ok, info = vlib.prove_stage("C04")
    rc, out, _ = vlib.cargo_build(["engine"])
    if rc != 0:
        raise vlib.CheckError("harness does not build against /repo:\n" + out[-3000:])
    quick = ctx.tier == "quick"
    results, failing = [], None
    for readers in ([0, 1, 2, 8] if quick else [0, 1, 2, 4, 8, 16, 32]):
        r = c04_run(2500 if quick else 15000, readers)
        r["readers"] = readers
        results.append(r)
        if bad(r) and not failing:
            failing = (bad(r), r)
    if failing:
        ctx.violation("snapshot_violation.json", {"what": failing[0], "run": failing[1], "rerun": f".build/target/debug/engine c04 2500 {failing[1]['readers']}",
                                                  "scanned_order": order})
    elif not ok:
        # the proof obligation broke (typically: the scanned order is not accepted by order_ok): search longer
        more = [c04_run(20000, k) for k in (1, 3, 8)]
        hit = [(bad(r), r) for r in more if bad(r)]
        if hit:
            ctx.violation("snapshot_violation.json", {"what": hit[0][0], "run": hit[0][1], "scanned_order": order})
        else:
            ctx.violation("broken_obligation.json", {"no_longer_checks": "theorem C04_atomic / C04_commit_atomic_under_cancellation (Properties/C04.v) for the order scanned from database/sync.rs and the guard scope scanned from input_session.rs: " + str(info.get("failed_at", info.get("property_log", "?")))[:300],
                                                     "scanned_order": order, "scanned_guard_scope": scope, "search": "3 x 20 s stress runs found no stale/torn/unstable snapshot",
                                                     "make_tail": info.get("make_tail", "")[-1200:], "property_log": info.get("property_log", "")[-1200:]}, found_input=False)
    sessions = sum(r.get("sessions", 0) for r in results)
    rounds = sum(r.get("reader_rounds", 0) for r in results)
    cov = vlib.proof_coverage(info, "./check C04 (gen_sources; make closure of Properties/C04.vo; coqc Properties/C04.v; engine c04)", TB)
    cov.update({"evaluations": sessions + rounds, "distinct_nontrivial": sessions,
                "traces_validated_against_impl": sessions,
                "rule": "stress on the real engine (4 worker threads): a writer alternates committed and dropped two-write sessions and reads its own write back; k reader tasks loop tracked(); query; check I0 == I1 twice; drop; then a pinned tracked engine must hold its snapshot while a session waits; a session is non-trivial (counted) when it changed both inputs",
                "samples": results[:3], "scanned_order": order})
    return ctx.finish("proof", cov, TB)

def replay(ctx, path):
    print(open(path).read()[:3000])
    return run(ctx)
