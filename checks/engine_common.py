"""Shared driver for the engine-level checks (C01, C03, C06, C07, ...): run the `engine`
harness in several modes, judge the model-independent oracles, evaluate the Coq engine
model on the same histories."""
import glob, json, os, re
import vlib

HEADER = """From QV Require Import Common.Prelude Engine.Model Engine.Check.
Open Scope Z_scope."""

ENGINE_TB = [
    "engine model = Engine/Model.v (all query kinds, sequentialised) and Engine/Core.v (inputs + normal queries), written by hand; tied to crates/qbice/src/engine/computation_graph* by exact comparison of answers, SetInputResults, the multiset of executor invocations per operation, (where deterministic) the dirtied-edge statistic and, after every operation, the persisted bookkeeping of every query (computed or not, pending backward projection, transitive firewall callees, dependency order, observed dependencies and which observations are current in value / in firewall fingerprint, dirty edges) read through the hook qbice::verif_hooks::dump_node, on this run's random histories",
    "fingerprints are modelled by the values themselves (H-hash: no 128-bit collision among the values in play)",
    "the from-scratch oracle (harness/src/prog.rs `oracle`) judges the real engine independently of the model",
    "parallel tasks inside one request (transitive-firewall repair, unordered groups, backward projections) are sequentialised in the model; runs use a current-thread runtime (multi-thread runs are judged by the oracle only). Executions and bookkeeping are compared exactly on programs where those tasks cannot meet (modes basic, tfc, fw-free cyclic, `layered`: firewalls read no firewall/projection, projections read firewalls only); on unrestricted programs (mode `all`) answers are compared exactly and a difference in executions/bookkeeping only is counted as schedule-dependent (evidence: schedule_dependent_cases), every real execution still being judged by the justification oracle",
]

def run_hist(ctx, outdir, seed, n, shards, cfg, mode, threads=1, hang_secs=20, dump=True):
    """dump: after every operation the bookkeeping of every query is read through the hook
    qbice::verif_hooks::dump_node and written into the case (mkCaseS), so that the model is
    compared state by state, not only by answers and executions"""
    os.makedirs(outdir, exist_ok=True)
    for f in glob.glob(os.path.join(outdir, "shard_*")):
        os.remove(f)
    rc, txt = vlib.sh([vlib.bin_path("engine"), "hist", outdir, str(seed), str(n), str(shards), cfg, mode],
                      timeout=3000, env={"QV_THREADS": str(threads), "QV_HANG_SECS": str(hang_secs), **({"QV_DUMP": "1"} if dump and threads == 1 else {})})
    if rc != 0 and ("aborting" in txt or "panicked" in txt or rc in (134, -6)):
        # a panic inside the engine that could not be unwound (panic in a destructor) killed the harness process:
        # that is a failure of the engine on some history of this run, not of the check
        v = {"index": -1, "violation": "the engine aborted the harness process (non-unwinding panic) in mode " + mode + ": " + txt[-600:],
             "scenario": f"rerun: QV_THREADS={threads} {vlib.bin_path('engine')} hist {outdir} {seed} {n} {shards} {cfg} {mode}"}
        return {"histories": 0, "ops": 0, "queries": 0, "executions": 0, "queries_served_without_execution": 0, "nodes": 0, "kinds": {},
                "n_c01": 1, "n_c03": 0, "n_changeback": 0, "c01": [v], "c03": [], "hangs": []}
    if rc != 0:
        raise vlib.CheckError(f"engine harness failed ({mode},{cfg}):\n" + txt[-2000:])
    return json.loads(txt.strip().splitlines()[-1])

SCHEDULE_DEPENDENT = {"count": 0, "sample": None}

def model_compare(pid, outdir, fn="failures"):
    """fn = graded_failures: a case whose answers agree with the model but whose executions or
    bookkeeping differ is counted (SCHEDULE_DEPENDENT) and not reported; see Check.v"""
    shard_files = sorted(glob.glob(os.path.join(outdir, "shard_*.txt")))
    fails, errors, total = vlib.run_coq_cases(pid, shard_files, HEADER, fn=fn)
    dis = []
    for path, idx in fails.items():
        lines = [l for l in open(path).read().splitlines() if l.strip()]
        if fn == "graded_failures":
            soft = [i // 2 for i in idx if i % 2 == 0]
            SCHEDULE_DEPENDENT["count"] += len(soft)
            if soft and SCHEDULE_DEPENDENT["sample"] is None:
                SCHEDULE_DEPENDENT["sample"] = {"shard": path, "index": soft[0], "case": lines[soft[0]][:1500]}
            idx = [i // 2 for i in idx if i % 2 == 1]
        for i in idx[:3]:
            dis.append({"shard": os.path.basename(path), "index": i, "case": lines[i]})
    if errors:
        dis.append({"coqc_error": errors[0][1]})
    return dis, total

def replay_witness(path, cfg="mem", cyclic=True, hang_secs=4):
    """returns ('ok'|'violation'|'hang', output)"""
    rc, txt = vlib.sh([vlib.bin_path("engine"), "replay", path, cfg] + (["cyclic"] if cyclic else []),
                      timeout=120, env={"QV_HANG_SECS": str(hang_secs)})
    return {0: "ok", 1: "violation", 2: "hang"}.get(rc, "crash"), txt

def sample_lines(outdir, k=2):
    fs = sorted(glob.glob(os.path.join(outdir, "shard_*.txt")))
    return [l[:1200] for l in open(fs[0]).read().splitlines()[:k]] if fs else []

def dist(st):
    return {k: st[k] for k in ("histories", "ops", "queries", "executions", "queries_served_without_execution", "nodes", "kinds") if k in st}
