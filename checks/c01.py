"""C01 — incremental answers equal a from-scratch evaluation."""
import os
import vlib, engine_common as ec

TB = ["Print Assumptions: C01_core_sound, C01_core_unguarded_refuted, C01_core_no_panic, C01_fw_sound, C01_fw_unguarded_refuted, C01_model_sound, C01_model_sound_x, C01_model_sound_any_task_order, C01_model_identity_order_is_run_history, C01_model_no_panic, C01_model_unguarded_refuted closed under the global context",
      "C01_core_sound is about Engine/Core.v (inputs + Normal queries), C01_fw_sound about Engine/Fw.v (adds Firewall queries and the transitive-firewall-callee bookkeeping), C01_model_sound about the full model Engine/Model.v itself (`step`, `run_history`) for programs with Normal, Firewall and Projection queries, unordered groups and (C01_model_sound_x) external inputs with world changes and refresh; all three models are compared with the real engine on this run. The tie between model and code is the correspondence run, not a proof (partial)",
      "the model runs the parallel tasks of one request (transitive-firewall repair, backward projections) one after the other; C01_model_sound_any_task_order covers every ORDER of those tasks (state-dependent permutation oracles), true interleaving (a task suspended while another runs) is covered by the oracle runs only",
      ] + ec.ENGINE_TB

def run(ctx):
    ok, info = vlib.prove_stage("C01", ["theories/Engine/Check.vo"])
    rc, out, _ = vlib.cargo_build(["engine"])
    if rc != 0:
        raise vlib.CheckError("harness does not build against /repo:\n" + out[-3000:])
    quick = ctx.tier == "quick"
    runs = [("basic", "mem", 600 if quick else 6000, "core_failures"),
            ("layered", "mem", 700 if quick else 10000, "failures"),
            ("layered", "db:1", 250 if quick else 3000, "failures"),
            ("all", "mem", 500 if quick else 8000, "graded_failures"),
            ("all", "db:1", 200 if quick else 3000, "graded_failures"),
            ("all", "db:64", 200 if quick else 3000, "graded_failures"),
            # structured generator for the transitive-firewall-callee bookkeeping (value-neutral
            # switches between firewalls, tops repaired in different orders)
            ("tfc", "mem", 500 if quick else 3000, "failures"),
            ("tfc", "db:4", 150 if quick else 800, "failures"),
            ("fw", "mem", 400 if quick else 6000, "failures"),
            # the same with projections over the firewalls (and projections over those: graded)
            ("ptfc", "mem", 400 if quick else 2500, "failures"),
            # ... with tops that read part of their dependencies inside an unordered group
            ("gtfc", "mem", 400 if quick else 2500, "failures"),
            ("gptfc", "mem", 300 if quick else 2000, "failures"),
            ("ptfc-chain", "mem", 300 if quick else 2000, "graded_failures"),
            # the firewall fragment model Engine/Fw.v (the one FwSound.v is about) against the same kind of histories
            ("fw", "mem", 300 if quick else 3000, "fw_failures"),
            ("tfc", "mem", 300 if quick else 1500, "fw_failures")]
    total, dis_all, dists, real_fail, samples, hist_total = 0, [], {}, [], [], 0
    for k, (mode, cfg, n, fn) in enumerate(runs):
        d = os.path.join(ctx.rundir, f"{mode}_{cfg.replace(':', '')}_{fn}")
        st = ec.run_hist(ctx, d, ctx.seed + 101 * k, n, 16, cfg, mode)
        dists[f"{mode}/{cfg}"] = ec.dist(st)
        hist_total += st["histories"]
        for v in st["c01"]:
            real_fail.append({"mode": mode, "cfg": cfg, **v})
        for v in st["hangs"]:
            real_fail.append({"mode": mode, "cfg": cfg, **v})
        dis, t = ec.model_compare("C01", d, fn)
        total += t
        dis_all += [{"mode": mode, "cfg": cfg, **x} for x in dis]
        if not samples:
            samples = ec.sample_lines(d)
    # multi-threaded runs: judged by the oracle only
    d = os.path.join(ctx.rundir, "mt")
    st = ec.run_hist(ctx, d, ctx.seed + 7, 300 if quick else 4000, 4, "mem", "all", threads=8)
    dists["all/mem/8 threads (oracle only)"] = ec.dist(st)
    hist_total += st["histories"]
    for v in st["c01"] + st["hangs"]:
        real_fail.append({"mode": "all", "cfg": "mem, 8 worker threads", **v})
    # regression corpus: minimised histories of defects repaired in /repo (known_findings.txt: fixed)
    for w in ("c01_tfc_aba.txt", "c01_tfc_stale_root_walk.txt", "c01_tfc_stale_root_exec.txt", "c01_lost_backward_projection.txt",
              "c01_projection_switches_firewall.txt", "c01_projection_chain_switches_firewall.txt"):
        status, txt = ec.replay_witness(os.path.join(vlib.VERIF, "witness", w), cyclic=False)
        if status != "ok":
            real_fail.append({"mode": "witness " + w, "violation": status, "scenario": txt[-1500:]})
    if real_fail:
        ctx.violation("wrong_answer.json", {"what": "the real engine handed out a value that differs from the from-scratch evaluation (or hung)",
                                            "first": real_fail[0], "count": len(real_fail),
                                            "replay": "save `scenario` (the two lists) to a file and run: .build/target/debug/engine replay <file> mem"})
    elif dis_all or not ok:
        # model or proof no longer matches the code, and the oracle found nothing: search harder
        st2 = ec.run_hist(ctx, os.path.join(ctx.rundir, "search"), ctx.seed + 999983, 6000, 4, "mem", "all")
        if st2["c01"] or st2["hangs"]:
            ctx.violation("wrong_answer.json", {"what": "wrong answer found by the extended search", "first": (st2["c01"] + st2["hangs"])[0]})
        else:
            what = ("theorem/build: " + str(info.get("failed_at", {k: info.get(k) for k in ("forbidden", "unexpected_axioms", "unprinted_theorems")}))) if not ok \
                else "correspondence Engine/Model.v | Engine/Core.v <-> crates/qbice engine (engine harness, hist mode)"
            ctx.violation("broken_obligation.json", {"no_longer_checks": what, "disagreements": dis_all[:6],
                                                     "search": f"{st2['histories']} further random histories agreed with the from-scratch oracle",
                                                     "make_tail": info.get("make_tail", "")[-1500:]}, found_input=False)
    cov = vlib.proof_coverage(info, "./check C01 (make closure of Properties/C01.vo; coqc Properties/C01.v; engine hist; coqc cases)", TB)
    cov.update({"traces_validated_against_impl": total, "evaluations": hist_total, "distinct_nontrivial": total,
                "rule": "one case = one random program (<= 10 executable queries of the kinds listed) with a random history (sessions incl. unchanged writes and reverts, refreshes, world changes, queries, restarts on db-backed configs); every case is judged by the from-scratch oracle on the real engine and replayed on the Coq model (answers, SetInputResults, multiset of executions per op, dirtied statistic where deterministic); distinct by construction (one PRNG stream)",
                "samples": samples, "input_distribution": dists, "disagreements_checked": len(dis_all),
                "schedule_dependent_cases": ec.SCHEDULE_DEPENDENT})
    return ctx.finish("proof", cov, TB)

def replay(ctx, path):
    print(open(path).read()[:4000])
    return run(ctx)
