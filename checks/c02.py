"""C02 — concurrent querying is sound, single-flight and terminates."""
import json, os, subprocess
import vlib, engine_common as ec

TB = ["Print Assumptions: all eight theorems of Properties/C02.v closed under the global context",
      "protocol models Conc/SingleFlight.v (computing table, one key, arbitrary scheduler incl. cancellation of the owner) and Conc/TieredSet.v (insert_element at critical-section granularity, any threshold); C02_no_acknowledged_insert_lost is instantiated with the shape of insert_element read from database.rs on this run (tools/gen_sources.py: is the vector drained after self.0.write()?)",
      "H-atomic: scc::HashMap::entry_sync is exclusive per key and registering on the owner's Notify happens under it; tokio Notify::notify_waiters wakes every registered waiter; parking_lot RwLock exclusion; DashSet linearizable",
      "partial: soundness of answers under real parallelism, absence of overlap of executors of one key, termination and 'no dependency of a concurrent caller is lost' are exercised on the real engine (multi-thread runtime), not proved: random histories on 8 worker threads judged by the from-scratch oracle, fan-in rounds across the 32 / 1024 thresholds followed by an input edit, direct stress of the real tiered set (verif_hooks handle)",
      ] + ec.ENGINE_TB[2:]

def tool(args, timeout):
    try:
        p = subprocess.run(args, capture_output=True, text=True, timeout=timeout)
        return json.loads(p.stdout.strip().splitlines()[-1])
    except subprocess.TimeoutExpired:
        return {"hang": True, "args": args[1:]}
    except Exception as e:
        return {"crash": str(e), "args": args[1:]}

def run(ctx):
    vlib.sh(["python3", os.path.join(vlib.VERIF, "tools", "gen_sources.py")], check=True)
    ok, info = vlib.prove_stage("C02")
    rc, out, _ = vlib.cargo_build(["engine", "tiered"])
    if rc != 0:
        raise vlib.CheckError("harness does not build against /repo:\n" + out[-3000:])
    quick = ctx.tier == "quick"
    fails, runs = [], []
    # 1. the real tiered set
    for threads in ([4, 8] if quick else [2, 4, 8, 16]):
        r = tool([vlib.bin_path("tiered"), str(3000 if quick else 30000), str(threads)], 600)
        runs.append({"tiered": r})
        if r.get("hang") or r.get("crash") or r.get("trials_with_lost_inserts") or r.get("len_mismatch_or_extra"):
            fails.append({"what": "the real tiered backward-edge set lost an acknowledged insert (or did not finish)", "run": r})
    # 2. fan-in on the real engine
    for cfg, k, rounds in ([("mem", 40, 40), ("mem", 70, 30), ("db:64", 1100, 2)] if quick else [("mem", 33, 300), ("mem", 40, 300), ("mem", 100, 150), ("db:8", 70, 60), ("db:64", 1100, 6), ("db:64", 2100, 3)]):
        r = tool([vlib.bin_path("engine"), "fanin", cfg, str(k), str(rounds), "8"], 900)
        runs.append({"fanin": r})
        if r.get("hang") or r.get("crash") or r.get("stale_callers") or r.get("requests_not_completed") or r.get("executors_of_one_key_overlapping"):
            fails.append({"what": "concurrent callers: stale caller after an input edit (lost dependency), request not completed, or two executors of one key at the same time", "run": r})
    # 3. random histories on a multi-thread runtime, judged by the from-scratch oracle
    st = ec.run_hist(ctx, os.path.join(ctx.rundir, "mt"), ctx.seed + 11, 400 if quick else 6000, 4, "mem", "all", threads=8)
    st2 = ec.run_hist(ctx, os.path.join(ctx.rundir, "mtdb"), ctx.seed + 12, 200 if quick else 3000, 4, "db:2", "all", threads=8)
    for s_ in (st, st2):
        for v in s_["c01"] + s_["hangs"]:
            fails.append({"what": "wrong answer or hang on a multi-thread runtime", "run": v})
    if fails:
        ctx.violation("concurrency_failure.json", {"first": fails[0], "count": len(fails)})
    elif not ok:
        r = tool([vlib.bin_path("tiered"), "60000", "8"], 1200)
        r2 = tool([vlib.bin_path("engine"), "fanin", "mem", "40", "600", "8"], 1800)
        if r.get("trials_with_lost_inserts") or r2.get("stale_callers") or r2.get("requests_not_completed") or r.get("hang") or r2.get("hang"):
            ctx.violation("concurrency_failure.json", {"first": {"what": "found by the extended search", "run": [r, r2]}})
        else:
            ctx.violation("broken_obligation.json", {"no_longer_checks": "theorem/build: " + str(info.get("failed_at", info.get("property_log", "?")))[:400],
                                                     "make_tail": info.get("make_tail", "")[-1200:], "property_log": info.get("property_log", "")[-1200:],
                                                     "search": "60000 further tiered-set trials and 600 fan-in rounds without a lost insert or stale caller"}, found_input=False)
    n_trials = sum(r["tiered"].get("trials", 0) for r in runs if "tiered" in r)
    n_rounds = sum(r["fanin"].get("rounds", 0) for r in runs if "fanin" in r)
    cov = vlib.proof_coverage(info, "./check C02", TB)
    cov.update({"evaluations": n_trials + n_rounds + st["histories"] + st2["histories"], "distinct_nontrivial": n_trials + n_rounds,
                "traces_validated_against_impl": n_trials + n_rounds,
                "rule": "tiered: one trial = 28..33 prefilled elements, t threads inserting 3 distinct elements each behind a barrier; fan-in: one round = a fresh callee (normal or firewall) with k fresh callers computed concurrently from k tasks on 8 worker threads, then an input edit and all callers again; histories: random programs/histories on 8 worker threads, oracle only",
                "samples": runs[:4], "mt_histories": {"mem": ec.dist(st), "db:2": ec.dist(st2)}})
    return ctx.finish("proof", cov, TB)

def replay(ctx, path):
    print(open(path).read()[:3000])
    return run(ctx)
