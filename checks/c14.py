"""C14 — type and query identities are unique and stable across runs."""
import glob, json, os, shutil
import vlib

HEADER = """From Coq Require Import String.
From QV Require Import Common.Prelude TypeId.Model TypeId.Universe TypeId.Check.
Open Scope N_scope.
Open Scope string_scope."""

UNIVERSE_SIZE = 5010          # Universe.v universe_size, pinned in C14_universe_distinct
FINDING = "block_scoped_twin_ids"

TB = [
    "Print Assumptions: every C14_* theorem closed under the global context (no axioms)",
    "NOT claimed: uniqueness of ids over all Rust types (a 128-bit id cannot be injective on an open set of types); claimed: structural injectivity of the id expression for every well-formed term, and distinctness of the model's ids on the explicit universe of 5010 terms (depth <= 3) by kernel computation",
    "model = TypeId/Model.v, written by hand from crates/stable_type_id/src/lib.rs and crates/identifiable_derive_lib/src/lib.rs; tied to the code on every run: each of the 5010 concrete Rust types instantiated by harness/src/bin/typeid.rs (same enumeration as Universe.v, position checked) has its real STABLE_TYPE_ID constant compared with id_of; random names of every length 0..33 and random nestings go through the real from_unique_type_name/combine at run time and are compared too",
    "hypothesis of C14_structural: one signature for all names (a name is a non-generic type, or a built-in constructor, or a derived generic type of one arity) — true for the paths of one crate graph except for block-scoped items, where it fails (known finding block_scoped_twin_ids, C14_structural_unrestricted_refuted, replayed on the real code)",
    "hypothesis of C14_query_id (Section variable, not an axiom): the seeded 128-bit stable hash of the key is collision free on the keys in play (H-hash); the harness recomputes QueryID as Engine::new_query_with_id does (that method is private): SeededStableHasherBuilder<Sip128Hasher>, key.stable_hash, QueryID::new::<Q>",
    "the term describing a Rust type (names, argument order) is written by the harness author per constructor (Ty impls in typeid.rs); a wrong description shows up as an id mismatch, not as a false pass, unless two descriptions are wrong in a compensating way",
    "u64 arithmetic of the target (usize = 64 bit for `N as u64` of array lengths); lifetimes are erased by the impls (&'a T and &'static T are one id) and are not part of a term",
    "stability across processes: the same binary is run twice in separate processes (different cwd/environment) and the printed ids / query ids compared; stability across compilers or crate versions is outside this check (a derived name embeds CARGO_PKG_VERSION by design)",
    "not modelled: the hexadecimal formatting of column-family names from as_u128 (as_u128 itself is proved injective on ids: C14_as_u128_faithful); Fjall/RocksDB column handling beyond the id",
]


def run_harness(out, shards, seed, free, cwd=None, env=None):
    if os.path.isdir(out):
        shutil.rmtree(out)
    os.makedirs(out)
    rc, txt = vlib.sh([vlib.bin_path("typeid"), out, str(shards), str(seed), str(free)], timeout=600, cwd=cwd, env=env)
    if rc != 0:
        raise vlib.CheckError("typeid harness failed:\n" + txt[-3000:])
    return json.loads(txt.strip().splitlines()[-1])


def diff_files(a, b, limit=5):
    la, lb = open(a).read().splitlines(), open(b).read().splitlines()
    out = [{"line": i, "first": x, "second": y} for i, (x, y) in enumerate(zip(la, lb)) if x != y][:limit]
    if len(la) != len(lb):
        out.append({"lines_first": len(la), "lines_second": len(lb)})
    return out


def search(ctx, n, seed):
    rc, txt = vlib.sh([vlib.bin_path("typeid"), ctx.rundir, "search", str(n), str(seed)], timeout=900)
    if rc != 0:
        raise vlib.CheckError("typeid search failed:\n" + txt[-2000:])
    return json.loads(txt.strip().splitlines()[-1])


def run(ctx):
    ok, info = vlib.prove_stage("C14", ["theories/TypeId/Check.vo"])
    rc, out, wall = vlib.cargo_build(["typeid"])
    if rc != 0:
        raise vlib.CheckError("harness does not build against /repo:\n" + out[-3000:])
    shards = 16
    free = 320 if ctx.tier == "quick" else 4000
    d1, d2 = os.path.join(ctx.rundir, "p1"), os.path.join(ctx.rundir, "p2")
    st = run_harness(d1, shards, ctx.seed, free)
    # second, independent process: other working directory, other environment, other shard count
    st2 = run_harness(d2, shards, ctx.seed, free, cwd="/tmp", env={"C14_SECOND_PROCESS": "1", "RUST_MIN_STACK": "8388608"})
    shard_files = sorted(glob.glob(os.path.join(d1, "shard_*.txt")))
    fails, errors, total = vlib.run_coq_cases("C14", shard_files, HEADER)

    real_failure = False
    # ---- the property's own oracle on the real ids (independent of the model)
    if st["collisions"]:
        real_failure = True
        ctx.violation("id_collision.json", {"what": "two different Rust types have the same STABLE_TYPE_ID", "pairs": st["collisions"][:10],
                                            "rerun": f"typeid <dir> {shards} {ctx.seed}"})
    if st["perm_collisions"]:
        real_failure = True
        ctx.violation("order_nesting_collision.json", {"what": "instantiations differing only in argument order / nesting share an id",
                                                       "pairs": st["perm_collisions"][:10]})
    if st["duplicate_terms"]:
        raise vlib.CheckError("harness universe enumerates a type twice: " + str(st["duplicate_terms"][:5]))
    unstable = []
    for f in ("ids.txt", "queries.txt"):
        dd = diff_files(os.path.join(d1, f), os.path.join(d2, f))
        if dd:
            unstable.append({"file": f, "differences": dd})
    if unstable:
        real_failure = True
        ctx.violation("unstable_ids.json", {"what": "two processes of the same binary printed different ids", "diff": unstable})
    if st["query_bad"]:
        real_failure = True
        ctx.violation("query_id_collision.json", {"what": "distinct (query type, key) pairs share a QueryID, or QueryID does not carry the type id",
                                                  "cases": st["query_bad"][:10], "seed": ctx.seed})
    if st["engine_aliasing"]:
        real_failure = True
        ctx.violation("engine_aliasing.json", {"what": "a query was answered with another query's value", "cases": st["engine_aliasing"][:10]})

    # ---- the known finding: only this specific witness (same identifier declared in two blocks of one module)
    twins = [b for b in st["block_scoped"] if b["equal"]]
    if twins:
        rcp, probe = vlib.sh([vlib.bin_path("typeid"), ctx.rundir, "probe"], timeout=60)
        ctx.finding(FINDING,
                    "derive(Identifiable) names a type module_path!()::Ident, so same-named types declared in different fn/const blocks of one module share a STABLE_TYPE_ID",
                    {"pairs": twins, "engine_probe_exit": rcp, "engine_probe_output": [l for l in probe.splitlines() if l.strip()][-6:]})

    # ---- model / proof
    disagreements = []
    for path, idx in fails.items():
        lines = [l for l in open(path).read().splitlines() if l.strip()]
        for i in idx[:5]:
            disagreements.append({"shard": os.path.basename(path), "index": i, "case": lines[i]})
    if errors:
        disagreements.append({"coqc_error": errors[0][1]})
    if st["types"] != UNIVERSE_SIZE or st["distinct_terms"] != UNIVERSE_SIZE:
        disagreements.append({"universe_size": f"harness instantiated {st['types']} types ({st['distinct_terms']} distinct terms), Universe.v has {UNIVERSE_SIZE}"})
    searched = None
    if (disagreements or not ok) and not real_failure:
        # model/proof no longer matches the code: look harder for a real colliding pair
        searched = search(ctx, 400000 if ctx.tier == "quick" else 3000000, ctx.seed + 1000003)
        if searched["collisions"]:
            ctx.violation("id_collision.json", {"what": "two different well-formed terms get the same id from the real from_unique_type_name/combine",
                                                "pairs": searched["collisions"][:10]})
        else:
            what = ("theorem/build: " + info.get("failed_at", str({k: info.get(k) for k in ("forbidden", "unexpected_axioms", "unprinted_theorems")}))) if not ok \
                else "correspondence TypeId/Model.v + TypeId/Universe.v <-> crates/stable_type_id, identifiable_derive_lib (typeid harness)"
            ctx.violation("broken_obligation.json", {"no_longer_checks": what, "disagreements": disagreements[:10],
                                                     "search": f"{searched['searched']} random well-formed terms ({searched['distinct_terms']} distinct) hashed by the real functions without a collision; {st['types']} concrete types pairwise distinct",
                                                     "make_tail": info.get("make_tail", "")[-1500:]}, found_input=False)
    elif ctx.tier == "thorough":
        searched = search(ctx, 3000000, ctx.seed + 1000003)
        if searched["collisions"]:
            ctx.violation("id_collision.json", {"what": "two different well-formed terms get the same id from the real from_unique_type_name/combine",
                                                "pairs": searched["collisions"][:10]})

    cov = vlib.proof_coverage(info, "./check C14 (coq_makefile+make closure of Properties/C14.vo; coqc Properties/C14.v; coqc cases)", TB)
    cov.update({
        "traces_validated_against_impl": total,
        "evaluations": total,
        "distinct_nontrivial": st["distinct_ids"] - st["depth"][0] + st["free_distinct"],
        "rule": "one case = one concrete Rust type of the universe (real STABLE_TYPE_ID constant vs id_of, and position in Universe.v), or one random term hashed by the real functions at run time, or the replayed twin; non-trivial = distinct real ids of generic instantiations (depth >= 1, leaves excluded) plus distinct random terms",
        "samples": st["samples"] + [open(shard_files[0]).read().splitlines()[-1]],
        "universe_enumerated_completely": st["types"] == UNIVERSE_SIZE,
        "input_distribution": {
            "types": st["types"], "distinct_real_ids": st["distinct_ids"], "groups": st["groups"], "by_depth": st["depth"],
            "names_used": st["names"], "types_mentioning_a_derived_type": st["with_derived"],
            "order_or_nesting_classes": st["perm_classes"], "order_or_nesting_pairs_compared": st["perm_pairs"],
            "order_or_nesting_samples": st["perm_samples"],
            "free_cases": st["free_cases"], "free_distinct": st["free_distinct"], "free_name_lengths_hit": st["free_name_lengths_hit"],
            "twin_cases": st["twin_cases"],
            "query_ids": st["queries"], "query_types": st["query_types"],
            "query_pairs_same_key_hash_other_type": st["query_same_key_hash_other_type"],
            "engine_queries_asked": st["engine_queries"],
            "processes_compared": 2, "second_process_types": st2["types"],
            "additional_search": searched,
        },
        "disagreements_checked": len(disagreements),
        "known_finding_observed": bool(twins),
    })
    return ctx.finish("proof", cov, TB)


def replay(ctx, path):
    print(open(path).read())
    return run(ctx)
