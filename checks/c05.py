"""C05 — cancellation or an executor panic never corrupts the engine."""
import json, os, subprocess
import vlib, engine_common as ec

TB = ["Print Assumptions: C05_core_cancel_sound, C05_core_cancel_no_panic, C05_core_cancel_once, C05_model_cancel_sound, C05_model_cancel_sound_any_task_order, C05_model_cancel_user_step_is_step, C05_model_cancel_side_condition_needed, C05_model_cancel_once, C05_model_cancel_once_all, C05_model_side_condition_is_the_induction_premise closed under the global context",
      "the theorems are about Engine/Core.v with cancelled work modelled as completed sub-requests with arbitrary caller/frame/stack (side condition cstack_ok, satisfied by every stack of a real run, shown necessary)",
      "partial: that dropping a Rust future lands on a publication boundary (guarded sections are re-spawned on drop), that a panic reaches the caller and releases the computing entry, and that no lock is left behind are exercised on the real engine (futures dropped after 0..24 polls with the engine yielding at every query, executor panics on request, commit futures dropped) and judged by the from-scratch oracle and a progress timeout, not proved",
      ] + ec.ENGINE_TB

def run_cancel(seed, n):
    try:
        p = subprocess.run([vlib.bin_path("engine"), "cancel", str(seed), str(n)], capture_output=True, text=True, timeout=1500)
        return json.loads(p.stdout.strip().splitlines()[-1])
    except subprocess.TimeoutExpired:
        return {"violations": [{"violation": "the harness process itself hung (a blocked runtime thread)"}], "histories": n}

def run(ctx):
    ok, info = vlib.prove_stage("C05")
    rc, out, _ = vlib.cargo_build(["engine"])
    if rc != 0:
        raise vlib.CheckError("harness does not build against /repo:\n" + out[-3000:])
    quick = ctx.tier == "quick"
    st = run_cancel(ctx.seed, 3000 if quick else 60000)
    if st["violations"]:
        ctx.violation("corrupted_after_cancel.json", {"what": "after cancelled or panicked work the real engine gave a wrong answer, an unexpected panic, or stopped making progress",
                                                      "first": st["violations"][0], "count": len(st["violations"]),
                                                      "rerun": f".build/target/debug/engine cancel {ctx.seed} {3000 if quick else 60000}"})
    elif not ok:
        st2 = run_cancel(ctx.seed + 77, 40000)
        if st2["violations"]:
            ctx.violation("corrupted_after_cancel.json", {"what": "found by the extended search", "first": st2["violations"][0]})
        else:
            ctx.violation("broken_obligation.json", {"no_longer_checks": "theorem/build: " + str(info.get("failed_at", "?")), "make_tail": info.get("make_tail", "")[-1500:],
                                                     "search": "40000 further histories with cancellations and panics: all later answers right"}, found_input=False)
    cov = vlib.proof_coverage(info, "./check C05", TB)
    cov.update({"evaluations": st.get("cancelled_attempts", 0) + st.get("panics_injected", 0) + st.get("commit_futures_dropped", 0),
                "distinct_nontrivial": st.get("cancelled_while_pending", 0) + st.get("panics_reached_caller", 0),
                "traces_validated_against_impl": st.get("queries_judged", 0),
                "rule": "random programs (all kinds, unordered groups) and histories on an engine that yields at every query; before a query, with probability 1/2 a query future for a random node is polled k in 0..24 times and dropped, with probability 1/4 a random executor is made to panic (the panic must reach the caller iff that executor ran), one commit future in three is dropped after 0..2 polls; non-trivial = futures dropped while still pending + panics that reached the caller; every completed query and every dependency value handed to an executor afterwards is judged by the from-scratch oracle",
                "samples": [{k: st.get(k) for k in ("histories", "cancelled_attempts", "cancelled_while_pending", "panics_injected", "panics_reached_caller", "commit_futures_dropped", "queries_judged")}]})
    return ctx.finish("proof", cov, TB)

def replay(ctx, path):
    print(open(path).read()[:3000])
    return run(ctx)
