"""C06 — dependency cycles are detected: they terminate with cycle defaults."""
import json, os, subprocess
import vlib, engine_common as ec

TB = ["Print Assumptions: C06_search_terminates, C06_search_plain_refuted, C06_search_plain_terminates_on_dags, C06_request_on_stack_is_cyclic, C06_cyc_spec_deterministic, C06_fresh_cyclic_program_takes_defaults, C06_fresh_cyclic_program_any_task_order, C06_incremental_cycle_membership_refuted, C06_search_answer_correct, C06_search_overwrite_refuted, C06_exit_marks_exactly_cycle_closers, C06_exit_mark_shortcut_refuted, C06_search_marks_exact_on_dags closed under the global context",
      "C06_search_terminates and C06_search_answer_correct are instantiated with the shape of check_cyclic_internal read from computing.rs on this run (tools/gen_sources.py: recursive + memo table `visited` whose entry is overwritten with the answer after the recursive call; answers of the callees accumulated with `|=`), C06_exit_marks_exactly_cycle_closers with the expression exit_scc assigns to `is_in_scc` (the search alone); the scanner recognises a fixed code shape, anything else is reported as a broken correspondence",
      "termination with the right values of whole cyclic programs is PROVED for a fresh engine (Normal, Firewall and Projection queries) (C06_fresh_cyclic_program_takes_defaults: explicit fuel bound, values of the independent specification cyc_spec = the harness oracle oracle_cyclic); for later requests it is validated (model with cycles = real engine on random cyclic programs; oracle: no hang, no panic, acyclic sub-queries equal the from-scratch value), not proved",
      "cycles through firewalls / projections: two recorded hangs (known_findings.txt), replayed from witness/*.txt on every run",
      ] + ec.ENGINE_TB

def run(ctx):
    vlib.sh(["python3", os.path.join(vlib.VERIF, "tools", "gen_sources.py")], check=True)
    ok, info = vlib.prove_stage("C06", ["theories/Engine/Check.vo"])
    rc, out, _ = vlib.cargo_build(["engine"])
    if rc != 0:
        raise vlib.CheckError("harness does not build against /repo:\n" + out[-3000:])
    quick = ctx.tier == "quick"
    real_fail, dis_all, dists, total, hist_total, samples = [], [], {}, 0, 0, []
    runs = [("cyclic-nogroup", "mem", 800 if quick else 10000, "failures"),
            ("cyclic", "mem", 600 if quick else 8000, None),   # cycles + unordered groups: which member of a group meets the cycle first is a scheduling matter, so even answers may differ legitimately: oracle only
            ("cyclic-nogroup", "db:2", 200 if quick else 2000, "failures")]
    cyc_judged, cyc_inc, cyc_inc_first = 0, 0, None
    for k, (mode, cfg, n, fn) in enumerate(runs):
        d = os.path.join(ctx.rundir, f"{mode}_{cfg.replace(':', '')}")
        st = ec.run_hist(ctx, d, ctx.seed + 17 * k + 3, n, 16, cfg, mode, hang_secs=10)
        dists[f"{mode}/{cfg}"] = ec.dist(st)
        hist_total += st["histories"]
        cyc_judged += st.get("answers_judged_with_cycle_defaults", 0)
        cyc_inc += st.get("n_cyclic_incremental", 0)
        cyc_inc_first = cyc_inc_first or st.get("cyclic_incremental_first")
        for v in st["c01"] + st["hangs"]:
            real_fail.append({"mode": mode, "cfg": cfg, **v})
        dis, t = ec.model_compare("C06", d, fn) if fn else ([], 0)
        total += t
        dis_all += [{"mode": mode, "cfg": cfg, **x} for x in dis]
        if not samples:
            samples = ec.sample_lines(d)
    # F5: a second root meets two computing queries that form a cycle (fixed; must stay fixed)
    try:
        p = subprocess.run([vlib.bin_path("engine"), "f5"], capture_output=True, text=True, timeout=40)
        f5 = json.loads(p.stdout.strip().splitlines()[-1]) if p.stdout.strip() else {"root1": "no output", "root2": "no output"}
    except subprocess.TimeoutExpired:
        f5 = {"root1": "process hung", "root2": "process hung"}
    if "Ok(Ok(" not in f5["root1"] or "Ok(Ok(" not in f5["root2"]:
        real_fail.append({"mode": "f5", "violation": "requests on computing queries that form a cycle never return", "scenario": f5})
    # a cycle that forms a diamond among computing queries (two spawned tasks of one executor wait on the
    # same computing query when the cycle closes): every query on it must get its default
    try:
        pd = subprocess.run([vlib.bin_path("engine"), "diamond"], capture_output=True, text=True, timeout=120)
        dia = json.loads(pd.stdout.strip().splitlines()[-1]) if pd.stdout.strip() else {"all_defaults": False, "rounds": "no output"}
    except subprocess.TimeoutExpired:
        dia = {"all_defaults": False, "rounds": "process hung"}
    if not dia.get("all_defaults"):
        real_fail.append({"mode": "diamond", "violation": "a query on a dependency cycle did not evaluate to its cycle default, or its evaluation hangs (Root spawns Left and Right, both read Shared, Shared -> Back -> Root; and 12 three-cycles Head -> Mid -> Tail -> Head whose head also reads three slow off-cycle siblings from spawned tasks; expected -1 for every member; and a Reader of a member of the cycle CycA <-> CycB requested concurrently while CycA is marked but still computing: expected CycA's default + 1000, not the Reader's own default)", "scenario": dia})
    # recorded hangs: firewalls / projections on a cycle
    for key, w in (("c06_firewall_cycle_tfc_repair_hang", "c06_firewall_cycle.txt"), ("c06_projection_cycle_backward_projection_hang", "c06_projection_cycle.txt")):
        status, txt = ec.replay_witness(os.path.join(vlib.VERIF, "witness", w))
        if status == "hang":
            ctx.finding(key, f"witness/{w} hangs at its last query", {"witness": open(os.path.join(vlib.VERIF, "witness", w)).read(), "output": txt[-500:]})
        elif status != "ok":
            real_fail.append({"mode": "witness " + w, "violation": status, "scenario": txt[-1500:]})
    # recorded finding: cycle membership is not re-established incrementally.  Two deterministic witnesses;
    # instances met by the random runs are counted (a FRESH evaluation through a cycle is judged strictly)
    inc_hits = []
    for w in ("c06_cycle_formed_under_repair.txt", "c06_cycle_member_reexecuted_alone.txt"):
        status, txt = ec.replay_witness(os.path.join(vlib.VERIF, "witness", w))
        m = [l for l in txt.splitlines() if l.startswith("cyclic incremental: [") and not l.startswith("cyclic incremental: []")]
        if status == "ok" and m:
            inc_hits.append({"witness": w, "what": m[0][:400]})
        elif status != "ok":
            real_fail.append({"mode": "witness " + w, "violation": status, "scenario": txt[-1500:]})
    if inc_hits or cyc_inc:
        ctx.finding("c06_incremental_scc_membership",
                    (inc_hits[0]["witness"] + ": " + inc_hits[0]["what"]) if inc_hits else str(cyc_inc_first),
                    {"witnesses": inc_hits, "random_histories_with_an_instance": cyc_inc, "first_random_instance": cyc_inc_first,
                     "answers_judged_with_cycle_defaults": cyc_judged})
    # thorough: all kinds on cycles (hangs of the two recorded classes are expected there and filtered by shape)
    if real_fail:
        ctx.violation("cycle_failure.json", {"what": "cyclic program: hang, panic or wrong value on the real engine", "first": real_fail[0], "count": len(real_fail)})
    elif dis_all or not ok:
        st2 = ec.run_hist(ctx, os.path.join(ctx.rundir, "search"), ctx.seed + 999961, 5000, 4, "mem", "cyclic", hang_secs=10)
        if st2["c01"] or st2["hangs"]:
            ctx.violation("cycle_failure.json", {"what": "found by the extended search", "first": (st2["c01"] + st2["hangs"])[0]})
        else:
            what = ("theorem/build: " + str(info.get("failed_at", "?"))) if not ok else "correspondence engine model (cycles) <-> crates/qbice engine"
            ctx.violation("broken_obligation.json", {"no_longer_checks": what, "disagreements": dis_all[:6], "make_tail": info.get("make_tail", "")[-1500:],
                                                     "search": f"{st2['histories']} further cyclic histories: no hang, no panic, acyclic sub-queries right"}, found_input=False)
    cov = vlib.proof_coverage(info, "./check C06", TB)
    cov.update({"traces_validated_against_impl": total, "evaluations": hist_total, "distinct_nontrivial": total,
                "rule": "random programs in which a body may read any query including itself and later ones (normal queries; unordered groups in the second run), random histories whose edits switch conditional cycle edges on and off; oracle: progress within 10 s, no panic, every value whose from-scratch evaluation meets no cycle equals it, every answer of a FRESH engine equals the from-scratch evaluation with cycle defaults (harness oracle_cyclic); answers through a cycle on an engine that has computed before are compared too and counted as instances of the recorded finding c06_incremental_scc_membership; model: exact answers (and executions where no unordered group is involved)",
                "samples": samples, "input_distribution": dists, "disagreements_checked": len(dis_all), "f5": f5, "diamond": dia,
                "answers_judged_with_cycle_defaults": cyc_judged, "histories_with_incremental_scc_instances": cyc_inc})
    return ctx.finish("proof", cov, TB)

def replay(ctx, path):
    print(open(path).read()[:4000])
    return run(ctx)
