"""C12 — serialization round-trips every supported value exactly."""
import glob, json, os
import vlib

HEADER = """From QV Require Import Common.Prelude Codec.Varint Codec.Model Codec.Check.
Open Scope N_scope."""

TB = [
    "Print Assumptions: C12_varint, C12_zigzag, C12_roundtrip closed under the global context (no axioms)",
    "model = Codec/Model.v, written by hand; tied to crates/serialize (+derive, +storage/intern.rs wire format) by the byte-exact correspondence run of harness/src/bin/codec.rs on this run's cases",
    "hash oracle H: the 128-bit stable hash is a Section variable, assumed collision free on the interned contents in play (H-hash); the run instantiates it with the hashes the real interner computed",
    "maps and sets are modelled by their entry list as iterated; rebuilding a map from its entries is assumed to be a function of the entries",
    "not modelled: Path/PathBuf impls, BitVec storage wider than the model's bit-vector type, io errors of the underlying writer, allocation failure on absurd announced lengths",
]

def harness(ctx, seed, per_type, shards, out):
    os.makedirs(out, exist_ok=True)
    for f in glob.glob(os.path.join(out, "shard_*")):
        os.remove(f)
    rc, txt = vlib.sh([vlib.bin_path("codec"), out, str(seed), str(per_type), str(shards)], timeout=1200)
    if rc != 0:
        raise vlib.CheckError("codec harness failed:\n" + txt[-2000:])
    return json.loads(txt.strip().splitlines()[-1])

def run(ctx):
    ok, info = vlib.prove_stage("C12", ["theories/Codec/Check.vo"])
    if not ok:
        # a proof obligation broke: search the implementation for a failing input
        pass
    rc, out, wall = vlib.cargo_build(["codec"])
    if rc != 0:
        raise vlib.CheckError("harness does not build against /repo:\n" + out[-3000:])
    per_type = 12 if ctx.tier == "quick" else 150
    shards = 16 if ctx.tier == "quick" else 64
    cdir = os.path.join(ctx.rundir, "cases")
    st = harness(ctx, ctx.seed, per_type, shards, cdir)
    shard_files = sorted(glob.glob(os.path.join(cdir, "shard_*.txt")))
    fails, errors, total = vlib.run_coq_cases("C12", shard_files, HEADER)
    samples = []
    for f in shard_files[:1]:
        samples = open(f).read().splitlines()[:6]
    # recorded finding: interned value with a skipped field, referenced twice, decoded into a fresh interner
    w = st.get("interned_skip_fresh_decode")
    if w == "panic":
        ctx.finding("c12_interned_skip_reference", "decoding (Interned<S>, Interned<S>) of one handle whose S has a non-default #[serialize(skip)] field panics in a fresh interner: the reference carries the hash of the full value, the decoded value is registered under the hash of the value without the skipped field",
                    {"type": "(Interned<TupleS>, Interned<TupleS>) with TupleS(u8, #[serialize(skip)] String, i16)", "value": "h = intern(TupleS(1, \"skipped\", 2)); (h.clone(), h.clone())", "decoder": "fresh Interner, same hasher seed"})
    elif w not in ("ok", None):
        ctx.violation("interned_skip.json", {"what": "interned value with a skipped field: decode gave " + str(w)})
    # decide
    for msg in st["rust_fail"]:
        ctx.violation("roundtrip_fail.json", {"what": "real encoder/decoder do not round-trip", "case": msg,
                                              "rerun": f"codec <dir> {ctx.seed} {per_type} {shards}"})
        break
    disagreements = []
    for path, idx in fails.items():
        lines = [l for l in open(path).read().splitlines() if l.strip()]
        for i in idx[:5]:
            disagreements.append({"shard": os.path.basename(path), "index": i, "case": lines[i]})
    if errors:
        disagreements.append({"coqc_error": errors[0][1]})
    if (disagreements or not ok) and not st["rust_fail"]:
        # model/proof no longer matches the code: look harder for a real failing value
        st2 = harness(ctx, ctx.seed + 1000003, 400, 4, os.path.join(ctx.rundir, "search"))
        if st2["rust_fail"]:
            ctx.violation("roundtrip_fail.json", {"what": "real encoder/decoder do not round-trip", "case": st2["rust_fail"][0]})
        else:
            what = ("theorem/build: " + info.get("failed_at", str({k: info.get(k) for k in ("forbidden", "unexpected_axioms", "unprinted_theorems")}))) if not ok \
                else "correspondence Codec/Model.v <-> crates/serialize (codec harness)"
            ctx.violation("broken_obligation.json", {"no_longer_checks": what, "disagreements": disagreements[:10],
                                                     "search": f"{st2['cases']} further values round-tripped through the real code without failure",
                                                     "make_tail": info.get("make_tail", "")[-1500:]}, found_input=False)
    cov = vlib.proof_coverage(info, "./check C12 (coq_makefile+make closure of Properties/C12.vo; coqc Properties/C12.v; coqc cases)", TB)
    cov.update({
        "traces_validated_against_impl": total,
        "evaluations": total,
        "distinct_nontrivial": st["cases"],
        "rule": "one case = one generated value of one of the concrete Rust types (byte-exact encode + decode check) or one mutated byte string decoded by both; non-trivial = round-trip cases (distinct values by construction of the generator, counted by the harness)",
        "samples": samples,
        "input_distribution": {k: st[k] for k in ("cases", "types", "mutated", "mutated_ok", "mutated_err", "discarded_absurd_len", "bytes_total")},
        "disagreements_checked": len(disagreements),
    })
    return ctx.finish("proof", cov, TB)

def replay(ctx, path):
    print(open(path).read())
    return run(ctx)
