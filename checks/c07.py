"""C07 — state survives a clean restart and is reused, not recomputed."""
import os
import vlib, engine_common as ec

TB = ["Print Assumptions: all nine theorems of Properties/C07.v closed under the global context",
      "core fragment: restart = reset of volatile fields; CInv mentions persisted columns only; C07_core_no_reexecution. Partial: that the store holds exactly the model's columns after a clean shutdown (serialisation + write-behind + caches of capacity 1..64 + grouping of batches) is validated by histories with restarts at random positions on the db-backed engine compared with the model and judged by the oracles (answers; no execution of a query that was up to date), not proved",
      ] + ec.ENGINE_TB

def run(ctx):
    ok, info = vlib.prove_stage("C07", ["theories/Engine/Check.vo"])
    rc, out, _ = vlib.cargo_build(["engine"])
    if rc != 0:
        raise vlib.CheckError("harness does not build against /repo:\n" + out[-3000:])
    quick = ctx.tier == "quick"
    real_fail, dis_all, dists, total, hist_total, samples = [], [], {}, 0, 0, []
    k = 0
    for cap in ([1, 2, 64] if quick else [1, 2, 3, 8, 64, 4096]):
        for group_max in ([0, 3] if quick else [0, 1, 3]):
            k += 1
            d = os.path.join(ctx.rundir, f"db{cap}_g{group_max}")
            os.environ["QV_GROUP_MAX"] = str(group_max)
            try:
                # alternate: `layered` programs compared exactly, unrestricted ones graded (see engine_common.ENGINE_TB)
                mode, fn = ("layered", "failures") if k % 2 == 1 else ("all", "graded_failures")
                st = ec.run_hist(ctx, d, ctx.seed + 13 * k, 250 if quick else 2500, 16, f"db:{cap}", mode)
            finally:
                os.environ.pop("QV_GROUP_MAX", None)
            dists[f"cache {cap}, group_max {group_max}"] = ec.dist(st)
            hist_total += st["histories"]
            for v in st["c01"] + st["c03"] + st["hangs"]:
                real_fail.append({"cache": cap, "group_max": group_max, **v})
            dis, t = ec.model_compare("C07", d, fn)
            total += t
            dis_all += [{"cache": cap, "group_max": group_max, **x} for x in dis]
            if not samples:
                samples = [l[:1200] for l in ec.sample_lines(d, 40) if "ORestart" in l][:2]
    # F9 scenario: a session requested while a re-computation is in flight; clean shutdown; reopen
    import subprocess, json as _json
    try:
        pf = subprocess.run([vlib.bin_path("engine"), "f9", "6" if quick else "30"], capture_output=True, text=True, timeout=600)
        f9 = _json.loads(pf.stdout.strip().splitlines()[-1]) if pf.stdout.strip() else {"stale": -1, "first": "no output: " + pf.stderr[-300:]}
    except subprocess.TimeoutExpired:
        f9 = {"stale": -1, "first": "process hung"}
    if f9.get("stale") != 0:
        real_fail.append({"mode": "engine f9", "violation": "after a clean restart the engine serves the value computed before the last committed session (the session was requested while that computation was in flight)", "scenario": f9})
    if real_fail:
        ctx.violation("restart_failure.json", {"what": "after a clean restart the real engine gave a wrong answer, re-executed a query that was up to date, or hung", "first": real_fail[0], "count": len(real_fail)})
    elif dis_all or not ok:
        os.environ["QV_GROUP_MAX"] = "2"
        st2 = ec.run_hist(ctx, os.path.join(ctx.rundir, "search"), ctx.seed + 999959, 5000, 4, "db:1", "all")
        os.environ.pop("QV_GROUP_MAX", None)
        if st2["c01"] or st2["c03"] or st2["hangs"]:
            ctx.violation("restart_failure.json", {"what": "found by the extended search", "first": (st2["c01"] + st2["c03"] + st2["hangs"])[0]})
        else:
            what = ("theorem/build: " + str(info.get("failed_at", "?"))) if not ok else "correspondence engine model (with restarts) <-> db-backed real engine"
            ctx.violation("broken_obligation.json", {"no_longer_checks": what, "disagreements": dis_all[:6], "make_tail": info.get("make_tail", "")[-1500:],
                                                     "search": f"{st2['histories']} further histories with restarts (cache capacity 1): oracle satisfied"}, found_input=False)
    cov = vlib.proof_coverage(info, "./check C07", TB)
    cov.update({"traces_validated_against_impl": total, "evaluations": hist_total, "distinct_nontrivial": total,
                "rule": "random programs/histories with Restart operations (drop the engine, open a new one on the same in-memory store with the same hasher seed and executors) at random positions, for each cache capacity and store grouping policy; judged by the from-scratch oracle, by the per-execution justification oracle (a query up to date before the restart must not run again) and by exact agreement with the Coq model",
                "samples": samples, "input_distribution": dists, "disagreements_checked": len(dis_all), "schedule_dependent_cases": ec.SCHEDULE_DEPENDENT})
    return ctx.finish("proof", cov, TB)

def replay(ctx, path):
    print(open(path).read()[:3000])
    return run(ctx)
