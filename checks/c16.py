"""C16 — the admission cache never evicts pinned entries and stays bounded."""
import glob, json, os
import vlib

HEADER = """From QV Require Import Common.Prelude Lfu.Model Lfu.Check.
Open Scope N_scope."""

F4_KEY = "F4_unpin_empty_probation"

TB = [
    "Print Assumptions: every C16_* theorem closed under the global context (no axioms)",
    "model = Lfu/Model.v, written by hand (single-threaded semantics, MaintenanceMode::Piggyback); tied to crates/storage/src/tiny_lfu* by the exact differential run of harness/src/bin/lfu.rs on this run's operation sequences: per operation the returned value and the set of evicted keys, at the end the whole resident map",
    "the invariant theorems hold for ANY frequency sketch (Section variables sk_record / sk_gt) and any pin predicate; the exact bloom + count-min sketch with FxHash of u64 keys (Model.v) is only used to run the model against the code",
    "which variant of Policy::unpin the tree implements (as in the code = panics on an empty probation region, or repaired) is decided on every run by executing the F4 witness on the real cache; C16_total is proved for the repaired variant, C16_total_refuted for the original",
    "lru.rs' intrusive list + key->region HashMap are modelled as four lists with the region of a key derived from the lists; `lens[r] -= 1` is N.pred, and C16_region_accounting shows the counter equals the list length (so it is positive whenever it is decremented)",
    "multi-threaded use: judged on the real code by the property oracle only (pinned keys never disappear, latest value readable, bounded after quiescing); under concurrency the number of not yet processed inserts is not bounded by a constant (try_lock failure skips maintenance), so the '+32' slack is a single-threaded statement",
    "QueryLockManager is crate-private: the lock-table corollary is proved over the model (pin predicate 'refcount > 1') and the same get/entry pattern is stress-tested on TinyLFU<u64, Arc<Mutex>> with pinned = strong_count > 1, Poll + Piggyback as in query_lock_manager.rs",
    "H-atomic: scc::HashMap::entry_sync gives exclusive access to one key (remove_closure re-checks the pin predicate under it)",
]


def harness(ctx, out, seed, cases, shards, max_ops, mt_rounds, mt_ops):
    os.makedirs(out, exist_ok=True)
    for f in glob.glob(os.path.join(out, "shard_*")):
        os.remove(f)
    rc, txt = vlib.sh([vlib.bin_path("lfu"), "gen", out, str(seed), str(cases), str(shards), str(max_ops),
                       str(mt_rounds), str(mt_ops)], timeout=3000)
    if rc != 0:
        raise vlib.CheckError("lfu harness failed:\n" + txt[-2000:])
    return json.loads(txt.strip().splitlines()[-1])


def run(ctx):
    ok, info = vlib.prove_stage("C16", ["theories/Lfu/Check.vo"])
    rc, out, wall = vlib.cargo_build(["lfu"])
    if rc != 0:
        raise vlib.CheckError("harness does not build against /repo:\n" + out[-3000:])
    if ctx.tier == "quick":
        cases, shards, max_ops, mt_rounds, mt_ops = 64, 16, 2500, 8, 40000
    else:
        cases, shards, max_ops, mt_rounds, mt_ops = 480, 32, 6000, 32, 200000
    cdir = os.path.join(ctx.rundir, "cases")
    st = harness(ctx, cdir, ctx.seed, cases, shards, max_ops, mt_rounds, mt_ops)
    shard_files = sorted(glob.glob(os.path.join(cdir, "shard_*.txt")))
    fails, errors, total = vlib.run_coq_cases("C16", shard_files, HEADER)
    witness_line = open(os.path.join(cdir, "shard_0.txt")).readline().strip()
    rerun = f"lfu gen <dir> {ctx.seed} {cases} {shards} {max_ops} {mt_rounds} {mt_ops}"

    found_input = False
    # --- F4: the witness decides the variant; a defective tree is reported with the sequence
    if st["witness_panicked"]:
        found_input = True
        ctx.finding(F4_KEY,
                    "TinyLFU panics (Option::unwrap on None, tiny_lfu/policy.rs:172): Policy::unpin unwraps the tail of an empty probation region",
                    {"message": st["witness_message"],
                     "recipe": "capacity 4, UnpinStrategy::Notify, Piggyback: insert keys 0..199 with a value that reports pinned; remove all but key 100 (it sits in the Pinned region); clear its flag; unpin(100); 40 more unpin() of an unknown key to force a maintenance round",
                     "ops_as_logged (G get, I insert, M modify, R remove, P unpin; result; evicted keys)": witness_line,
                     "also_hit_by_random_sequences": st["random_panics"], "first_random_sequence": st["first_panic"],
                     "theorem": "C16_total_refuted (Properties/C16.v); C16_total holds for the repaired variant; repair: patches/fix_c16_unpin_empty_probation.diff",
                     "rerun": "lfu witness   |   " + rerun})
    elif st["random_panics"]:
        found_input = True
        ctx.violation("panic.json", {"what": "the real cache panicked inside an operation (the F4 witness itself does not panic on this tree)",
                                     "sequence": st["first_panic"], "rerun": rerun})
    # --- the property's own oracle on the real code
    if st["oracle_fail"]:
        found_input = True
        ctx.violation("oracle_fail.json", {"what": "property oracle failed on the real TinyLFU (single-threaded)",
                                           "failures": st["oracle_fail"],
                                           "sequences": [s for s in st["samples"] if s.startswith("FAILING")], "rerun": rerun})
    mt_fail = st["mt_fail"]
    if st["witness_panicked"]:
        # rounds in which a worker died in the F4 panic leave pinned keys behind: consequences of F4
        dead = {m.split(":")[0] for m in mt_fail if "panicked" in m}
        mt_fail = [m for m in mt_fail if m.split(":")[0] not in dead]
    if mt_fail:
        found_input = True
        ctx.violation("mt_oracle_fail.json", {"what": "property oracle failed on the real TinyLFU under concurrent use",
                                              "failures": mt_fail, "configs": st["mt_cfgs"], "rerun": rerun})
    if st["lock_fail"]:
        found_input = True
        ctx.violation("lock_table_fail.json", {"what": "lock-table pattern (query_lock_manager.rs): mutual exclusion per key broken",
                                               "failures": st["lock_fail"], "rerun": rerun})
    # --- model vs code
    disagreements = []
    for path, idx in fails.items():
        lines = [l for l in open(path).read().splitlines() if l.strip()]
        for i in idx[:3]:
            disagreements.append({"shard": os.path.basename(path), "index": i, "case": lines[i][:20000]})
    if errors:
        disagreements.append({"coqc_error": errors[0][1]})
    if (disagreements or not ok) and not found_input:
        # the model/proof no longer matches the code: look harder for a real failing sequence
        st2 = harness(ctx, os.path.join(ctx.rundir, "search"), ctx.seed + 1000003, 300, 4, 4000, 12, 60000)
        bad = st2["oracle_fail"] or st2["mt_fail"] or st2["lock_fail"] or ([st2["first_panic"]] if st2["random_panics"] else [])
        if bad:
            ctx.violation("oracle_fail.json", {"what": "property oracle failed on the real TinyLFU", "failures": bad,
                                               "sequences": [s for s in st2["samples"] if s.startswith("FAILING")]})
        else:
            what = ("theorem/build: " + info.get("failed_at", str({k: info.get(k) for k in ("forbidden", "unexpected_axioms", "unprinted_theorems")}))) if not ok \
                else "correspondence Lfu/Model.v <-> crates/storage/src/tiny_lfu* (lfu harness): the model no longer predicts results/evictions of the real cache"
            ctx.violation("broken_obligation.json", {"no_longer_checks": what, "disagreements": disagreements[:6],
                                                     "search": f"{st2['ops']} further operations in {st2['cases']} sequences + {st2['mt_ops']} concurrent operations judged by the property oracle without failure",
                                                     "make_tail": info.get("make_tail", "")[-1500:]}, found_input=False)
    elif disagreements and found_input:
        # a real failure was found and reported above; keep the disagreement visible in the evidence
        pass

    cov = vlib.proof_coverage(info, "./check C16 (coq_makefile+make closure of Properties/C16.vo; coqc Properties/C16.v; coqc cases)", TB)
    cov.update({
        "traces_validated_against_impl": st["cases"] + 1,
        "evaluations": st["cases"] + 1 + st["mt_runs"] + max(mt_rounds, 1),
        "distinct_nontrivial": st["distinct"],
        "rule": "one case = one random operation sequence (get/peek/insert/modify value/set+clear pin flag/remove/unpin notification; hot/cold key skew, scans, pin and unpin bursts, removal bursts, re-insert churn) on a fresh real TinyLFU, capacity 1..300, key universe 3..20x capacity, strategy Poll or Notify; compared with the model after EVERY operation (result + evicted key set) and at the end (resident map); non-trivial = at least one eviction happened; distinct by hash of the logged sequence",
        "samples": st["samples"][:3] + [witness_line[:1500] + " ..."],
        "input_distribution": {k: st[k] for k in ("cases", "ops", "kinds", "evictions", "hits", "misses", "pinned_survival_probes", "caps", "poll",
                                                  "notify", "quiesced", "max_excess_over_maxcap_plus_pinned", "random_panics", "nontrivial",
                                                  "caps_cases", "mt_runs", "mt_ops", "mt_pinned_checks", "mt_evictions", "mt_max_resident", "mt_cfgs",
                                                  "lock_acquisitions", "lock_contended", "lock_instance_changes", "t_single_s", "t_total_s")},
        "operations_compared_with_model": st["ops"] + st["witness_ops"],
        "coq_cases_evaluated": total,
        "variant_implemented_by_tree": "as in the code (F4 present)" if st["as_code"] else "repaired (F4 witness does not panic)",
        "disagreements_checked": len(disagreements),
    })
    return ctx.finish("proof", cov, TB)


def replay(ctx, path):
    print(open(path).read())
    return run(ctx)
