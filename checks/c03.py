"""C03 — only justified work is re-executed (early cut-off, firewalls hold)."""
import os
import vlib, engine_common as ec

TB = ["Print Assumptions: C03_core_once, C03_core_justified, C03_core_justified_unguarded_refuted, C03_fw_once, C03_model_once, C03_model_justified, C03_model_once_any_task_order, C03_model_justified_any_task_order, C03_model_justified_x closed under the global context",
      "the theorems are about Engine/Core.v (inputs + Normal queries); executions of firewalls / projections / external inputs are judged on the real engine by the harness (justification of every executor invocation from its own record of previous reads) and compared with the full model, not proved (partial)",
      "the former finding c03_projection_changeback (repaired in /repo, 2e5f36f) is replayed from witness/c03_changeback.txt on every run and must stay clean",
      ] + ec.ENGINE_TB

def run(ctx):
    ok, info = vlib.prove_stage("C03", ["theories/Engine/Check.vo"])
    rc, out, _ = vlib.cargo_build(["engine"])
    if rc != 0:
        raise vlib.CheckError("harness does not build against /repo:\n" + out[-3000:])
    quick = ctx.tier == "quick"
    runs = [("basic", "mem", 600 if quick else 6000, "core_failures"),
            ("layered", "mem", 900 if quick else 12000, "failures"),
            ("layered", "db:2", 300 if quick else 3000, "failures"),
            ("all", "mem", 500 if quick else 8000, "graded_failures"),
            ("tfc", "mem", 300 if quick else 2000, "failures"),
            ("ptfc", "mem", 300 if quick else 2000, "failures"),
            # unordered groups whose members take different real time (a member still inside its executor while a sibling reports a change)
            ("gdelay", "mem", 150 if quick else 1500, "failures")]
    total, dis_all, dists, real_fail, samples, hist_total, changeback = 0, [], {}, [], [], 0, []
    execs = noexec = 0
    for k, (mode, cfg, n, fn) in enumerate(runs):
        d = os.path.join(ctx.rundir, f"{mode}_{cfg.replace(':', '')}")
        st = ec.run_hist(ctx, d, ctx.seed + 31 * k + 5, n, 16, cfg, mode)
        dists[f"{mode}/{cfg}"] = ec.dist(st)
        hist_total += st["histories"]; execs += st["executions"]; noexec += st["queries_served_without_execution"]
        for v in st["c03"]:
            real_fail.append({"mode": mode, "cfg": cfg, **v})
        if st.get("changeback"):
            changeback.append(st["changeback"])
        dis, t = ec.model_compare("C03", d, fn)
        total += t
        dis_all += [{"mode": mode, "cfg": cfg, **x} for x in dis]
        if not samples:
            samples = ec.sample_lines(d)
    # regression corpus: the repaired finding c03_projection_changeback (known_findings.txt: fixed 2e5f36f)
    status, txt = ec.replay_witness(os.path.join(vlib.VERIF, "witness", "c03_changeback.txt"), cyclic=False)
    if status not in ("ok",):
        real_fail.append({"mode": "witness c03_changeback", "violation": status, "scenario": txt[-1500:]})
    if real_fail:
        ctx.violation("unjustified_execution.json", {"what": "the real engine ran an executor that was not justified (or twice in one epoch)", "first": real_fail[0], "count": len(real_fail)})
    elif dis_all or not ok:
        st2 = ec.run_hist(ctx, os.path.join(ctx.rundir, "search"), ctx.seed + 999979, 6000, 4, "mem", "all")
        if st2["c03"]:
            ctx.violation("unjustified_execution.json", {"what": "unjustified execution found by the extended search", "first": st2["c03"][0]})
        else:
            what = ("theorem/build: " + str(info.get("failed_at", "?"))) if not ok else "correspondence engine model <-> crates/qbice engine (multiset of executions per operation)"
            ctx.violation("broken_obligation.json", {"no_longer_checks": what, "disagreements": dis_all[:6],
                                                     "search": f"{st2['histories']} further random histories: every execution justified"}, found_input=False)
    cov = vlib.proof_coverage(info, "./check C03", TB)
    cov.update({"traces_validated_against_impl": total, "evaluations": hist_total, "distinct_nontrivial": total,
                "rule": "as C01; judged per executor invocation: never computed before, or a dependency read by the previous run has a different from-scratch value now, external inputs only on first demand / refresh, at most once per epoch",
                "samples": samples, "input_distribution": dists, "executions_judged": execs, "queries_served_without_execution": noexec,
                "disagreements_checked": len(dis_all), "schedule_dependent_cases": ec.SCHEDULE_DEPENDENT})
    return ctx.finish("proof", cov, TB)

def replay(ctx, path):
    print(open(path).read()[:4000])
    return run(ctx)
