"""C11 — store backends honour the key-value contract and isolate keys."""
import glob, json, os, re, shutil, time
import vlib

HEADER = """From QV Require Import Common.Prelude Kv.Model Kv.Check.
Open Scope N_scope."""

HARNESS_DB = os.path.join(vlib.VERIF, "harness_db")
TARGET_DB = os.path.join(vlib.VERIF, ".build", "target_db")
KVDB = os.path.join(TARGET_DB, "debug", "kvdb")
FJVOL = os.path.join(TARGET_DB, "debug", "fjall_volume")

TB = [
    "Print Assumptions: C11_codes_prefix_free, C11_wide_injective, C11_member_isolation, C11_member_decode, C11_upper_bound, C11_allff, C11_point_read, C11_scan_exact, C11_scan_nodup, C11_batch_atomic, C11_uncommitted_invisible, C11_session closed under the global context (no axioms)",
    "model = Kv/Model.v, written by hand from crates/storage/src/kv_database/{rocksdb,fjall}.rs (encode_wide_column_key, encode_value_length_prefixed, prefix_upper_bound, scan_members, the Operation replay of consume_serialization_buffer); tied to the code on every run: every read result of the real backends AND the raw physical content of the closed directory (column family / keyspace name, key bytes, value bytes, read back with rust-rocksdb / fjall directly) are compared with the model's",
    "C11_codes_prefix_free rests on the C12 round-trip theorem (Codec/RoundTrip.v) and therefore on the serializer model Codec/Model.v and its hash-collision hypothesis for interned handles (not used for the key types of this run)",
    "H-backend: the third-party engines (RocksDB 10.10 via rust-rocksdb 0.46, Fjall 3.0.1 / lsm-tree) are outside every model: that a committed write batch is applied atomically, that bytewise order is the iteration order, that RocksDB's prefix extractor/bloom filters do not hide keys inside the bound, and that close (WAL disabled / durability None) + reopen keeps the content are validated differentially by this run only (reads after reopen, raw dump, concurrent-reader probe), not proved",
    "in the model a column's kind is a function of its id; both backends cache the physical column by stable type id alone, so a type used as wide column and as key-of-set column at once is outside the model (the engine has no such type)",
    "keys longer than Fjall's 65536-byte key limit and set keys of 2^64-1 bytes or more are outside the statement",
]


def build():
    with vlib.Lock("cargo_db"):
        lock = os.path.join(HARNESS_DB, "Cargo.lock")
        if not os.path.exists(lock):
            shutil.copy(os.path.join(vlib.REPO, "Cargo.lock"), lock)
        t0 = time.time()
        rc, out = vlib.sh(["cargo", "build", "--offline", "--bin", "kvdb", "--bin", "fjall_volume"], cwd=HARNESS_DB, timeout=3000)
        return rc, out, time.time() - t0


def harness(args, timeout=2400):
    rc, txt = vlib.sh([KVDB] + [str(a) for a in args], timeout=timeout)
    if rc != 0:
        raise vlib.CheckError("kvdb harness failed:\n" + txt[-3000:])
    return json.loads(txt.strip().splitlines()[-1])


def run(ctx):
    ok, info = vlib.prove_stage("C11", ["theories/Kv/Check.vo"])
    rc, out, wall = build()
    if rc != 0:
        raise vlib.CheckError("harness_db does not build against /repo:\n" + out[-3000:])
    quick = ctx.tier == "quick"
    n, shards, rounds = (240, 16, 400) if quick else (2500, 48, 4000)
    cdir = os.path.join(ctx.rundir, "cases")
    work = os.path.join(ctx.rundir, "work")
    os.makedirs(cdir, exist_ok=True)
    for f in glob.glob(os.path.join(cdir, "shard_*")):
        os.remove(f)
    try:
        st = harness(["run", cdir, work, ctx.seed, n, shards, rounds])
    finally:
        shutil.rmtree(work, ignore_errors=True)
    # volume scenario: set members across two memtable flushes of each store (tombstones must keep
    # shadowing older on-disk tables); the short histories above never leave the memtable
    vdir = os.path.join(ctx.rundir, "volume")
    shutil.rmtree(vdir, ignore_errors=True)
    try:
        vrc, vtxt = vlib.sh([FJVOL, vdir], timeout=1200)
    finally:
        shutil.rmtree(vdir, ignore_errors=True)
    try:
        vol = json.loads(vtxt.strip().splitlines()[-1])
    except Exception:
        raise vlib.CheckError("fjall_volume harness failed:\n" + vtxt[-3000:])
    shard_files = sorted(glob.glob(os.path.join(cdir, "shard_*.txt")))
    fails, errors, total = vlib.run_coq_cases("C11", shard_files, HEADER)
    samples = [l[:500] for l in open(shard_files[0]).read().splitlines()[:2]] if shard_files else []

    # decide -----------------------------------------------------------------
    probe = st.get("atomic_probe", {})
    real_fail = list(st["rust_fail"])
    if probe.get("fjall", {}).get("mixed", 0) > 0 or probe.get("rocks", {}).get("mixed", 0) > 0:
        which = "fjall" if probe.get("fjall", {}).get("mixed", 0) > 0 else "rocks"
        ctx.violation(f"{which}_scan_sees_partial_batch.json", {
            "what": f"{which} backend: a scan_members concurrent with WriteBatch::commit returned a mixture of two generations: the batch did not take effect as a whole (for Fjall this is the defect repaired by patches/c11_fjall_snapshot_reads.diff: reads at SeqNo::MAX instead of through a snapshot)",
            "input": "set column SA (Key=Vec<u8>, Element=Vec<u8>), key [7,7]; writer: batches alternately delete the 40 members {[0xB0,i,0xFF]} and insert the 40 members {[0xA0,i]}, and vice versa, plus one wide put; reader thread: loop scan_members(&[7,7])",
            "probe": probe, "observed": [m for m in real_fail if "atomic probe" in m],
            "rerun": f"{KVDB} run /tmp/c11_probe_out /tmp/c11_probe_work {ctx.seed} 1 1 {rounds}"})
        real_fail = [m for m in real_fail if "atomic probe" not in m]
    if not vol.get("ok"):
        ctx.violation("volume_fail.json", {
            "what": "volume scenario (both backends): after memtable flushes a member scan returned something else than the reference set (a deleted member came back, or an inserted one was lost)",
            "input": "set column Tags (Key=u32, Element=String): insert members under keys 7 and 8, write ~75 MB of filler (forces a flush), delete/re-insert members, write filler again, scan; reopen, scan",
            "observed": vol.get("fails"), "rerun": f"{FJVOL} /tmp/c11_volume"})
    for msg in real_fail[:1]:
        m = re.search(r"backend=(\w+) history_seed=(\d+) steps=(\d+)", msg)
        rerun = f"{KVDB} one /tmp/c11_replay {m.group(1)} {m.group(2)} {m.group(3)}" if m else ""
        ctx.violation("contract_fail.json", {
            "what": "a real backend returned something else than the reference map (point read / member scan / visibility of an uncommitted batch / content after reopen)",
            "case": msg, "rerun": rerun, "all": real_fail})
    disagreements = []
    for path, idx in fails.items():
        lines = [l for l in open(path).read().splitlines() if l.strip()]
        for i in idx[:3]:
            disagreements.append({"shard": os.path.basename(path), "index": i, "case": lines[i][:6000]})
    if errors:
        disagreements.append({"coqc_error": errors[0][1]})
    if (disagreements or not ok) and not st["rust_fail"]:
        # model/proof no longer matches the code: look harder for a real failing history
        sdir = os.path.join(ctx.rundir, "search")
        try:
            st2 = harness(["run", sdir, work, ctx.seed + 1000003, 600, 4, 0])
        finally:
            shutil.rmtree(work, ignore_errors=True)
        if st2["rust_fail"]:
            ctx.violation("contract_fail.json", {"what": "a real backend returned something else than the reference map", "case": st2["rust_fail"][0]})
        else:
            what = ("theorem/build: " + info.get("failed_at", str({k: info.get(k) for k in ("forbidden", "unexpected_axioms", "unprinted_theorems")}))) if not ok \
                else "correspondence Kv/Model.v <-> kv_database/{rocksdb,fjall}.rs (a read result or the physical bytes in the directory differ from the model's)"
            ctx.violation("broken_obligation.json", {
                "no_longer_checks": what, "disagreements": disagreements[:6],
                "search": f"{2 * st2['histories_per_backend']} further histories on the real backends agreed with the reference map",
                "make_tail": info.get("make_tail", "")[-1500:]}, found_input=False)

    cov = vlib.proof_coverage(info, "./check C11 (coq_makefile+make closure of Properties/C11.vo; coqc Properties/C11.v; coqc cases)", TB)
    dist = {k: v for k, v in st.items() if k != "rust_fail"}
    dist["harness_db_build_s"] = round(wall, 1)
    dist["fjall_volume"] = {k: v for k, v in vol.items() if k != "fails"}
    cov.update({
        "traces_validated_against_impl": total,
        "evaluations": st["gets"] + st["scans"],
        "distinct_nontrivial": st["gets_some"] + st["scans_nonempty"],
        "rule": "one case = one history (30-80 steps: staging into up to 3 open batches directly or through serialization buffers, commits, discards, reopens, reads) run on one real backend; every read is judged against a reference map and re-computed by the model, the final physical directory content is compared byte for byte with the model's columns; non-trivial = reads that returned a value / a non-empty member list",
        "samples": samples,
        "input_distribution": dist,
        "disagreements_checked": len(disagreements),
        "physical_keys_compared": "yes: raw dump of every column family / keyspace after the last close (names, key bytes, value bytes, order) vs the model's columns, both backends",
    })
    return ctx.finish("proof", cov, TB)


def replay(ctx, path):
    txt = open(path).read()
    print(txt)
    try:
        d = json.loads(txt)
        if d.get("rerun"):
            build()
            rc, out = vlib.sh(d["rerun"], timeout=900)
            print(out[-3000:])
            for p in ("/tmp/c11_replay", "/tmp/c11_probe_out", "/tmp/c11_probe_work", "/tmp/c11_volume"):
                shutil.rmtree(p, ignore_errors=True)
    except Exception:
        pass
    return run(ctx)
