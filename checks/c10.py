"""C10 — write-behind applies every batch exactly once, in order, by shutdown."""
import glob, json, os
import vlib

HEADER = """From QV Require Import Common.Prelude WriteBehind.Model WriteBehind.Check.
Open Scope N_scope."""

TB = [
    "Print Assumptions: C10_order, C10_arrival_independent, C10_prefix, C10_store, C10_exactly_once, C10_conservation, C10_gap_stalls, C10_notify_after_commit, C10_store_is_map closed under the global context (no axioms)",
    "model = WriteBehind/Model.v, written by hand from crates/storage/src/write_manager/write_behind.rs (commit_worker, process_pending_commits, CurrentBatch::flush, Drop); tied to the code by the differential run of harness/src/bin/writebehind.rs: the commit log of the real WriteBehind over an in-memory KvDatabase is compared with the model's prediction (grouping included) on every case of this run",
    "the store's should_write_more is a Section variable `more` (any function of the logical batches in the open physical batch); the run instantiates it with four programmable modes",
    "H-atomic: the thread pipeline around the committer (crossbeam channels deliver every sent task and report disconnection only when empty; thread joins; AtomicU64 epoch counter gives distinct consecutive epochs) is not modelled: the model starts at 'tasks reach the single committer in an arbitrary order'; that every submitted task does reach it before drop returns is checked on the real run only",
    "BinaryHeap is modelled by its observable behaviour for unique keys (peek/pop the least epoch)",
    "the shutting-down flag is read once per flush in the model, once per logical batch in the code (it only selects which cache notifications are skipped)",
    "a physical commit of the harness store applies the operations of its buffers in order under one lock (H-backend for the real stores is C11's subject)",
    "arrival order at the committer is not observable without hooks: the model is run on a fixed shuffle and on the specification `group`; C10_arrival_independent makes the choice irrelevant",
]


def harness(args, timeout=1500):
    rc, txt = vlib.sh([vlib.bin_path("writebehind")] + [str(a) for a in args], timeout=timeout)
    if rc != 0:
        raise vlib.CheckError("writebehind harness failed:\n" + txt[-2000:])
    return json.loads(txt.strip().splitlines()[-1])


def run(ctx, only_seed=None):
    ok, info = vlib.prove_stage("C10", ["theories/WriteBehind/Check.vo"])
    rc, out, wall = vlib.cargo_build(["writebehind"])
    if rc != 0:
        raise vlib.CheckError("harness does not build against /repo:\n" + out[-3000:])
    quick = ctx.tier == "quick"
    cases, shards, gaps = (1500, 16, 8) if quick else (12000, 48, 40)
    cdir = os.path.join(ctx.rundir, "cases")
    os.makedirs(cdir, exist_ok=True)
    for f in glob.glob(os.path.join(cdir, "shard_*")):
        os.remove(f)
    try:
        st = harness(["run", cdir, ctx.seed, cases, shards, gaps])
    except vlib.CheckError as e:
        # the pipeline took the harness process down (e.g. the committer's assertion): find the case
        iso = harness(["isolate", ctx.seed, min(cases, 600)])
        if iso["rust_fail"]:
            seed = iso["rust_fail"][0].split(":")[0].split("=")[1]
            ctx.violation("pipeline_died.json", {
                "what": "the real WriteBehind died (panic/abort) on a run in which every created batch was submitted",
                "case": iso["rust_fail"][0], "rerun": f"{vlib.bin_path('writebehind')} one {seed} 20", "all": iso["rust_fail"]})
            cov = vlib.proof_coverage(info, "./check C10", TB)
            cov.update({"traces_validated_against_impl": 0, "input_distribution": {"isolated_cases": iso["cases"]}, "samples": []})
            return ctx.finish("proof", cov, TB)
        raise e
    shard_files = sorted(glob.glob(os.path.join(cdir, "shard_*.txt")))
    fails, errors, total = vlib.run_coq_cases("C10", shard_files, HEADER)
    samples = [l[:600] for l in open(shard_files[0]).read().splitlines()[:2]] if shard_files else []

    # decide -----------------------------------------------------------------
    for msg in st["rust_fail"][:1]:
        seed = msg.split(":")[0].split("=")[1]
        ctx.violation("order_fail.json", {
            "what": "the real WriteBehind broke the property oracle (exactly once / creation order / final store / drop waits)",
            "case": msg, "rerun": f"{vlib.bin_path('writebehind')} one {seed} 50",
            "all": st["rust_fail"]})
    disagreements = []
    for path, idx in fails.items():
        lines = [l for l in open(path).read().splitlines() if l.strip()]
        for i in idx[:3]:
            disagreements.append({"shard": os.path.basename(path), "index": i, "case": lines[i][:4000]})
    if errors:
        disagreements.append({"coqc_error": errors[0][1]})
    if (disagreements or not ok) and not st["rust_fail"]:
        # model/proof no longer matches the code: look harder for a real failing run
        sdir = os.path.join(ctx.rundir, "search")
        st2 = harness(["run", sdir, ctx.seed + 1000003, 3000, 4, 0])
        if st2["rust_fail"]:
            ctx.violation("order_fail.json", {"what": "the real WriteBehind broke the property oracle", "case": st2["rust_fail"][0]})
        else:
            what = ("theorem/build: " + info.get("failed_at", str({k: info.get(k) for k in ("forbidden", "unexpected_axioms", "unprinted_theorems")}))) if not ok \
                else "correspondence WriteBehind/Model.v <-> write_behind.rs (commit log of the real run differs from the model's)"
            ctx.violation("broken_obligation.json", {
                "no_longer_checks": what, "disagreements": disagreements[:6],
                "search": f"{st2['cases']} further runs of the real pipeline satisfied the property oracle",
                "make_tail": info.get("make_tail", "")[-1500:]}, found_input=False)

    cov = vlib.proof_coverage(info, "./check C10 (coq_makefile+make closure of Properties/C10.vo; coqc Properties/C10.v; coqc cases)", TB)
    dist = {k: v for k, v in st.items() if k not in ("rust_fail",)}
    cov.update({
        "traces_validated_against_impl": total,
        "evaluations": total,
        "distinct_nontrivial": st["cases_submitted_out_of_creation_order"],
        "rule": "one case = one WriteBehind instance (create/fill/submit by 1-8 threads, 1-4 serializers, drop) whose commit log is compared with the model and judged by the property oracle; non-trivial = the scripted submission order differs from creation order",
        "samples": samples,
        "input_distribution": dist,
        "disagreements_checked": len(disagreements),
        "hazard_observed": "a batch that is created but never submitted (leaked) stalls every later epoch; on drop the committer's assert!(holdback_queues.is_empty()) (write_behind.rs:804) fires and the unwinding drops still-active batches, whose Drop assertion (write_behind.rs:410) panics again: the process aborts (SIGABRT) and the later, submitted batches never reach the store. Predicted by C10_gap_stalls; observed in %d of %d gap runs (the others had the gap at the last epoch)." % (st["gap_assertion_fired"], st["gap_cases"]),
    })
    return ctx.finish("proof", cov, TB)


def replay(ctx, path):
    txt = open(path).read()
    print(txt)
    try:
        d = json.loads(txt)
        if "rerun" in d:
            rc, out = vlib.sh(d["rerun"], timeout=600)
            print(out[-3000:])
    except Exception:
        pass
    return run(ctx)
