"""C09 — cached maps always return the latest write (read-your-writes)."""
import glob, json, os
import vlib

HEADER = """From QV Require Import Common.Prelude Cache.Wide Cache.SetLog Cache.SetCache Cache.Check.
Open Scope N_scope."""

TB = [
    "Print Assumptions: every theorem of Properties/C09.v is closed under the global context (no axioms)",
    "models Cache/Wide.v (single-value / multi-type map) and Cache/SetLog.v + SetCache.v (key->set map, as the code has it, "
    "booleans select the repaired spilled iterator / overlay) are written by hand; tied to crates/storage by the run of "
    "harness/src/bin/cachemaps.rs on this run's operation sequences (every Get answer, every store read, enabledness of every step)",
    "eviction policy abstracted: any entry whose pin count is not positive may vanish at any time (C16 is about the policy); "
    "evictions of the real cache are inferred from reads that reach the database and must be enabled in the model",
    "C09_wide_ryw hypothesis: writes to one key are issued in the epoch order of their batches (necessary: C09_wide_unordered_refuted, "
    "replayed on the real code on every run); commit in epoch order is C10's statement and is taken as the enabling condition of BgCommit",
    "sequential placement of background steps: commit-visible and after-commit are atomic steps between foreground calls; "
    "interleavings inside the miss paths are modelled in Cache/FillGuard*.v (miss = start/miss/read/install, counted write = entry operation + fetch_add, any number of loaders, any grouping of keys): C09_wide_guard_ryw, C09_set_guard_ryw; other intra-call interleavings (two writers on one (key, element) from different batches - overlap_witness_diverges) are excluded by the models' step granularity and covered by the parallel stress run only (H-atomic)",
    "harness observability: 'after-commit of batch b completed' = the batch's own value copies were dropped on a background thread and the "
    "thread named bg_writer_after* is asleep again (/proc); scan order of the store and of the harness' set type is numeric order",
]

FINDINGS = {
    "set-spilled-iter-truncates":
        "F2 CacheKeyOfSetMap: 1025 members of one key in the store, key not cached, one staged remove => get yields {got} of the {want} expected members "
        "(MergeIterator::Spilled::next: `if let` on the half-constructed part falls through to the exhausted tail and ends the iteration)",
    "set-overlay-cancels":
        "F3 CacheKeyOfSetMap: member x committed; batch 1 removes x and is applied to the store (after-commit not run); batch 2 inserts x; key not cached => get returns {got} instead of {want}; "
        "also without any background step: three open batches insert/remove/insert x => {got_b} (get_snapshot cancels Insert/Remove pairs in BinaryHeap array order)",
    "wide-fill-race":
        "F8 WideColumnCache::get: a reader misses and reads the store, a writer inserts v, the batch is committed and notified, the entry is evicted, the reader installs its stale answer => later get returns {got} instead of {want}",
    "set-fill-race":
        "CacheKeyOfSetMap::get_entry: a reader misses, takes the staging snapshot and scans the store; a writer inserts x (value cache vacant, nothing updated); the reader installs its set => later get returns {got} instead of {want}",
}


def harness(ctx, seed, out):
    os.makedirs(out, exist_ok=True)
    for f in glob.glob(os.path.join(out, "shard_*")):
        os.remove(f)
    rc, txt = vlib.sh([vlib.bin_path("cachemaps"), out, str(seed), ctx.tier, "16"], timeout=1500)
    if rc != 0:
        raise vlib.CheckError("cachemaps harness failed:\n" + txt[-3000:])
    return json.loads(txt.strip().splitlines()[-1])


def coq_bool(b):
    return "true" if b else "false"


def run(ctx):
    ok, info = vlib.prove_stage("C09", ["theories/Cache/Check.vo"])
    rc, out, wall = vlib.cargo_build(["cachemaps"])
    if rc != 0:
        raise vlib.CheckError("harness does not build against /repo:\n" + out[-3000:])
    cdir = os.path.join(ctx.rundir, "cases")
    st = harness(ctx, ctx.seed, cdir)
    f2, f3 = st["f2"], st["f3"]
    # which variant of the set model does the tree implement?  decided by the witnesses on the real code
    fix_iter, fix_overlay = (not f2["present"]), (not f3["present"])
    spec_sets = fix_iter and fix_overlay
    fn = f"(failures {coq_bool(fix_iter)} {coq_bool(fix_overlay)} {coq_bool(spec_sets)})"
    shard_files = sorted(glob.glob(os.path.join(cdir, "shard_*.txt")))
    fails, errors, total = vlib.run_coq_cases("C09", shard_files, HEADER, fn=fn)

    # ---- decide -------------------------------------------------------------------------
    # 1. the property's own oracle on the real code
    for msg in st["rust_ref_fail"]:
        ctx.violation("wide_stale_read.json", {"what": "real CacheSingleMap/CacheDynamicMap answered a Get with something else than the latest write "
                                                       "(sequential history, writes in epoch order)", "history": msg,
                                               "rerun": f"cachemaps <dir> {ctx.seed} {ctx.tier} 16"})
        break
    if f2["present"]:
        ctx.finding("set-spilled-iter-truncates",
                    FINDINGS["set-spilled-iter-truncates"].format(got=f2["got_ordset"], want=f2["expected"])
                    + f" [ordered set type: {f2['got_ordset']}, Arc<DashSet>: {f2['got_dashset']}]",
                    {"history": "batch 0 inserts 0..1024 into key 0, submit, commit, after-commit; batch 1 removes 500 from key 0; get key 0", "term": f2["term"] + " ..."})
    if f3["present"]:
        ctx.finding("set-overlay-cancels",
                    FINDINGS["set-overlay-cancels"].format(got=f3["got"], want=f3["expected"], got_b=f3["got_three_open_batches"]),
                    {"history": f3["term"], "history_without_background_step": f3["term_b"]})
    frw, frs = st["fill_race_wide"], st["fill_race_set"]
    par = st["parallel"]
    if frw["present"] or par["stale"] or par["non_monotonic"]:
        ctx.finding("wide-fill-race", FINDINGS["wide-fill-race"].format(got=frw["got"], want=frw["expected"]),
                    {"witness": frw, "parallel_run": {k: par[k] for k in ("reads", "stale", "non_monotonic", "first")},
                     "model": "Cache/FillRace.v fill_race_witness"})
    if frs["present"] or par["set_bad"]:
        ctx.finding("set-fill-race", FINDINGS["set-fill-race"].format(got=frs["got"], want=frs["expected"]),
                    {"witness": frs, "parallel_run": {k: par[k] for k in ("set_reads", "set_bad", "first")}})
    if par["from_future"]:
        ctx.violation("read_from_future.json", {"what": "a parallel reader saw a value whose write had not started", "parallel": par})
    if spec_sets and st["set"]["ref_mismatch_cases"]:
        ctx.violation("set_stale_read.json", {"what": "real CacheKeyOfSetMap iteration differs from the reference set although the F2/F3 witnesses pass",
                                              "examples": st["set_ref_mismatch"], "rerun": f"cachemaps <dir> {ctx.seed} {ctx.tier} 16"})
    # 2. model = code ?
    disagreements = []
    for path, idx in fails.items():
        lines = [l for l in open(path).read().splitlines() if l.strip()]
        for i in idx[:3]:
            disagreements.append({"shard": os.path.basename(path), "index": i, "case": lines[i][:1500]})
    if errors:
        disagreements.append({"coqc_error": errors[0][1][-1500:]})
    if (disagreements or not ok) and not ctx.violations:
        st2 = harness(ctx, ctx.seed + 1000003, os.path.join(ctx.rundir, "search"))
        if st2["rust_ref_fail"]:
            ctx.violation("wide_stale_read.json", {"what": "real map answered a Get with something else than the latest write", "history": st2["rust_ref_fail"][0]})
        else:
            what = ("theorem/build: " + info.get("failed_at", str({k: info.get(k) for k in ("forbidden", "unexpected_axioms", "unprinted_theorems")}))) if not ok \
                else "correspondence Cache/{Wide,SetCache,SetLog}.v <-> crates/storage (cachemaps harness): the model no longer predicts the code"
            ctx.violation("broken_obligation.json", {"no_longer_checks": what, "disagreements": disagreements[:8],
                                                     "model_variant": {"fix_iter": fix_iter, "fix_overlay": fix_overlay},
                                                     "search": f"{st2['wide']['gets']} further wide reads agreed with the reference map",
                                                     "make_tail": info.get("make_tail", "")[-1500:]}, found_input=False)
    applies = ["C09_wide_ryw (single-value / multi-type map, sequential placement of background steps)"]
    if spec_sets:
        applies.append("C09_set_ryw (key->set map, repaired variant, any threshold): the tree passes the F2/F3 witnesses and corresponds to the repaired model")
    else:
        applies.append("set map: the tree shows " + ", ".join(k for k, p in (("F2", f2["present"]), ("F3", f3["present"])) if p)
                       + ": C09_set_ryw_refuted_* describe it; C09_set_ryw is proved for the repaired variant (patches/fix_c09_spilled_iter.diff, fix_c09_overlay_lww.diff) and does not apply to this tree")
    cov = vlib.proof_coverage(info, "./check C09 (coq_makefile+make closure of Properties/C09.vo; coqc Properties/C09.v; coqc cases)", TB)
    cov.update({
        "traces_validated_against_impl": total,
        "evaluations": st["wide"]["ops"] + st["set"]["ops"] + st["heap"]["ops"],
        "distinct_nontrivial": st["wide"]["cases"] + st["set"]["cases"],
        "rule": "one case = one operation sequence driven through the real maps with background steps placed by the gated database "
                "(or one push/flush sequence on std's BinaryHeap); non-trivial = wide and set cases (each has reads after writes, commits and notifications); "
                "evaluations = operations replayed in the Coq model",
        "samples": st["samples"],
        "model_variant_of_tree": {"fix_iter": fix_iter, "fix_overlay": fix_overlay, "set_cases_compared_with_reference_in_coq": spec_sets},
        "theorems_that_apply": applies,
        "hypothesis_necessary_on_real_code": {"history": st["unordered"]["term_head"] + " ...", "latest_write": st["unordered"]["expected_latest"],
                                              "real_answer_after_eviction": st["unordered"]["got"]},
        "input_distribution": {k: st[k] for k in ("cases", "wide", "set", "heap", "parallel", "ac_thread_fallbacks", "t_cases_s", "t_parallel_s")},
        "witnesses": {"f2": {k: f2[k] for k in ("present", "expected", "got_ordset", "got_dashset")},
                      "f3": {k: f3[k] for k in ("present", "expected", "got", "got_three_open_batches")},
                      "fill_race_wide": frw, "fill_race_set": frs},
        "set_reference_mismatches_explained_by_model": st["set"]["ref_mismatch_cases"] if not spec_sets else 0,
        "disagreements_checked": len(disagreements),
    })
    return ctx.finish("proof", cov, TB)


def replay(ctx, path):
    print(open(path).read())
    return run(ctx)
