"""C13 — stable hashes are deterministic, history-free and discriminating."""
import glob, json, os
import vlib

HEADER = """From QV Require Import Common.Prelude Codec.Varint Codec.Model Hash.Model Hash.Check.
Open Scope N_scope."""

TB = [
    "Print Assumptions: C13_injective, C13_prefix_free, C13_no_proper_prefix, C13_history_free, C13_fingerprint_deterministic, C13_roundtrip_stable, C13_fingerprint_discriminates, C13_domain_check_sound closed under the global context (no axioms)",
    "H-hash (explicit hypothesis of C13_fingerprint_discriminates, never an axiom): stream |-> SipHash128(seed ++ resolve stream) is injective up to feq on the streams in play; it covers the collision resistance of SipHash-128 AND the step from the multiset of per-entry sub-hashes of an unordered collection to their wrapping 128-bit sum (an additive combination; weaker than hashing the sorted sub-hashes against a deliberate attacker). Satisfiable: Hash/Examples.v toy_hhash. C13_fingerprint_deterministic / C13_history_free need no hypothesis on the hash function",
    "model = Hash/Model.v (stream: which StableHasher method is called with which argument; flat: the bytes the trait's default methods write; resolve/fingerprint: Sip128Hasher::sub_hash = copy of the state, Engine::hash = seed then value), written by hand; tied to crates/stable_hash (+derive) by the exact comparison of both levels with two instrumented implementations of the public StableHasher trait on this run's cases (harness/src/bin/stablehash.rs, Hash/Check.v)",
    "H-rustc: size and value of mem::discriminant (8 bytes, variant index, for Option/Result/derived enums without repr; repr width otherwise), usize = 8 bytes; checked on this run's compiler by the correspondence (fact discriminant_width), not proved",
    "value identity veq: entry order of unordered collections and NaN payloads are irrelevant; +0.0 and -0.0 are different values although 0.0 == -0.0 in Rust (stated: Examples signed_zero_distinct, nan_payloads_collapse; replayed on the real code)",
    "the type is not part of the stream: values of different types may hash equally (String \"ab\" / Vec<u8> [97,98]; usize 5 / u64 5); C13 quantifies over pairs of one type (Example type_not_hashed, replayed)",
    "serializer-skipped fields are hashed: C13_roundtrip_stable is restricted to types without them (Example roundtrip_changes_skipped_field, replayed on the real code)",
    "siphasher's write is a streaming hash (only the concatenation of the written bytes matters): relied upon for passing from call level to byte level; exercised by the real-hash oracles (String vs Vec<u8> fact), not proved",
    "not modelled: FlexStr, CStr/CString, BitVec, enums with explicit discriminant values, DashMap ReadOnlyView, unions (rejected by the derive), 32-bit targets; concurrent mutation of DashMap while it is hashed",
]

def harness_cases(ctx, seed, per_type, shards, out):
    os.makedirs(out, exist_ok=True)
    for f in glob.glob(os.path.join(out, "shard_*")):
        os.remove(f)
    rc, txt = vlib.sh([vlib.bin_path("stablehash"), "cases", out, str(seed), str(per_type), str(shards)], timeout=1200)
    if rc != 0:
        raise vlib.CheckError("stablehash harness failed:\n" + txt[-2000:])
    return json.loads(txt.strip().splitlines()[-1])

def hashes(seed, per_type, hseed):
    """one separate process: (type, index) -> 128-bit hash of the generated value"""
    rc, txt = vlib.sh([vlib.bin_path("stablehash"), "hashes", str(seed), str(per_type), str(hseed)], timeout=600)
    if rc != 0:
        raise vlib.CheckError("stablehash hashes failed:\n" + txt[-2000:])
    res = {}
    for line in txt.splitlines():
        p = line.split("\t")
        if len(p) == 3:
            res[(p[0], int(p[1]))] = p[2]
    return res

def run(ctx):
    ok, info = vlib.prove_stage("C13", ["theories/Hash/Check.vo"])
    rc, out, wall = vlib.cargo_build(["stablehash"])
    if rc != 0:
        raise vlib.CheckError("harness does not build against /repo:\n" + out[-3000:])
    per_type = 10 if ctx.tier == "quick" else 120
    shards = 16 if ctx.tier == "quick" else 64
    cdir = os.path.join(ctx.rundir, "cases")
    st = harness_cases(ctx, ctx.seed, per_type, shards, cdir)
    shard_files = sorted(glob.glob(os.path.join(cdir, "shard_*.txt")))
    fails, errors, total = vlib.run_coq_cases("C13", shard_files, HEADER)

    # independent processes: same generated values, same hasher seed => same 128-bit hashes
    # (each process has its own RandomState keys, heap layout and interner)
    n_proc = 30 if ctx.tier == "quick" else 200
    hseed = 0x5eed0001
    p1, p2, p3 = hashes(ctx.seed, n_proc, hseed), hashes(ctx.seed, n_proc, hseed), hashes(ctx.seed, n_proc, hseed + 1)
    proc_diff = [(k, p1[k], p2.get(k)) for k in p1 if p1[k] != p2.get(k)]
    nonunit = [k for k in p1 if k[0] not in ("()", "RangeFull", "PhantomData<u8>", "UnitS", "[u8; 0]")]
    seed_ignored = [k for k in nonunit if p1[k] == p3.get(k)]

    # decide
    real_fail = list(st["fail"])
    for k, a, b in proc_diff[:3]:
        real_fail.append(f"process dependence: value #{k[1]} of {k[0]} (generator seed {ctx.seed}) hashes to {a} in one process and {b} in another")
    if len(p1) != len(p2) or not p1:
        real_fail.append("process comparison: the two helper processes printed different sets of values")
    for msg in real_fail[:3]:
        ctx.violation("hash_fail.json", {"what": "the real stable hash violates C13 on this input", "case": msg, "all": real_fail[:20],
                                         "rerun": f"stablehash cases <dir> {ctx.seed} {per_type} {shards}; stablehash hashes {ctx.seed} {n_proc} {hseed}"})
        break
    bad_facts = [k for k, v in st["facts"].items() if not v]
    if seed_ignored:
        bad_facts.append(f"seed_changes_hash (the hasher seed did not change the hash of {len(seed_ignored)} values, e.g. {seed_ignored[0]})")
    disagreements = []
    for path, idx in fails.items():
        lines = [l for l in open(path).read().splitlines() if l.strip()]
        for i in idx[:5]:
            disagreements.append({"shard": os.path.basename(path), "index": i, "case": lines[i][:3000]})
    if errors:
        disagreements.append({"coqc_error": errors[0][1]})
    for m in st["model_fail"][:5]:
        disagreements.append({"fingerprint_model": m})
    if (disagreements or bad_facts or not ok) and not real_fail:
        # model/proof no longer matches the code: look harder for a real failing value
        st2 = harness_cases(ctx, ctx.seed + 1000003, 300, 4, os.path.join(ctx.rundir, "search"))
        if st2["fail"]:
            ctx.violation("hash_fail.json", {"what": "the real stable hash violates C13 on this input", "case": st2["fail"][0], "all": st2["fail"][:20]})
        else:
            what = ("theorem/build: " + info.get("failed_at", str({k: info.get(k) for k in ("forbidden", "unexpected_axioms", "unprinted_theorems")}))) if not ok \
                else ("stated facts no longer hold on the real code: " + ", ".join(bad_facts)) if bad_facts and not disagreements \
                else "correspondence Hash/Model.v <-> crates/stable_hash (stablehash harness)"
            ctx.violation("broken_obligation.json", {"no_longer_checks": what, "disagreements": disagreements[:10], "facts": st["facts"],
                                                     "search": f"{st2['cases']} further values ({st2['history_checked']} rebuilt histories, {st2['near_miss_checked']} near-miss pairs, {st2['pairs_distinct_checked']} unequal pairs) passed the property oracle on the real code",
                                                     "make_tail": info.get("make_tail", "")[-1500:]}, found_input=False)
    cov = vlib.proof_coverage(info, "./check C13 (coq_makefile+make closure of Properties/C13.vo; coqc Properties/C13.v; coqc cases)", TB)
    keys = ("cases", "types", "calls_total", "bytes_total", "sub_hash_calls", "sub_hash_calls_nested", "history_checked", "history_reordered",
            "ptr_checked", "rt_checked", "rt_equal_value", "rt_changed_by_skip", "distinct_values", "pairs_distinct_checked",
            "same_value_pairs_checked", "nan_collapsed", "near_miss_checked", "fingerprint_model_checked", "n_fail")
    dist = {k: st[k] for k in keys}
    dist.update({"processes_compared": 2, "values_per_process": len(p1), "process_differences": len(proc_diff),
                 "values_whose_hash_changes_with_hasher_seed": len(nonunit) - len(seed_ignored), "facts_replayed_on_real_code": st["facts"]})
    cov.update({
        "traces_validated_against_impl": total,
        "evaluations": total + st["history_checked"] + st["ptr_checked"] + st["rt_checked"] + st["near_miss_checked"] + 2 * len(p1),
        "distinct_nontrivial": st["distinct_values"],
        "rule": "one case = one generated value of one of the concrete Rust types: its recorded StableHasher calls and recorded bytes (two instrumented hashers) are compared exactly with stream / flat(stream) in Coq, and the value term passes wtb (is in the theorems' domain); on the real Sip128Hasher the same value is re-hashed after 2 rebuilds with another construction history, behind &/Box/Rc/Arc, after decode(encode) and in 2 separate processes, and all unequal values of one type must hash differently. distinct_nontrivial = number of distinct values (by canonical value term, per type) counted by the harness",
        "samples": st["samples"],
        "input_distribution": dist,
        "disagreements_checked": len(disagreements),
    })
    return ctx.finish("proof", cov, TB)

def replay(ctx, path):
    print(open(path).read())
    return run(ctx)
