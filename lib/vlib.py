"""Shared machinery of the qbice verification checks.

A check = prove (build the theory closure, re-check the property file, scan for
forbidden tokens, compare Print Assumptions with the allowlist) + correspond (run the
Rust harness against /repo's working tree, evaluate the Coq model on the same cases)
+ decide (known findings / violations / evidence)."""
import fcntl, hashlib, json, os, re, subprocess, sys, time
from concurrent.futures import ThreadPoolExecutor

VERIF = os.path.dirname(os.path.dirname(os.path.abspath(__file__)))
COQ = os.path.join(VERIF, "coq")
HARNESS = os.path.join(VERIF, "harness")
RUN = os.path.join(VERIF, "run")
TARGET = os.path.join(VERIF, ".build", "target")
REPO = "/repo"

FORBIDDEN = re.compile(
    r"\b(Admitted|admit|Axiom|Axioms|Parameter|Parameters|Conjecture|Conjectures|Abort All)\b"
    r"|Unset\s+Guard|bypass_check|type-in-type|impredicative-set|Admit\s+Obligations"
    r"|Unset\s+Universe\s+Checking|Unset\s+Positivity")

# axioms of Coq's standard library that a theorem may depend on (none expected so far)
STDLIB_AXIOMS = {
    "functional_extensionality_dep", "proof_irrelevance", "classic", "JMeq_eq",
    "Eqdep.Eq_rect_eq.eq_rect_eq", "propositional_extensionality", "constructive_definite_description",
}


class CheckError(Exception):
    pass


def sh(cmd, cwd=None, timeout=3600, env=None, check=False):
    e = dict(os.environ)
    e.setdefault("CARGO_NET_OFFLINE", "true")
    e["RUST_BACKTRACE"] = "0"
    if env:
        e.update(env)
    p = subprocess.run(cmd, cwd=cwd, shell=isinstance(cmd, str), stdout=subprocess.PIPE,
                       stderr=subprocess.STDOUT, timeout=timeout, env=e, text=True, errors="replace")
    if check and p.returncode != 0:
        raise CheckError(f"command failed ({p.returncode}): {cmd}\n{p.stdout[-4000:]}")
    return p.returncode, p.stdout


class Lock:
    def __init__(self, name):
        os.makedirs(os.path.join(VERIF, ".build"), exist_ok=True)
        self.path = os.path.join(VERIF, ".build", name + ".lock")

    def __enter__(self):
        self.f = open(self.path, "w")
        fcntl.flock(self.f, fcntl.LOCK_EX)

    def __exit__(self, *a):
        fcntl.flock(self.f, fcntl.LOCK_UN)
        self.f.close()


def strip_comments(src):
    out, depth, i = [], 0, 0
    while i < len(src):
        if src.startswith("(*", i):
            depth += 1; i += 2
        elif src.startswith("*)", i) and depth:
            depth -= 1; i += 2
        else:
            if depth == 0:
                out.append(src[i])
            i += 1
    return "".join(out)


def coq_sources():
    res = []
    for root, _, files in os.walk(os.path.join(COQ, "theories")):
        for f in files:
            if f.endswith(".v"):
                res.append(os.path.join(root, f))
    return sorted(res)


def forbidden_scan():
    """no Admitted/admit/Axiom/Parameter/... anywhere in the development (comments excluded)"""
    bad = []
    for f in coq_sources():
        txt = strip_comments(open(f).read())
        for m in FORBIDDEN.finditer(txt):
            line = txt.count("\n", 0, m.start()) + 1
            bad.append(f"{os.path.relpath(f, VERIF)}:{line}: {m.group(0)}")
    proj = open(os.path.join(COQ, "_CoqProject")).read()
    for m in FORBIDDEN.finditer(proj):
        bad.append("_CoqProject: " + m.group(0))
    return bad


def coq_make(targets, jobs=16, timeout=3000):
    """full .vo build of the given targets (paths relative to coq/), incremental"""
    with Lock("coq"):
        vs = [os.path.relpath(f, COQ) for f in coq_sources()]
        rc, out = sh(["coq_makefile", "-f", "_CoqProject", "-o", "Makefile"] + vs, cwd=COQ)
        if rc != 0:
            raise CheckError("coq_makefile failed:\n" + out)
        t0 = time.time()
        rc, out = sh(["timeout", str(timeout), "make", f"-j{jobs}"] + targets, cwd=COQ, timeout=timeout + 60)
        return rc, out, time.time() - t0


def closure_files(vo_target):
    """source files the target depends on (from the makefile's dependency file)"""
    dep = os.path.join(COQ, ".Makefile.d")
    deps = {}
    if os.path.exists(dep):
        for line in open(dep).read().replace("\\\n", " ").splitlines():
            if ":" not in line:
                continue
            lhs, rhs = line.split(":", 1)
            for t in lhs.split():
                if t.endswith(".vo"):
                    deps[t] = [d for d in rhs.split() if d.endswith(".vo")]
    seen, todo = set(), [vo_target]
    while todo:
        t = todo.pop()
        if t in seen:
            continue
        seen.add(t)
        todo.extend(deps.get(t, []))
    return sorted(s[:-1] for s in seen)  # .vo -> .v


def check_property_file(pid, outdir):
    """re-compile Properties/<pid>.v on its own (so the statements are re-checked on
    every run, whatever make cached) and parse the Print Assumptions output."""
    src = os.path.join(COQ, "theories", "Properties", pid + ".v")
    os.makedirs(outdir, exist_ok=True)
    vo = os.path.join(outdir, pid + ".vo")
    t0 = time.time()
    rc, out = sh(["timeout", "900", "coqc", "-noglob", "-Q", "theories", "QV", "-o", vo, src], cwd=COQ, timeout=1000)
    wall = time.time() - t0
    txt = strip_comments(open(src).read())
    theorems = re.findall(r"\b(?:Theorem|Corollary)\s+([A-Za-z0-9_']+)", txt)
    printed = re.findall(r"Print Assumptions\s+([A-Za-z0-9_']+)", txt)
    # each Print Assumptions answers either "Closed under the global context" or "Axioms:" + list
    blocks = re.split(r"(?=Closed under the global context|Axioms:)", out)
    answers = [b for b in blocks if b.startswith("Closed under") or b.startswith("Axioms:")]
    axioms = {}
    for name, b in zip(printed, answers):
        if b.startswith("Closed under"):
            axioms[name] = []
        else:
            axioms[name] = re.findall(r"^([A-Za-z_][\w.']*)\s*:", b[len("Axioms:"):], re.M)
    return {
        "rc": rc, "log": out, "wall": wall, "theorems": theorems, "printed": printed,
        "axioms": axioms, "n_answers": len(answers),
    }


def prove_stage(pid, extra_targets=()):
    """returns (ok, info). ok=False means a proof obligation no longer checks."""
    info = {"forbidden": forbidden_scan()}
    target = f"theories/Properties/{pid}.vo"
    rc, out, wall = coq_make([target] + list(extra_targets))
    info["make_rc"] = rc
    info["make_wall"] = round(wall, 1)
    info["make_tail"] = out[-3000:]
    compiled = re.findall(r"^COQC (\S+)", out, re.M)
    info["recompiled"] = compiled
    if rc != 0:
        m = re.search(r'File "([^"]+)", line (\d+)', out)
        info["failed_at"] = f"{m.group(1)}:{m.group(2)}" if m else "?"
        return False, info
    pf = check_property_file(pid, os.path.join(RUN, pid))
    info["property_file"] = {k: pf[k] for k in ("rc", "wall", "theorems", "printed", "axioms", "n_answers")}
    info["closure"] = closure_files(target)
    ok = pf["rc"] == 0 and not info["forbidden"]
    if pf["rc"] != 0:
        info["failed_at"] = f"Properties/{pid}.v"
        info["property_log"] = pf["log"][-3000:]
    missing = [t for t in pf["theorems"] if t not in pf["printed"]]
    if missing:
        ok = False
        info["unprinted_theorems"] = missing
    if pf["n_answers"] != len(pf["printed"]):
        ok = False
        info["assumption_parse"] = f"{pf['n_answers']} answers for {len(pf['printed'])} Print Assumptions"
    bad_ax = {t: [a for a in ax if a.split(".")[-1] not in STDLIB_AXIOMS and a not in STDLIB_AXIOMS]
              for t, ax in pf["axioms"].items()}
    bad_ax = {t: a for t, a in bad_ax.items() if a}
    if bad_ax:
        ok = False
        info["unexpected_axioms"] = bad_ax
    # count lemmas in the closure (what the kernel checked for this property)
    n_lemmas = 0
    for f in info["closure"]:
        p = os.path.join(COQ, f)
        if os.path.exists(p):
            n_lemmas += len(re.findall(r"^\s*(?:Lemma|Theorem|Corollary|Example|Fact|Remark)\s", strip_comments(open(p).read()), re.M))
    info["closure_lemmas"] = n_lemmas
    return ok, info


def cargo_build(bins, release=False, features=None, timeout=3000):
    with Lock("cargo"):
        lock_src = os.path.join(REPO, "Cargo.lock")
        lock_dst = os.path.join(HARNESS, "Cargo.lock")
        if not os.path.exists(lock_dst):
            import shutil
            shutil.copy(lock_src, lock_dst)
        cmd = ["cargo", "build", "--offline"]
        if release:
            cmd.append("--release")
        if features:
            cmd += ["--features", ",".join(features)]
        for b in bins:
            cmd += ["--bin", b]
        t0 = time.time()
        rc, out = sh(cmd, cwd=HARNESS, timeout=timeout)
        return rc, out, time.time() - t0


def bin_path(name, release=False):
    return os.path.join(TARGET, "release" if release else "debug", name)


def run_coq_cases(pid, shard_files, header, list_type="case", fn="failures", jobs=16, timeout=5400):
    """each shard file holds one Coq term per line; returns ({shard: [indices]}, errors)"""
    def one(path):
        lines = [l for l in open(path).read().splitlines() if l.strip()]
        v = path[:-4] + ".v"
        with open(v, "w") as f:
            f.write(header + "\n")
            f.write(f"Definition cases : list {list_type} := [\n")
            f.write(" ;\n".join("  " + l for l in lines))
            f.write("\n].\n")
            f.write(f"Eval vm_compute in ({fn} cases).\n")
        rc, out = sh(["timeout", str(timeout), "coqc", "-noglob", "-Q", os.path.join(COQ, "theories"), "QV",
                      "-o", v + "o", v], cwd=os.path.dirname(path), timeout=timeout + 60)
        return path, len(lines), rc, out
    fails, errors, total = {}, [], 0
    with ThreadPoolExecutor(max_workers=jobs) as ex:
        for path, n, rc, out in ex.map(one, shard_files):
            total += n
            if rc == 124:
                # the machine was too busy to evaluate this shard in time: not a verdict about the code
                raise CheckError(f"coqc timed out after {timeout} s on {path} (machine overloaded?)")
            if rc != 0:
                errors.append((path, out[-2000:] or f"coqc exit code {rc}"))
                continue
            m = re.search(r"=\s*\[(.*?)\]\s*:\s*list", out.replace("\n", " "), re.S)
            if not m:
                errors.append((path, "unparsable: " + out[-1000:]))
                continue
            idx = [int(x.replace("%N", "").strip()) for x in m.group(1).split(";") if x.strip()]
            if idx:
                fails[path] = idx
    return fails, errors, total


def known_findings():
    """known_findings.txt: `known: property=C09 key=<key> <text>` / `fixed: property=.. <commit> <text>`"""
    res = {"known": {}, "fixed": []}
    p = os.path.join(VERIF, "known_findings.txt")
    if os.path.exists(p):
        for line in open(p):
            line = line.strip()
            if line.startswith("known:"):
                m = re.match(r"known:\s*property=(\S+)\s+key=(\S+)\s*(.*)", line)
                if m:
                    res["known"].setdefault(m.group(1), {})[m.group(2)] = m.group(3)
            elif line.startswith("fixed:"):
                res["fixed"].append(line)
    return res


class Ctx:
    def __init__(self, pid, tier, seed):
        self.pid, self.tier, self.seed = pid, tier, seed
        self.t0 = time.time()
        self.rundir = os.path.join(RUN, pid)
        os.makedirs(self.rundir, exist_ok=True)
        self.violations = []      # (replay_path, suffix)
        self.known_hits = []      # text
        self.known = known_findings()["known"].get(pid, {})

    def replay_file(self, name, payload):
        d = os.path.join(self.rundir, "replay")
        os.makedirs(d, exist_ok=True)
        p = os.path.join(d, name)
        with open(p, "w") as f:
            if isinstance(payload, str):
                f.write(payload)
            else:
                json.dump(payload, f, indent=1)
        return p

    def violation(self, name, payload, found_input=True):
        p = self.replay_file(name, payload)
        self.violations.append((p, "" if found_input else " no-failing-input-found"))

    def finding(self, key, text, payload):
        """a concrete failing input with a stable identity; known ones are reported and tolerated"""
        if key in self.known:
            self.known_hits.append(f"{key}: {text}")
        else:
            self.violation(f"{key}.json", {"finding": key, "what": text, "input": payload})

    def finish(self, level, coverage, assumptions):
        ev = {
            "property_id": self.pid, "tier": self.tier, "seed": self.seed, "level": level,
            "coverage": coverage, "assumptions": assumptions,
            "wall_s": round(time.time() - self.t0, 1), "violations": len(self.violations),
        }
        os.makedirs(os.path.join(VERIF, "evidence"), exist_ok=True)
        with open(os.path.join(VERIF, "evidence", self.pid + ".json"), "w") as f:
            json.dump(ev, f, indent=1)
        for k in self.known_hits:
            print(f"KNOWN-FINDING: property={self.pid} {k}")
        for p, suffix in self.violations:
            print(f"VIOLATION property={self.pid} replay={p}{suffix}")
        return 1 if self.violations else 0


KERNEL_TB = [
    "Coq 8.16.1 kernel (coqc; coqchk in the thorough tier); vm_compute used for finite sweeps and for running the model; no native_compute",
    "check driver (python), Rust harness and generators: trusted to report faithfully",
]


def proof_coverage(info, checker_cmd, extra_tb):
    pf = info.get("property_file", {})
    thms = pf.get("theorems", [])
    ok = [t for t in thms if t in pf.get("axioms", {})]
    return {
        "obligations": len(thms) + info.get("closure_lemmas", 0),
        "discharged": (len(ok) + info.get("closure_lemmas", 0)) if info.get("make_rc") == 0 and pf.get("rc") == 0 else 0,
        "property_theorems": thms,
        "axioms_per_theorem": pf.get("axioms", {}),
        "closure_files": info.get("closure", []),
        "recompiled_this_run": info.get("recompiled", []),
        "forbidden_tokens": info.get("forbidden", []),
        "checker_cmd": checker_cmd,
        "trusted_base": KERNEL_TB + list(extra_tb),
    }
