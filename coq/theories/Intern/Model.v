(** C15 — small-step model of the interner (crates/storage/src/intern.rs).
    Executable definitions only.

    What the code does (read from intern.rs / sharded.rs):
    - one table per Rust type, found by [T::STABLE_TYPE_ID] (created on first use by
      [obtain_read_shard]); a typed table is a sharded [HashMap<Compact128, Weak<T>>]
      keyed by the 128-bit stable hash of the value; a shard is a [parking_lot::RwLock];
    - [intern(value)]: the hash is computed ONCE ([hash_128]) and used for the probe and
      for the insert;  step 1, under the shard's READ lock: [get(&hash).and_then(Weak::upgrade)],
      hit => return the upgraded [Arc] (= one more strong reference);  the read lock is
      RELEASED;  step 2, under the shard's WRITE lock: [entry(hash)]: occupied and the weak
      upgrades => return it (the re-check); occupied and the weak is dead => [Arc::new],
      the dead weak is REPLACED by a weak to the new allocation; vacant => [Arc::new] +
      insert.  Any other thread can run between step 1 and step 2;
    - [intern_unsized(q)]: the same two steps; the hash is taken of [q.borrow()], the
      allocation is made by [Arc::from(q)];
    - [get_from_hash(h)]: under the read lock, [get(&h).and_then(Weak::upgrade)];
    - [Clone] of a handle = [Arc::clone] (count + 1); dropping a handle = count - 1; an
      allocation whose count reached 0 can never be upgraded again;
    - [vacuum_shard]: under the WRITE lock of one shard (taken with try_write, busy
      shards are skipped) [retain(|_, w| w.upgrade().is_some())]: for each entry the weak
      is upgraded; a dead entry is removed; for a live entry the upgrade yields a
      TEMPORARY strong reference that is dropped immediately afterwards (it can be the
      last one: then the value dies in the vacuum thread).  [Interner::vacuum] and the
      background thread of [new_with_vacuum] run this over all shards of all types.

    The model
    - heap: allocation id -> (type id, content, strong count); ids are never reused
      (pointer identity of the code is only ever compared between live handles);
    - table: (type id, hash) -> allocation id: the weak.  It upgrades iff the count of
      the allocation is positive;
    - handles: ONE list for all threads; a handle records its owner thread, whether it
      is the vacuum's temporary, the allocation it points to and, as ghost state, the
      (type id, value) it was asked for (for [get_from_hash]: the content it found);
    - per-thread program counter: [Idle], [Miss ty arg h] = between the read-lock probe
      that missed and the write-lock step (the hash [h] is carried over, as in the code),
      [VacTemp] = holding the temporary reference inside [retain];
    - a step = (thread, action); the SCHEDULER IS ARBITRARY: a schedule is any list of
      steps, [run] fails on a step that is not enabled.  Locks are not modelled as state:
      every action below is one critical section of the code (or one atomic [Arc]
      operation), so every execution of the code is a schedule of the model (H-atomic);
      the model allows more interleavings than the locks do (for example a vacuum of
      single entries in any order by any thread while others probe), which only makes
      the theorems stronger.
    Why each action is atomic: [AProbeRead]/[AGetFromHash] read the table under the read
    lock (no writer of that shard runs) and then do one atomic upgrade (a CAS loop that
    fails iff the count is 0); [ALockedRecheckInsert]/[AVacuumEntry] run under the write
    lock, and a failed upgrade stays failed (count 0 is final), so the following
    insert/removal can be placed at the upgrade; the new [Arc] is private until the
    step returns.

    Parameters ([Section] variables, instantiated by the check and constrained by
    hypotheses only in the proof files): [hash] the stable hash as a function of (type
    id, value); [inD] the value domain in play; [borrow]/[conv] what [intern_unsized]
    hashes / allocates for an argument [q]; [recheck] = true is the code, false is the
    mutant without the re-check under the write lock (used to show that the theorems
    depend on it, Intern/Examples.v). *)
From QV Require Import Common.Prelude.
Open Scope N_scope.

Record alloc := Alloc { a_ty : N; a_val : N; a_cnt : N }.
Record handle := Handle { h_owner : N; h_temp : bool; h_alloc : N; h_ty : N; h_val : N }.

(** argument of an intern call *)
Inductive arg := Sized (v : N) | Unsized (q : N).

Inductive pc :=
| Idle
| Miss (ty : N) (a : arg) (h : N)
| VacTemp.

Record state := St {
  heap : N -> option alloc;
  next : N;                              (* ids >= next are unallocated *)
  table : N -> N -> option N;
  hs : list handle;                      (* newest first *)
  pcs : N -> pc
}.

Definition init : state := St (fun _ => None) 0 (fun _ _ => None) [] (fun _ => Idle).

Inductive action :=
| AProbeRead (ty : N) (a : arg)          (* intern / intern_unsized, step 1 (read lock) *)
| ALockedRecheckInsert                   (* step 2 (write lock) *)
| AClone (i : nat)                       (* clone the handle at position i of [hs] *)
| ADrop (i : nat)                        (* drop it *)
| AGetFromHash (ty h : N)
| AVacuumEntry (ty h : N)                (* the [retain] closure on one entry *)
| AVacRelease (i : nat).                 (* drop of the temporary made by the closure *)

Definition upd1 {A} (f : N -> A) (i : N) (v : A) : N -> A := fun i' => if i' =? i then v else f i'.
Definition upd2 {A} (f : N -> N -> A) (i j : N) (v : A) : N -> N -> A :=
  fun i' j' => if (i' =? i) && (j' =? j) then v else f i' j'.

Definition cnt_of (hp : N -> option alloc) (a : N) : N :=
  match hp a with Some al => a_cnt al | None => 0 end.
Definition val_of (hp : N -> option alloc) (a : N) : N :=
  match hp a with Some al => a_val al | None => 0 end.
(** change the strong count of allocation [a] *)
Definition bump (f : N -> N) (a : N) (hp : N -> option alloc) : N -> option alloc :=
  fun x => if x =? a
           then match hp x with
                | Some al => Some (Alloc (a_ty al) (a_val al) (f (a_cnt al)))
                | None => None end
           else hp x.

Fixpoint remove_nth {A} (i : nat) (l : list A) : list A :=
  match l, i with
  | [], _ => []
  | _ :: r, O => r
  | x :: r, S i' => x :: remove_nth i' r
  end.

Section Model.
Variable hash : N -> N -> N.
Variable inD : N -> N -> bool.
Variable borrow conv : N -> N -> N.
Variable recheck : bool.

(** the value that is hashed and probed / the value that is put into a new allocation *)
Definition key_val (ty : N) (a : arg) : N := match a with Sized v => v | Unsized q => borrow ty q end.
Definition store_val (ty : N) (a : arg) : N := match a with Sized v => v | Unsized q => conv ty q end.

(** [table.get(&h).and_then(Weak::upgrade)], without the count change *)
Definition lookup_live (s : state) (ty h : N) : option N :=
  match table s ty h with
  | Some a => if 0 <? cnt_of (heap s) a then Some a else None
  | None => None
  end.

(** a new strong reference to [a] held by thread [t] *)
Definition acquire (s : state) (t : N) (tmp : bool) (a ty v : N) (p : pc) : state :=
  St (bump N.succ a (heap s)) (next s) (table s) (Handle t tmp a ty v :: hs s) (upd1 (pcs s) t p).
(** the reference at position [i] (which is [e]) goes away *)
Definition release (s : state) (t : N) (i : nat) (e : handle) (p : pc) : state :=
  St (bump N.pred (h_alloc e) (heap s)) (next s) (table s) (remove_nth i (hs s)) (upd1 (pcs s) t p).
(** [Arc::new] + insert / replace the weak *)
Definition allocate (s : state) (t ty : N) (a : arg) (h : N) : state :=
  St (upd1 (heap s) (next s) (Some (Alloc ty (store_val ty a) 1))) (next s + 1)
     (upd2 (table s) ty h (Some (next s)))
     (Handle t false (next s) ty (key_val ty a) :: hs s) (upd1 (pcs s) t Idle).

Definition step (s : state) (t : N) (act : action) : option state :=
  match act, pcs s t with
  | AProbeRead ty a, Idle =>
      if inD ty (key_val ty a) then
        let h := hash ty (key_val ty a) in
        match lookup_live s ty h with
        | Some id => Some (acquire s t false id ty (key_val ty a) Idle)
        | None => Some (St (heap s) (next s) (table s) (hs s) (upd1 (pcs s) t (Miss ty a h)))
        end
      else None
  | ALockedRecheckInsert, Miss ty a h =>
      match (if recheck then lookup_live s ty h else None) with
      | Some id => Some (acquire s t false id ty (key_val ty a) Idle)
      | None => Some (allocate s t ty a h)        (* vacant, or a dead weak that is replaced *)
      end
  | AClone i, Idle =>
      match nth_error (hs s) i with
      | Some e => if (h_owner e =? t) && negb (h_temp e)
                  then Some (acquire s t false (h_alloc e) (h_ty e) (h_val e) Idle) else None
      | None => None
      end
  | ADrop i, Idle =>
      match nth_error (hs s) i with
      | Some e => if (h_owner e =? t) && negb (h_temp e) then Some (release s t i e Idle) else None
      | None => None
      end
  | AGetFromHash ty h, Idle =>
      match lookup_live s ty h with
      | Some id => Some (acquire s t false id ty (val_of (heap s) id) Idle)
      | None => Some s
      end
  | AVacuumEntry ty h, Idle =>
      match table s ty h with
      | None => Some s
      | Some a =>
          if 0 <? cnt_of (heap s) a
          then Some (acquire s t true a ty (val_of (heap s) a) VacTemp)    (* retained *)
          else Some (St (heap s) (next s) (upd2 (table s) ty h None) (hs s) (pcs s))
      end
  | AVacRelease i, VacTemp =>
      match nth_error (hs s) i with
      | Some e => if (h_owner e =? t) && h_temp e then Some (release s t i e Idle) else None
      | None => None
      end
  | _, _ => None
  end.

Fixpoint run (s : state) (sched : list (N * action)) : option state :=
  match sched with
  | [] => Some s
  | (t, a) :: r => match step s t a with Some s' => run s' r | None => None end
  end.

Definition reachable (s : state) : Prop := exists sched, run init sched = Some s.

(** what [get_from_hash] returns in state [s] *)
Definition gfh_result (s : state) (ty h : N) : option N := lookup_live s ty h.

End Model.
