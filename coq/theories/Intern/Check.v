(** Correspondence checker for the interner model.  The harness (harness/src/bin/intern.rs)
    runs operation sequences on the real [Interner] and writes, per operation, what it
    observed; [check] runs the same operations on the model and compares.

    [Seq]: one thread, operations run to completion (the sequential schedule:
    intern = ProbeRead then, after a miss, LockedRecheckInsert; vacuum = VacuumEntry on
    every key of the domain, each followed by the release of the temporary).  Observed
    after every operation: whether get_from_hash returned Some; for every live handle
    (newest first) the position of the first handle that is pointer-equal to it; and its
    (type, value) as read through the handle.  Values are numbered 0..; the model's hash is
    the value number itself (the harness checks that the real 128-bit hashes of the
    values of one type are pairwise different, which is H-hash on this domain).

    [Par]: the same on 2-4 real threads under a director, available when /repo carries the
    rendezvous hook of patches/hook_c15_rendezvous.diff: a thread whose probe missed is
    parked before it takes the write lock while the director lets other threads run
    complete operations (or park too), then resumes it: the schedule is a list of
    (thread, step) that is replayed step by step on the model with an arbitrary-scheduler
    [step] per entry.

    [Share]: a structure with repeated / nested handles was encoded and decoded by the real
    code; [bytes] is what the encoder wrote, [classes] the pointer-identity classes of the
    decoded handles in traversal order.  The model must produce the same bytes, decode
    them, and predict the classes from [occ]: two occurrences share iff they have the same
    (type id, hash). *)
From QV Require Import Common.Prelude Intern.Model.
From QV Require Import Codec.Varint Codec.Model Intern.Sharing.
Open Scope N_scope.

Inductive op :=
| OIntern (ty v : N) (unsized : bool)
| OClone (i : nat)
| ODrop (i : nat)
| OGet (ty v : N)            (* get_from_hash::<ty>(hash of value v) *)
| OVacuum.

(** one scheduled step of one thread in a [Par] case: an intern call is split at the
    rendezvous point between the read-lock probe and the write lock *)
Inductive pstep :=
| PProbe (ty v : N) (unsized : bool)   (* the call up to the rendezvous (observed false) or, on a probe hit, to its return (true) *)
| PLocked                              (* the paused call is resumed: write-lock step *)
| PClone (i : nat)
| PDrop (i : nat)
| PGet (ty v : N)
| PVacuum.

Definition obs := (bool * list N * list (N * N))%type.

Inductive case :=
| Seq (keys : list (N * N)) (ops : list op) (observed : list obs)
| Par (keys : list (N * N)) (steps : list (N * pstep)) (observed : list obs)
| Share (t : ty) (v : val) (bytes : list N) (tbl : list (N * val * N)) (classes : list N).

Definition hashC (ty v : N) : N := v.
Definition inDC (ty v : N) : bool := true.
Definition idC (ty q : N) : N := q.
Notation stepC := (step hashC inDC idC idC true).

Definition vac_one (t : N) (s : state) (k : N * N) : option state :=
  do s1 <- stepC s t (AVacuumEntry (fst k) (snd k));
  match pcs s1 t with
  | VacTemp => stepC s1 t (AVacRelease 0%nat)
  | _ => Some s1
  end.
Fixpoint vac_all (t : N) (s : state) (keys : list (N * N)) : option state :=
  match keys with
  | [] => Some s
  | k :: r => do s1 <- vac_one t s k; vac_all t s1 r
  end.

Definition run_pstep (keys : list (N * N)) (s : state) (t : N) (p : pstep) : option (state * bool) :=
  match p with
  | PProbe ty v u =>
      do s1 <- stepC s t (AProbeRead ty (if u then Unsized v else Sized v));
      Some (s1, match pcs s1 t with Miss _ _ _ => false | _ => true end)
  | PLocked => do s1 <- stepC s t ALockedRecheckInsert; Some (s1, true)
  | PClone i => do s1 <- stepC s t (AClone i); Some (s1, true)
  | PDrop i => do s1 <- stepC s t (ADrop i); Some (s1, true)
  | PGet ty v =>
      let r := gfh_result s ty (hashC ty v) in
      do s1 <- stepC s t (AGetFromHash ty (hashC ty v));
      Some (s1, match r with Some _ => true | None => false end)
  | PVacuum => do s1 <- vac_all t s keys; Some (s1, true)
  end.

Definition run_op (keys : list (N * N)) (s : state) (o : op) : option (state * bool) :=
  match o with
  | OIntern ty v u =>
      do (s1, hit) <- run_pstep keys s 0 (PProbe ty v u);
      if hit then Some (s1, true) else run_pstep keys s1 0 PLocked
  | OClone i => run_pstep keys s 0 (PClone i)
  | ODrop i => run_pstep keys s 0 (PDrop i)
  | OGet ty v => run_pstep keys s 0 (PGet ty v)
  | OVacuum => run_pstep keys s 0 PVacuum
  end.

Fixpoint first_pos (a : N) (l : list handle) (i : N) : N :=
  match l with
  | [] => i
  | e :: r => if h_alloc e =? a then i else first_pos a r (i + 1)
  end.
Definition classes_of (l : list handle) : list N := map (fun e => first_pos (h_alloc e) l 0) l.
Definition contents_of (s : state) : list (N * N) :=
  map (fun e => match heap s (h_alloc e) with Some al => (a_ty al, a_val al) | None => (0, 0) end) (hs s).

Definition pair_eqb (a b : N * N) : bool := (fst a =? fst b) && (snd a =? snd b).

Fixpoint run_seq (keys : list (N * N)) (s : state) (ops : list op) (observed : list obs) : bool :=
  match ops, observed with
  | [], [] => true
  | o :: ops', (found, cls, cont) :: obs' =>
      match run_op keys s o with
      | Some (s1, f) =>
          Bool.eqb f found && list_eqb N.eqb (classes_of (hs s1)) cls &&
          list_eqb pair_eqb (contents_of s1) cont && run_seq keys s1 ops' obs'
      | None => false
      end
  | _, _ => false
  end.

Fixpoint run_par (keys : list (N * N)) (s : state) (steps : list (N * pstep)) (observed : list obs) : bool :=
  match steps, observed with
  | [], [] => true
  | (t, p) :: steps', (found, cls, cont) :: obs' =>
      match run_pstep keys s t p with
      | Some (s1, f) =>
          Bool.eqb f found && list_eqb N.eqb (classes_of (hs s1)) cls &&
          list_eqb pair_eqb (contents_of s1) cont && run_par keys s1 steps' obs'
      | None => false
      end
  | _, _ => false
  end.

(** pointer classes predicted for the decoded structure *)
Fixpoint first_occ (H : N -> val -> N) (id h : N) (l : list (N * val)) (i : N) : N :=
  match l with
  | [] => i
  | (id', c') :: r => if (id' =? id) && (H id' c' =? h) then i else first_occ H id h r (i + 1)
  end.
Definition share_classes (H : N -> val -> N) (t : ty) (v : val) : list N :=
  let l := occ t v in map (fun '(id, c) => first_occ H id (H id c) l 0) l.

Definition check (c : case) : bool :=
  match c with
  | Seq keys ops observed => run_seq keys init ops observed
  | Par keys steps observed => run_par keys init steps observed
  | Share t v bytes tbl classes =>
      let H := table_hash tbl in
      match encode H t v [] with
      | Some (bs, _) =>
          list_eqb N.eqb bs bytes &&
          match decode H t bytes [] with
          | Some (d, rest, _) =>
              val_eqb d (canon t v) && match rest with [] => true | _ => false end &&
              list_eqb N.eqb (share_classes H t d) classes
          | None => false
          end
      | None => false
      end
  end.

Fixpoint failures_from (i : N) (cs : list case) : list N :=
  match cs with
  | [] => []
  | c :: r => if check c then failures_from (i + 1) r else i :: failures_from (i + 1) r
  end.
Definition failures (cs : list case) : list N := failures_from 0 cs.

(** a hand-made case, to keep the checker itself honest *)
Example check_seq_example :
  check (Seq [(1, 0); (1, 1); (2, 0)]
             [OIntern 1 0 false; OIntern 1 0 false; OIntern 2 0 true; OGet 1 1; ODrop 0%nat; OVacuum; OGet 2 0]
             [(true, [0], [(1, 0)]); (true, [0; 0], [(1, 0); (1, 0)]);
              (true, [0; 1; 1], [(2, 0); (1, 0); (1, 0)]); (false, [0; 1; 1], [(2, 0); (1, 0); (1, 0)]);
              (true, [0; 0], [(1, 0); (1, 0)]); (true, [0; 0], [(1, 0); (1, 0)]);
              (false, [0; 0], [(1, 0); (1, 0)])]) = true.
Proof. vm_compute. reflexivity. Qed.

(** thread 1 is parked after a probe miss; thread 2 interns the value; thread 1's re-check
    finds it.  Then both drop; 1 misses again (dead weak), 2 replaces the dead weak, 1 re-checks. *)
Example check_par_example :
  check (Par [(1, 3)]
             [(1, PProbe 1 3 false); (2, PProbe 1 3 false); (2, PLocked); (1, PLocked);
              (2, PDrop 1%nat); (1, PDrop 0%nat); (3, PVacuum);
              (1, PProbe 1 3 false); (2, PProbe 1 3 false); (2, PLocked); (1, PLocked)]
             [(false, [], []); (false, [], []); (true, [0], [(1, 3)]); (true, [0; 0], [(1, 3); (1, 3)]);
              (true, [0], [(1, 3)]); (true, [], []); (true, [], []);
              (false, [], []); (false, [], []); (true, [0], [(1, 3)]); (true, [0; 0], [(1, 3); (1, 3)])]) = true.
Proof. vm_compute. reflexivity. Qed.
