(** C15 — the interner's invariant and the canonicity theorems, for every state any
    schedule can reach (induction over arbitrary step lists). *)
From QV Require Import Common.Prelude Intern.Model.
Open Scope N_scope.

(** number of handles that point to allocation [a] *)
Fixpoint refs (a : N) (l : list handle) : N :=
  match l with
  | [] => 0
  | e :: r => (if h_alloc e =? a then 1 else 0) + refs a r
  end.

Lemma refs_remove a : forall l i e, nth_error l i = Some e ->
  refs a l = (if h_alloc e =? a then 1 else 0) + refs a (remove_nth i l).
Proof.
  induction l as [|x r IH]; intros [|i] e Hn; cbn [nth_error remove_nth refs] in *; try discriminate.
  - injection Hn as ->. reflexivity.
  - rewrite (IH i e Hn). lia.
Qed.

Lemma in_remove_nth {A} : forall (l : list A) i x, In x (remove_nth i l) -> In x l.
Proof.
  induction l as [|y r IH]; intros [|i] x Hx; cbn [remove_nth] in *; auto.
  - right; exact Hx.
  - destruct Hx as [->|Hx]; [left; reflexivity|right; eapply IH; exact Hx].
Qed.

Lemma refs_in e : forall l, In e l -> 0 < refs (h_alloc e) l.
Proof.
  induction l as [|y r IH]; intros Hin; [destruct Hin|].
  cbn [refs]. destruct Hin as [->|Hin].
  - rewrite N.eqb_refl. lia.
  - specialize (IH Hin). destruct (h_alloc y =? h_alloc e); lia.
Qed.

Lemma nth_error_in {A} : forall (l : list A) i x, nth_error l i = Some x -> In x l.
Proof. intros l i x Hn. eapply nth_error_In; exact Hn. Qed.

(** * [bump] changes counts only *)
Lemma bump_some f a hp x al : hp x = Some al ->
  bump f a hp x = Some (Alloc (a_ty al) (a_val al) (if x =? a then f (a_cnt al) else a_cnt al)).
Proof. intros Hx. unfold bump. rewrite Hx. destruct (x =? a); [reflexivity|destruct al; reflexivity]. Qed.
Lemma bump_none f a hp x : hp x = None -> bump f a hp x = None.
Proof. intros Hx. unfold bump. rewrite Hx. destruct (x =? a); reflexivity. Qed.
Lemma bump_inv f a hp x al' : bump f a hp x = Some al' ->
  exists al, hp x = Some al /\ a_ty al' = a_ty al /\ a_val al' = a_val al /\
             a_cnt al' = if x =? a then f (a_cnt al) else a_cnt al.
Proof.
  intros Hb. destruct (hp x) as [al|] eqn:Hx.
  - rewrite (bump_some f a hp x al Hx) in Hb. injection Hb as <-. exists al. cbn. auto.
  - rewrite (bump_none f a hp x Hx) in Hb. discriminate.
Qed.
Lemma cnt_bump f a hp x :
  cnt_of (bump f a hp) x = if x =? a then match hp x with Some al => f (a_cnt al) | None => 0 end else cnt_of hp x.
Proof.
  unfold cnt_of. destruct (hp x) as [al|] eqn:Hx.
  - rewrite (bump_some f a hp x al Hx). cbn. reflexivity.
  - rewrite (bump_none f a hp x Hx). destruct (x =? a); reflexivity.
Qed.

Lemma upd1_eq {A} (f : N -> A) i v : upd1 f i v i = v.
Proof. unfold upd1. rewrite N.eqb_refl. reflexivity. Qed.
Lemma upd1_ne {A} (f : N -> A) i v j : j <> i -> upd1 f i v j = f j.
Proof. intros Hn. unfold upd1. destruct (N.eqb_spec j i); [contradiction|reflexivity]. Qed.
Lemma upd2_eq {A} (f : N -> N -> A) i j v : upd2 f i j v i j = v.
Proof. unfold upd2. rewrite !N.eqb_refl. reflexivity. Qed.
Lemma upd2_ne {A} (f : N -> N -> A) i j v i' j' : (i', j') <> (i, j) -> upd2 f i j v i' j' = f i' j'.
Proof.
  intros Hn. unfold upd2. destruct (N.eqb_spec i' i); [|reflexivity].
  destruct (N.eqb_spec j' j); [|reflexivity]. subst. contradiction.
Qed.

Section Proofs.
Variable hash : N -> N -> N.
Variable inD : N -> N -> bool.
Variable borrow conv : N -> N -> N.
(** H-hash: within one type, equal hashes mean equal values, on the domain in play *)
Hypothesis H_hash : forall ty v1 v2, inD ty v1 = true -> inD ty v2 = true ->
  hash ty v1 = hash ty v2 -> v1 = v2.
(** [Arc::<T>::from(q)] holds what [q.borrow()] shows (true of Box<str>, String, Vec<T>, Box<[T]>, ...) *)
Hypothesis H_conv : forall ty q, inD ty (borrow ty q) = true -> conv ty q = borrow ty q.

Notation kv := (key_val borrow).
Notation sv := (store_val conv).
Notation stepC := (step hash inD borrow conv true).
Notation runC := (run hash inD borrow conv true).
Notation reachableC := (reachable hash inD borrow conv true).

Record Inv (s : state) : Prop := {
  inv_cnt : forall a, cnt_of (heap s) a = refs a (hs s);
  inv_hs : forall e, In e (hs s) ->
    exists al, heap s (h_alloc e) = Some al /\ a_ty al = h_ty e /\ a_val al = h_val e;
  inv_live : forall a al, heap s a = Some al -> 0 < a_cnt al ->
    table s (a_ty al) (hash (a_ty al) (a_val al)) = Some a;
  inv_tab : forall ty h a, table s ty h = Some a ->
    exists al, heap s a = Some al /\ a_ty al = ty /\ hash ty (a_val al) = h;
  inv_dom : forall a al, heap s a = Some al -> inD (a_ty al) (a_val al) = true;
  inv_next : forall a, next s <= a -> heap s a = None;
  inv_pc : forall t ty a h, pcs s t = Miss ty a h -> h = hash ty (kv ty a) /\ inD ty (kv ty a) = true
}.

Lemma Inv_init : Inv init.
Proof.
  constructor; cbn; intros; try reflexivity; try discriminate; try contradiction.
Qed.

Definition not_miss (p : pc) : Prop := match p with Miss _ _ _ => False | _ => True end.

Lemma pc_upd_ok s t p :
  (forall t ty a h, pcs s t = Miss ty a h -> h = hash ty (kv ty a) /\ inD ty (kv ty a) = true) ->
  (forall ty a h, p = Miss ty a h -> h = hash ty (kv ty a) /\ inD ty (kv ty a) = true) ->
  forall t' ty a h, upd1 (pcs s) t p t' = Miss ty a h -> h = hash ty (kv ty a) /\ inD ty (kv ty a) = true.
Proof.
  intros Hold Hp t' ty a h. unfold upd1. destruct (t' =? t); [apply Hp|apply Hold].
Qed.

Lemma not_miss_ok p : not_miss p ->
  forall ty a h, p = Miss ty a h -> h = hash ty (kv ty a) /\ inD ty (kv ty a) = true.
Proof. intros Hp ty a h ->. destruct Hp. Qed.

(** ** the four state transformers preserve the invariant *)
Lemma Inv_acquire s t tmp a ty v p al :
  Inv s -> heap s a = Some al -> a_ty al = ty -> a_val al = v -> 0 < a_cnt al -> not_miss p ->
  Inv (acquire s t tmp a ty v p).
Proof.
  intros HI Ha Hty Hv Hc Hp. constructor; cbn [acquire heap hs table next pcs].
  - intros x. cbn [refs h_alloc]. rewrite cnt_bump. pose proof (inv_cnt s HI x) as Hx.
    rewrite (N.eqb_sym a x). destruct (N.eqb_spec x a) as [->|Hne].
    + rewrite Ha. unfold cnt_of in Hx. rewrite Ha in Hx. lia.
    + lia.
  - intros e [<-|Hin]; cbn [h_alloc h_ty h_val].
    + rewrite (bump_some _ _ _ _ _ Ha). eexists. split; [reflexivity|]. cbn. auto.
    + destruct (inv_hs s HI e Hin) as (al' & H1 & H2 & H3).
      rewrite (bump_some _ _ _ _ _ H1). eexists. split; [reflexivity|]. cbn. auto.
  - intros x al' Hb Hpos. destruct (bump_inv _ _ _ _ _ Hb) as (al0 & H0 & E1 & E2 & E3).
    rewrite E1, E2. destruct (N.eqb_spec x a) as [->|Hne].
    + rewrite Ha in H0. injection H0 as <-. apply (inv_live s HI); assumption.
    + apply (inv_live s HI); [assumption|lia].
  - intros ty' h' a' Ht. destruct (inv_tab s HI ty' h' a' Ht) as (al' & H1 & H2 & H3).
    rewrite (bump_some _ _ _ _ _ H1). eexists. split; [reflexivity|]. cbn. auto.
  - intros x al' Hb. destruct (bump_inv _ _ _ _ _ Hb) as (al0 & H0 & E1 & E2 & _).
    rewrite E1, E2. apply (inv_dom s HI x); assumption.
  - intros x Hx. apply bump_none. apply (inv_next s HI); assumption.
  - apply pc_upd_ok; [apply (inv_pc s HI)|apply not_miss_ok; assumption].
Qed.

Lemma Inv_release s t i e p :
  Inv s -> nth_error (hs s) i = Some e -> not_miss p -> Inv (release s t i e p).
Proof.
  intros HI Hn Hp. pose proof (nth_error_in _ _ _ Hn) as Hin.
  destruct (inv_hs s HI e Hin) as (al & Ha & Hty & Hv).
  pose proof (inv_cnt s HI (h_alloc e)) as Hce. pose proof (refs_in e _ Hin) as Hpos.
  unfold cnt_of in Hce. rewrite Ha in Hce.
  constructor; cbn [release heap hs table next pcs].
  - intros x. rewrite cnt_bump. pose proof (inv_cnt s HI x) as Hx.
    rewrite (refs_remove x _ _ _ Hn) in Hx. rewrite (N.eqb_sym (h_alloc e) x) in Hx.
    destruct (N.eqb_spec x (h_alloc e)) as [E|Hne].
    + rewrite E in *. rewrite Ha. unfold cnt_of in Hx. rewrite Ha in Hx. lia.
    + lia.
  - intros e' Hin'. apply in_remove_nth in Hin'.
    destruct (inv_hs s HI e' Hin') as (al' & H1 & H2 & H3).
    rewrite (bump_some _ _ _ _ _ H1). eexists. split; [reflexivity|]. cbn. auto.
  - intros x al' Hb Hpos'. destruct (bump_inv _ _ _ _ _ Hb) as (al0 & H0 & E1 & E2 & E3).
    rewrite E1, E2. apply (inv_live s HI); [assumption|].
    destruct (x =? h_alloc e); lia.
  - intros ty' h' a' Ht. destruct (inv_tab s HI ty' h' a' Ht) as (al' & H1 & H2 & H3).
    rewrite (bump_some _ _ _ _ _ H1). eexists. split; [reflexivity|]. cbn. auto.
  - intros x al' Hb. destruct (bump_inv _ _ _ _ _ Hb) as (al0 & H0 & E1 & E2 & _).
    rewrite E1, E2. apply (inv_dom s HI x); assumption.
  - intros x Hx. apply bump_none. apply (inv_next s HI); assumption.
  - apply pc_upd_ok; [apply (inv_pc s HI)|apply not_miss_ok; assumption].
Qed.

Lemma Inv_setpc s t p :
  Inv s -> (forall ty a h, p = Miss ty a h -> h = hash ty (kv ty a) /\ inD ty (kv ty a) = true) ->
  Inv (St (heap s) (next s) (table s) (hs s) (upd1 (pcs s) t p)).
Proof.
  intros HI Hp. constructor; cbn [heap hs table next pcs]; try apply HI.
  apply pc_upd_ok; [apply (inv_pc s HI)|exact Hp].
Qed.

Lemma lookup_live_some s ty h a : lookup_live s ty h = Some a ->
  table s ty h = Some a /\ 0 < cnt_of (heap s) a.
Proof.
  unfold lookup_live. destruct (table s ty h) as [a'|]; [|discriminate].
  destruct (N.ltb_spec 0 (cnt_of (heap s) a')); [|discriminate]. intros [= <-]. auto.
Qed.
Lemma lookup_live_none s ty h : lookup_live s ty h = None ->
  table s ty h = None \/ exists a, table s ty h = Some a /\ cnt_of (heap s) a = 0.
Proof.
  unfold lookup_live. destruct (table s ty h) as [a'|]; [|auto].
  destruct (N.ltb_spec 0 (cnt_of (heap s) a')); [discriminate|]. intros _. right. exists a'. split; [reflexivity|lia].
Qed.

(** no live allocation is filed under a key whose weak is absent or dead *)
Lemma dead_key_no_live s ty h : Inv s -> lookup_live s ty h = None ->
  forall a al, heap s a = Some al -> 0 < a_cnt al -> (a_ty al, hash (a_ty al) (a_val al)) <> (ty, h).
Proof.
  intros HI Hl a al Ha Hpos [= E1 E2]. pose proof (inv_live s HI a al Ha Hpos) as Ht.
  rewrite E2, E1 in Ht. destruct (lookup_live_none _ _ _ Hl) as [Hn|(a' & Ht' & Hc)].
  - rewrite Hn in Ht. discriminate.
  - rewrite Ht' in Ht. injection Ht as ->. unfold cnt_of in Hc. rewrite Ha in Hc. lia.
Qed.

Lemma Inv_allocate s t ty a h :
  Inv s -> lookup_live s ty h = None -> h = hash ty (kv ty a) -> inD ty (kv ty a) = true ->
  Inv (allocate borrow conv s t ty a h).
Proof.
  intros HI Hl Hh Hd.
  assert (Hsv : sv ty a = kv ty a). { destruct a as [v|q]; cbn; [reflexivity|apply H_conv; exact Hd]. }
  assert (Hfresh : heap s (next s) = None) by (apply (inv_next s HI); lia).
  constructor; cbn [allocate heap hs table next pcs].
  - intros x. cbn [refs h_alloc]. pose proof (inv_cnt s HI x) as Hx. unfold cnt_of, upd1.
    rewrite (N.eqb_sym (next s) x). destruct (N.eqb_spec x (next s)) as [->|Hne].
    + cbn. unfold cnt_of in Hx. rewrite Hfresh in Hx. lia.
    + unfold cnt_of in Hx. lia.
  - intros e [<-|Hin]; cbn [h_alloc h_ty h_val].
    + rewrite upd1_eq. eexists. split; [reflexivity|]. cbn. auto.
    + destruct (inv_hs s HI e Hin) as (al' & H1 & H2 & H3).
      rewrite upd1_ne; [eauto|]. intros E. rewrite E, Hfresh in H1. discriminate.
  - intros x al' Hx Hpos. unfold upd1 in Hx. destruct (N.eqb_spec x (next s)) as [->|Hne].
    + injection Hx as <-. cbn [a_ty a_val]. rewrite Hsv, <- Hh. apply upd2_eq.
    + rewrite upd2_ne; [apply (inv_live s HI); assumption|].
      eapply dead_key_no_live; eassumption.
  - intros ty' h' a' Ht. unfold upd2 in Ht.
    destruct (N.eqb_spec ty' ty) as [->|Hne]; cbn [andb] in Ht.
    + destruct (N.eqb_spec h' h) as [->|Hne'].
      * injection Ht as <-. rewrite upd1_eq. eexists. split; [reflexivity|]. cbn. rewrite Hsv. auto.
      * destruct (inv_tab s HI ty h' a' Ht) as (al' & H1 & H2 & H3).
        rewrite upd1_ne; [eauto|]. intros E. rewrite E, Hfresh in H1. discriminate.
    + destruct (inv_tab s HI ty' h' a' Ht) as (al' & H1 & H2 & H3).
      rewrite upd1_ne; [eauto|]. intros E. rewrite E, Hfresh in H1. discriminate.
  - intros x al' Hx. unfold upd1 in Hx. destruct (N.eqb_spec x (next s)) as [->|Hne].
    + injection Hx as <-. cbn [a_ty a_val]. rewrite Hsv. exact Hd.
    + apply (inv_dom s HI x); assumption.
  - intros x Hx. rewrite upd1_ne by lia. apply (inv_next s HI). lia.
  - apply pc_upd_ok; [apply (inv_pc s HI)|apply not_miss_ok; exact I].
Qed.

Lemma Inv_unset s ty h a :
  Inv s -> table s ty h = Some a -> cnt_of (heap s) a = 0 ->
  Inv (St (heap s) (next s) (upd2 (table s) ty h None) (hs s) (pcs s)).
Proof.
  intros HI Ht Hc. constructor; cbn [heap hs table next pcs]; try apply HI.
  - intros x al Hx Hpos. rewrite upd2_ne; [apply (inv_live s HI); assumption|].
    eapply dead_key_no_live; try eassumption. unfold lookup_live. rewrite Ht, Hc. reflexivity.
  - intros ty' h' a' Ht'. unfold upd2 in Ht'.
    destruct ((ty' =? ty) && (h' =? h)); [discriminate|]. apply (inv_tab s HI); assumption.
Qed.

(** the allocation a live weak points to *)
Lemma live_entry s ty h a : Inv s -> lookup_live s ty h = Some a ->
  exists al, heap s a = Some al /\ a_ty al = ty /\ hash ty (a_val al) = h /\ 0 < a_cnt al.
Proof.
  intros HI Hl. destruct (lookup_live_some _ _ _ _ Hl) as [Ht Hc].
  destruct (inv_tab s HI ty h a Ht) as (al & H1 & H2 & H3).
  exists al. unfold cnt_of in Hc. rewrite H1 in Hc. auto.
Qed.

Lemma handle_alive s e : Inv s -> In e (hs s) ->
  exists al, heap s (h_alloc e) = Some al /\ a_ty al = h_ty e /\ a_val al = h_val e /\ 0 < a_cnt al.
Proof.
  intros HI Hin. destruct (inv_hs s HI e Hin) as (al & H1 & H2 & H3).
  exists al. pose proof (inv_cnt s HI (h_alloc e)) as Hc. pose proof (refs_in e _ Hin).
  unfold cnt_of in Hc. rewrite H1 in Hc. repeat split; auto. lia.
Qed.

Theorem step_inv s t act s' : Inv s -> stepC s t act = Some s' -> Inv s'.
Proof.
  intros HI Hs. unfold step in Hs.
  destruct act as [ty a| |i|i|ty h|ty h|i]; destruct (pcs s t) as [|ty0 a0 h0|] eqn:Hpc; try discriminate.
  - (* probe *)
    destruct (inD ty (kv ty a)) eqn:Hd; [|discriminate].
    destruct (lookup_live s ty (hash ty (kv ty a))) as [id|] eqn:Hl; injection Hs as <-.
    + destruct (live_entry _ _ _ _ HI Hl) as (al & H1 & H2 & H3 & H4).
      eapply Inv_acquire; try eassumption; [|exact I].
      apply (H_hash ty); [|exact Hd|exact H3]. rewrite <- H2. apply (inv_dom s HI id); exact H1.
    + apply Inv_setpc; [exact HI|]. intros ty' a' h' [= -> -> <-]. auto.
  - (* locked re-check / insert *)
    destruct (inv_pc s HI t ty0 a0 h0 Hpc) as [Hh Hd].
    destruct (lookup_live s ty0 h0) as [id|] eqn:Hl; injection Hs as <-.
    + destruct (live_entry _ _ _ _ HI Hl) as (al & H1 & H2 & H3 & H4).
      eapply Inv_acquire; try eassumption; [|exact I].
      apply (H_hash ty0); [|exact Hd|rewrite H3; exact Hh]. rewrite <- H2. apply (inv_dom s HI id); exact H1.
    + apply Inv_allocate; assumption.
  - (* clone *)
    destruct (nth_error (hs s) i) as [e|] eqn:Hn; [|discriminate].
    destruct ((h_owner e =? t) && negb (h_temp e)); [|discriminate]. injection Hs as <-.
    destruct (handle_alive s e HI (nth_error_in _ _ _ Hn)) as (al & H1 & H2 & H3 & H4).
    eapply Inv_acquire; try eassumption. exact I.
  - (* drop *)
    destruct (nth_error (hs s) i) as [e|] eqn:Hn; [|discriminate].
    destruct ((h_owner e =? t) && negb (h_temp e)); [|discriminate]. injection Hs as <-.
    apply Inv_release; [exact HI|exact Hn|exact I].
  - (* get_from_hash *)
    destruct (lookup_live s ty h) as [id|] eqn:Hl; injection Hs as <-; [|exact HI].
    destruct (live_entry _ _ _ _ HI Hl) as (al & H1 & H2 & H3 & H4).
    eapply Inv_acquire; try eassumption; [|exact I]. unfold val_of. rewrite H1. reflexivity.
  - (* vacuum, one entry *)
    destruct (table s ty h) as [a|] eqn:Ht; [|injection Hs as <-; exact HI].
    destruct (N.ltb_spec 0 (cnt_of (heap s) a)) as [Hc|Hc]; injection Hs as <-.
    + destruct (inv_tab s HI ty h a Ht) as (al & H1 & H2 & H3).
      unfold cnt_of in Hc. rewrite H1 in Hc.
      eapply Inv_acquire; try eassumption; [|exact I]. unfold val_of. rewrite H1. reflexivity.
    + eapply Inv_unset; [exact HI|exact Ht|lia].
  - (* release of the temporary *)
    destruct (nth_error (hs s) i) as [e|] eqn:Hn; [|discriminate].
    destruct ((h_owner e =? t) && h_temp e); [|discriminate]. injection Hs as <-.
    apply Inv_release; [exact HI|exact Hn|exact I].
Qed.

Lemma run_inv : forall sched s s', Inv s -> runC s sched = Some s' -> Inv s'.
Proof.
  induction sched as [|[t a] r IH]; intros s s' HI Hr; cbn [run] in Hr.
  - injection Hr as <-. exact HI.
  - destruct (stepC s t a) as [s1|] eqn:Hs; [|discriminate].
    eapply IH; [eapply step_inv; eassumption|exact Hr].
Qed.

Theorem reachable_inv s : reachableC s -> Inv s.
Proof. intros [sched Hr]. eapply run_inv; [apply Inv_init|exact Hr]. Qed.

Lemma reachable_step s t act s' : reachableC s -> stepC s t act = Some s' -> reachableC s'.
Proof.
  intros [sched Hr] Hs. exists (sched ++ [(t, act)]).
  revert Hr. generalize init. induction sched as [|[t0 a0] r IH]; intros s0 Hr; cbn [run app] in *.
  - injection Hr as ->. rewrite Hs. reflexivity.
  - destruct (stepC s0 t0 a0) as [s1|]; [|discriminate]. apply IH. exact Hr.
Qed.

(** * the theorems *)

(** every handle's table entry is its allocation *)
Lemma handle_entry s e : Inv s -> In e (hs s) ->
  table s (h_ty e) (hash (h_ty e) (h_val e)) = Some (h_alloc e).
Proof.
  intros HI Hin. destruct (handle_alive s e HI Hin) as (al & H1 & H2 & H3 & H4).
  rewrite <- H2, <- H3. apply (inv_live s HI); assumption.
Qed.

(** C15_canonical: handles held by any threads, asked for equal values of one type,
    point to one allocation; the allocation holds the value the handle was asked for,
    has the handle's type, and its count is the number of handles pointing to it. *)
Theorem canonical s : reachableC s ->
  (forall e1 e2, In e1 (hs s) -> In e2 (hs s) -> h_ty e1 = h_ty e2 -> h_val e1 = h_val e2 ->
     h_alloc e1 = h_alloc e2) /\
  (forall e, In e (hs s) -> exists al, heap s (h_alloc e) = Some al /\
     a_val al = h_val e /\ a_ty al = h_ty e /\ 0 < a_cnt al /\ a_cnt al = refs (h_alloc e) (hs s)).
Proof.
  intros HR. pose proof (reachable_inv s HR) as HI. split.
  - intros e1 e2 H1 H2 Et Ev. pose proof (handle_entry s e1 HI H1) as T1.
    pose proof (handle_entry s e2 HI H2) as T2. rewrite Et, Ev, T2 in T1. injection T1 as ->. reflexivity.
  - intros e Hin. destruct (handle_alive s e HI Hin) as (al & H1 & H2 & H3 & H4).
    exists al. pose proof (inv_cnt s HI (h_alloc e)) as Hc. unfold cnt_of in Hc. rewrite H1 in Hc. auto.
Qed.

(** the converse direction: one allocation is never shared by different values or types *)
Theorem types_disjoint s : reachableC s ->
  forall e1 e2, In e1 (hs s) -> In e2 (hs s) -> h_alloc e1 = h_alloc e2 ->
    h_ty e1 = h_ty e2 /\ h_val e1 = h_val e2.
Proof.
  intros HR e1 e2 H1 H2 Ea. pose proof (reachable_inv s HR) as HI.
  destruct (inv_hs s HI e1 H1) as (al1 & A1 & B1 & C1).
  destruct (inv_hs s HI e2 H2) as (al2 & A2 & B2 & C2).
  rewrite Ea, A2 in A1. injection A1 as <-. split; congruence.
Qed.

(** C15_table_sound *)
Theorem table_sound s : reachableC s ->
  forall ty h a, table s ty h = Some a ->
    exists al, heap s a = Some al /\ a_ty al = ty /\ hash ty (a_val al) = h /\
      (forall v, inD ty v = true -> hash ty v = h -> a_val al = v).
Proof.
  intros HR ty h a Ht. pose proof (reachable_inv s HR) as HI.
  destruct (inv_tab s HI ty h a Ht) as (al & H1 & H2 & H3). exists al. repeat split; auto.
  intros v Hd Hv. apply (H_hash ty); [|exact Hd|congruence]. rewrite <- H2. apply (inv_dom s HI a); exact H1.
Qed.

(** C15_vacuum_safe: a vacuum step on any entry, by any thread, in any reachable state:
    every handle's table entry is still its allocation afterwards; an entry that the
    step removed pointed to an allocation without any handle. *)
Theorem vacuum_safe s t ty h s' : reachableC s -> stepC s t (AVacuumEntry ty h) = Some s' ->
  (forall e, In e (hs s) -> table s' (h_ty e) (hash (h_ty e) (h_val e)) = Some (h_alloc e)) /\
  (forall a, table s ty h = Some a -> table s' ty h = None ->
     cnt_of (heap s) a = 0 /\ forall e, In e (hs s) -> h_alloc e <> a) /\
  (forall ty' h', (ty', h') <> (ty, h) -> table s' ty' h' = table s ty' h').
Proof.
  intros HR Hs. pose proof (reachable_inv s HR) as HI.
  pose proof (step_inv _ _ _ _ HI Hs) as HI'. split; [|split].
  - intros e Hin. apply handle_entry; [exact HI'|].
    unfold step in Hs. destruct (pcs s t); try discriminate.
    destruct (table s ty h) as [a|]; [|injection Hs as <-; exact Hin].
    destruct (0 <? cnt_of (heap s) a); injection Hs as <-; cbn; auto.
  - intros a Ht Ht'. unfold step in Hs. destruct (pcs s t); try discriminate. rewrite Ht in Hs.
    destruct (N.ltb_spec 0 (cnt_of (heap s) a)) as [Hc|Hc]; injection Hs as <-.
    + cbn in Ht'. rewrite Ht in Ht'. discriminate.
    + split; [lia|]. intros e Hin Ea. pose proof (refs_in e _ Hin) as Hp.
      rewrite Ea, <- (inv_cnt s HI a) in Hp. lia.
  - intros ty' h' Hne. unfold step in Hs. destruct (pcs s t); try discriminate.
    destruct (table s ty h) as [a|]; [|injection Hs as <-; reflexivity].
    destruct (0 <? cnt_of (heap s) a); injection Hs as <-; cbn [acquire table]; [reflexivity|].
    apply upd2_ne. exact Hne.
Qed.

(** C15_get_from_hash: the call is always enabled for an idle thread; it returns the
    allocation every handle for that (type, hash) points to, alive and of that type and
    hash, as a new handle; it returns None only when no handle for that key exists. *)
Theorem get_from_hash_spec s t ty h : reachableC s -> pcs s t = Idle ->
  match gfh_result s ty h with
  | Some a =>
      stepC s t (AGetFromHash ty h) = Some (acquire s t false a ty (val_of (heap s) a) Idle) /\
      (exists al, heap s a = Some al /\ a_ty al = ty /\ hash ty (a_val al) = h /\ 0 < a_cnt al) /\
      (forall e, In e (hs s) -> h_ty e = ty -> hash ty (h_val e) = h -> h_alloc e = a)
  | None =>
      stepC s t (AGetFromHash ty h) = Some s /\
      (forall e, In e (hs s) -> ~ (h_ty e = ty /\ hash ty (h_val e) = h))
  end.
Proof.
  intros HR Hpc. pose proof (reachable_inv s HR) as HI. unfold gfh_result.
  destruct (lookup_live s ty h) as [a|] eqn:Hl.
  - split; [unfold step; rewrite Hpc, Hl; reflexivity|]. split.
    + apply live_entry; assumption.
    + intros e Hin Et Eh. pose proof (handle_entry s e HI Hin) as Te. rewrite Et, Eh in Te.
      destruct (lookup_live_some _ _ _ _ Hl) as [Ht _]. congruence.
  - split; [unfold step; rewrite Hpc, Hl; reflexivity|].
    intros e Hin [Et Eh]. pose proof (handle_entry s e HI Hin) as Te. rewrite Et, Eh in Te.
    destruct (handle_alive s e HI Hin) as (al & H1 & _ & _ & H4).
    destruct (lookup_live_none _ _ _ Hl) as [Hn|(a' & Ht' & Hc)]; [congruence|].
    rewrite Ht' in Te. injection Te as ->. unfold cnt_of in Hc. rewrite H1 in Hc. lia.
Qed.

(** what an intern call hands out: the step that completes it (a probe hit, or the
    locked step after any number of steps of other threads) pushes a handle for exactly
    the requested (type, value) *)
Theorem intern_returns s t s' act : reachableC s -> stepC s t act = Some s' ->
  match act, pcs s t with
  | AProbeRead ty a, Idle =>
      (exists id, hs s' = Handle t false id ty (kv ty a) :: hs s /\ pcs s' t = Idle) \/
      (hs s' = hs s /\ pcs s' t = Miss ty a (hash ty (kv ty a)))
  | ALockedRecheckInsert, Miss ty a h =>
      exists id, hs s' = Handle t false id ty (kv ty a) :: hs s /\ pcs s' t = Idle
  | _, _ => True
  end.
Proof.
  intros HR Hs. unfold step in Hs. destruct act; destruct (pcs s t) eqn:Hpc; try exact I; try discriminate.
  - destruct (inD ty (kv ty a)); [|discriminate].
    destruct (lookup_live s ty (hash ty (kv ty a))) as [id|]; injection Hs as <-.
    + left. exists id. cbn. rewrite upd1_eq. auto.
    + right. cbn. rewrite upd1_eq. auto.
  - destruct (lookup_live s ty h) as [id|]; injection Hs as <-.
    + exists id. cbn. rewrite upd1_eq. auto.
    + exists (next s). cbn. rewrite upd1_eq. auto.
Qed.

(** an allocation whose count reached 0 stays dead, whatever is scheduled afterwards *)
Lemma step_dead s t act s' a al : Inv s -> stepC s t act = Some s' ->
  heap s a = Some al -> a_cnt al = 0 -> heap s' a = Some al.
Proof.
  intros HI Hs Ha Hc.
  assert (Hacq : forall t tmp x ty v p, 0 < cnt_of (heap s) x -> heap (acquire s t tmp x ty v p) a = Some al).
  { intros t0 tmp x ty v p Hx. cbn. rewrite (bump_some _ _ _ _ _ Ha).
    destruct (N.eqb_spec a x) as [->|_]; [unfold cnt_of in Hx; rewrite Ha in Hx; lia|destruct al; reflexivity]. }
  assert (Hrel : forall t i e p, nth_error (hs s) i = Some e -> heap (release s t i e p) a = Some al).
  { intros t0 i e p Hn. cbn. rewrite (bump_some _ _ _ _ _ Ha).
    destruct (N.eqb_spec a (h_alloc e)) as [E|_]; [|destruct al; reflexivity].
    destruct (handle_alive s e HI (nth_error_in _ _ _ Hn)) as (al' & H1 & _ & _ & H4).
    rewrite <- E, Ha in H1. injection H1 as <-. lia. }
  unfold step in Hs.
  destruct act as [ty x| |i|i|ty h|ty h|i]; destruct (pcs s t) as [|ty0 a0 h0|] eqn:Hpc; try discriminate.
  - destruct (inD ty (kv ty x)); [|discriminate].
    destruct (lookup_live s ty (hash ty (kv ty x))) as [id|] eqn:Hl; injection Hs as <-; [|exact Ha].
    apply Hacq. apply (lookup_live_some _ _ _ _ Hl).
  - destruct (lookup_live s ty0 h0) as [id|] eqn:Hl; injection Hs as <-.
    + apply Hacq. apply (lookup_live_some _ _ _ _ Hl).
    + cbn. rewrite upd1_ne; [exact Ha|]. intros E. rewrite E, (inv_next s HI (next s)) in Ha by lia. discriminate.
  - destruct (nth_error (hs s) i) as [e|] eqn:Hn; [|discriminate].
    destruct ((h_owner e =? t) && negb (h_temp e)); [|discriminate]. injection Hs as <-.
    apply Hacq. rewrite (inv_cnt s HI). apply refs_in. eapply nth_error_in; exact Hn.
  - destruct (nth_error (hs s) i) as [e|] eqn:Hn; [|discriminate].
    destruct ((h_owner e =? t) && negb (h_temp e)); [|discriminate]. injection Hs as <-.
    apply Hrel; exact Hn.
  - destruct (lookup_live s ty h) as [id|] eqn:Hl; injection Hs as <-; [|exact Ha].
    apply Hacq. apply (lookup_live_some _ _ _ _ Hl).
  - destruct (table s ty h) as [x|] eqn:Ht; [|injection Hs as <-; exact Ha].
    destruct (N.ltb_spec 0 (cnt_of (heap s) x)) as [Hx|Hx]; injection Hs as <-; [|exact Ha].
    apply Hacq. exact Hx.
  - destruct (nth_error (hs s) i) as [e|] eqn:Hn; [|discriminate].
    destruct ((h_owner e =? t) && h_temp e); [|discriminate]. injection Hs as <-.
    apply Hrel; exact Hn.
Qed.

Theorem dead_forever : forall sched s s' a al, reachableC s -> runC s sched = Some s' ->
  heap s a = Some al -> a_cnt al = 0 ->
  heap s' a = Some al /\ forall e, In e (hs s') -> h_alloc e <> a.
Proof.
  induction sched as [|[t act] r IH]; intros s s' a al HR Hr Ha Hc; cbn [run] in Hr.
  - injection Hr as <-. split; [exact Ha|]. intros e Hin E.
    destruct (handle_alive s e (reachable_inv s HR) Hin) as (al' & H1 & _ & _ & H4).
    rewrite E, Ha in H1. injection H1 as <-. lia.
  - destruct (stepC s t act) as [s1|] eqn:Hs; [|discriminate].
    eapply (IH s1); [eapply reachable_step; eassumption|exact Hr| |exact Hc].
    eapply step_dead; try eassumption. apply reachable_inv; exact HR.
Qed.

End Proofs.
