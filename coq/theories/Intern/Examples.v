(** C15 — non-vacuity: concrete reachable states that meet the premises of each theorem,
    and the two necessity witnesses (the mutant without the re-check; a hash collision). *)
From QV Require Import Common.Prelude Intern.Model Intern.Canonical.
From QV Require Import Codec.Varint Codec.Model Codec.RoundTrip Codec.Examples Intern.Sharing.
Open Scope N_scope.

(** the hash does not look at the type (as in the code); 6 values per type *)
Definition hashX (ty v : N) : N := 1000 + v.
Definition inDX (ty v : N) : bool := v <? 6.
Definition idf (ty q : N) : N := q.

Lemma hashX_ok ty v1 v2 : inDX ty v1 = true -> inDX ty v2 = true -> hashX ty v1 = hashX ty v2 -> v1 = v2.
Proof. unfold hashX. lia. Qed.
Lemma idf_ok ty q : inDX ty (idf ty q) = true -> idf ty q = idf ty q.
Proof. reflexivity. Qed.

Notation runX := (run hashX inDX idf idf true).
Notation stepX := (step hashX inDX idf idf true).

(** threads 1 and 2 both miss value 3 of type 1 in the read-lock probe; 2 allocates; 1 finds
    it in the re-check.  Then both drop, the weak is dead; threads 1 and 3 miss again, 3
    replaces the dead weak while 1 is between probe and insert; 1 re-checks.  Thread 4
    interns the same value as another type; thread 5 runs the vacuum on the live entry and
    is still holding the temporary. *)
Definition sched1 : list (N * action) :=
  [ (1, AProbeRead 1 (Sized 3)); (2, AProbeRead 1 (Sized 3)); (2, ALockedRecheckInsert);
    (1, ALockedRecheckInsert);
    (2, ADrop 1%nat); (1, ADrop 0%nat);
    (1, AProbeRead 1 (Sized 3)); (3, AProbeRead 1 (Unsized 3));
    (3, ALockedRecheckInsert); (1, ALockedRecheckInsert);
    (4, AProbeRead 2 (Sized 3)); (4, ALockedRecheckInsert);
    (5, AVacuumEntry 1 1003) ].

Definition handles_of (o : option state) : list handle := match o with Some s => hs s | None => [] end.

Example sched1_handles :
  handles_of (runX init sched1) =
    [ Handle 5 true 1 1 3; Handle 4 false 2 2 3; Handle 1 false 1 1 3; Handle 3 false 1 1 3 ].
Proof. vm_compute. reflexivity. Qed.

Definition state1 : state := match runX init sched1 with Some s => s | None => init end.
Lemma state1_reachable : reachable hashX inDX idf idf true state1.
Proof. exists sched1. vm_compute. reflexivity. Qed.

(** premises of [canonical] are met by two different threads' handles; the conclusion, read off the state *)
Example canonical_nonvacuous :
  In (Handle 1 false 1 1 3) (hs state1) /\ In (Handle 3 false 1 1 3) (hs state1) /\
  option_map a_cnt (heap state1 1) = Some 3 /\ option_map a_cnt (heap state1 0) = Some 0.
Proof. vm_compute. auto 10. Qed.

(** same value, same hash, another type: another allocation *)
Example types_disjoint_nonvacuous :
  In (Handle 4 false 2 2 3) (hs state1) /\ In (Handle 1 false 1 1 3) (hs state1) /\
  table state1 1 1003 = Some 1 /\ table state1 2 1003 = Some 2.
Proof. vm_compute. auto 10. Qed.

(** vacuum: the live entry is retained (thread 5 holds the temporary); after all handles
    of type 1 are gone the entry is removed; the other type's entry is untouched *)
Definition sched2 : list (N * action) :=
  sched1 ++ [ (5, AVacRelease 0%nat); (1, ADrop 1%nat); (3, ADrop 1%nat); (6, AVacuumEntry 1 1003) ].
Example vacuum_nonvacuous :
  match runX init sched2 with
  | Some s => table s 1 1003 = None /\ table s 2 1003 = Some 2 /\ hs s = [Handle 4 false 2 2 3] /\
              option_map a_cnt (heap s 1) = Some 0
  | None => False
  end.
Proof. vm_compute. auto. Qed.

(** get_from_hash: a hit (new handle to allocation 1), a miss on a dead weak, a miss on a vacant key *)
Example gfh_nonvacuous :
  gfh_result state1 1 1003 = Some 1 /\ gfh_result state1 1 1004 = None /\
  (match runX init (firstn 6 sched1) with Some s => gfh_result s 1 1003 = None /\ table s 1 1003 = Some 0 | None => False end).
Proof. vm_compute. auto. Qed.

(** the last allocation died inside the vacuum: thread 1 drops while 5 holds the temporary *)
Example dies_in_vacuum :
  match runX init [ (1, AProbeRead 1 (Sized 0)); (1, ALockedRecheckInsert); (5, AVacuumEntry 1 1000);
                    (1, ADrop 1%nat) ] with
  | Some s => option_map a_cnt (heap s 0) = Some 1 /\ hs s = [Handle 5 true 0 1 0] /\
              match stepX s 5 (AVacRelease 0%nat) with
              | Some s' => option_map a_cnt (heap s' 0) = Some 0 /\ table s' 1 1000 = Some 0 /\ hs s' = []
              | None => False end
  | None => False
  end.
Proof. vm_compute. auto. Qed.

(** * necessity 1: without the re-check under the write lock canonicity fails.
    (the model with [recheck = false]; the schedule is the first four steps of [sched1]) *)
Theorem canonical_needs_recheck :
  exists sched s e1 e2, run hashX inDX idf idf false init sched = Some s /\
    In e1 (hs s) /\ In e2 (hs s) /\ h_ty e1 = h_ty e2 /\ h_val e1 = h_val e2 /\ h_alloc e1 <> h_alloc e2.
Proof.
  exists (firstn 4 sched1). eexists. exists (Handle 1 false 1 1 3), (Handle 2 false 0 1 3).
  split; [vm_compute; reflexivity|]. cbn. repeat split; auto. discriminate.
Qed.

(** * necessity 2: with a colliding hash a handle is returned whose content is not the
    requested value (H-hash is a real hypothesis) *)
Theorem content_needs_H_hash :
  exists sched s e, run (fun _ _ => 7) inDX idf idf true init sched = Some s /\
    In e (hs s) /\ h_val e = 2 /\ option_map a_val (heap s (h_alloc e)) = Some 1.
Proof.
  exists [ (1, AProbeRead 1 (Sized 1)); (1, ALockedRecheckInsert); (2, AProbeRead 1 (Sized 2)) ].
  eexists. exists (Handle 2 false 0 1 2). split; [vm_compute; reflexivity|]. cbn. auto.
Qed.

(** * sharing through the codec: the scenario of Codec/Examples.v (a repeated handle nested
    in another repeated handle) meets the premises of [encode_sharing] *)
Definition ctyX (id : N) : ty := if id =? 1 then TStr else TTuple [tstr; TUInt 16].
Example wf_tx : wf ctyX tx.
Proof. cbn. auto 20. Qed.
Example occ_vx : occ tx vx = [(1, c1); (2, c2); (1, c1); (2, c2); (1, c1); (1, c1); (1, c1)].
Proof. vm_compute. reflexivity. Qed.
