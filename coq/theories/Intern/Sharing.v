(** C15, second half — interned handles survive encoding with their sharing.

    Built on the codec model (Codec/Model.v: [TIntern], the encode session's [seen] set,
    the decode-side [interner]) and its round-trip theorem (Codec/RoundTrip.v).  An entry
    of the decode-side interner stands for the one allocation the real interner keeps
    per (type id, hash) while a handle is alive (Intern/Canonical.v); during one decode
    every decoded handle is alive (it is part of the value under construction).

    [occ t v] lists every handle occurrence of a value, in encoding order, at ANY depth:
    inside containers, enum variants, and inside the content of other handles.  The
    theorem: decoding the encoding of [v] into any consistent interner returns [v] and a
    final interner in which every occurrence (type id, content) is THE entry of its
    (type id, hash) — so all occurrences with equal (type id, hash) resolved to one entry
    (sharing), whether they were written inline or by reference, and whether they sit in
    the structure or inside another handle's content. *)
From QV Require Import Common.Prelude Codec.Varint Codec.Model Codec.RoundTrip.
Open Scope N_scope.

Definition occ_tuple (occ : ty -> val -> list (N * val)) :=
  fix go (ts : list ty) (vs : list val) : list (N * val) :=
    match ts, vs with
    | t :: ts', v :: vs' => occ t v ++ go ts' vs'
    | _, _ => []
    end.
Definition occ_variant (occ : ty -> val -> list (N * val)) (vs : list val) :=
  fix pick (vss : list (list ty)) (i : nat) : list (N * val) :=
    match vss, i with
    | ts :: _, O => occ_tuple occ ts vs
    | _ :: r, S i' => pick r i'
    | [], _ => []
    end.
Fixpoint occ (t : ty) (v : val) {struct t} : list (N * val) :=
  match t with
  | TNonZero t' => occ t' v
  | TSeq t' => match v with VList vs => flat_map (occ t') vs | _ => [] end
  | TTuple ts => match v with VList vs => occ_tuple occ ts vs | _ => [] end
  | TEnum k vss => match v with VVar i vs => occ_variant occ vs vss i | _ => [] end
  | TIntern id t' => match v with VList [c] => (id, c) :: occ t' c | _ => [] end
  | _ => []
  end.

Section WithHash.
Variable H : N -> val -> N.
Variable Play : N -> val -> Prop.
Hypothesis Hcf : forall id v1 v2, Play id v1 -> Play id v2 -> H id v1 = H id v2 -> v1 = v2.
Hypothesis Hh128 : forall id v, Play id v -> H id v < 2 ^ 128.
(** one STABLE_TYPE_ID names one content type *)
Variable cty : N -> ty.

Fixpoint wf (t : ty) : Prop :=
  match t with
  | TNonZero t' => wf t'
  | TSeq t' => wf t'
  | TTuple ts => (fix go (ts : list ty) : Prop := match ts with [] => True | t :: r => wf t /\ go r end) ts
  | TEnum _ vss =>
      (fix gov (vss : list (list ty)) : Prop :=
         match vss with
         | [] => True
         | ts :: r => (fix go (ts : list ty) : Prop := match ts with [] => True | t :: r' => wf t /\ go r' end) ts /\ gov r
         end) vss
  | TIntern id t' => t' = cty id /\ wf t'
  | _ => True
  end.
Definition wf_list (ts : list ty) : Prop :=
  (fix go (ts : list ty) : Prop := match ts with [] => True | t :: r => wf t /\ go r end) ts.
Definition wf_llist (vss : list (list ty)) : Prop :=
  (fix gov (vss : list (list ty)) : Prop := match vss with [] => True | ts :: r => wf_list ts /\ gov r end) vss.

Notation wt := (wt Play).
Notation Iok := (Iok H Play).

Definition Mono (s s' : seen) : Prop := forall id h, seen_mem s id h = true -> seen_mem s' id h = true.
(** handles whose content is being written right now *)
Definition Big (n : nat) (P : seen) : Prop :=
  forall id c, Play id c -> seen_mem P id (H id c) = true -> (n <= vsize c)%nat.
(** every handle marked as seen has all handles of its content marked too, unless its
    content is still being written *)
Definition Cl (P s : seen) : Prop :=
  forall id c, Play id c -> seen_mem s id (H id c) = true ->
    seen_mem P id (H id c) = true \/
    forall id' c', In (id', c') (occ (cty id) c) -> seen_mem s id' (H id' c') = true.
Definition Marked (s' : seen) (l : list (N * val)) : Prop :=
  forall id c, In (id, c) l -> seen_mem s' id (H id c) = true /\ Play id c.

Lemma Mono_refl s : Mono s s. Proof. intros id h X; exact X. Qed.
Lemma Mono_trans s1 s2 s3 : Mono s1 s2 -> Mono s2 s3 -> Mono s1 s3.
Proof. intros A B id h X. apply B, A, X. Qed.
Lemma Marked_mono s s' l : Marked s l -> Mono s s' -> Marked s' l.
Proof. intros A B id c Hin. destruct (A id c Hin). split; auto. Qed.
Lemma Marked_app s l1 l2 : Marked s l1 -> Marked s l2 -> Marked s (l1 ++ l2).
Proof. intros A B id c Hin. apply in_app_or in Hin as [X|X]; auto. Qed.
Lemma Marked_nil s : Marked s []. Proof. intros id c []. Qed.
Lemma Big_le n n' P : Big n P -> (n' <= n)%nat -> Big n' P.
Proof. intros A Hle id c Hp Hm. specialize (A id c Hp Hm). lia. Qed.

Definition ES (t : ty) : Prop :=
  forall v, wt t v -> wf t -> forall s bs s', encode H t v s = Some (bs, s') ->
  forall n P, (vsize v <= n)%nat -> Big n P -> Cl P s ->
    Mono s s' /\ Cl P s' /\ Marked s' (occ t v).

Lemma tuple_es ts : Forall ES ts -> forall vs, wt_tuple wt ts vs -> wf_list ts ->
  forall s bs s', enc_tuple (encode H) ts vs s = Some (bs, s') ->
  forall n P, (lsize vs <= n)%nat -> Big n P -> Cl P s ->
    Mono s s' /\ Cl P s' /\ Marked s' (occ_tuple occ ts vs).
Proof.
  induction 1 as [|t ts Ht Hts IH]; intros vs Hwt Hwf s bs s' He n P Hn HB HC.
  - destruct vs; [|contradiction]. cbn in He. injection He as <- <-.
    split; [apply Mono_refl|split; [exact HC|apply Marked_nil]].
  - destruct vs as [|v vs]; [contradiction|]. destruct Hwt as [Hv Hvs]. destruct Hwf as [Hw Hws].
    cbn [enc_tuple] in He. destruct (encode H t v s) as [[b1 s1]|] eqn:E1; [|discriminate].
    fold (enc_tuple (encode H)) in He.
    destruct (enc_tuple (encode H) ts vs s1) as [[b2 s2]|] eqn:E2; [|discriminate].
    injection He as <- <-. rewrite lsize_cons in Hn.
    destruct (Ht v Hv Hw s b1 s1 E1 n P ltac:(lia) HB HC) as (M1 & C1 & K1).
    destruct (IH vs Hvs Hws s1 b2 s2 E2 n P ltac:(lia) HB C1) as (M2 & C2 & K2).
    split; [eapply Mono_trans; eassumption|split; [exact C2|]].
    cbn [occ_tuple]. apply Marked_app; [eapply Marked_mono; eassumption|exact K2].
Qed.

Lemma variant_es vss : Forall (Forall ES) vss -> forall i vs, wt_variant wt vs vss i -> wf_llist vss ->
  forall s bs s', enc_variant (encode H) vs s vss i = Some (bs, s') ->
  forall n P, (lsize vs <= n)%nat -> Big n P -> Cl P s ->
    Mono s s' /\ Cl P s' /\ Marked s' (occ_variant occ vs vss i).
Proof.
  induction 1 as [|ts vss Hts Hvss IH]; intros i vs Hwt Hwf s bs s' He n P Hn HB HC.
  - destruct i; contradiction.
  - destruct Hwf as [Hw Hws]. destruct i as [|i]; cbn in Hwt, He |- *.
    + eapply tuple_es; eassumption.
    + eapply IH; eassumption.
Qed.

Lemma seq_es t : ES t -> forall vs, Forall (wt t) vs -> wf t ->
  forall s bs s', enc_seq (encode H t) vs s = Some (bs, s') ->
  forall n P, (lsize vs <= n)%nat -> Big n P -> Cl P s ->
    Mono s s' /\ Cl P s' /\ Marked s' (flat_map (occ t) vs).
Proof.
  intros Ht. induction 1 as [|v vs Hv Hvs IH]; intros Hw s bs s' He n P Hn HB HC.
  - cbn in He. injection He as <- <-. split; [apply Mono_refl|split; [exact HC|apply Marked_nil]].
  - cbn [enc_seq] in He. destruct (encode H t v s) as [[b1 s1]|] eqn:E1; [|discriminate].
    fold (enc_seq (encode H t)) in He.
    destruct (enc_seq (encode H t) vs s1) as [[b2 s2]|] eqn:E2; [|discriminate].
    injection He as <- <-. rewrite lsize_cons in Hn.
    destruct (Ht v Hv Hw s b1 s1 E1 n P ltac:(lia) HB HC) as (M1 & C1 & K1).
    destruct (IH Hw s1 b2 s2 E2 n P ltac:(lia) HB C1) as (M2 & C2 & K2).
    split; [eapply Mono_trans; eassumption|split; [exact C2|]].
    cbn [flat_map]. apply Marked_app; [eapply Marked_mono; eassumption|exact K2].
Qed.

Ltac leaf := intros v Hwt Hwf s bs s' He m P Hn HB HC; cbn [encode] in He;
  try (destruct v; try discriminate); injection He as <- <-;
  (split; [apply Mono_refl|split; [exact HC|apply Marked_nil]]).

Lemma seen_cons_true s id h id' h' :
  seen_mem ((id, h) :: s) id' h' = true -> (id = id' /\ h = h') \/ seen_mem s id' h' = true.
Proof.
  rewrite seen_mem_cons. destruct ((id =? id') && (h =? h')) eqn:Eq; cbn [orb]; [|auto].
  apply andb_prop in Eq as [E1 E2]. apply N.eqb_eq in E1, E2. auto.
Qed.
Lemma seen_cons_head s id h : seen_mem ((id, h) :: s) id h = true.
Proof. rewrite seen_mem_cons, !N.eqb_refl. reflexivity. Qed.
Lemma seen_cons_tail s id h id' h' : seen_mem s id' h' = true -> seen_mem ((id, h) :: s) id' h' = true.
Proof. intros X. rewrite seen_mem_cons, X. apply orb_true_r. Qed.

Theorem encode_marks_all : forall t, ES t.
Proof.
  induction t using ty_ind'; try solve [leaf].
  - (* nonzero *) intros v (Hint & Hwt & Hnz) Hwf s bs s' He n P Hn HB HC. cbn [encode occ] in *.
    eapply IHt; eassumption.
  - (* seq *) intros v Hwt Hwf s bs s' He n P Hn HB HC. destruct v; try contradiction.
    destruct Hwt as [Hvs Hl]. cbn [encode] in He.
    destruct (enc_seq (encode H t) l s) as [[b s1]|] eqn:E; [|discriminate]. injection He as <- <-.
    rewrite vsize_list in Hn. cbn [occ]. eapply (seq_es t IHt l Hvs Hwf s b s1 E n P); [lia|assumption..].
  - (* tuple *) intros v Hwt Hwf s bs s' He n P Hn HB HC. destruct v; try contradiction.
    cbn in Hwt. cbn [encode] in He. rewrite vsize_list in Hn. cbn [occ].
    eapply (tuple_es ts H0 l Hwt Hwf s bs s' He n P); [lia|assumption..].
  - (* enum *) intros v Hwt Hwf s bs s' He n P Hn HB HC. destruct v; try contradiction.
    destruct Hwt as [Hvar Htag]. cbn [encode] in He.
    destruct (enc_variant (encode H) l s vss i) as [[b s1]|] eqn:E; [|discriminate]. injection He as <- <-.
    rewrite vsize_var in Hn. cbn [occ]. eapply (variant_es vss H0 i l Hvar Hwf s b s1 E n P); [lia|assumption..].
  - (* interned *)
    intros v Hwt Hwf s bs s' He n P Hn HB HC.
    destruct v as [| | |l|]; try contradiction. destruct l as [|c [|? ?]]; try contradiction.
    destruct Hwt as (Hwt & Hplay & Hcanon). destruct Hwf as [Hcty Hwf]. cbn [encode] in He.
    rewrite vsize_list, lsize_cons in Hn. cbn [lsize fold_right] in Hn. cbn [occ].
    destruct (seen_mem s id (H id c)) eqn:Hseen.
    + (* by reference: the content was written before, with all its handles *)
      injection He as <- <-. split; [apply Mono_refl|split; [exact HC|]].
      intros id' c' [[= <- <-]|Hin]; [auto|].
      destruct (HC id c Hplay Hseen) as [HP|Hclosed].
      * specialize (HB id c Hplay HP). lia.
      * rewrite <- Hcty in Hclosed. split; [apply Hclosed; exact Hin|].
        (* Play of the nested occurrence: from well-typedness, through the same induction *)
        destruct (encode H t c ((id, H id c) :: s)) as [[b0 s0]|] eqn:E0.
        -- assert (HB0 : Big (vsize c) ((id, H id c) :: P)).
           { intros id0 c0 Hp0 Hm0. apply seen_cons_true in Hm0 as [[-> Hh]|Hm0].
             - assert (c0 = c) by (apply (Hcf id0); auto). subst c0. lia.
             - specialize (HB id0 c0 Hp0 Hm0). lia. }
           assert (HC0 : Cl ((id, H id c) :: P) ((id, H id c) :: s)).
           { intros id0 c0 Hp0 Hm0. apply seen_cons_true in Hm0 as [[-> Hh]|Hm0].
             - left. rewrite <- Hh. apply seen_cons_head.
             - destruct (HC id0 c0 Hp0 Hm0) as [X|X]; [left; apply seen_cons_tail; exact X|].
               right. intros id1 c1 Hin1. apply seen_cons_tail. apply X; exact Hin1. }
           destruct (IHt c Hwt Hwf _ _ _ E0 (vsize c) _ (le_n _) HB0 HC0) as (_ & _ & K).
           apply (K id' c' Hin).
        -- destruct (roundtrip_all H Play Hcf Hh128 t c Hwt ((id, H id c) :: s)) as (b1 & s1 & E1 & _).
           rewrite E1 in E0. discriminate.
    + (* inline *)
      destruct (encode H t c ((id, H id c) :: s)) as [[b0 s0]|] eqn:E0; [|discriminate].
      injection He as <- <-.
      assert (HB0 : Big (vsize c) ((id, H id c) :: P)).
      { intros id0 c0 Hp0 Hm0. apply seen_cons_true in Hm0 as [[-> Hh]|Hm0].
        - assert (c0 = c) by (apply (Hcf id0); auto). subst c0. lia.
        - specialize (HB id0 c0 Hp0 Hm0). lia. }
      assert (HC0 : Cl ((id, H id c) :: P) ((id, H id c) :: s)).
      { intros id0 c0 Hp0 Hm0. apply seen_cons_true in Hm0 as [[-> Hh]|Hm0].
        - left. rewrite <- Hh. apply seen_cons_head.
        - destruct (HC id0 c0 Hp0 Hm0) as [X|X]; [left; apply seen_cons_tail; exact X|].
          right. intros id1 c1 Hin1. apply seen_cons_tail. apply X; exact Hin1. }
      destruct (IHt c Hwt Hwf _ _ _ E0 (vsize c) _ (le_n _) HB0 HC0) as (M & C & K).
      assert (Ms : Mono s s0). { intros id0 h0 X. apply M. apply seen_cons_tail. exact X. }
      split; [exact Ms|split].
      * intros id0 c0 Hp0 Hm0. destruct (C id0 c0 Hp0 Hm0) as [X|X]; [|right; exact X].
        apply seen_cons_true in X as [[-> Hh]|X]; [|left; exact X].
        assert (c0 = c) by (apply (Hcf id0); auto). subst c0.
        right. rewrite <- Hcty. intros id1 c1 Hin1. apply (K id1 c1 Hin1).
      * intros id' c' [[= <- <-]|Hin]; [|apply (K id' c' Hin)].
        split; [apply M, seen_cons_head|exact Hplay].
Qed.

(** occurrences of the decoded value (skipped fields defaulted) are those of the value *)
Lemma occ_canon_tuple ts : Forall (fun t => forall v, wt t v -> occ t (canon t v) = occ t v) ts ->
  forall vs, wt_tuple wt ts vs -> occ_tuple occ ts (canon_tuple canon ts vs) = occ_tuple occ ts vs.
Proof.
  induction 1 as [|t ts Ht Hts IH]; intros vs Hwt.
  - destruct vs; [reflexivity|contradiction].
  - destruct vs as [|v vs]; [contradiction|]. destruct Hwt as [Hv Hvs].
    cbn [canon_tuple occ_tuple]. rewrite (Ht v Hv). fold (canon_tuple canon). rewrite (IH vs Hvs). reflexivity.
Qed.

Theorem occ_canon : forall t v, wt t v -> occ t (canon t v) = occ t v.
Proof.
  induction t using ty_ind'; intros v Hwt; try reflexivity.
  - (* nonzero *) destruct Hwt as (Hint & Hwt & _). cbn [occ canon]. apply IHt; exact Hwt.
  - (* seq *) destruct v; try contradiction. destruct Hwt as [Hvs _]. cbn [occ canon].
    induction Hvs as [|x r Hx Hr IH]; [reflexivity|]. cbn [map flat_map]. rewrite (IHt x Hx), IH. reflexivity.
  - (* tuple *) destruct v; try contradiction. cbn in Hwt. cbn [occ canon].
    apply occ_canon_tuple; assumption.
  - (* enum *) destruct v; try contradiction. destruct Hwt as [Hvar _]. cbn [occ canon].
    revert i Hvar. induction H0 as [|ts vss Hts Hvss IH]; intros i Hvar.
    + destruct i; contradiction.
    + destruct i as [|i]; cbn in Hvar |- *.
      * apply occ_canon_tuple; assumption.
      * apply IH; exact Hvar.
  - (* interned *)
    destruct v as [| | |l|]; try contradiction. destruct l as [|c [|? ?]]; try contradiction.
    destruct Hwt as (_ & _ & Hcanon). cbn [occ canon]. rewrite Hcanon. reflexivity.
Qed.

(** * the statement the property file exposes *)
Theorem encode_sharing t v : wf t -> wt t v -> exists bs s',
  encode H t v [] = Some (bs, s') /\
  forall rest I, Iok I -> exists I',
    decode H t (bs ++ rest) I = Some (canon t v, rest, I') /\ Iok I' /\
    (* every handle occurrence of the decoded value, at any depth, is the interner's
       entry for its (type id, hash) ... *)
    (forall id c, In (id, c) (occ t (canon t v)) -> ilookup I' id (H id c) = Some c) /\
    (* ... hence occurrences with one (type id, hash) are one entry with one content *)
    (forall id c1 c2, In (id, c1) (occ t (canon t v)) -> In (id, c2) (occ t (canon t v)) ->
       H id c1 = H id c2 -> c1 = c2 /\ ilookup I' id (H id c1) = ilookup I' id (H id c2)).
Proof.
  intros Hwf Hwt. destruct (roundtrip_all H Play Hcf Hh128 t v Hwt []) as (bs & s' & E & D).
  exists bs, s'. split; [exact E|]. intros rest I HI.
  assert (HR : Rel H Play (vsize v) [] I) by (intros id h Hm; discriminate).
  destruct (D rest I (vsize v) (le_n _) HI HR) as (I' & Dv & HI' & _ & HN).
  exists I'. split; [exact Dv|]. split; [exact HI'|].
  assert (HB : Big (vsize v) []) by (intros id c _ Hm; discriminate).
  assert (HC : Cl [] []) by (intros id c _ Hm; discriminate).
  destruct (encode_marks_all t v Hwt Hwf [] bs s' E (vsize v) [] (le_n _) HB HC) as (_ & _ & K).
  rewrite (occ_canon t v Hwt).
  assert (Hres : forall id c, In (id, c) (occ t v) -> ilookup I' id (H id c) = Some c).
  { intros id c Hin. destruct (K id c Hin) as [Hm Hp].
    destruct (HN id (H id c) Hm) as [X|X]; [discriminate|].
    destruct (ilookup I' id (H id c)) as [c'|] eqn:El; [|congruence].
    destruct (HI' _ _ _ El) as [Hh Hp']. f_equal. apply (Hcf id); auto. }
  split; [exact Hres|].
  intros id c1 c2 H1 H2 Eh. pose proof (Hres id c1 H1) as R1. pose proof (Hres id c2 H2) as R2.
  split; [|rewrite Eh; reflexivity]. rewrite Eh, R2 in R1. congruence.
Qed.

End WithHash.
