(** Executable model of the physical key scheme of the two shipped store backends
    (crates/storage/src/kv_database/rocksdb.rs and fjall.rs) and of an ordered
    byte-map store per column.

    What the code does:

    - one column family (RocksDB: [cf_wide_column_0x<id>] / [cf_key_of_set_0x<id>]) or
      keyspace (Fjall: [ks_…]) per column type, named from the column's stable type id
      and its kind; [cf] below.  (Both backends cache the handle by type id alone; a
      type used as a wide column AND as a key-of-set column would get one physical
      column in the first session and two after reopening.  The engine has no such
      type; the model requires the kind to be a function of the id — [cf] carries both.)
    - wide-column cell (column W, value type C, key k):
        [encode_wide_column_key]  =  enc(C::discriminant()) ++ enc(k)     (Prefixed)
                                     enc(k) ++ enc(C::discriminant())     (Suffixed)
      Fjall only: if enc(k) is empty a single 0 byte is written in its place
      ([encode_value(.., non_empty = true)]) — Fjall rejects empty keys.  The
      discriminant is never padded.
    - member (column S, key k, element e):
        [encode_value_length_prefixed k] ++ enc(e)  =  le64(|enc k|) ++ enc(k) ++ enc(e),
      stored with an empty value.
    - [scan_members k]: RocksDB seeks to p = le64(|enc k|) ++ enc(k) and iterates while
      the key is below [prefix_upper_bound p] (exclusive; rightmost byte below 0xFF
      incremented, the rest cut; the empty vector if every byte is 0xFF); nothing else
      filters the keys.  Fjall uses its own [prefix] iterator.  Both return
      decode(key[8 + le64(key[0..8]) ..]) for every key found.
    - keys are compared bytewise, a proper prefix first ([lex_lt]).
    - a write batch is a list of physical puts/deletes over several columns, applied by
      one store write ([commit]). *)
From QV Require Import Common.Prelude.
Open Scope N_scope.

Notation bytes := (list N) (only parsing).

Inductive backend := Rocks | Fjall.
Inductive layout := Prefixed | Suffixed.

(** Fjall's non-empty tweak on the key part of a wide-column key *)
Definition tweak (b : backend) (k : bytes) : bytes :=
  match b, k with
  | Fjall, [] => [0]
  | _, _ => k
  end.

Definition wide_key (b : backend) (l : layout) (d k : bytes) : bytes :=
  match l with
  | Prefixed => d ++ tweak b k
  | Suffixed => tweak b k ++ d
  end.

(** 8-byte little endian *)
Fixpoint le_bytes (n : nat) (x : N) : bytes :=
  match n with O => [] | S n' => (x mod 256) :: le_bytes n' (x / 256) end.
Definition le64 (x : N) : bytes := le_bytes 8 x.
Fixpoint le_val (bs : bytes) : N :=
  match bs with [] => 0 | b :: r => b + 256 * le_val r end.

Definition set_prefix (k : bytes) : bytes := le64 (N.of_nat (length k)) ++ k.
Definition member_key (k e : bytes) : bytes := set_prefix k ++ e.

(** what the scan iterators do with a physical key: skip 8 + announced length *)
Definition member_elem (x : bytes) : bytes :=
  skipn (8 + N.to_nat (le_val (firstn 8 x))) x.

(** [Impl::prefix_upper_bound]; [None] = no byte below 0xFF *)
Fixpoint ub (p : bytes) : option bytes :=
  match p with
  | [] => None
  | b :: r =>
      match ub r with
      | Some r' => Some (b :: r')
      | None => if b <? 255 then Some [b + 1] else None
      end
  end.
Definition prefix_upper_bound (p : bytes) : bytes :=
  match ub p with Some u => u | None => [] end.

(** bytewise order *)
Fixpoint lex_lt (a b : bytes) : bool :=
  match a, b with
  | _, [] => false
  | [], _ :: _ => true
  | x :: a', y :: b' => (x <? y) || ((x =? y) && lex_lt a' b')
  end.
Definition lex_le (a b : bytes) : bool := negb (lex_lt b a).

Fixpoint is_prefix (p s : bytes) : bool :=
  match p, s with
  | [], _ => true
  | x :: p', y :: s' => (x =? y) && is_prefix p' s'
  | _ :: _, [] => false
  end.

Fixpoint bytes_eqb (a b : bytes) : bool :=
  match a, b with
  | [], [] => true
  | x :: a', y :: b' => (x =? y) && bytes_eqb a' b'
  | _, _ => false
  end.

(** * one physical column: a byte map kept in key order *)
Definition pstore := list (bytes * bytes).

Fixpoint pget (s : pstore) (k : bytes) : option bytes :=
  match s with
  | [] => None
  | (k', v) :: r => if bytes_eqb k k' then Some v else pget r k
  end.
Fixpoint pput (s : pstore) (k v : bytes) : pstore :=
  match s with
  | [] => [(k, v)]
  | (k', v') :: r =>
      if lex_lt k k' then (k, v) :: s
      else if bytes_eqb k k' then (k, v) :: r
      else (k', v') :: pput r k v
  end.
Fixpoint pdel (s : pstore) (k : bytes) : pstore :=
  match s with
  | [] => []
  | (k', v') :: r => if bytes_eqb k k' then pdel r k else (k', v') :: pdel r k
  end.

(** keys in [lo, hi) in key order; [hi = None]: unbounded *)
Definition in_range (lo : bytes) (hi : option bytes) (k : bytes) : bool :=
  lex_le lo k && match hi with Some h => lex_lt k h | None => true end.
Definition pscan (s : pstore) (lo : bytes) (hi : option bytes) : list bytes :=
  map fst (filter (fun kv => in_range lo hi (fst kv)) s).

(** the physical keys a member scan visits *)
Definition scan_keys (b : backend) (s : pstore) (k : bytes) : list bytes :=
  let p := set_prefix k in
  match b with
  | Rocks => pscan s p (Some (prefix_upper_bound p))      (* seek p, stop at the bound *)
  | Fjall => map fst (filter (fun kv => is_prefix p (fst kv)) s)   (* keyspace.prefix(p) *)
  end.
Definition scan_members (b : backend) (s : pstore) (k : bytes) : list bytes :=
  map member_elem (scan_keys b s k).

(** * the database: physical columns by (kind, column id) *)
Inductive kind := KWide | KSet.
Definition cf := (kind * N)%type.
Definition cf_eqb (a b : cf) : bool :=
  match a, b with
  | (KWide, i), (KWide, j) | (KSet, i), (KSet, j) => i =? j
  | _, _ => false
  end.
Definition db := list (cf * pstore).

Fixpoint col (d : db) (c : cf) : pstore :=
  match d with
  | [] => []
  | (c', s) :: r => if cf_eqb c c' then s else col r c
  end.
Fixpoint set_col (d : db) (c : cf) (s : pstore) : db :=
  match d with
  | [] => [(c, s)]
  | (c', s') :: r => if cf_eqb c c' then (c, s) :: r else (c', s') :: set_col r c s
  end.

(** a physical operation of a write batch (rocksdb.rs / fjall.rs [Operation]) *)
Inductive pop :=
| PPut (c : cf) (k v : bytes)
| PDel (c : cf) (k : bytes).

Definition papply (d : db) (o : pop) : db :=
  match o with
  | PPut c k v => set_col d c (pput (col d c) k v)
  | PDel c k => set_col d c (pdel (col d c) k)
  end.
(** [WriteBatch::commit]: one atomic store write *)
Definition commit (d : db) (batch : list pop) : db := fold_left papply batch d.

(** * logical operations and their physical form *)
Record wcol := { w_id : N; w_layout : layout }.

Inductive lop :=
| LPut (w : wcol) (disc key value : bytes)     (* parts already encoded by the serializer *)
| LDel (w : wcol) (disc key : bytes)
| LIns (s : N) (key elem : bytes)
| LRem (s : N) (key elem : bytes).

Definition phys (b : backend) (o : lop) : pop :=
  match o with
  | LPut w d k v => PPut (KWide, w_id w) (wide_key b (w_layout w) d k) v
  | LDel w d k => PDel (KWide, w_id w) (wide_key b (w_layout w) d k)
  | LIns s k e => PPut (KSet, s) (member_key k e) []
  | LRem s k e => PDel (KSet, s) (member_key k e)
  end.

(** * a session against one open database: batches under construction are values of
      their own; only [Commit] touches the store; [Reopen] keeps the store *)
Inductive sop :=
| Stage (i : nat) (o : lop)        (* add an operation to batch i *)
| Commit (i : nat)                 (* commit batch i (it is consumed) *)
| Discard (i : nat)                (* drop batch i without committing *)
| Reopen.                          (* close every handle and open the directory again *)

Record session := { store : db; pending : list (nat * list lop) }.

Fixpoint batch_of (p : list (nat * list lop)) (i : nat) : list lop :=
  match p with
  | [] => []
  | (j, ops) :: r => if Nat.eqb i j then ops else batch_of r i
  end.
Fixpoint set_batch (p : list (nat * list lop)) (i : nat) (ops : list lop) : list (nat * list lop) :=
  match p with
  | [] => [(i, ops)]
  | (j, o) :: r => if Nat.eqb i j then (i, ops) :: r else (j, o) :: set_batch r i ops
  end.

Definition sstep (b : backend) (st : session) (o : sop) : session :=
  match o with
  | Stage i op => {| store := store st; pending := set_batch (pending st) i (batch_of (pending st) i ++ [op]) |}
  | Commit i => {| store := commit (store st) (map (phys b) (batch_of (pending st) i));
                   pending := set_batch (pending st) i [] |}
  | Discard i => {| store := store st; pending := set_batch (pending st) i [] |}
  | Reopen => {| store := store st; pending := [] |}
  end.

(** reads: functions of the store alone *)
Definition get_wide (b : backend) (d : db) (w : wcol) (disc key : bytes) : option bytes :=
  pget (col d (KWide, w_id w)) (wide_key b (w_layout w) disc key).
Definition get_members (b : backend) (d : db) (s : N) (key : bytes) : list bytes :=
  scan_members b (col d (KSet, s)) key.

(** * the reference: what the logical operations mean (last write wins per cell) *)
Definition lop_eqb_wide (w : wcol) (d k : bytes) (o : lop) : bool :=
  match o with
  | LPut w' d' k' _ | LDel w' d' k' => (w_id w =? w_id w') && bytes_eqb d d' && bytes_eqb k k'
  | _ => false
  end.
Definition lop_eqb_mem (s : N) (k e : bytes) (o : lop) : bool :=
  match o with
  | LIns s' k' e' | LRem s' k' e' => (s =? s') && bytes_eqb k k' && bytes_eqb e e'
  | _ => false
  end.

(** value of a wide cell after the committed operations [ops] (oldest first) *)
Fixpoint ref_wide (ops : list lop) (w : wcol) (d k : bytes) (acc : option bytes) : option bytes :=
  match ops with
  | [] => acc
  | o :: r =>
      ref_wide r w d k
        (if lop_eqb_wide w d k o then match o with LPut _ _ _ v => Some v | _ => None end else acc)
  end.
Fixpoint ref_mem (ops : list lop) (s : N) (k e : bytes) (acc : bool) : bool :=
  match ops with
  | [] => acc
  | o :: r =>
      ref_mem r s k e
        (if lop_eqb_mem s k e o then match o with LIns _ _ _ => true | _ => false end else acc)
  end.
