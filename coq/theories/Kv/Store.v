(** The ordered byte-map store composed with the key scheme refines the logical
    key-value contract (model: Kv/Model.v, scheme: Kv/Scheme.v). *)
From QV Require Import Common.Prelude Kv.Model Kv.Scheme.
From Coq Require Import Sorted.
Open Scope N_scope.

(** * byte strings *)
Lemma bytes_eqb_eq a : forall b, bytes_eqb a b = true <-> a = b.
Proof.
  induction a as [|x a IH]; intros [|y b]; cbn; split; try discriminate; try reflexivity.
  - intros H. apply andb_true_iff in H as [H1 H2]. apply N.eqb_eq in H1. apply IH in H2. subst. reflexivity.
  - intros H. inversion H; subst. apply andb_true_iff. split; [apply N.eqb_refl|apply IH; reflexivity].
Qed.
Lemma bytes_eqb_refl a : bytes_eqb a a = true.
Proof. apply bytes_eqb_eq. reflexivity. Qed.
Lemma bytes_eqb_neq a b : a <> b -> bytes_eqb a b = false.
Proof. intros H. destruct (bytes_eqb a b) eqn:E; [|reflexivity]. apply bytes_eqb_eq in E. contradiction. Qed.
Lemma bytes_eqb_sym a b : bytes_eqb a b = bytes_eqb b a.
Proof.
  destruct (bytes_eqb a b) eqn:E.
  - apply bytes_eqb_eq in E. subst. symmetry. apply bytes_eqb_refl.
  - symmetry. apply bytes_eqb_neq. intros ->. rewrite bytes_eqb_refl in E. discriminate.
Qed.

Lemma lex_lt_irrefl a : lex_lt a a = false.
Proof. induction a as [|x a IH]; [reflexivity|]. cbn [lex_lt]. rewrite N.ltb_irrefl, N.eqb_refl, IH. reflexivity. Qed.

Lemma lex_lt_trans a : forall b c, lex_lt a b = true -> lex_lt b c = true -> lex_lt a c = true.
Proof.
  induction a as [|x a IH]; intros b c Hab Hbc.
  - destruct b as [|y b]; [discriminate|]. destruct c as [|z c]; [discriminate|]. reflexivity.
  - destruct b as [|y b]; [discriminate|]. destruct c as [|z c]; [discriminate|].
    cbn [lex_lt] in *. apply orb_true_iff in Hab, Hbc. apply orb_true_iff.
    destruct Hab as [Hxy|Hxy], Hbc as [Hyz|Hyz];
      try (apply andb_true_iff in Hxy as [Exy Hab]; apply N.eqb_eq in Exy);
      try (apply andb_true_iff in Hyz as [Eyz Hbc]; apply N.eqb_eq in Eyz);
      try apply N.ltb_lt in Hxy; try apply N.ltb_lt in Hyz.
    + left. apply N.ltb_lt. lia.
    + left. apply N.ltb_lt. lia.
    + left. apply N.ltb_lt. lia.
    + right. subst. rewrite N.eqb_refl. cbn [andb]. eapply IH; eassumption.
Qed.

Lemma lex_total a : forall b, lex_lt a b = false -> bytes_eqb a b = false -> lex_lt b a = true.
Proof.
  induction a as [|x a IH]; intros [|y b] Hlt Hne; cbn in *; try discriminate; try reflexivity.
  destruct (N.ltb_spec x y) as [|Hge]; [discriminate|]. cbn [orb] in Hlt.
  destruct (N.eqb_spec x y) as [->|Hn].
  - rewrite N.ltb_irrefl, N.eqb_refl. cbn [orb andb] in *. apply IH; assumption.
  - destruct (N.ltb_spec y x); [reflexivity|lia].
Qed.

(** * one column *)
Lemma pget_pput_same s k v : pget (pput s k v) k = Some v.
Proof.
  induction s as [|[k' v'] s IH]; cbn [pput pget]; [rewrite bytes_eqb_refl; reflexivity|].
  destruct (lex_lt k k'); [cbn [pget]; rewrite bytes_eqb_refl; reflexivity|].
  destruct (bytes_eqb k k') eqn:E; cbn [pget]; [rewrite bytes_eqb_refl; reflexivity|].
  rewrite E. exact IH.
Qed.
Lemma pget_pput_other s k v k2 : k2 <> k -> pget (pput s k v) k2 = pget s k2.
Proof.
  intros Hne. pose proof (bytes_eqb_neq k2 k Hne) as Hf.
  induction s as [|[k' v'] s IH]; cbn [pput pget]; [rewrite Hf; reflexivity|].
  destruct (lex_lt k k'); [cbn [pget]; rewrite Hf; reflexivity|].
  destruct (bytes_eqb k k') eqn:E; cbn [pget].
  - apply bytes_eqb_eq in E. subst k'. rewrite Hf. reflexivity.
  - rewrite IH. reflexivity.
Qed.
Lemma pget_pdel_same s k : pget (pdel s k) k = None.
Proof.
  induction s as [|[k' v'] s IH]; [reflexivity|]. cbn [pdel].
  destruct (bytes_eqb k k') eqn:E; [exact IH|]. cbn [pget]. rewrite E. exact IH.
Qed.
Lemma pget_pdel_other s k k2 : k2 <> k -> pget (pdel s k) k2 = pget s k2.
Proof.
  intros Hne. pose proof (bytes_eqb_neq k2 k Hne) as Hf.
  induction s as [|[k' v'] s IH]; [reflexivity|]. cbn [pdel pget].
  destruct (bytes_eqb k k') eqn:E.
  - apply bytes_eqb_eq in E. subst k'. rewrite Hf. exact IH.
  - cbn [pget]. rewrite IH. reflexivity.
Qed.

Lemma keys_pget s x : In x (map fst s) <-> pget s x <> None.
Proof.
  induction s as [|[k v] s IH]; cbn [map fst In pget]; [split; [intros []|intros H; apply H; reflexivity]|].
  destruct (bytes_eqb x k) eqn:E.
  - apply bytes_eqb_eq in E. subst. split; [discriminate|left; reflexivity].
  - rewrite <- IH. split; [intros [->|H]; [rewrite bytes_eqb_refl in E; discriminate|exact H]|right; assumption].
Qed.

Lemma keys_pput s k v x : In x (map fst (pput s k v)) -> x = k \/ In x (map fst s).
Proof.
  induction s as [|[k' v'] s IH]; cbn [pput map fst In]; [intros [<-|[]]; left; reflexivity|].
  destruct (lex_lt k k'); [cbn [map fst In]; intros [<-|H]; [left; reflexivity|right; exact H]|].
  destruct (bytes_eqb k k'); cbn [map fst In].
  - intros [<-|H]; [left; reflexivity|right; right; exact H].
  - intros [<-|H]; [right; left; reflexivity|]. destruct (IH H) as [->|H']; [left; reflexivity|right; right; exact H'].
Qed.
Lemma keys_pdel s k x : In x (map fst (pdel s k)) -> In x (map fst s).
Proof.
  induction s as [|[k' v'] s IH]; cbn [pdel map fst In]; [intros []|].
  destruct (bytes_eqb k k'); cbn [map fst In]; [intros H; right; apply IH; exact H|].
  intros [<-|H]; [left; reflexivity|right; apply IH; exact H].
Qed.

Lemma in_pscan s lo hi x : In x (pscan s lo hi) <-> in_range lo hi x = true /\ In x (map fst s).
Proof.
  unfold pscan. rewrite in_map_iff. split.
  - intros ([k v] & <- & Hin). apply filter_In in Hin as [Hin Hr]. split; [exact Hr|]. apply (in_map fst) in Hin. exact Hin.
  - intros [Hr Hin]. apply in_map_iff in Hin as ([k v] & <- & Hin). exists (k, v). split; [reflexivity|].
    apply filter_In. split; assumption.
Qed.

(** key order: the columns are strictly sorted, so a scan is ordered and duplicate free *)
Definition klt (a b : list N) : Prop := lex_lt a b = true.
Definition sorted (s : pstore) : Prop := StronglySorted klt (map fst s).

Lemma sorted_pput s k v : sorted s -> sorted (pput s k v).
Proof.
  unfold sorted. induction s as [|[k' v'] s IH]; intros Hs; cbn [pput map fst].
  - constructor; constructor.
  - cbn [map fst] in Hs. inversion Hs as [|? ? Hs' Hall]; subst.
    destruct (lex_lt k k') eqn:Elt; [|destruct (bytes_eqb k k') eqn:Eeq]; cbn [map fst].
    + constructor; [exact Hs|]. constructor; [exact Elt|].
      eapply Forall_impl; [|exact Hall]. intros a Ha. unfold klt in *. eapply lex_lt_trans; eassumption.
    + apply bytes_eqb_eq in Eeq. subst k'. constructor; assumption.
    + constructor; [apply IH; exact Hs'|].
      apply Forall_forall. intros x Hx. apply keys_pput in Hx as [->|Hx].
      * apply lex_total; [exact Elt|exact Eeq].
      * rewrite Forall_forall in Hall. apply Hall. exact Hx.
Qed.
Lemma sorted_pdel s k : sorted s -> sorted (pdel s k).
Proof.
  unfold sorted. induction s as [|[k' v'] s IH]; intros Hs; cbn [pdel map fst]; [constructor|].
  cbn [map fst] in Hs. inversion Hs as [|? ? Hs' Hall]; subst.
  destruct (bytes_eqb k k'); [apply IH; exact Hs'|]. cbn [map fst]. constructor; [apply IH; exact Hs'|].
  apply Forall_forall. intros x Hx. apply keys_pdel in Hx. rewrite Forall_forall in Hall. apply Hall. exact Hx.
Qed.

Lemma sorted_filter (f : list N * list N -> bool) s : sorted s -> sorted (filter f s).
Proof.
  unfold sorted. induction s as [|kv s IH]; intros Hs; [constructor|].
  cbn [map] in Hs. inversion Hs as [|? ? Hs' Hall]; subst. cbn [filter].
  destruct (f kv); [|apply IH; exact Hs']. cbn [map]. constructor; [apply IH; exact Hs'|].
  apply Forall_forall. intros x Hx. rewrite Forall_forall in Hall. apply Hall.
  apply in_map_iff in Hx as (y & <- & Hy). apply filter_In in Hy as [Hy _]. apply in_map. exact Hy.
Qed.

Lemma sorted_nodup l : StronglySorted klt l -> NoDup l.
Proof.
  induction 1 as [|a l Hs IH Hall]; constructor; [|exact IH].
  intros Hin. rewrite Forall_forall in Hall. specialize (Hall _ Hin). unfold klt in Hall.
  rewrite lex_lt_irrefl in Hall. discriminate.
Qed.

(** * the database *)
Lemma cf_eqb_eq a b : cf_eqb a b = true <-> a = b.
Proof.
  destruct a as [[|] i], b as [[|] j]; cbn; rewrite ?N.eqb_eq; split; intros H; try discriminate; try congruence;
    inversion H; reflexivity.
Qed.
Lemma cf_eqb_refl a : cf_eqb a a = true.
Proof. apply cf_eqb_eq. reflexivity. Qed.
Lemma cf_eqb_neq a b : a <> b -> cf_eqb a b = false.
Proof. intros H. destruct (cf_eqb a b) eqn:E; [|reflexivity]. apply cf_eqb_eq in E. contradiction. Qed.

Lemma col_set_same d c s : col (set_col d c s) c = s.
Proof.
  induction d as [|[c' s'] d IH]; cbn [set_col col]; [rewrite cf_eqb_refl; reflexivity|].
  destruct (cf_eqb c c') eqn:E; cbn [col]; [rewrite cf_eqb_refl; reflexivity|rewrite E; exact IH].
Qed.
Lemma col_set_other d c s c2 : c2 <> c -> col (set_col d c s) c2 = col d c2.
Proof.
  intros Hne. pose proof (cf_eqb_neq c2 c Hne) as Hf.
  induction d as [|[c' s'] d IH]; cbn [set_col col]; [rewrite Hf; reflexivity|].
  destruct (cf_eqb c c') eqn:E; cbn [col].
  - apply cf_eqb_eq in E. subst c'. rewrite Hf. reflexivity.
  - rewrite IH. reflexivity.
Qed.

Definition pop_cf (o : pop) : cf := match o with PPut c _ _ | PDel c _ => c end.
Definition pop_on (s : pstore) (o : pop) : pstore :=
  match o with PPut _ k v => pput s k v | PDel _ k => pdel s k end.

Lemma col_papply d o c :
  col (papply d o) c = if cf_eqb c (pop_cf o) then pop_on (col d c) o else col d c.
Proof.
  destruct o as [c' k v|c' k]; cbn [papply pop_cf pop_on];
    (destruct (cf_eqb c c') eqn:E; [apply cf_eqb_eq in E; subst c'; apply col_set_same|
     apply col_set_other; intros ->; rewrite cf_eqb_refl in E; discriminate]).
Qed.

Definition db_sorted (d : db) : Prop := forall c, sorted (col d c).
Lemma db_sorted_nil : db_sorted [].
Proof. intros c. constructor. Qed.
Lemma db_sorted_papply d o : db_sorted d -> db_sorted (papply d o).
Proof.
  intros H c. rewrite col_papply. destruct (cf_eqb c (pop_cf o)); [|apply H].
  destruct o; cbn [pop_on]; [apply sorted_pput|apply sorted_pdel]; apply H.
Qed.
Lemma db_sorted_commit ops : forall d, db_sorted d -> db_sorted (commit d ops).
Proof. induction ops as [|o r IH]; intros d H; [exact H|]. apply IH. apply db_sorted_papply. exact H. Qed.

(** * refinement: physical reads after physical writes = logical reference *)
Section Refine.
Variable b : backend.
(** per wide column: its layout and the codes of its discriminants and keys
    (sets of byte strings produced by the serializer for the column's types) *)
Variable Lay : N -> layout.
Variable Dc Kc : N -> list N -> Prop.
Hypothesis Dpf : forall i, prefix_free (Dc i).
Hypothesis Kpf : forall i, prefix_free (Kc i).

Definition wf_wide (w : wcol) (d k : list N) : Prop :=
  w_layout w = Lay (w_id w) /\ Dc (w_id w) d /\ Kc (w_id w) k.
Definition wf_op (o : lop) : Prop :=
  match o with
  | LPut w d k _ | LDel w d k => wf_wide w d k
  | LIns _ k e | LRem _ k e => len_ok k /\ bytes_ok k /\ bytes_ok e
  end.

Lemma get_wide_step d0 o w d k : wf_op o -> wf_wide w d k ->
  get_wide b (papply d0 (phys b o)) w d k =
    if lop_eqb_wide w d k o then match o with LPut _ _ _ v => Some v | _ => None end
    else get_wide b d0 w d k.
Proof.
  intros Ho (Hl & Hd & Hk). unfold get_wide. rewrite col_papply.
  destruct o as [w' d' k' v|w' d' k'|s k' e|s k' e]; cbn [phys pop_cf pop_on lop_eqb_wide cf_eqb];
    try reflexivity.
  - destruct Ho as (Hl' & Hd' & Hk').
    destruct (N.eqb_spec (w_id w) (w_id w')) as [Ei|Ei]; cbn [andb]; [|reflexivity].
    rewrite <- Ei in *. rewrite Hl, Hl'.
    destruct (bytes_eqb d d' && bytes_eqb k k') eqn:E.
    + apply andb_true_iff in E as [E1 E2]. apply bytes_eqb_eq in E1, E2. subst. apply pget_pput_same.
    + apply pget_pput_other. intros Ek.
      destruct (wide_injective b (Lay (w_id w)) _ _ (Dpf _) (Kpf _) _ _ _ _ Hd Hd' Hk Hk' Ek) as [-> ->].
      rewrite !bytes_eqb_refl in E. discriminate.
  - destruct Ho as (Hl' & Hd' & Hk').
    destruct (N.eqb_spec (w_id w) (w_id w')) as [Ei|Ei]; cbn [andb]; [|reflexivity].
    rewrite <- Ei in *. rewrite Hl, Hl'.
    destruct (bytes_eqb d d' && bytes_eqb k k') eqn:E.
    + apply andb_true_iff in E as [E1 E2]. apply bytes_eqb_eq in E1, E2. subst. apply pget_pdel_same.
    + apply pget_pdel_other. intros Ek.
      destruct (wide_injective b (Lay (w_id w)) _ _ (Dpf _) (Kpf _) _ _ _ _ Hd Hd' Hk Hk' Ek) as [-> ->].
      rewrite !bytes_eqb_refl in E. discriminate.
Qed.

Lemma get_wide_commit ops : forall d0 w d k, Forall wf_op ops -> wf_wide w d k ->
  get_wide b (commit d0 (map (phys b) ops)) w d k = ref_wide ops w d k (get_wide b d0 w d k).
Proof.
  induction ops as [|o r IH]; intros d0 w d k Hops Hw; [reflexivity|].
  inversion Hops; subst. cbn [map commit fold_left ref_wide]. fold (commit (papply d0 (phys b o)) (map (phys b) r)).
  rewrite IH by assumption. rewrite get_wide_step by assumption. reflexivity.
Qed.

(** the members' column *)
Definition mem_get (d : db) (s : N) (k e : list N) : option (list N) :=
  pget (col d (KSet, s)) (member_key k e).

Lemma mem_get_step d0 o s k e : wf_op o -> len_ok k ->
  mem_get (papply d0 (phys b o)) s k e =
    if lop_eqb_mem s k e o then match o with LIns _ _ _ => Some [] | _ => None end
    else mem_get d0 s k e.
Proof.
  intros Ho Hk. unfold mem_get. rewrite col_papply.
  destruct o as [w' d' k' v|w' d' k'|s' k' e'|s' k' e']; cbn [phys pop_cf pop_on lop_eqb_mem cf_eqb];
    try reflexivity.
  - destruct Ho as (Hk' & _).
    destruct (N.eqb_spec s s') as [Ei|Ei]; cbn [andb]; [|reflexivity].
    destruct (bytes_eqb k k' && bytes_eqb e e') eqn:E.
    + apply andb_true_iff in E as [E1 E2]. apply bytes_eqb_eq in E1, E2. subst. apply pget_pput_same.
    + apply pget_pput_other. intros Ek. destruct (member_key_inj _ _ _ _ Hk Hk' Ek) as [-> ->].
      rewrite !bytes_eqb_refl in E. discriminate.
  - destruct Ho as (Hk' & _).
    destruct (N.eqb_spec s s') as [Ei|Ei]; cbn [andb]; [|reflexivity].
    destruct (bytes_eqb k k' && bytes_eqb e e') eqn:E.
    + apply andb_true_iff in E as [E1 E2]. apply bytes_eqb_eq in E1, E2. subst. apply pget_pdel_same.
    + apply pget_pdel_other. intros Ek. destruct (member_key_inj _ _ _ _ Hk Hk' Ek) as [-> ->].
      rewrite !bytes_eqb_refl in E. discriminate.
Qed.

Definition mem_val (m : bool) : option (list N) := if m then Some [] else None.

Lemma mem_get_commit ops : forall d0 s k e m, Forall wf_op ops -> len_ok k ->
  mem_get d0 s k e = mem_val m ->
  mem_get (commit d0 (map (phys b) ops)) s k e = mem_val (ref_mem ops s k e m).
Proof.
  induction ops as [|o r IH]; intros d0 s k e m Hops Hk H0; [exact H0|].
  inversion Hops; subst. cbn [map commit fold_left ref_mem]. fold (commit (papply d0 (phys b o)) (map (phys b) r)).
  apply IH; try assumption. rewrite mem_get_step by assumption.
  destruct (lop_eqb_mem s k e o); [destruct o; reflexivity|exact H0].
Qed.

(** every physical key of a set column was written by an insert of the history *)
Definition member_shaped (x : list N) : Prop :=
  exists k e, x = member_key k e /\ len_ok k /\ bytes_ok k /\ bytes_ok e.

Lemma set_keys_step d0 o s : wf_op o ->
  (forall x, In x (map fst (col d0 (KSet, s))) -> member_shaped x) ->
  forall x, In x (map fst (col (papply d0 (phys b o)) (KSet, s))) -> member_shaped x.
Proof.
  intros Ho H0 x. rewrite col_papply.
  destruct o as [w' d' k' v|w' d' k'|s' k' e'|s' k' e']; cbn [phys pop_cf pop_on cf_eqb]; try apply H0.
  - destruct (s =? s'); [|apply H0]. intros Hin. apply keys_pput in Hin as [->|Hin]; [|apply H0; exact Hin].
    destruct Ho as (H1 & H2 & H3). exists k', e'. repeat split; assumption.
  - destruct (s =? s'); [|apply H0]. intros Hin. apply keys_pdel in Hin. apply H0. exact Hin.
Qed.

Lemma set_keys_commit ops : forall d0 s, Forall wf_op ops ->
  (forall x, In x (map fst (col d0 (KSet, s))) -> member_shaped x) ->
  forall x, In x (map fst (col (commit d0 (map (phys b) ops)) (KSet, s))) -> member_shaped x.
Proof.
  induction ops as [|o r IH]; intros d0 s Hops H0; [exact H0|].
  inversion Hops; subst. cbn [map commit fold_left]. fold (commit (papply d0 (phys b o)) (map (phys b) r)).
  apply IH; [assumption|]. apply set_keys_step; assumption.
Qed.

Lemma member_shaped_ok x : member_shaped x -> bytes_ok x.
Proof.
  intros (k & e & -> & _ & Hk & He). unfold member_key. apply Forall_app. split; [apply set_prefix_ok; exact Hk|exact He].
Qed.

(** which physical keys a member scan visits, on either backend *)
Lemma in_scan_keys st k x : len_ok k -> bytes_ok k ->
  (forall y, In y (map fst st) -> member_shaped y) ->
  (In x (scan_keys b st k) <-> is_prefix (set_prefix k) x = true /\ In x (map fst st)).
Proof.
  intros Hl Hk Hshape. destruct b; cbn [scan_keys].
  - rewrite in_pscan. split.
    + intros [Hr Hin]. split; [|exact Hin]. rewrite <- range_is_prefix; try assumption.
      apply member_shaped_ok. apply Hshape. exact Hin.
    + intros [Hp Hin]. split; [|exact Hin]. rewrite range_is_prefix; try assumption.
      apply member_shaped_ok. apply Hshape. exact Hin.
  - rewrite in_map_iff. split.
    + intros ([y v] & <- & Hin). apply filter_In in Hin as [Hin Hp]. split; [exact Hp|]. apply (in_map fst) in Hin. exact Hin.
    + intros [Hp Hin]. apply in_map_iff in Hin as ([y v] & <- & Hin). exists (y, v). split; [reflexivity|].
      apply filter_In. split; assumption.
Qed.

(** [scan_members] returns exactly the committed members of exactly that key *)
Theorem scan_exact ops s k x : Forall wf_op ops -> len_ok k -> bytes_ok k ->
  (In x (get_members b (commit [] (map (phys b) ops)) s k) <-> ref_mem ops s k x false = true).
Proof.
  intros Hops Hl Hk. set (D := commit [] (map (phys b) ops)).
  assert (Hshape : forall y, In y (map fst (col D (KSet, s))) -> member_shaped y).
  { apply set_keys_commit; [exact Hops|]. intros y []. }
  assert (Hpoint : forall e, mem_get D s k e = mem_val (ref_mem ops s k e false)).
  { intros e. apply mem_get_commit; [exact Hops|exact Hl|reflexivity]. }
  unfold get_members, scan_members. rewrite in_map_iff. split.
  - intros (y & <- & Hy). apply (in_scan_keys _ k y Hl Hk Hshape) in Hy as [Hp Hin].
    destruct (Hshape y Hin) as (k' & e' & -> & Hl' & _).
    assert (k' = k) as -> by (apply (member_isolation k k' e' Hl Hl' Hp)).
    rewrite member_elem_key by exact Hl.
    apply keys_pget in Hin. fold (mem_get D s k e') in Hin. rewrite Hpoint in Hin.
    destruct (ref_mem ops s k e' false); [reflexivity|]. exfalso. apply Hin. reflexivity.
  - intros Hm. exists (member_key k x). split; [apply member_elem_key; exact Hl|].
    apply (in_scan_keys _ k _ Hl Hk Hshape). split; [apply member_key_prefix|].
    apply keys_pget. fold (mem_get D s k x). rewrite Hpoint, Hm. discriminate.
Qed.

(** … in element order and without duplicates *)
Theorem scan_sorted_nodup ops s k : Forall wf_op ops -> len_ok k -> bytes_ok k ->
  NoDup (get_members b (commit [] (map (phys b) ops)) s k).
Proof.
  intros Hops Hl Hk. set (D := commit [] (map (phys b) ops)).
  assert (Hshape : forall y, In y (map fst (col D (KSet, s))) -> member_shaped y).
  { apply set_keys_commit; [exact Hops|]. intros y []. }
  assert (Hsorted : sorted (col D (KSet, s))) by (apply db_sorted_commit, db_sorted_nil).
  assert (Hnd : NoDup (scan_keys b (col D (KSet, s)) k)).
  { apply sorted_nodup. destruct b; cbn [scan_keys]; [unfold pscan|]; apply sorted_filter; exact Hsorted. }
  unfold get_members, scan_members.
  (* member_elem is injective on the visited keys: they all are member keys of [k] *)
  assert (Hinj : forall y1 y2, In y1 (scan_keys b (col D (KSet, s)) k) -> In y2 (scan_keys b (col D (KSet, s)) k) ->
                               member_elem y1 = member_elem y2 -> y1 = y2).
  { intros y1 y2 H1 H2 E.
    apply (in_scan_keys _ k _ Hl Hk Hshape) in H1 as [Hp1 Hin1]. apply (in_scan_keys _ k _ Hl Hk Hshape) in H2 as [Hp2 Hin2].
    destruct (Hshape _ Hin1) as (k1 & e1 & -> & Hl1 & _). destruct (Hshape _ Hin2) as (k2 & e2 & -> & Hl2 & _).
    assert (k1 = k) as -> by (apply (member_isolation k k1 e1 Hl Hl1 Hp1)).
    assert (k2 = k) as -> by (apply (member_isolation k k2 e2 Hl Hl2 Hp2)).
    rewrite !member_elem_key in E by exact Hl. subst. reflexivity. }
  revert Hnd Hinj. generalize (scan_keys b (col D (KSet, s)) k) as l.
  induction l as [|y l IH]; intros Hnd Hinj; [constructor|].
  inversion Hnd; subst. cbn [map]. constructor.
  - intros Hin. apply in_map_iff in Hin as (y' & E & Hy'). assert (y' = y) by (apply Hinj; [right; exact Hy'|left; reflexivity|exact E]).
    subst. contradiction.
  - apply IH; [assumption|]. intros y1 y2 Ha Hb. apply Hinj; right; assumption.
Qed.

(** a point read returns the last committed value of exactly that cell *)
Theorem point_read ops w d k : Forall wf_op ops -> wf_wide w d k ->
  get_wide b (commit [] (map (phys b) ops)) w d k = ref_wide ops w d k None.
Proof. intros Hops Hw. rewrite get_wide_commit by assumption. reflexivity. Qed.

(** * sessions: batches under construction, commit, reopen *)
(** the logical content of a session: the operations of the committed batches, in commit order *)
Fixpoint committed (p : list (nat * list lop)) (sops : list sop) : list lop :=
  match sops with
  | [] => []
  | Stage i o :: r => committed (set_batch p i (batch_of p i ++ [o])) r
  | Commit i :: r => batch_of p i ++ committed (set_batch p i []) r
  | Discard i :: r => committed (set_batch p i []) r
  | Reopen :: r => committed [] r
  end.

Lemma commit_app d x y : commit d (x ++ y) = commit (commit d x) y.
Proof. unfold commit. apply fold_left_app. Qed.

Lemma session_store sops : forall st,
  store (fold_left (sstep b) sops st) = commit (store st) (map (phys b) (committed (pending st) sops)).
Proof.
  induction sops as [|o r IH]; intros st; [reflexivity|].
  cbn [fold_left]. rewrite IH. destruct o; cbn [sstep store pending committed]; try reflexivity.
  rewrite map_app, commit_app. reflexivity.
Qed.

(** uncommitted batches are invisible: staging and discarding never change the store *)
Definition no_commit (o : sop) : Prop := match o with Commit _ => False | _ => True end.
Theorem uncommitted_invisible sops : Forall no_commit sops -> forall st,
  store (fold_left (sstep b) sops st) = store st.
Proof.
  induction 1 as [|o r Ho Hr IH]; intros st; [reflexivity|].
  cbn [fold_left]. rewrite IH. destruct o; cbn [sstep store]; try reflexivity. destruct Ho.
Qed.

(** a commit is one step: afterwards every read reflects every operation of the batch
    (on top of what was there), the other batches are untouched *)
Theorem batch_atomic st i :
  let ops := batch_of (pending st) i in
  let st' := sstep b st (Commit i) in
  Forall wf_op ops ->
  (forall w d k, wf_wide w d k ->
      get_wide b (store st') w d k = ref_wide ops w d k (get_wide b (store st) w d k)) /\
  (forall s k e m, len_ok k -> mem_get (store st) s k e = mem_val m ->
      mem_get (store st') s k e = mem_val (ref_mem ops s k e m)) /\
  batch_of (pending st') i = [] /\
  (forall j, j <> i -> batch_of (pending st') j = batch_of (pending st) j).
Proof.
  cbn zeta. intros Hops. cbn [sstep store pending]. split; [|split; [|split]].
  - intros w d k Hw. apply get_wide_commit; assumption.
  - intros s k e m Hk H0. apply mem_get_commit; assumption.
  - generalize (pending st) as p. induction p as [|[j o] p IH]; cbn [set_batch batch_of]; [rewrite Nat.eqb_refl; reflexivity|].
    destruct (Nat.eqb i j) eqn:E; cbn [batch_of]; [rewrite Nat.eqb_refl; reflexivity|rewrite E; exact IH].
  - intros j Hj. generalize (pending st) as p. induction p as [|[j' o] p IH]; cbn [set_batch batch_of].
    + destruct (Nat.eqb_spec j i); [contradiction|reflexivity].
    + destruct (Nat.eqb i j') eqn:E; cbn [batch_of].
      * apply Nat.eqb_eq in E. subst j'. destruct (Nat.eqb_spec j i); [contradiction|reflexivity].
      * destruct (Nat.eqb j j'); [reflexivity|exact IH].
Qed.

(** the whole contract over a session: reads = reference over the committed operations *)
Theorem session_reads sops w d k s kk :
  let st := fold_left (sstep b) sops {| store := []; pending := [] |} in
  let ops := committed [] sops in
  Forall wf_op ops ->
  (wf_wide w d k -> get_wide b (store st) w d k = ref_wide ops w d k None) /\
  (len_ok kk -> bytes_ok kk -> forall x, In x (get_members b (store st) s kk) <-> ref_mem ops s kk x false = true).
Proof.
  cbn zeta. intros Hops. rewrite session_store. cbn [store pending]. split.
  - intros Hw. apply point_read; assumption.
  - intros Hl Hk x. apply scan_exact; assumption.
Qed.

End Refine.
