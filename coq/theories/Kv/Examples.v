(** Non-vacuity for the C11 theorems: concrete codes from the serializer model, a
    concrete session on both backends with an empty key encoding, two value types under
    one key, prefix-related set keys, an uncommitted batch and a reopen. *)
From QV Require Import Common.Prelude Codec.Varint Codec.Model Codec.RoundTrip Codec.PrefixFree.
From QV Require Import Kv.Model Kv.Scheme Kv.Store.
Open Scope N_scope.

(** no interned handles in play *)
Definition H0 (_ : N) (_ : val) : N := 0.
Definition Play0 (_ : N) (_ : val) : Prop := False.
Lemma Play0_cf id v1 v2 : Play0 id v1 -> Play0 id v2 -> H0 id v1 = H0 id v2 -> v1 = v2.
Proof. intros []. Qed.
Lemma Play0_128 id v : Play0 id v -> H0 id v < 2 ^ 128.
Proof. intros []. Qed.

(** the code of a serializer type is prefix-free in the sense of Kv/Scheme.v *)
Theorem codes_prefix_free (H : N -> val -> N) (Play : N -> val -> Prop)
  (Hcf : forall id v1 v2, Play id v1 -> Play id v2 -> H id v1 = H id v2 -> v1 = v2)
  (H128 : forall id v, Play id v -> H id v < 2 ^ 128) t :
  prefix_free (code_of H Play t).
Proof.
  intros a b Ha Hb Hp. apply is_prefix_app in Hp.
  exact (code_prefix_free H Play Hcf H128 t a b Ha Hb Hp).
Qed.

(** discriminants [u8], keys [Vec<u8>] (column 0, Prefixed) and [()] (column 3, Prefixed) *)
Definition LayX (i : N) : layout := Prefixed.
Definition DcX (_ : N) : list N -> Prop := code_of H0 Play0 TU8.
Definition KcX (i : N) : list N -> Prop :=
  if i =? 3 then code_of H0 Play0 (TTuple []) else code_of H0 Play0 (TSeq TU8).
Lemma DcX_pf i : prefix_free (DcX i).
Proof. apply codes_prefix_free; [apply Play0_cf|apply Play0_128]. Qed.
Lemma KcX_pf i : prefix_free (KcX i).
Proof. unfold KcX. destruct (i =? 3); apply codes_prefix_free; try apply Play0_cf; apply Play0_128. Qed.

Definition w0 : wcol := {| w_id := 0; w_layout := Prefixed |}.
Definition w3 : wcol := {| w_id := 3; w_layout := Prefixed |}.

(** key [1,2] of column 0 encodes as [2;1;2]; key () of column 3 as [] *)
Definition opsx : list lop :=
  [ LPut w0 [0] [2;1;2] [9];          (* value type 0 under key [1,2] *)
    LPut w0 [1] [2;1;2] [8;8];        (* value type 1 under the same key *)
    LPut w3 [7] [] [5];               (* empty key encoding *)
    LIns 0 [1;1] [1;4];               (* set key [1], element [4] *)
    LIns 0 [2;1;2] [1;6];             (* set key [1,2] — an extension of the former *)
    LIns 0 [1;1] [2;1;2];             (* an element that looks like the other key *)
    LRem 0 [1;1] [1;4];
    LDel w0 [0] [2;1;2] ].

Example opsx_wf : Forall (wf_op LayX DcX KcX) opsx.
Proof.
  assert (D : forall n, n < 256 -> DcX 0 [n]).
  { intros n Hn. exists (VN n), []. split; [exact Hn|reflexivity]. }
  assert (K12 : KcX 0 [2;1;2]).
  { exists (VList [VN 1; VN 2]), []. split; [|reflexivity]. cbn [wt]. split; [repeat constructor; cbn; lia|cbn; lia]. }
  assert (KU : KcX 3 []).
  { exists (VList []), []. split; [exact I|reflexivity]. }
  assert (Hb : forall l, forallb (fun x => x <? 256) l = true -> bytes_ok l).
  { intros l Hl. apply Forall_forall. intros x Hx. rewrite forallb_forall in Hl. apply N.ltb_lt. apply Hl. exact Hx. }
  repeat constructor; cbn [w_id w_layout w0 w3]; try (apply D; lia); try exact K12; try exact KU;
    try (unfold len_ok; cbn; lia); try (apply Hb; reflexivity).
Qed.

(** physical keys: Fjall pads the empty key, RocksDB does not *)
Example phys_keys :
  wide_key Rocks Prefixed [7] [] = [7] /\ wide_key Fjall Prefixed [7] [] = [7; 0] /\
  wide_key Fjall Suffixed [7] [] = [0; 7] /\ wide_key Rocks Suffixed [128; 1] [2;1;2] = [2;1;2;128;1] /\
  member_key [2;1;2] [1;6] = [3;0;0;0;0;0;0;0; 2;1;2; 1;6] /\
  prefix_upper_bound (set_prefix [2;255;255]) = [3;0;0;0;0;0;0;0; 3] /\
  prefix_upper_bound [255;255] = [].
Proof. vm_compute. repeat split; reflexivity. Qed.

(** a session: batch 0 is committed, batch 1 stays open, then the store is reopened *)
Definition sessx : list sop :=
  map (Stage 0) opsx ++ [Stage 1 (LPut w0 [0] [2;1;2] [66]); Stage 1 (LIns 0 [1;1] [1;77]); Commit 0; Reopen].

Example sessx_reads : forall b,
  let st := fold_left (sstep b) sessx {| store := []; pending := [] |} in
  get_wide b (store st) w0 [0] [2;1;2] = None /\            (* deleted by the batch itself *)
  get_wide b (store st) w0 [1] [2;1;2] = Some [8;8] /\      (* the other value type is untouched *)
  get_wide b (store st) w3 [7] [] = Some [5] /\
  get_members b (store st) 0 [1;1] = [[2;1;2]] /\           (* not [1;4] (removed), not [1;77] (uncommitted), not [1;6] (other key) *)
  get_members b (store st) 0 [2;1;2] = [[1;6]] /\
  get_members b (store st) 0 [1;2] = [].
Proof. intros [|]; vm_compute; repeat split; reflexivity. Qed.

Example sessx_committed : committed [] sessx = opsx.
Proof. reflexivity. Qed.
