(** Correspondence checker for the key-scheme / store model.  The harness
    (harness_db/src/bin/kvdb.rs) runs a history against a real backend and writes it
    with the results it observed: every read carries what the store returned, and
    [dump] is the raw content of the closed directory (physical column, key bytes,
    value bytes, in key order) read back with the store's own crate.  [failures]
    returns the indices of the histories on which the model computes another read
    result or other physical bytes. *)
From QV Require Import Common.Prelude Kv.Model.
Open Scope N_scope.

(** run-length form used by the harness for long byte strings *)
Definition rp (n : nat) (b : N) : list N := repeat b n.

Definition W (i : N) (l : layout) : wcol := {| w_id := i; w_layout := l |}.

Inductive step :=
| S (o : sop)
| RGet (w : wcol) (d k : list N) (r : option (list N))
| RScan (s : N) (k : list N) (r : list (list N)).

Inductive case :=
| Hist (b : backend) (steps : list step) (dump : list (cf * list (list N * list N))).

Fixpoint list_eqb {A} (eqb : A -> A -> bool) (a b : list A) : bool :=
  match a, b with
  | [], [] => true
  | x :: a', y :: b' => eqb x y && list_eqb eqb a' b'
  | _, _ => false
  end.
Definition opt_eqb (a b : option (list N)) : bool :=
  match a, b with
  | None, None => true
  | Some x, Some y => bytes_eqb x y
  | _, _ => false
  end.
Definition kv_eqb (a b : list N * list N) : bool := bytes_eqb (fst a) (fst b) && bytes_eqb (snd a) (snd b).

(** runs the steps; [None] as soon as a read disagrees *)
Fixpoint replay (b : backend) (st : session) (steps : list step) : option session :=
  match steps with
  | [] => Some st
  | S o :: r => replay b (sstep b st o) r
  | RGet w d k res :: r =>
      if opt_eqb (get_wide b (store st) w d k) res then replay b st r else None
  | RScan s k res :: r =>
      if list_eqb bytes_eqb (get_members b (store st) s k) res then replay b st r else None
  end.

Definition dump_ok (d : db) (dump : list (cf * list (list N * list N))) : bool :=
  forallb (fun '(c, kvs) => list_eqb kv_eqb (col d c) kvs) dump &&
  forallb (fun '(c, s) => match s with [] => true | _ => existsb (fun '(c', _) => cf_eqb c c') dump end) d.

Definition check (c : case) : bool :=
  match c with
  | Hist b steps dump =>
      match replay b {| store := []; pending := [] |} steps with
      | Some st => dump_ok (store st) dump
      | None => false
      end
  end.

Fixpoint failures_from (i : N) (cs : list case) : list N :=
  match cs with
  | [] => []
  | c :: r => if check c then failures_from (i + 1) r else i :: failures_from (i + 1) r
  end.
Definition failures (cs : list case) : list N := failures_from 0 cs.
