(** The physical key scheme of the store backends is injective and isolates keys
    (model: Kv/Model.v). *)
From QV Require Import Common.Prelude Kv.Model.
Open Scope N_scope.

Definition bytes_ok (l : list N) : Prop := Forall (fun b => b < 256) l.
(** a set of byte strings no member of which is a proper prefix of another *)
Definition prefix_free (C : list N -> Prop) : Prop :=
  forall a b, C a -> C b -> is_prefix a b = true -> a = b.

(** * prefixes *)
Lemma is_prefix_app a : forall s, is_prefix a s = true <-> exists r, s = a ++ r.
Proof.
  induction a as [|x a IH]; intros s; cbn [is_prefix app].
  - split; [intros _; exists s; reflexivity|reflexivity].
  - destruct s as [|y s]; [split; [discriminate|intros [r Hr]; discriminate]|].
    rewrite andb_true_iff, N.eqb_eq, IH. split.
    + intros [-> [r ->]]. exists r. reflexivity.
    + intros [r Hr]. inversion Hr; subst. split; [reflexivity|exists r; reflexivity].
Qed.

Lemma is_prefix_refl_app a r : is_prefix a (a ++ r) = true.
Proof. apply is_prefix_app. exists r. reflexivity. Qed.

Lemma app_eq_prefix (a1 : list N) : forall a2 r1 r2,
  a1 ++ r1 = a2 ++ r2 -> is_prefix a1 a2 = true \/ is_prefix a2 a1 = true.
Proof.
  induction a1 as [|x a1 IH]; intros a2 r1 r2 E; [left; reflexivity|].
  destruct a2 as [|y a2]; [right; reflexivity|].
  cbn [app] in E. inversion E; subst. cbn [is_prefix]. rewrite N.eqb_refl. cbn [andb].
  eapply IH; eassumption.
Qed.

Lemma prefix_free_app C a1 a2 r1 r2 :
  prefix_free C -> C a1 -> C a2 -> a1 ++ r1 = a2 ++ r2 -> a1 = a2 /\ r1 = r2.
Proof.
  intros Hpf H1 H2 E. assert (a1 = a2) as ->.
  { destruct (app_eq_prefix _ _ _ _ E) as [Hp|Hp]; [apply Hpf; assumption|symmetry; apply Hpf; assumption]. }
  split; [reflexivity|]. apply app_inv_head in E. exact E.
Qed.

(** * the wide-column key *)
Lemma tweak_inj b C k1 k2 : prefix_free C -> C k1 -> C k2 -> tweak b k1 = tweak b k2 -> k1 = k2.
Proof.
  intros Hpf H1 H2 E. destruct b; [exact E|].
  destruct k1 as [|x k1], k2 as [|y k2]; cbn [tweak] in E.
  - reflexivity.
  - apply Hpf; auto.
  - symmetry. apply Hpf; auto.
  - exact E.
Qed.

Lemma tweak_prefix_free b C : prefix_free C -> prefix_free (fun x => exists k, C k /\ x = tweak b k).
Proof.
  intros Hpf x1 x2 (k1 & H1 & ->) (k2 & H2 & ->) Hp. destruct b; [apply Hpf; assumption|].
  destruct k1 as [|a k1], k2 as [|c k2]; cbn [tweak] in *.
  - reflexivity.
  - (* [] is a code word, so it is the only one *)
    assert ([] = c :: k2) by (apply Hpf; auto). discriminate.
  - assert ([] = a :: k1) by (apply Hpf; auto). discriminate.
  - apply Hpf; assumption.
Qed.

Theorem wide_injective b l (D K : list N -> Prop) :
  prefix_free D -> prefix_free K ->
  forall d1 k1 d2 k2, D d1 -> D d2 -> K k1 -> K k2 ->
    wide_key b l d1 k1 = wide_key b l d2 k2 -> d1 = d2 /\ k1 = k2.
Proof.
  intros HD HK d1 k1 d2 k2 Hd1 Hd2 Hk1 Hk2 E. destruct l; cbn [wide_key] in E.
  - destruct (prefix_free_app D _ _ _ _ HD Hd1 Hd2 E) as [-> Et].
    split; [reflexivity|]. exact (tweak_inj b K k1 k2 HK Hk1 Hk2 Et).
  - pose proof (tweak_prefix_free b K HK) as HK'.
    destruct (prefix_free_app _ _ _ _ _ HK' (ex_intro _ k1 (conj Hk1 eq_refl)) (ex_intro _ k2 (conj Hk2 eq_refl)) E) as [Et ->].
    split; [reflexivity|]. exact (tweak_inj b K k1 k2 HK Hk1 Hk2 Et).
Qed.

(** Fjall never sees an empty wide key when the key part is padded *)
Lemma wide_key_fjall_nonempty l d k : wide_key Fjall l d k <> [].
Proof.
  destruct l; cbn [wide_key]; destruct k; cbn [tweak]; intros E;
    apply app_eq_nil in E as [E1 E2]; discriminate.
Qed.

(** * little-endian length prefix *)
Lemma le_bytes_length c : forall n, length (le_bytes c n) = c.
Proof. induction c as [|c IH]; intros n; cbn [le_bytes length]; [reflexivity|rewrite IH; reflexivity]. Qed.

Lemma le_bytes_ok c : forall n, bytes_ok (le_bytes c n).
Proof.
  induction c as [|c IH]; intros n; cbn [le_bytes]; constructor; [|apply IH].
  apply N.mod_lt. lia.
Qed.

Lemma le_val_le_bytes c : forall n, le_val (le_bytes c n) = n mod 256 ^ N.of_nat c.
Proof.
  induction c as [|c IH]; intros n; cbn [le_bytes le_val].
  - cbn. rewrite N.mod_1_r. reflexivity.
  - rewrite IH. rewrite Nat2N.inj_succ, N.pow_succ_r'.
    rewrite N.mod_mul_r by (try apply N.pow_nonzero; lia). reflexivity.
Qed.

Lemma le64_val n : n < 2 ^ 64 -> le_val (le64 n) = n.
Proof.
  intros H. unfold le64. rewrite le_val_le_bytes. change (256 ^ N.of_nat 8) with (2 ^ 64).
  apply N.mod_small. exact H.
Qed.

Lemma le64_inj n m : n < 2 ^ 64 -> m < 2 ^ 64 -> le64 n = le64 m -> n = m.
Proof. intros Hn Hm E. rewrite <- (le64_val n Hn), <- (le64_val m Hm), E. reflexivity. Qed.

(** * member keys *)
Definition len_ok (k : list N) : Prop := N.of_nat (length k) < 2 ^ 64 - 1.

Lemma app_prefix_same_length (a a' x y : list N) :
  length a = length a' -> is_prefix (a ++ x) (a' ++ y) = true -> a = a' /\ is_prefix x y = true.
Proof.
  revert a'; induction a as [|h a IH]; intros [|h' a'] Hl Hp; cbn in Hl; try discriminate.
  - split; [reflexivity|exact Hp].
  - cbn [app is_prefix] in Hp. apply andb_true_iff in Hp as [Hh Hp]. apply N.eqb_eq in Hh. subst h'.
    destruct (IH a') as [-> Hx]; [lia|exact Hp|]. split; [reflexivity|exact Hx].
Qed.

Lemma prefix_same_length (k k' e : list N) :
  length k = length k' -> is_prefix k (k' ++ e) = true -> k = k'.
Proof.
  intros Hl Hp. rewrite <- (app_nil_r k) in Hp.
  destruct (app_prefix_same_length k k' [] e Hl Hp) as [E _]. exact E.
Qed.

Theorem member_isolation k k' e :
  len_ok k -> len_ok k' -> is_prefix (set_prefix k) (member_key k' e) = true -> k' = k.
Proof.
  unfold len_ok, member_key, set_prefix. intros Hk Hk' Hp. rewrite <- app_assoc in Hp.
  destruct (app_prefix_same_length _ _ _ _ (eq_trans (le_bytes_length 8 _) (eq_sym (le_bytes_length 8 _))) Hp) as [El Hp'].
  apply le64_inj in El; [|lia|lia]. apply Nat2N.inj in El.
  symmetry. eapply prefix_same_length; eassumption.
Qed.

Lemma member_key_prefix k e : is_prefix (set_prefix k) (member_key k e) = true.
Proof. apply is_prefix_refl_app. Qed.

Theorem member_key_inj k e k' e' :
  len_ok k -> len_ok k' -> member_key k e = member_key k' e' -> k = k' /\ e = e'.
Proof.
  intros Hk Hk' E. assert (k' = k) as ->.
  { apply (member_isolation k k' e' Hk Hk'). rewrite <- E. apply member_key_prefix. }
  split; [reflexivity|]. unfold member_key in E. apply app_inv_head in E. exact E.
Qed.

(** what the scan iterators decode from a physical key is the element *)
Theorem member_elem_key k e : len_ok k -> member_elem (member_key k e) = e.
Proof.
  unfold len_ok. intros Hk. unfold member_elem, member_key, set_prefix. rewrite <- app_assoc.
  assert (H8 : length (le64 (N.of_nat (length k))) = 8%nat) by apply le_bytes_length.
  rewrite firstn_app, H8. rewrite firstn_all2 by lia.
  replace (8 - 8)%nat with O by lia. cbn [firstn]. rewrite app_nil_r.
  rewrite le64_val by lia. rewrite Nat2N.id.
  rewrite skipn_app, H8. rewrite skipn_all2 by lia.
  cbn [app]. replace (8 + length k - 8)%nat with (length k) by lia.
  rewrite skipn_app. rewrite skipn_all, Nat.sub_diag. reflexivity.
Qed.

(** * the scan bound *)
Lemma ub_none p : ub p = None -> Forall (fun b => 255 <= b) p.
Proof.
  induction p as [|b r IH]; intros H; [constructor|].
  cbn [ub] in H. destruct (ub r) as [r'|]; [discriminate|].
  destruct (N.ltb_spec b 255); [discriminate|]. constructor; [assumption|apply IH; reflexivity].
Qed.

Lemma ub_none_iff p : ub p = None <-> Forall (fun b => 255 <= b) p.
Proof.
  split; [apply ub_none|]. induction p as [|b r IH]; intros H; [reflexivity|].
  inversion H; subst. cbn [ub]. rewrite IH by assumption.
  destruct (N.ltb_spec b 255); [lia|reflexivity].
Qed.

Lemma prefix_le p : forall s, is_prefix p s = true -> lex_le p s = true.
Proof.
  unfold lex_le. induction p as [|x p IH]; intros s H.
  - destruct s; reflexivity.
  - destruct s as [|y s]; [discriminate|]. cbn [is_prefix] in H.
    apply andb_true_iff in H as [Hx Hp]. apply N.eqb_eq in Hx. subst y.
    cbn [lex_lt]. rewrite N.ltb_irrefl, N.eqb_refl. cbn [orb andb]. apply IH. exact Hp.
Qed.

Lemma allff_le_prefix r : Forall (fun b => 255 <= b) r ->
  forall s, bytes_ok s -> lex_le r s = true -> is_prefix r s = true.
Proof.
  unfold lex_le. induction 1 as [|x r Hx Hr IH]; intros s Hs Hle; [reflexivity|].
  destruct s as [|y s]; [discriminate|]. inversion Hs; subst.
  cbn [lex_lt] in Hle. cbn [is_prefix].
  destruct (N.ltb_spec y x) as [|Hge]; [discriminate|]. cbn [orb] in Hle.
  assert (x = y) as -> by lia. rewrite N.eqb_refl in *. cbn [andb] in *.
  apply IH; assumption.
Qed.

Theorem upper_bound p : forall s u, bytes_ok p -> bytes_ok s -> ub p = Some u ->
  (lex_le p s && lex_lt s u = true <-> is_prefix p s = true).
Proof.
  induction p as [|b r IH]; intros s u Hp Hs Hu; [discriminate|].
  inversion Hp as [|? ? Hb Hr]; subst. cbn [ub] in Hu.
  destruct s as [|y s].
  - cbn. split; discriminate.
  - inversion Hs as [|? ? Hy Hs']; subst.
    destruct (ub r) as [r'|] eqn:Er.
    + inversion Hu; subst u. unfold lex_le. cbn [lex_lt is_prefix].
      destruct (N.ltb_spec y b) as [Hlt|Hge].
      * cbn. destruct (N.eqb_spec b y); [lia|]. cbn. split; discriminate.
      * cbn [orb negb]. destruct (N.eqb_spec y b) as [->|Hne].
        -- rewrite N.eqb_refl. cbn [andb]. apply (IH s r' Hr Hs' eq_refl).
        -- destruct (N.eqb_spec b y); [congruence|]. cbn [andb negb].
           destruct (N.ltb_spec y b); [lia|]. cbn. split; discriminate.
    + destruct (N.ltb_spec b 255) as [Hb255|]; [|discriminate]. inversion Hu; subst u.
      unfold lex_le. cbn [lex_lt is_prefix].
      assert (Hnil : lex_lt s [] = false) by (destruct s; reflexivity). rewrite Hnil, andb_false_r, orb_false_r.
      destruct (N.ltb_spec y b) as [Hlt|Hge].
      * cbn. destruct (N.eqb_spec b y); [lia|]. split; discriminate.
      * cbn [orb]. destruct (N.eqb_spec y b) as [->|Hne].
        -- rewrite N.eqb_refl. cbn [andb]. destruct (N.ltb_spec b (b + 1)); [|lia]. rewrite andb_true_r.
           split.
           ++ intros Hq. apply (allff_le_prefix r (ub_none r Er) s Hs'). exact Hq.
           ++ intros Hq. apply prefix_le in Hq. exact Hq.
        -- destruct (N.eqb_spec b y); [congruence|]. cbn [andb negb].
           destruct (N.ltb_spec y (b + 1)); [lia|]. split; discriminate.
Qed.

(** the all-0xFF branch: the code returns the empty vector and hands it to RocksDB as the
    exclusive bound, under which no key qualifies; the scan prefix never gets there *)
Lemma allff_bound p : ub p = None -> prefix_upper_bound p = [].
Proof. intros H. unfold prefix_upper_bound. rewrite H. reflexivity. Qed.

Lemma nothing_below_nil lo k : in_range lo (Some []) k = false.
Proof. unfold in_range. destruct k; cbn; apply andb_false_r. Qed.

Lemma le_val_allff l : bytes_ok l -> Forall (fun b => 255 <= b) l -> le_val l = 256 ^ N.of_nat (length l) - 1.
Proof.
  induction l as [|b l IH]; intros Hok Hff; [reflexivity|].
  inversion Hok; subst. inversion Hff; subst. cbn [le_val length]. rewrite IH by assumption.
  rewrite Nat2N.inj_succ, N.pow_succ_r'.
  assert (0 < 256 ^ N.of_nat (length l)) by (apply N.neq_0_lt_0, N.pow_nonzero; lia). lia.
Qed.

Theorem allff_unreachable k : len_ok k -> ub (set_prefix k) <> None.
Proof.
  unfold len_ok. intros Hk Hn. apply ub_none in Hn. unfold set_prefix in Hn.
  apply Forall_app in Hn as [Hl _].
  pose proof (le_val_allff _ (le_bytes_ok 8 _) Hl) as Hv. rewrite le_bytes_length in Hv.
  fold (le64 (N.of_nat (length k))) in Hv. rewrite le64_val in Hv by lia.
  change (256 ^ N.of_nat 8) with (2 ^ 64) in Hv. lia.
Qed.

(** both backends visit the same keys: RocksDB's bounded range = Fjall's prefix filter *)
Lemma set_prefix_ok k : bytes_ok k -> bytes_ok (set_prefix k).
Proof. intros H. apply Forall_app. split; [apply le_bytes_ok|exact H]. Qed.

Theorem range_is_prefix k x : len_ok k -> bytes_ok k -> bytes_ok x ->
  in_range (set_prefix k) (Some (prefix_upper_bound (set_prefix k))) x = is_prefix (set_prefix k) x.
Proof.
  intros Hl Hk Hx. unfold prefix_upper_bound. destruct (ub (set_prefix k)) as [u|] eqn:E.
  - unfold in_range. pose proof (upper_bound _ x u (set_prefix_ok k Hk) Hx E) as H.
    destruct (is_prefix (set_prefix k) x); destruct (lex_le (set_prefix k) x && lex_lt x u); try reflexivity.
    + apply H. reflexivity.
    + symmetry. apply H. reflexivity.
  - exfalso. exact (allff_unreachable k Hl E).
Qed.
