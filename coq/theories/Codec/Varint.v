(** LEB128 varint as written four times in crates/serialize/src/postcard.rs
    (encode_varint_u16/32/64/128, read_varint_u16/32/64/128), parametric in the
    width [w].  Arithmetic form: [(v as u8) | 0x80] is [v mod 128 + 128],
    [v >>= 7] is [v / 128], [result |= (byte & 0x7f) << shift] on a [w]-bit
    register is [(acc + (b mod 128) * 2^shift) mod 2^w] as long as the added bits
    are disjoint from [acc] (they are: [acc < 2^shift], an invariant of the loop).
    The correspondence check (check C12) compares these definitions byte for byte
    with the Rust routines. *)
From QV Require Import Common.Prelude.
Open Scope N_scope.

Fixpoint enc (fuel : nat) (v : N) : list N :=
  match fuel with
  | O => []
  | S f => if v <? 128 then [v] else (v mod 128 + 128) :: enc f (v / 128)
  end.

(** fuel that always suffices: one more than the bit length. *)
Definition varint (v : N) : list N := enc (S (N.to_nat (N.log2 v))) v.

(** decoder: error when the stream ends, and when a byte arrives with [shift >= w]
    (the check comes after the read, as in the code). *)
Fixpoint dec (w : N) (shift acc : N) (bs : list N) : option (N * list N) :=
  match bs with
  | [] => None
  | b :: r =>
      if w <=? shift then None else
      let acc' := (acc + (b mod 128) * 2 ^ shift) mod 2 ^ w in
      if b <? 128 then Some (acc', r) else dec w (shift + 7) acc' r
  end.

Definition unvarint (w : N) (bs : list N) : option (N * list N) := dec w 0 0 bs.

Lemma enc_S f v : enc (S f) v = if v <? 128 then [v] else (v mod 128 + 128) :: enc f (v / 128).
Proof. reflexivity. Qed.

Lemma pow_split a b : 2 ^ (a + b) = 2 ^ a * 2 ^ b. Proof. apply N.pow_add_r. Qed.

Lemma rt_gen w (Hw : 0 < w) : forall f v shift acc rest,
  v < 128 ^ N.of_nat (S f) -> (shift = 0 \/ 0 < v) ->
  acc < 2 ^ shift -> acc + v * 2 ^ shift < 2 ^ w ->
  dec w shift acc (enc (S f) v ++ rest) = Some (acc + v * 2 ^ shift, rest).
Proof.
  induction f as [|f IH]; intros v shift acc rest Hf Hnz Hacc Hlt; rewrite enc_S.
  - assert (v < 128) by (change (N.of_nat 1) with 1 in Hf; rewrite N.pow_1_r in Hf; exact Hf).
    assert (Hsw : shift < w).
    { destruct (N.ltb_spec shift w) as [|Hge]; [assumption|exfalso].
      destruct Hnz as [->|Hv].
      - lia.
      - assert (2 ^ w <= 2 ^ shift) by (apply N.pow_le_mono_r; lia).
        assert (1 * 2 ^ shift <= v * 2 ^ shift) by (apply N.mul_le_mono_r; lia). lia. }
    destruct (N.ltb_spec v 128); [|lia].
    cbn [app dec]. destruct (N.leb_spec w shift); [lia|].
    rewrite (N.mod_small v 128) by lia.
    destruct (N.ltb_spec v 128); [|lia].
    rewrite N.mod_small by lia. reflexivity.
  - assert (Hsw : shift < w).
    { destruct (N.ltb_spec shift w) as [|Hge]; [assumption|exfalso].
      destruct Hnz as [->|Hv].
      - lia.
      - assert (2 ^ w <= 2 ^ shift) by (apply N.pow_le_mono_r; lia).
        assert (1 * 2 ^ shift <= v * 2 ^ shift) by (apply N.mul_le_mono_r; lia). lia. }
    destruct (N.ltb_spec v 128) as [Hsmall|Hbig].
    + cbn [app dec]. destruct (N.leb_spec w shift); [lia|].
      rewrite (N.mod_small v 128) by lia.
      destruct (N.ltb_spec v 128); [|lia].
      rewrite N.mod_small by lia. reflexivity.
    + cbn [app dec]. destruct (N.leb_spec w shift); [lia|].
      assert (Hb : (v mod 128 + 128) mod 128 = v mod 128).
      { rewrite N.add_mod by lia. rewrite N.mod_same by lia. rewrite N.add_0_r.
        rewrite N.mod_mod by lia. apply N.mod_small. apply N.mod_lt. lia. }
      rewrite Hb.
      destruct (N.ltb_spec (v mod 128 + 128) 128); [lia|].
      assert (Hv : v = 128 * (v / 128) + v mod 128) by (apply N.div_mod; lia).
      assert (Hm : v mod 128 < 128) by (apply N.mod_lt; lia).
      assert (Hp : 2 ^ (shift + 7) = 2 ^ shift * 128) by (rewrite pow_split; reflexivity).
      assert (Hle : acc + v mod 128 * 2 ^ shift + (v / 128) * 2 ^ (shift + 7) = acc + v * 2 ^ shift).
      { rewrite Hp. rewrite Hv at 3. lia. }
      rewrite (N.mod_small (acc + v mod 128 * 2 ^ shift)) by lia.
      rewrite IH.
      * f_equal. f_equal. lia.
      * rewrite (Nat2N.inj_succ (S f)), N.pow_succ_r' in Hf.
        apply N.div_lt_upper_bound; [lia|exact Hf].
      * right. assert (1 <= v / 128) by (apply N.div_le_lower_bound; lia). lia.
      * rewrite Hp. assert (v mod 128 * 2 ^ shift <= 127 * 2 ^ shift) by (apply N.mul_le_mono_r; lia). lia.
      * lia.
Qed.

Lemma fuel_enough v : v < 128 ^ N.of_nat (S (N.to_nat (N.log2 v))).
Proof.
  rewrite Nat2N.inj_succ, N2Nat.id.
  destruct (N.eq_dec v 0) as [->|Hnz].
  - cbn. lia.
  - assert (Hl : v < 2 ^ N.succ (N.log2 v)) by (apply N.log2_spec; lia).
    assert (2 ^ N.succ (N.log2 v) <= 128 ^ N.succ (N.log2 v)) by (apply N.pow_le_mono_l; lia).
    lia.
Qed.

Theorem varint_roundtrip w v rest :
  0 < w -> v < 2 ^ w -> unvarint w (varint v ++ rest) = Some (v, rest).
Proof.
  intros Hw Hv. unfold unvarint, varint.
  rewrite (rt_gen w Hw _ v 0 0 rest); rewrite ?N.pow_0_r.
  - f_equal. f_equal. lia.
  - apply fuel_enough.
  - left; reflexivity.
  - lia.
  - lia.
Qed.

(** Every byte of a varint is a byte. *)
Lemma enc_bytes f v : Forall (fun b => b < 256) (enc f v).
Proof.
  revert v; induction f as [|f IH]; intros v; cbn [enc]; [constructor|].
  destruct (N.ltb_spec v 128).
  - constructor; [lia|constructor].
  - constructor; [|apply IH]. assert (v mod 128 < 128) by (apply N.mod_lt; lia). lia.
Qed.

Lemma varint_bytes v : Forall (fun b => b < 256) (varint v).
Proof. apply enc_bytes. Qed.

(** The encoding is never empty. *)
Lemma varint_nonempty v : varint v <> [].
Proof. unfold varint. rewrite enc_S. destruct (v <? 128); discriminate. Qed.
