(** The serializer's code is prefix-free: a consequence of the C12 round-trip theorem
    (Codec/RoundTrip.v, [roundtrip]: decoding consumes exactly the encoding, whatever
    follows).  Used by the key scheme of the store backends (Kv/Scheme.v): the encoded
    discriminant and the encoded key of a wide-column cell are members of such codes. *)
From QV Require Import Common.Prelude Codec.Varint Codec.Model Codec.RoundTrip.
Open Scope N_scope.

Section PrefixFree.
Variable H : N -> val -> N.
Variable Play : N -> val -> Prop.
Hypothesis Hcf : forall id v1 v2, Play id v1 -> Play id v2 -> H id v1 = H id v2 -> v1 = v2.
Hypothesis H128 : forall id v, Play id v -> H id v < 2 ^ 128.

(** If the encoding of [v1] is a prefix of the encoding of [v2] (same type, each encoded
    in a fresh session), the two encodings are equal and the values are equal up to
    skipped fields. *)
Theorem encode_prefix_free t v1 v2 b1 b2 s1 s2 r :
  wt Play t v1 -> wt Play t v2 ->
  encode H t v1 [] = Some (b1, s1) -> encode H t v2 [] = Some (b2, s2) ->
  b2 = b1 ++ r -> r = [] /\ b1 = b2 /\ canon t v1 = canon t v2.
Proof.
  intros W1 W2 E1 E2 Hr.
  destruct (roundtrip H Play Hcf H128 t v1 W1) as (c1 & s1' & E1' & D1).
  destruct (roundtrip H Play Hcf H128 t v2 W2) as (c2 & s2' & E2' & D2).
  rewrite E1 in E1'. inversion E1'; subst c1 s1'. rewrite E2 in E2'. inversion E2'; subst c2 s2'.
  assert (HI : Iok H Play []) by (intros id h v Hl; discriminate Hl).
  destruct (D1 r [] HI) as (I1 & Dv1 & _). destruct (D2 [] [] HI) as (I2 & Dv2 & _).
  rewrite app_nil_r in Dv2. rewrite Hr in Dv2. rewrite Dv1 in Dv2. inversion Dv2; subst.
  repeat split; try assumption. rewrite app_nil_r. reflexivity.
Qed.

(** the set of encodings of the well-typed values of one type *)
Definition code_of (t : ty) (bs : list N) : Prop :=
  exists v s, wt Play t v /\ encode H t v [] = Some (bs, s).

Corollary code_prefix_free t a b : code_of t a -> code_of t b -> (exists r, b = a ++ r) -> a = b.
Proof.
  intros (v1 & s1 & W1 & E1) (v2 & s2 & W2 & E2) [r Hr].
  destruct (encode_prefix_free t v1 v2 a b s1 s2 r W1 W2 E1 E2 Hr) as (_ & E & _). exact E.
Qed.

End PrefixFree.
