(** Non-vacuity: the hypotheses of the round-trip theorem are met by a concrete
    scenario with a repeated interned handle nested in another interned value. *)
From QV Require Import Common.Prelude Codec.Varint Codec.Model Codec.RoundTrip.
Open Scope N_scope.

Definition c1 : val := VBytes [104; 105].                 (* "hi" *)
Definition c2 : val := VList [VList [c1]; VN 7].          (* struct { Interned<str>, u16 } *)
Definition tbl : list (N * val * N) := [(1, c1, 1000); (2, c2, 2 ^ 100 + 5)].
Definition Hx := table_hash tbl.
Definition PlayX (id : N) (v : val) : Prop := (id = 1 /\ v = c1) \/ (id = 2 /\ v = c2).

Definition tstr := TIntern 1 TStr.
Definition tpair := TIntern 2 (TTuple [tstr; TUInt 16]).
Definition tx := TTuple [tstr; tpair; tpair; TSeq tstr; TSkip (VN 9)].
Definition vx := VList [VList [c1]; VList [c2]; VList [c2]; VList [VList [c1]; VList [c1]]; VN 3].

Lemma PlayX_cf id v1 v2 : PlayX id v1 -> PlayX id v2 -> Hx id v1 = Hx id v2 -> v1 = v2.
Proof. intros [[-> ->]|[-> ->]] [[E ->]|[E ->]]; try discriminate E; reflexivity. Qed.
Lemma PlayX_128 id v : PlayX id v -> Hx id v < 2 ^ 128.
Proof. intros [[-> ->]|[-> ->]]; vm_compute; reflexivity. Qed.

Example wt_vx : wt PlayX tx vx.
Proof.
  cbn. unfold PlayX. repeat split; try reflexivity; auto 10;
  repeat constructor; auto 10.
Qed.

(** what it encodes to, and that decoding into an empty interner returns it *)
Example enc_vx :
  exists bs s, encode Hx tx vx [] = Some (bs, s) /\
               decode Hx tx (bs ++ [42]) [] = Some (canon tx vx, [42], [(2, 2 ^ 100 + 5, c2); (1, 1000, c1)]).
Proof. eexists _, _. split; vm_compute; reflexivity. Qed.
