(** Round trip of the serializer model: decoding the bytes written for any well-typed
    value of any type term returns that value (skipped fields replaced by their
    defaults), consumes exactly those bytes, and is insensitive to what follows. *)
From QV Require Import Common.Prelude Codec.Varint Codec.Model.
Open Scope N_scope.

(** * induction principle for the nested type *)
Section TyInd.
Variable P : ty -> Prop.
Hypothesis HU8 : P TU8.
Hypothesis HI8 : P TI8.
Hypothesis HUInt : forall w, P (TUInt w).
Hypothesis HSInt : forall w, P (TSInt w).
Hypothesis HChar : P TChar.
Hypothesis HFix : forall n, P (TFix n).
Hypothesis HStr : P TStr.
Hypothesis HNonZero : forall t, P t -> P (TNonZero t).
Hypothesis HSeq : forall t, P t -> P (TSeq t).
Hypothesis HTuple : forall ts, Forall P ts -> P (TTuple ts).
Hypothesis HEnum : forall k vss, Forall (Forall P) vss -> P (TEnum k vss).
Hypothesis HSkip : forall d, P (TSkip d).
Hypothesis HIntern : forall id t, P t -> P (TIntern id t).

Fixpoint ty_ind' (t : ty) : P t :=
  match t with
  | TU8 => HU8 | TI8 => HI8 | TUInt w => HUInt w | TSInt w => HSInt w | TChar => HChar
  | TFix n => HFix n | TStr => HStr
  | TNonZero t' => HNonZero t' (ty_ind' t')
  | TSeq t' => HSeq t' (ty_ind' t')
  | TTuple ts =>
      HTuple ts ((fix go (ts : list ty) : Forall P ts :=
                    match ts with
                    | [] => Forall_nil P
                    | t :: r => Forall_cons t (ty_ind' t) (go r)
                    end) ts)
  | TEnum k vss =>
      HEnum k vss
        ((fix gov (vss : list (list ty)) : Forall (Forall P) vss :=
            match vss with
            | [] => Forall_nil _
            | ts :: r =>
                Forall_cons ts
                  ((fix go (ts : list ty) : Forall P ts :=
                      match ts with
                      | [] => Forall_nil P
                      | t :: r' => Forall_cons t (ty_ind' t) (go r')
                      end) ts) (gov r)
            end) vss)
  | TSkip d => HSkip d
  | TIntern id t' => HIntern id t' (ty_ind' t')
  end.
End TyInd.

(** * primitive round trips *)
Lemma unzz_zz z : unzz (zz z) = z.
Proof.
  unfold unzz, zz. destruct (Z.leb_spec 0 z).
  - assert (E : Z.to_N (2 * z) = 2 * Z.to_N z) by lia. rewrite E.
    destruct (N.eqb_spec ((2 * Z.to_N z) mod 2) 0); lia.
  - assert (E : Z.to_N (- 2 * z - 1) = 2 * Z.to_N (- z - 1) + 1) by lia. rewrite E.
    destruct (N.eqb_spec ((2 * Z.to_N (- z - 1) + 1) mod 2) 0); lia.
Qed.

Lemma zz_bound w z : 0 < w -> (- 2 ^ Z.of_N (w - 1) <= z < 2 ^ Z.of_N (w - 1))%Z -> zz z < 2 ^ w.
Proof.
  intros Hw Hz.
  assert (E : 2 ^ w = 2 * 2 ^ (w - 1)).
  { replace w with (N.succ (w - 1)) at 1 by lia. apply N.pow_succ_r'. }
  assert (E2 : Z.of_N (2 ^ (w - 1)) = (2 ^ Z.of_N (w - 1))%Z) by (rewrite N2Z.inj_pow; reflexivity).
  unfold zz. destruct (Z.leb_spec 0 z); lia.
Qed.

Lemma le_rt n : forall x rest, x < 256 ^ N.of_nat n -> le_read n (le_bytes n x ++ rest) = Some (x, rest).
Proof.
  induction n as [|n IH]; intros x rest Hx.
  - cbn in *. f_equal. f_equal. lia.
  - cbn [le_bytes le_read app].
    rewrite Nat2N.inj_succ, N.pow_succ_r' in Hx.
    rewrite IH by (apply N.div_lt_upper_bound; lia).
    f_equal. f_equal. pose proof (N.div_mod x 256). lia.
Qed.

Lemma take_rt l : forall rest, take_bytes (length l) (l ++ rest) = Some (l, rest).
Proof. induction l as [|b l IH]; intros rest; cbn [length take_bytes app]; [reflexivity|]. rewrite IH. reflexivity. Qed.

Lemma compact128_rt h rest : h < 2 ^ 128 -> uncompact128 (compact128 h ++ rest) = Some (h, rest).
Proof.
  intros Hh. unfold uncompact128, compact128. rewrite <- app_assoc.
  assert (E : 2 ^ 128 = 2 ^ 64 * 2 ^ 64) by (rewrite <- N.pow_add_r; reflexivity).
  rewrite varint_roundtrip; [|lia|apply N.mod_lt; lia].
  rewrite varint_roundtrip; [|lia|apply N.div_lt_upper_bound; lia].
  f_equal. f_equal. pose proof (N.div_mod h (2 ^ 64)). lia.
Qed.

Lemma lsize_cons x l : lsize (x :: l) = (vsize x + lsize l)%nat.
Proof. reflexivity. Qed.
Lemma vsize_list l : vsize (VList l) = S (lsize l).
Proof.
  change (S ((fix go (l : list val) : nat := match l with [] => O | x :: r => (vsize x + go r)%nat end) l) = S (lsize l)).
  apply f_equal. induction l as [|x r IH]; [reflexivity|]. rewrite lsize_cons, <- IH. reflexivity.
Qed.
Lemma vsize_var i l : vsize (VVar i l) = S (lsize l).
Proof.
  change (S ((fix go (l : list val) : nat := match l with [] => O | x :: r => (vsize x + go r)%nat end) l) = S (lsize l)).
  apply f_equal. induction l as [|x r IH]; [reflexivity|]. rewrite lsize_cons, <- IH. reflexivity.
Qed.

Section WithHash.
Variable H : N -> val -> N.
(** the interned contents "in play" in one scenario: those handed to the encoder and
    those the decoding interner already holds.  On them the 128-bit hash is assumed
    collision free (H-hash); [Play] may be any finite set, so the hypothesis is
    satisfiable (see [Examples.v]). *)
Variable Play : N -> val -> Prop.
Hypothesis Hcf : forall id v1 v2, Play id v1 -> Play id v2 -> H id v1 = H id v2 -> v1 = v2.
Hypothesis Hh128 : forall id v, Play id v -> H id v < 2 ^ 128.

Definition tag_ok (k : tagkind) (i : nat) : Prop :=
  match k with
  | TagBool => (i < 2)%nat
  | TagU8 => (i < 256)%nat
  | TagUsize => N.of_nat i < 2 ^ 64
  end.

Definition wt_tuple (wt : ty -> val -> Prop) :=
  fix go (ts : list ty) (vs : list val) : Prop :=
    match ts, vs with
    | [], [] => True
    | t :: ts', v :: vs' => wt t v /\ go ts' vs'
    | _, _ => False
    end.
Definition wt_variant (wt : ty -> val -> Prop) (vs : list val) :=
  fix pick (vss : list (list ty)) (i : nat) : Prop :=
    match vss, i with
    | ts :: _, O => wt_tuple wt ts vs
    | _ :: r, S i' => pick r i'
    | [], _ => False
    end.

(** well-typedness: the values a Rust value of the described type can take *)
Fixpoint wt (t : ty) (v : val) {struct t} : Prop :=
  match t with
  | TU8 => match v with VN n => n < 256 | _ => False end
  | TI8 => match v with VZ z => (-128 <= z < 128)%Z | _ => False end
  | TUInt w => match v with VN n => 0 < w /\ n < 2 ^ w | _ => False end
  | TSInt w => match v with VZ z => 0 < w /\ (- 2 ^ Z.of_N (w - 1) <= z < 2 ^ Z.of_N (w - 1))%Z | _ => False end
  | TChar => match v with VN n => char_ok n = true | _ => False end
  | TFix n => match v with VN x => x < 256 ^ N.of_nat n | _ => False end
  | TStr => match v with
            | VBytes l => utf8_valid l = true /\ N.of_nat (length l) < 2 ^ 64
            | _ => False end
  | TNonZero t' => is_int t' = true /\ wt t' v /\ nonzero v = true
  | TSeq t' => match v with
               | VList vs => Forall (wt t') vs /\ N.of_nat (length vs) < 2 ^ 64
               | _ => False end
  | TTuple ts => match v with VList vs => wt_tuple wt ts vs | _ => False end
  | TEnum k vss => match v with VVar i vs => wt_variant wt vs vss i /\ tag_ok k i | _ => False end
  | TSkip _ => True
  | TIntern id t' =>
      match v with
      | VList [c] => wt t' c /\ Play id c /\ canon t' c = c   (* no skipped field inside *)
      | _ => False end
  end.

(** decode-side invariant: the interner maps a hash only to a value with that hash *)
Definition Iok (I : interner) : Prop :=
  forall id h v, ilookup I id h = Some v -> H id v = h /\ Play id v.
(** every hash the encoder has marked as seen is resolvable by the decoder, or belongs
    to an enclosing handle whose content is still being written (the encoder marks a
    handle before it writes the content, the decoder registers it afterwards); such a
    content is at least as large as anything still to be encoded, so it is never
    referenced from inside itself. *)
Definition Rel (n : nat) (s : seen) (I : interner) : Prop :=
  forall id h, seen_mem s id h = true ->
    ilookup I id h <> None \/ exists c, Play id c /\ H id c = h /\ (n <= vsize c)%nat.
Definition Ext (I I' : interner) : Prop :=
  forall id h, ilookup I id h <> None -> ilookup I' id h <> None.
Definition New (s s' : seen) (I' : interner) : Prop :=
  forall id h, seen_mem s' id h = true -> seen_mem s id h = true \/ ilookup I' id h <> None.

Lemma Rel_step n s I s' I' : Rel n s I -> Ext I I' -> New s s' I' -> Rel n s' I'.
Proof.
  intros HR HE HN id h Hm. destruct (HN id h Hm) as [Hs|Hi]; [|left; exact Hi].
  destruct (HR id h Hs) as [Hi|Hp]; [left; apply HE; exact Hi|right; exact Hp].
Qed.
Lemma Rel_mono n n' s I : Rel n s I -> (n' <= n)%nat -> Rel n' s I.
Proof.
  intros HR Hle id h Hm. destruct (HR id h Hm) as [Hi|(c & Hp & Hh & Hs)]; [left; exact Hi|].
  right. exists c. repeat split; auto. lia.
Qed.
Lemma Ext_refl I : Ext I I. Proof. intros id h Hx; exact Hx. Qed.
Lemma Ext_trans I1 I2 I3 : Ext I1 I2 -> Ext I2 I3 -> Ext I1 I3.
Proof. intros H1 H2 id h Hx. apply H2, H1, Hx. Qed.
Lemma New_refl s I : New s s I. Proof. intros id h Hm; left; exact Hm. Qed.
Lemma New_trans s1 s2 s3 I2 I3 : New s1 s2 I2 -> Ext I2 I3 -> New s2 s3 I3 -> New s1 s3 I3.
Proof.
  intros H1 HE H2 id h Hm. destruct (H2 id h Hm) as [Hs|Hi]; [|right; exact Hi].
  destruct (H1 id h Hs) as [Hs1|Hi]; [left; exact Hs1|right; apply HE; exact Hi].
Qed.

Definition Post (s s' : seen) (I I' : interner) : Prop := Iok I' /\ Ext I I' /\ New s s' I'.
Lemma Post_refl s I : Iok I -> Post s s I I.
Proof. intros HI. split; [exact HI|split; [apply Ext_refl|apply New_refl]]. Qed.

Lemma Post_trans s s1 s2 I I1 I2 : Post s s1 I I1 -> Post s1 s2 I1 I2 -> Post s s2 I I2.
Proof.
  intros (A1 & B1 & C1) (A2 & B2 & C2). split; [exact A2|split].
  - eapply Ext_trans; eassumption.
  - eapply New_trans; eassumption.
Qed.
Lemma Rel_post n s I s' I' : Rel n s I -> Post s s' I I' -> Rel n s' I'.
Proof. intros HR (A & B & C). eapply Rel_step; eassumption. Qed.

Definition RT (t : ty) : Prop :=
  forall v, wt t v -> forall s, exists bs s',
    encode H t v s = Some (bs, s') /\
    forall rest I n, (vsize v <= n)%nat -> Iok I -> Rel n s I -> exists I',
      decode H t (bs ++ rest) I = Some (canon t v, rest, I') /\ Post s s' I I'.

Lemma tuple_rt ts : Forall RT ts -> forall vs, wt_tuple wt ts vs -> forall s, exists bs s',
    enc_tuple (encode H) ts vs s = Some (bs, s') /\
    forall rest I n, (lsize vs <= n)%nat -> Iok I -> Rel n s I -> exists I',
      dec_tuple (decode H) ts (bs ++ rest) I = Some (canon_tuple canon ts vs, rest, I') /\ Post s s' I I'.
Proof.
  induction 1 as [|t ts Ht Hts IH]; intros vs Hwt s.
  - destruct vs; [|contradiction]. exists [], s. split; [reflexivity|].
    intros rest I n Hn HI HR. exists I. split; [reflexivity|apply Post_refl; exact HI].
  - destruct vs as [|v vs]; [contradiction|]. destruct Hwt as [Hv Hvs].
    destruct (Ht v Hv s) as (b1 & s1 & E1 & D1).
    destruct (IH vs Hvs s1) as (b2 & s2 & E2 & D2).
    exists (b1 ++ b2), s2. split.
    + cbn [enc_tuple]. rewrite E1. fold (enc_tuple (encode H)). rewrite E2. reflexivity.
    + intros rest I n Hn HI HR. rewrite <- app_assoc. rewrite lsize_cons in Hn.
      destruct (D1 (b2 ++ rest) I n ltac:(lia) HI HR) as (I1 & Dv & HP1).
      destruct (D2 rest I1 n ltac:(lia) (proj1 HP1) (Rel_post _ _ _ _ _ HR HP1)) as (I2 & Dvs & HP2).
      exists I2. cbn [dec_tuple canon_tuple]. rewrite Dv. fold (dec_tuple (decode H)). rewrite Dvs.
      split; [reflexivity|eapply Post_trans; eassumption].
Qed.

Lemma variant_rt vss : Forall (Forall RT) vss -> forall i vs, wt_variant wt vs vss i -> forall s, exists bs s',
    enc_variant (encode H) vs s vss i = Some (bs, s') /\
    forall rest I n, (lsize vs <= n)%nat -> Iok I -> Rel n s I -> exists I',
      dec_variant (decode H) (bs ++ rest) I vss i = Some (canon_variant canon vs vss i, rest, I') /\ Post s s' I I'.
Proof.
  induction 1 as [|ts vss Hts Hvss IH]; intros i vs Hwt s.
  - destruct i; contradiction.
  - destruct i as [|i].
    + cbn in Hwt. destruct (tuple_rt ts Hts vs Hwt s) as (bs & s' & E & D).
      exists bs, s'. split; [exact E|]. exact D.
    + cbn in Hwt. destruct (IH i vs Hwt s) as (bs & s' & E & D).
      exists bs, s'. split; [exact E|exact D].
Qed.

Lemma seq_rt t : RT t -> forall vs, Forall (wt t) vs -> forall s, exists bs s',
    enc_seq (encode H t) vs s = Some (bs, s') /\
    forall rest I n, (lsize vs <= n)%nat -> Iok I -> Rel n s I -> exists I',
      dec_seq (decode H t) (length vs) (bs ++ rest) I = Some (map (canon t) vs, rest, I') /\ Post s s' I I'.
Proof.
  intros Ht. induction 1 as [|v vs Hv Hvs IH]; intros s.
  - exists [], s. split; [reflexivity|]. intros rest I n Hn HI HR. exists I. split; [reflexivity|apply Post_refl; exact HI].
  - destruct (Ht v Hv s) as (b1 & s1 & E1 & D1).
    destruct (IH s1) as (b2 & s2 & E2 & D2).
    exists (b1 ++ b2), s2. split.
    + cbn [enc_seq]. rewrite E1. fold (enc_seq (encode H t)). rewrite E2. reflexivity.
    + intros rest I n Hn HI HR. rewrite <- app_assoc. rewrite lsize_cons in Hn.
      destruct (D1 (b2 ++ rest) I n ltac:(lia) HI HR) as (I1 & Dv & HP1).
      destruct (D2 rest I1 n ltac:(lia) (proj1 HP1) (Rel_post _ _ _ _ _ HR HP1)) as (I2 & Dvs & HP2).
      exists I2. cbn [dec_seq length map]. rewrite Dv. fold (dec_seq (decode H t)). rewrite Dvs.
      split; [reflexivity|eapply Post_trans; eassumption].
Qed.

Lemma tag_rt k i rest : tag_ok k i -> tag_dec k (tag_enc k i ++ rest) = Some (i, rest).
Proof.
  destruct k; cbn [tag_ok tag_enc tag_dec]; intros Hi.
  - destruct i as [|[|i]]; [reflexivity|reflexivity|lia].
  - cbn [app]. rewrite Nat2N.id. reflexivity.
  - rewrite varint_roundtrip by lia. rewrite Nat2N.id. reflexivity.
Qed.

Lemma seen_mem_cons s id h id' h' :
  seen_mem ((id, h) :: s) id' h' = ((id =? id') && (h =? h')) || seen_mem s id' h'.
Proof. reflexivity. Qed.

Lemma ilookup_cons I id h v id' h' :
  ilookup ((id, h, v) :: I) id' h' = if (id =? id') && (h =? h') then Some v else ilookup I id' h'.
Proof. reflexivity. Qed.

Ltac prim I := exists I; cbn [decode canon app]; split; [reflexivity|apply Post_refl; assumption].

Theorem roundtrip_all : forall t, RT t.
Proof.
  induction t using ty_ind'; intros v Hwt s.
  - (* u8 *) destruct v; try contradiction. exists [n], s. split; [reflexivity|].
    intros rest I m Hm HI HR. prim I.
  - (* i8 *) destruct v; try contradiction. eexists _, s. split; [reflexivity|].
    intros rest I m Hm HI HR. cbn in Hwt.
    assert (E : (if Z.to_N (z mod 256) <? 128 then Z.of_N (Z.to_N (z mod 256))
                 else (Z.of_N (Z.to_N (z mod 256)) - 256)%Z) = z).
    { destruct (N.ltb_spec (Z.to_N (z mod 256)) 128); lia. }
    exists I. cbn [decode canon app]. rewrite E. (split; [reflexivity|apply Post_refl; assumption]).
  - (* uint *) destruct v; try contradiction. destruct Hwt as [Hw Hn].
    eexists _, s. split; [reflexivity|]. intros rest I m Hm HI HR. exists I.
    cbn [decode canon]. rewrite varint_roundtrip by assumption. (split; [reflexivity|apply Post_refl; assumption]).
  - (* sint *) destruct v; try contradiction. destruct Hwt as [Hw Hz].
    eexists _, s. split; [reflexivity|]. intros rest I m Hm HI HR. exists I.
    cbn [decode canon]. rewrite varint_roundtrip by (auto using zz_bound). rewrite unzz_zz.
    (split; [reflexivity|apply Post_refl; assumption]).
  - (* char *) destruct v; try contradiction. cbn in Hwt.
    eexists _, s. split; [reflexivity|]. intros rest I m Hm HI HR. exists I.
    cbn [decode canon]. rewrite varint_roundtrip; [rewrite Hwt; (split; [reflexivity|apply Post_refl; assumption])|lia|].
    unfold char_ok in Hwt. assert (2 ^ 32 = 4294967296) by reflexivity. lia.
  - (* fixed *) destruct v; try contradiction. cbn in Hwt.
    eexists _, s. split; [reflexivity|]. intros rest I m Hm HI HR. exists I.
    cbn [decode canon]. rewrite le_rt by assumption. (split; [reflexivity|apply Post_refl; assumption]).
  - (* str *) destruct v; try contradiction. destruct Hwt as [Hu Hl].
    eexists _, s. split; [reflexivity|]. intros rest I m Hm HI HR. exists I.
    cbn [decode canon]. rewrite <- app_assoc. rewrite varint_roundtrip by (assumption || lia).
    rewrite Nat2N.id, take_rt, Hu. (split; [reflexivity|apply Post_refl; assumption]).
  - (* nonzero *) destruct Hwt as (Hint & Hwt & Hnz).
    destruct (IHt v Hwt s) as (bs & s' & E & D). exists bs, s'. split; [exact E|].
    intros rest I m Hm HI HR. destruct (D rest I m Hm HI HR) as (I' & Dv & HP).
    exists I'. cbn [decode canon]. rewrite Dv.
    assert (Hc : canon t v = v) by (destruct t; try discriminate; reflexivity).
    rewrite Hc in *. rewrite Hnz. auto.
  - (* seq *) destruct v; try contradiction. destruct Hwt as [Hvs Hl].
    destruct (seq_rt t IHt l Hvs s) as (bs & s' & E & D).
    eexists _, s'. split; [cbn [encode]; rewrite E; reflexivity|].
    intros rest I m Hm HI HR. rewrite vsize_list in Hm.
    destruct (D rest I m ltac:(lia) HI HR) as (I' & Dv & HP).
    exists I'. cbn [decode canon]. rewrite <- app_assoc, varint_roundtrip by (assumption || lia).
    rewrite Nat2N.id, Dv. auto.
  - (* tuple *) destruct v; try contradiction. cbn in Hwt.
    destruct (tuple_rt ts H0 l Hwt s) as (bs & s' & E & D).
    exists bs, s'. split; [exact E|].
    intros rest I m Hm HI HR. rewrite vsize_list in Hm.
    destruct (D rest I m ltac:(lia) HI HR) as (I' & Dv & HP).
    exists I'. cbn [decode canon]. rewrite Dv. auto.
  - (* enum *) destruct v; try contradiction. destruct Hwt as [Hvar Htag].
    destruct (variant_rt vss H0 i l Hvar s) as (bs & s' & E & D).
    eexists _, s'. split; [cbn [encode]; rewrite E; reflexivity|].
    intros rest I m Hm HI HR. rewrite vsize_var in Hm.
    destruct (D rest I m ltac:(lia) HI HR) as (I' & Dv & HP).
    exists I'. cbn [decode canon]. rewrite <- app_assoc, tag_rt by assumption. rewrite Dv. auto.
  - (* skip *) exists [], s. split; [reflexivity|]. intros rest I m Hm HI HR. prim I.
  - (* interned *)
    destruct v as [| | |l|]; try contradiction. destruct l as [|c [|? ?]]; try contradiction.
    destruct Hwt as (Hwt & Hplay & Hcanon). cbn [encode canon]. rewrite Hcanon.
    destruct (seen_mem s id (H id c)) eqn:Hseen.
    + (* by reference *)
      eexists _, s. split; [reflexivity|]. intros rest I m Hm HI HR. exists I.
      cbn [decode app]. rewrite compact128_rt by auto.
      rewrite vsize_list, lsize_cons in Hm. cbn [lsize fold_right] in Hm.
      destruct (HR id (H id c) Hseen) as [Hin|(c0 & Hp0 & Hh0 & Hs0)].
      * destruct (ilookup I id (H id c)) as [v'|] eqn:El; [|congruence].
        destruct (HI _ _ _ El) as [Hh Hp].
        assert (v' = c) by (apply (Hcf id); auto). subst v'.
        (split; [reflexivity|apply Post_refl; assumption]).
      * assert (c0 = c) by (apply (Hcf id); auto). subst c0. lia.
    + (* inline: the handle is marked as seen, then its content is written *)
      destruct (IHt c Hwt ((id, H id c) :: s)) as (bs & s' & E & D).
      eexists _, s'. split; [rewrite E; reflexivity|].
      intros rest I m Hm HI HR. cbn [decode app].
      rewrite vsize_list, lsize_cons in Hm. cbn [lsize fold_right] in Hm.
      assert (HR0 : Rel (vsize c) ((id, H id c) :: s) I).
      { intros id' h' Hmem. rewrite seen_mem_cons in Hmem.
        destruct ((id =? id') && (H id c =? h')) eqn:Eq.
        - apply andb_prop in Eq as [E1 E2]. apply N.eqb_eq in E1, E2. subst.
          right. exists c. auto.
        - cbn in Hmem. exact (Rel_mono m (vsize c) s I HR ltac:(lia) id' h' Hmem). }
      destruct (D rest I (vsize c) (le_n _) HI HR0) as (I' & Dv & HI' & HE' & HN').
      rewrite Hcanon in Dv. rewrite Dv.
      destruct (ilookup I' id (H id c)) as [v'|] eqn:El.
      * destruct (HI' _ _ _ El) as [Hh Hp].
        assert (v' = c) by (apply (Hcf id); auto). subst v'.
        exists I'. split; [reflexivity|]. split; [exact HI'|split; [exact HE'|]].
        intros id' h' Hmem. destruct (HN' id' h' Hmem) as [Hs|Hi]; [|right; exact Hi].
        rewrite seen_mem_cons in Hs.
        destruct ((id =? id') && (H id c =? h')) eqn:Eq.
        -- apply andb_prop in Eq as [E1 E2]. apply N.eqb_eq in E1, E2. subst. right. congruence.
        -- left. exact Hs.
      * exists ((id, H id c, c) :: I'). split; [reflexivity|]. split; [|split].
        -- intros id' h' v0. rewrite ilookup_cons.
           destruct ((id =? id') && (H id c =? h')) eqn:Eq.
           ++ apply andb_prop in Eq as [E1 E2]. apply N.eqb_eq in E1, E2. subst.
              intros [= <-]. split; [reflexivity|exact Hplay].
           ++ apply HI'.
        -- intros id' h' Hx. rewrite ilookup_cons.
           destruct ((id =? id') && (H id c =? h')); [discriminate|]. apply HE', Hx.
        -- intros id' h' Hmem. rewrite ilookup_cons.
           destruct ((id =? id') && (H id c =? h')) eqn:Eq; [right; discriminate|].
           destruct (HN' id' h' Hmem) as [Hs|Hi]; [|right; exact Hi].
           rewrite seen_mem_cons, Eq in Hs. left. exact Hs.
Qed.

(** * the statements the property file exposes *)

(** Exact-consumption round trip from a fresh encode session, into any consistent interner. *)
Theorem roundtrip t v : wt t v -> exists bs s',
  encode H t v [] = Some (bs, s') /\
  forall rest I, Iok I -> exists I', decode H t (bs ++ rest) I = Some (canon t v, rest, I') /\ Iok I'.
Proof.
  intros Hwt. destruct (roundtrip_all t v Hwt []) as (bs & s' & E & D).
  exists bs, s'. split; [exact E|]. intros rest I HI.
  destruct (D rest I (vsize v) (le_n _) HI) as (I' & Dv & HI' & _).
  - intros id h Hm. discriminate.
  - exists I'. auto.
Qed.

End WithHash.
