(** Correspondence checker for the codec model: the harness writes what the real
    serializer did as a list of [case]s; [failures] returns the indices on which the
    model disagrees (evaluated with [vm_compute] by one coqc call per shard). *)
From QV Require Import Common.Prelude Codec.Varint Codec.Model.
Open Scope N_scope.

Inductive case :=
| RT (t : ty) (v : val) (bytes : list N) (tbl : list (N * val * N))
     (* the encoder wrote [bytes] for [v]; the decoder returned an equal value *)
| DOK (t : ty) (bytes : list N) (v : val) (consumed : N)
     (* the decoder accepted arbitrary [bytes], returned [v], consumed that many *)
| DERR (t : ty) (bytes : list N).
     (* the decoder rejected [bytes] *)

Definition trailer : list N := [165; 128; 1].

Definition no_hash (_ : N) (_ : val) : N := 0.

Definition check (c : case) : bool :=
  match c with
  | RT t v bytes tbl =>
      let H := table_hash tbl in
      match encode H t v [] with
      | Some (bs, _) =>
          list_eqb N.eqb bs bytes &&
          match decode H t (bytes ++ trailer) [] with
          | Some (d, rest, _) => val_eqb d (canon t v) && list_eqb N.eqb rest trailer
          | None => false
          end
      | None => false
      end
  | DOK t bytes v consumed =>
      match decode no_hash t bytes [] with
      | Some (d, rest, _) => val_eqb d v && (N.of_nat (length bytes) =? consumed + N.of_nat (length rest))
      | None => false
      end
  | DERR t bytes =>
      match decode no_hash t bytes [] with Some _ => false | None => true end
  end.

Fixpoint failures_from (i : N) (cs : list case) : list N :=
  match cs with
  | [] => []
  | c :: r => if check c then failures_from (i + 1) r else i :: failures_from (i + 1) r
  end.
Definition failures (cs : list case) : list N := failures_from 0 cs.
