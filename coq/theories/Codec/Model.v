(** Executable model of the qbice serializer (crates/serialize: encode.rs, decode.rs,
    postcard.rs, the derive in crates/serialize_derive, and the interned-handle
    wire format of crates/storage/src/intern.rs).

    A Rust type is described by a [ty] term and a Rust value by a [val] term; the
    harness (harness/src/bin/codec.rs) prints both for every concrete type of its
    universe, so that the bytes the real encoder produced can be compared with
    [encode] and the value/position the real decoder produced with [decode].

    How Rust types map to [ty] (the harness does the mapping, see its `Uni` trait):
      u8 -> TU8, i8 -> TI8, u16/u32/u64/u128/usize -> TUInt 16/32/64/128/64,
      i16.. -> TSInt w, char -> TChar, f32/f64 -> TFix 4/8 (bit pattern),
      String/str/Box<str>.. -> TStr, NonZero* -> TNonZero inner,
      bool -> TEnum TagBool [[];[]],  Option<T> -> TEnum TagBool [[];[T]],
      Result<T,E> -> TEnum TagBool [[E];[T]], Bound<T> -> TEnum TagU8 [[];[T];[T]],
      derived enum -> TEnum TagUsize variants, () / PhantomData / RangeFull -> TTuple [],
      tuples, derived structs, Range*, Duration, [T;N] -> TTuple fields,
      #[serialize(skip)] field -> TSkip default,
      Vec/VecDeque/LinkedList/Box<[T]>/SmallVec/BTreeSet/HashSet/DashSet -> TSeq T
        (a set/map is modelled by its entry list "as iterated"),
      maps -> TSeq (TTuple [K;V]),  Box/Rc/Arc/Cow/Cell/RefCell/Wrapping/Reverse/atomics -> inner,
      Interned<T> -> TIntern id T (id = one number per distinct STABLE_TYPE_ID); the value of a
      handle is [VList [content]]. *)
From QV Require Import Common.Prelude Codec.Varint.
Open Scope N_scope.

Inductive val : Type :=
| VN (n : N)                       (* unsigned integers, char, float bit patterns *)
| VZ (z : Z)                       (* signed integers *)
| VBytes (l : list N)              (* string contents *)
| VList (l : list val)             (* tuples, structs, sequences *)
| VVar (i : nat) (l : list val).   (* enum variant with its fields *)

Inductive tagkind := TagBool | TagU8 | TagUsize.

Inductive ty : Type :=
| TU8 | TI8
| TUInt (w : N)
| TSInt (w : N)
| TChar
| TFix (n : nat)
| TStr
| TNonZero (t : ty)
| TSeq (t : ty)
| TTuple (ts : list ty)
| TEnum (k : tagkind) (vs : list (list ty))
| TSkip (d : val)
| TIntern (id : N) (t : ty).

(** * zigzag, in arithmetic form *)
Definition zz (z : Z) : N := if (0 <=? z)%Z then Z.to_N (2 * z) else Z.to_N (- 2 * z - 1).
Definition unzz (n : N) : Z := if n mod 2 =? 0 then Z.of_N (n / 2) else (- Z.of_N (n / 2) - 1)%Z.

(** * fixed-width little endian *)
Fixpoint le_bytes (n : nat) (x : N) : list N :=
  match n with O => [] | S n' => (x mod 256) :: le_bytes n' (x / 256) end.
Fixpoint le_read (n : nat) (bs : list N) : option (N * list N) :=
  match n with
  | O => Some (0, bs)
  | S n' => match bs with
            | [] => None
            | b :: r => do (x, r') <- le_read n' r; Some (b + 256 * x, r')
            end
  end.

Fixpoint take_bytes (n : nat) (bs : list N) : option (list N * list N) :=
  match n with
  | O => Some ([], bs)
  | S n' => match bs with [] => None | b :: r => do (l, r') <- take_bytes n' r; Some (b :: l, r') end
  end.

(** * UTF-8 validity exactly as [core::str::from_utf8] accepts it (Unicode Table 3-7). *)
Definition in_range (b lo hi : N) : bool := (lo <=? b) && (b <=? hi).
Definition cont (b : N) : bool := in_range b 128 191.
Fixpoint utf8_valid_fuel (fuel : nat) (bs : list N) : bool :=
  match fuel with
  | O => false
  | S f =>
    match bs with
    | [] => true
    | b0 :: r =>
      if b0 <? 128 then utf8_valid_fuel f r
      else if in_range b0 194 223 then
        match r with b1 :: r' => cont b1 && utf8_valid_fuel f r' | _ => false end
      else if in_range b0 224 239 then
        match r with
        | b1 :: b2 :: r' =>
            (if b0 =? 224 then in_range b1 160 191
             else if b0 =? 237 then in_range b1 128 159 else cont b1)
            && cont b2 && utf8_valid_fuel f r'
        | _ => false end
      else if in_range b0 240 244 then
        match r with
        | b1 :: b2 :: b3 :: r' =>
            (if b0 =? 240 then in_range b1 144 191
             else if b0 =? 244 then in_range b1 128 143 else cont b1)
            && cont b2 && cont b3 && utf8_valid_fuel f r'
        | _ => false end
      else false
    end
  end.
Definition utf8_valid (bs : list N) : bool := utf8_valid_fuel (S (length bs)) bs.

Definition char_ok (c : N) : bool := (c <? 55296) || ((57344 <=? c) && (c <=? 1114111)).

(** * value equality (needed by the hash table instance and by the checks) *)
Fixpoint list_eqb {A} (eqb : A -> A -> bool) (a b : list A) : bool :=
  match a, b with
  | [], [] => true
  | x :: a', y :: b' => eqb x y && list_eqb eqb a' b'
  | _, _ => false
  end.
Fixpoint val_eqb (a b : val) {struct a} : bool :=
  match a, b with
  | VN x, VN y => x =? y
  | VZ x, VZ y => (x =? y)%Z
  | VBytes x, VBytes y => list_eqb N.eqb x y
  | VList x, VList y =>
      (fix go (x y : list val) : bool :=
         match x, y with
         | [], [] => true
         | u :: x', v :: y' => val_eqb u v && go x' y'
         | _, _ => false end) x y
  | VVar i x, VVar j y =>
      Nat.eqb i j &&
      (fix go (x y : list val) : bool :=
         match x, y with
         | [], [] => true
         | u :: x', v :: y' => val_eqb u v && go x' y'
         | _, _ => false end) x y
  | _, _ => false
  end.

(** size of a value (used as the measure that says a value cannot contain itself) *)
Fixpoint vsize (v : val) : nat :=
  match v with
  | VList l => S ((fix go (l : list val) : nat := match l with [] => O | x :: r => (vsize x + go r)%nat end) l)
  | VVar _ l => S ((fix go (l : list val) : nat := match l with [] => O | x :: r => (vsize x + go r)%nat end) l)
  | _ => 1%nat
  end.
Definition lsize (l : list val) : nat := fold_right (fun x a => (vsize x + a)%nat) O l.

(** * sessions *)
(** encode side: [Session]'s [SeenInterned] set of (type id, 128-bit hash). *)
Definition seen := list (N * N).
Definition seen_mem (s : seen) (id h : N) : bool :=
  existsb (fun '(i, x) => (i =? id) && (x =? h)) s.
(** decode side: the interner the plugin carries, as (type id, hash, value). *)
Definition interner := list (N * N * val).
Fixpoint ilookup (I : interner) (id h : N) : option val :=
  match I with
  | [] => None
  | (i, x, v) :: r => if (i =? id) && (x =? h) then Some v else ilookup r id h
  end.

Definition tag_enc (k : tagkind) (i : nat) : list N :=
  match k with
  | TagBool => [if Nat.eqb i 0 then 0 else 1]
  | TagU8 => [N.of_nat i]
  | TagUsize => varint (N.of_nat i)
  end.
Definition tag_dec (k : tagkind) (bs : list N) : option (nat * list N) :=
  match k with
  | TagBool => match bs with [] => None | b :: r => Some (if b =? 0 then O else 1%nat, r) end
  | TagU8 => match bs with [] => None | b :: r => Some (N.to_nat b, r) end
  | TagUsize => do (n, r) <- unvarint 64 bs; Some (N.to_nat n, r)
  end.

Section WithHash.
(** The 128-bit stable hash of an interned value, as a function of (type id, value):
    an oracle; the harness instantiates it with the table of hashes the real
    interner computed (H-hash in DESIGN.md section 3). *)
Variable H : N -> val -> N.

Definition compact128 (h : N) : list N := varint (h mod 2 ^ 64) ++ varint (h / 2 ^ 64).
Definition uncompact128 (bs : list N) : option (N * list N) :=
  do (lo, r) <- unvarint 64 bs; do (hi, r') <- unvarint 64 r; Some (lo + 2 ^ 64 * hi, r').

Definition enc_res := option (list N * seen).

Definition enc_tuple (enc : ty -> val -> seen -> enc_res) :=
  fix go (ts : list ty) (vs : list val) (s : seen) : enc_res :=
    match ts, vs with
    | [], [] => Some ([], s)
    | t :: ts', v :: vs' =>
        do (b1, s1) <- enc t v s; do (b2, s2) <- go ts' vs' s1; Some (b1 ++ b2, s2)
    | _, _ => None
    end.

Definition enc_seq (enc1 : val -> seen -> enc_res) :=
  fix go (vs : list val) (s : seen) : enc_res :=
    match vs with
    | [] => Some ([], s)
    | v :: vs' => do (b1, s1) <- enc1 v s; do (b2, s2) <- go vs' s1; Some (b1 ++ b2, s2)
    end.

Definition enc_variant (enc : ty -> val -> seen -> enc_res) (vs : list val) (s : seen) :=
  fix pick (vss : list (list ty)) (i : nat) : enc_res :=
    match vss, i with
    | ts :: _, O => enc_tuple enc ts vs s
    | _ :: r, S i' => pick r i'
    | [], _ => None
    end.

Fixpoint is_int (t : ty) : bool :=
  match t with TU8 | TI8 | TUInt _ | TSInt _ => true | _ => false end.

Fixpoint encode (t : ty) (v : val) (s : seen) {struct t} : enc_res :=
  match t with
  | TU8 => match v with VN n => Some ([n], s) | _ => None end
  | TI8 => match v with VZ z => Some ([Z.to_N (z mod 256)], s) | _ => None end
  | TUInt _ => match v with VN n => Some (varint n, s) | _ => None end
  | TSInt _ => match v with VZ z => Some (varint (zz z), s) | _ => None end
  | TChar => match v with VN n => Some (varint n, s) | _ => None end
  | TFix n => match v with VN x => Some (le_bytes n x, s) | _ => None end
  | TStr => match v with VBytes l => Some (varint (N.of_nat (length l)) ++ l, s) | _ => None end
  | TNonZero t' => encode t' v s
  | TSeq t' =>
      match v with
      | VList vs => do (b, s') <- enc_seq (encode t') vs s;
                    Some (varint (N.of_nat (length vs)) ++ b, s')
      | _ => None end
  | TTuple ts => match v with VList vs => enc_tuple encode ts vs s | _ => None end
  | TEnum k vss =>
      match v with
      | VVar i vs => do (b, s') <- enc_variant encode vs s vss i; Some (tag_enc k i ++ b, s')
      | _ => None end
  | TSkip _ => Some ([], s)
  | TIntern id t' =>
      match v with
      | VList [c] =>
          let h := H id c in
          if seen_mem s id h then Some (1 :: compact128 h, s)
          else do (b, s') <- encode t' c ((id, h) :: s); Some (0 :: b, s')
      | _ => None
      end
  end.

Definition dec_res := option (val * list N * interner).
Definition dec_list_res := option (list val * list N * interner).

Definition dec_tuple (dec : ty -> list N -> interner -> dec_res) :=
  fix go (ts : list ty) (bs : list N) (I : interner) : dec_list_res :=
    match ts with
    | [] => Some ([], bs, I)
    | t :: ts' =>
        do (v, bs1, I1) <- dec t bs I; do (vs, bs2, I2) <- go ts' bs1 I1; Some (v :: vs, bs2, I2)
    end.

Definition dec_seq (dec1 : list N -> interner -> dec_res) :=
  fix go (n : nat) (bs : list N) (I : interner) : dec_list_res :=
    match n with
    | O => Some ([], bs, I)
    | S n' =>
        do (v, bs1, I1) <- dec1 bs I; do (vs, bs2, I2) <- go n' bs1 I1; Some (v :: vs, bs2, I2)
    end.

Definition dec_variant (dec : ty -> list N -> interner -> dec_res) (bs : list N) (I : interner) :=
  fix pick (vss : list (list ty)) (i : nat) : dec_list_res :=
    match vss, i with
    | ts :: _, O => dec_tuple dec ts bs I
    | _ :: r, S i' => pick r i'
    | [], _ => None
    end.

Definition nonzero (v : val) : bool :=
  match v with VN n => negb (n =? 0) | VZ z => negb (z =? 0)%Z | _ => false end.

Fixpoint decode (t : ty) (bs : list N) (I : interner) {struct t} : dec_res :=
  match t with
  | TU8 => match bs with [] => None | b :: r => Some (VN b, r, I) end
  | TI8 => match bs with [] => None
           | b :: r => Some (VZ (if b <? 128 then Z.of_N b else Z.of_N b - 256), r, I) end
  | TUInt w => do (n, r) <- unvarint w bs; Some (VN n, r, I)
  | TSInt w => do (n, r) <- unvarint w bs; Some (VZ (unzz n), r, I)
  | TChar => do (n, r) <- unvarint 32 bs; if char_ok n then Some (VN n, r, I) else None
  | TFix n => do (x, r) <- le_read n bs; Some (VN x, r, I)
  | TStr => do (n, r) <- unvarint 64 bs; do (l, r') <- take_bytes (N.to_nat n) r;
            if utf8_valid l then Some (VBytes l, r', I) else None
  | TNonZero t' => do (v, r, I') <- decode t' bs I; if nonzero v then Some (v, r, I') else None
  | TSeq t' => do (n, r) <- unvarint 64 bs;
               do (vs, r', I') <- dec_seq (decode t') (N.to_nat n) r I; Some (VList vs, r', I')
  | TTuple ts => do (vs, r, I') <- dec_tuple decode ts bs I; Some (VList vs, r, I')
  | TEnum k vss => do (i, r) <- tag_dec k bs;
                   do (vs, r', I') <- dec_variant decode r I vss i; Some (VVar i vs, r', I')
  | TSkip d => Some (d, bs, I)
  | TIntern id t' =>
      match bs with
      | 0 :: r =>
          do (v, r', I') <- decode t' r I;
          let h := H id v in
          match ilookup I' id h with
          | Some v' => Some (VList [v'], r', I')    (* interner already holds that hash *)
          | None => Some (VList [v], r', (id, h, v) :: I')
          end
      | 1 :: r =>
          do (h, r') <- uncompact128 r;
          do v <- ilookup I id h; Some (VList [v], r', I)    (* absent: the code panics *)
      | _ => None
      end
  end.

(** * what a value looks like after a round trip: skipped fields take their default *)
Definition canon_tuple (canon : ty -> val -> val) :=
  fix go (ts : list ty) (vs : list val) : list val :=
    match ts, vs with
    | t :: ts', v :: vs' => canon t v :: go ts' vs'
    | _, _ => []
    end.
Definition canon_variant (canon : ty -> val -> val) (vs : list val) :=
  fix pick (vss : list (list ty)) (i : nat) : list val :=
    match vss, i with
    | ts :: _, O => canon_tuple canon ts vs
    | _ :: r, S i' => pick r i'
    | [], _ => []
    end.
Fixpoint canon (t : ty) (v : val) {struct t} : val :=
  match t with
  | TNonZero t' => canon t' v
  | TSeq t' => match v with VList vs => VList (map (canon t') vs) | _ => v end
  | TTuple ts => match v with VList vs => VList (canon_tuple canon ts vs) | _ => v end
  | TEnum k vss => match v with VVar i vs => VVar i (canon_variant canon vs vss i) | _ => v end
  | TSkip d => d
  | TIntern _ t' => match v with VList [c] => VList [canon t' c] | _ => v end
  | _ => v
  end.

End WithHash.

(** * concrete hash oracle used when the model is run: a finite table *)
Definition table_hash (tbl : list (N * val * N)) (id : N) (v : val) : N :=
  match find (fun '(i, v', _) => (i =? id) && val_eqb v v') tbl with
  | Some (_, _, h) => h
  | None => 0
  end.
