(** Shared settings for the qbice verification development (Coq 8.16.1, stdlib only). *)
From Coq Require Export List NArith ZArith Lia Bool ZifyBool ZifyN ZifyNat.
Export ListNotations.
Ltac Zify.zify_post_hook ::= Z.div_mod_to_equations.
Global Arguments N.add : simpl never.
Global Arguments N.sub : simpl never.
Global Arguments N.mul : simpl never.
Global Arguments N.div : simpl never.
Global Arguments N.modulo : simpl never.
Global Arguments N.pow : simpl never.
Global Arguments N.ltb : simpl never.
Global Arguments N.leb : simpl never.
Global Arguments N.eqb : simpl never.
Global Arguments Z.add : simpl never.
Global Arguments Z.sub : simpl never.
Global Arguments Z.mul : simpl never.
Global Arguments Z.div : simpl never.
Global Arguments Z.modulo : simpl never.
Global Arguments Z.ltb : simpl never.
Global Arguments Z.leb : simpl never.
Global Arguments Z.eqb : simpl never.
Global Arguments Z.of_N : simpl never.
Global Arguments Z.to_N : simpl never.

(** Option-monad notations used by the executable models. *)
Notation "'do' x <- e ; k" := (match e with Some x => k | None => None end)
  (at level 200, x pattern, e at level 100, k at level 200, right associativity).
