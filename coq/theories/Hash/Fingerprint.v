(** From streams to 128-bit fingerprints.  [sip] (SipHash-128 as a function of the
    whole byte string written, seed included) is an arbitrary function:
    - equal values (up to [veq]) have EQUAL fingerprints for every [sip]: the wrapped sum
      of the sub-hashes is commutative, nothing else depends on the entry order;
    - different values have different fingerprints under the hypothesis H-hash:
      the map  stream |-> sip (seed ++ resolve stream)  is injective (up to [feq]) on the
      set [Play] of streams in play.  H-hash covers BOTH the collision resistance of
      SipHash-128 on flat byte strings AND the step from the multiset of sub-hashes of an
      unordered collection to their wrapping sum (two different multisets of sub-hashes
      with the same sum mod 2^128 are a collision in this sense; an additive combination
      is weaker than a hash of the sorted sub-hashes against a deliberate attacker). *)
From Coq Require Import Permutation.
From QV Require Import Common.Prelude Codec.Varint Codec.Model Codec.RoundTrip Hash.Model Hash.Framing Hash.Unordered.
Open Scope N_scope.

(** induction over [aeq] derivations (nested through [Forall2]) *)
Section AeqInd.
Variable P : fatom -> fatom -> Prop.
Hypothesis HB : forall b, P (FB b) (FB b).
Hypothesis HS : forall ts ts'' ts', Permutation ts ts'' -> Forall2 (Forall2 P) ts'' ts' -> P (FSub ts) (FSub ts').
Fixpoint aeq_ind' (a a' : fatom) (H : aeq a a') {struct H} : P a a' :=
  match H in aeq x y return P x y with
  | aeq_B b => HB b
  | aeq_S ts ts'' ts' Hp HF =>
      HS ts ts'' ts' Hp
        ((fix go1 (l l' : list (list fatom)) (HF : Forall2 (Forall2 aeq) l l') {struct HF} : Forall2 (Forall2 P) l l' :=
            match HF in Forall2 _ x y return Forall2 (Forall2 P) x y with
            | Forall2_nil _ => Forall2_nil _
            | Forall2_cons x y Hxy Hr =>
                Forall2_cons x y
                  ((fix go2 (m m' : list fatom) (Hm : Forall2 aeq m m') {struct Hm} : Forall2 P m m' :=
                      match Hm in Forall2 _ x y return Forall2 P x y with
                      | Forall2_nil _ => Forall2_nil _
                      | Forall2_cons a b Hab Hr2 => Forall2_cons a b (aeq_ind' a b Hab) (go2 _ _ Hr2)
                      end) x y Hxy)
                  (go1 _ _ Hr)
            end) ts'' ts' HF)
  end.
End AeqInd.

Section WithSip.
Variable sip : list N -> N.

Lemma resolve_atom_sub pre ts :
  resolve_atom sip pre (FSub ts) = le_bytes 16 (sum128 (map (fun t => sip (pre ++ resolve sip pre t)) ts)).
Proof. reflexivity. Qed.

Lemma resolve_cons pre a l :
  resolve sip pre (a :: l) = resolve_atom sip pre a ++ resolve sip (pre ++ resolve_atom sip pre a) l.
Proof. reflexivity. Qed.

Lemma sum_perm l l' : Permutation l l' -> fold_right N.add 0 l = fold_right N.add 0 l'.
Proof. induction 1; cbn [fold_right]; lia. Qed.

Lemma resolve_ext l l' :
  Forall2 (fun a a' => forall pre, resolve_atom sip pre a = resolve_atom sip pre a') l l' ->
  forall pre, resolve sip pre l = resolve sip pre l'.
Proof.
  induction 1 as [|a a' l l' Ha Hl IH]; intros pre; [reflexivity|].
  rewrite !resolve_cons, (Ha pre), IH. reflexivity.
Qed.

Lemma resolve_atom_aeq a a' : aeq a a' -> forall pre, resolve_atom sip pre a = resolve_atom sip pre a'.
Proof.
  intros H. induction H as [b|ts ts'' ts' Hp HF] using aeq_ind'; intros pre; [reflexivity|].
  rewrite !resolve_atom_sub. f_equal. unfold sum128. f_equal.
  rewrite (sum_perm _ _ (Permutation_map (fun t => sip (pre ++ resolve sip pre t)) Hp)).
  f_equal. clear Hp. induction HF as [|t t' l l' Ht Hl IH]; [reflexivity|].
  cbn [map]. rewrite (resolve_ext t t' Ht pre), IH. reflexivity.
Qed.

Theorem resolve_feq s s' : feq s s' -> forall pre, resolve sip pre s = resolve sip pre s'.
Proof.
  intros H. apply resolve_ext. unfold feq in H.
  induction H; constructor; [apply resolve_atom_aeq; assumption|assumption].
Qed.

(** equal values (up to entry order / NaN payload) have the same fingerprint *)
Theorem fingerprint_deterministic seed t v v' :
  wt t v -> wt t v' -> veq t v v' -> fingerprint sip seed t v = fingerprint sip seed t v'.
Proof.
  intros Hw Hw' He. unfold fingerprint.
  rewrite (resolve_feq _ _ (deterministic t v v' Hw Hw' He)). reflexivity.
Qed.

Theorem fingerprint_history_free seed t vs vs' :
  Permutation vs vs' ->
  fingerprint sip seed (HUnord t) (VList vs) = fingerprint sip seed (HUnord t) (VList vs').
Proof.
  intros Hp. unfold fingerprint. rewrite (resolve_feq _ _ (history_free t vs vs' Hp)). reflexivity.
Qed.

(** H-hash, on the streams in play *)
Variable Play : list fatom -> Prop.
Variable seed : N.
Hypothesis Hhash : forall s s', Play s -> Play s' ->
  sip (le_bytes 8 seed ++ resolve sip (le_bytes 8 seed) s) =
  sip (le_bytes 8 seed ++ resolve sip (le_bytes 8 seed) s') -> feq s s'.

Theorem fingerprint_discriminates t v v' :
  wt t v -> wt t v' -> Play (fstream t v) -> Play (fstream t v') ->
  fingerprint sip seed t v = fingerprint sip seed t v' -> veq t v v'.
Proof.
  intros Hw Hw' Hp Hp' E. apply injective; [assumption|assumption|].
  apply Hhash; assumption.
Qed.
End WithSip.
