(** Non-vacuity of the C13 theorems and the facts about the real hashing that the
    statements make visible (each replayed on the real code by the harness, see
    [stated_facts] in harness/src/bin/stablehash.rs). *)
From Coq Require Import Permutation.
From QV Require Import Common.Prelude Codec.Varint Codec.Model Hash.Model Hash.Framing Hash.Unordered Hash.Fingerprint.
Open Scope N_scope.

(** HashMap<String, (Option<u8>, HashSet<u16>)> next to a Vec<Vec<u8>> and an f32 *)
Definition tmap := HUnord (HTuple [HStr; HTuple [HEnum 8 [[]; [HUInt K8]]; HUnord (HUInt K16)]]).
Definition tx := HTuple [tmap; HSeq LPrefix (HSeq LPrefix (HUInt K8)); HFloat 4; HPtr HBool].
Definition e1 := VList [VBytes [97; 98]; VList [VVar 1 [VN 7]; VList [VN 1; VN 2; VN 3]]].
Definition e1' := VList [VBytes [97; 98]; VList [VVar 1 [VN 7]; VList [VN 3; VN 1; VN 2]]].
Definition e2 := VList [VBytes [99]; VList [VVar 0 []; VList []]].
Definition vx := VList [VList [e1; e2]; VList [VList [VN 1]; VList [VN 2]]; VN 2143289345; VVar 1 []].
(** the same value built differently: map entries swapped, inner set reordered, another NaN payload *)
Definition vx' := VList [VList [e2; e1']; VList [VList [VN 1]; VList [VN 2]]; VN 4286578689; VVar 1 []].
(** a different value: [[1],[2]] replaced by [[1,2]] *)
Definition vy := VList [VList [e1; e2]; VList [VList [VN 1; VN 2]]; VN 2143289345; VVar 1 []].

Ltac wt_tac := cbn; repeat (first [split | (left; reflexivity) | (right; reflexivity) | constructor | lia | reflexivity]).

Example wt_vx : wt tx vx. Proof. wt_tac. Qed.
Example wt_vx' : wt tx vx'. Proof. wt_tac. Qed.
Example wt_vy : wt tx vy. Proof. wt_tac. Qed.

Example veq_vx_vx' : veq tx vx vx'.
Proof.
  cbn. repeat split.
  - exists [e2; e1]. split; [apply perm_swap|].
    constructor; [|constructor; [|constructor]].
    + cbn. repeat split. exists []. split; constructor.
    + cbn. repeat split. exists [VN 3; VN 1; VN 2]. split.
      * change [VN 1; VN 2; VN 3] with ([VN 1; VN 2] ++ [VN 3]). change [VN 3; VN 1; VN 2] with ([VN 3] ++ [VN 1; VN 2]).
        apply Permutation_app_comm.
      * repeat constructor.
  - repeat constructor.
Qed.

(** the two construction histories give syntactically different streams that are equal
    as far as the hasher is concerned, and the same fingerprint for every hash function *)
Example streams_differ_syntactically : fstream tx vx <> fstream tx vx'.
Proof. vm_compute. discriminate. Qed.
Example streams_equivalent : feq (fstream tx vx) (fstream tx vx').
Proof. apply deterministic; [exact wt_vx|exact wt_vx'|exact veq_vx_vx']. Qed.
Example fingerprints_equal sip seed : fingerprint sip seed tx vx = fingerprint sip seed tx vx'.
Proof. apply fingerprint_deterministic; [exact wt_vx|exact wt_vx'|exact veq_vx_vx']. Qed.

(** different values, different streams (near miss: [[1],[2]] vs [[1,2]]) *)
Example not_veq_vx_vy : ~ veq tx vx vy.
Proof. cbn. intros (_ & H & _). inversion H as [|? ? ? ? _ H']. inversion H'. Qed.
Example streams_of_different_values : ~ feq (fstream tx vx) (fstream tx vy).
Proof. intros H. apply not_veq_vx_vy. apply injective; [exact wt_vx|exact wt_vy|exact H]. Qed.

(** ("ab","c") vs ("a","bc"): the length prefixes keep the concatenation apart *)
Definition tss := HTuple [HStr; HStr].
Example near_miss_strings :
  ~ feq (fstream tss (VList [VBytes [97; 98]; VBytes [99]])) (fstream tss (VList [VBytes [97]; VBytes [98; 99]])).
Proof.
  intros H. apply injective in H; [|wt_tac|wt_tac]. cbn in H. destruct H as [H _]. discriminate H.
Qed.
(** Some(0) vs None followed by 0 *)
Definition tou := HTuple [HEnum 8 [[]; [HUInt K8]]; HUInt K8].
Example near_miss_option :
  ~ feq (fstream tou (VList [VVar 1 [VN 0]; VN 0])) (fstream tou (VList [VVar 0 []; VN 0])).
Proof.
  intros H. apply injective in H; [|wt_tac|wt_tac]. cbn in H. destruct H as [[H _] _]. discriminate H.
Qed.

(** history: any permutation of the entries *)
Example history_example :
  feq (fstream (HUnord (HUInt K8)) (VList [VN 1; VN 2; VN 3])) (fstream (HUnord (HUInt K8)) (VList [VN 3; VN 2; VN 1])).
Proof.
  apply history_free.
  apply perm_trans with [VN 2; VN 1; VN 3]; [apply perm_swap|].
  apply perm_trans with [VN 2; VN 3; VN 1]; [apply perm_skip, perm_swap|apply perm_swap].
Qed.

(** round trip: [tx] has no skipped field *)
Example no_skip_tx : no_skip tx. Proof. cbn. tauto. Qed.
Example roundtrip_example : fstream tx (canon (erase tx) vx) = fstream tx vx.
Proof. apply (roundtrip_stable tx vx no_skip_tx wt_vx). Qed.

(** a field that the serializer skips IS hashed, so the value that comes back from a
    round trip (skipped field = default) has another stream: the restriction of
    [C13_roundtrip_stable] to [no_skip] types is necessary *)
Definition tskip := HTuple [HUInt K32; HSkipped (HUInt K16) (VN 0)].
Example roundtrip_changes_skipped_field :
  wt tskip (VList [VN 1; VN 7]) /\ canon (erase tskip) (VList [VN 1; VN 7]) = VList [VN 1; VN 0] /\
  ~ feq (fstream tskip (canon (erase tskip) (VList [VN 1; VN 7]))) (fstream tskip (VList [VN 1; VN 7])).
Proof.
  split; [wt_tac|]. split; [reflexivity|].
  intros H. apply injective in H; [|wt_tac|wt_tac]. cbn in H. destruct H as (_ & H & _). discriminate H.
Qed.

(** floats: every NaN is hashed as the canonical NaN; +0.0 and -0.0 are hashed differently
    although [0.0 == -0.0] in Rust *)
Example nan_payloads_collapse :
  fstream (HFloat 4) (VN 2143289345) = fstream (HFloat 4) (VN 2143289344) /\     (* 0x7fc00001, 0x7fc00000 *)
  fstream (HFloat 4) (VN 4286578689) = fstream (HFloat 4) (VN 2143289344) /\     (* 0xff800001 *)
  fstream (HFloat 8) (VN 9218868437227405313) = fstream (HFloat 8) (VN 9221120237041090560).
Proof. repeat split. Qed.
Example signed_zero_distinct : ~ feq (fstream (HFloat 8) (VN 0)) (fstream (HFloat 8) (VN 9223372036854775808)).
Proof.
  intros H. apply injective in H; [|wt_tac|wt_tac]. vm_compute in H. discriminate H.
Qed.

(** the type is not part of the stream: values of DIFFERENT types can have the same
    stream (outside C13's quantifier, which ranges over pairs of one type) *)
Example type_not_hashed :
  fstream HStr (VBytes [97; 98]) = fstream (HSeq LPrefix (HUInt K8)) (VList [VN 97; VN 98]) /\
  fstream (HUInt Ksize) (VN 5) = fstream (HUInt K64) (VN 5).
Proof. split; reflexivity. Qed.

(** H-hash is satisfiable: a toy injective "hash" and two streams in play *)
Definition toy (l : list N) : N := fold_right (fun b a => b + 1 + 257 * a) 0 l.
Definition PlayX (s : list fatom) : Prop := s = fstream tx vx \/ s = fstream tx vy.
Lemma toy_hhash : forall s s', PlayX s -> PlayX s' ->
  toy (le_bytes 8 7 ++ resolve toy (le_bytes 8 7) s) = toy (le_bytes 8 7 ++ resolve toy (le_bytes 8 7) s') -> feq s s'.
Proof.
  intros s s' [-> | ->] [-> | ->] E; try apply feq_refl; exfalso; vm_compute in E; discriminate E.
Qed.
Example discriminates_example : fingerprint toy 7 tx vx <> fingerprint toy 7 tx vy.
Proof.
  intros E. apply not_veq_vx_vy.
  apply (fingerprint_discriminates toy PlayX 7 toy_hhash tx vx vy wt_vx wt_vy); [left; reflexivity|right; reflexivity|exact E].
Qed.
