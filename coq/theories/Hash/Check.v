(** Correspondence checker for the stable-hash model.  For every generated value the
    harness (harness/src/bin/stablehash.rs) hands the real [StableHash] impl two
    instrumented implementations of the public [StableHasher] trait:
    - one that overrides every [write_*] method and records which was called with which
      argument ([raw]): compared with [stream];
    - one that overrides only [write] and [sub_hash] (as [Sip128Hasher] does), so the
      trait's default methods run, and records the bytes ([fraw]): compared with
      [flat (stream t v)].
    Both recorders return a pseudo-random 128-bit number from each [sub_hash] call and
    record it; the checker verifies that what is written after the sub-hash calls is
    exactly the wrapping sum of those numbers, as [write_u128] / as 16 bytes. *)
From QV Require Import Common.Prelude Codec.Varint Codec.Model Hash.Model.
Open Scope N_scope.

Inductive raw : Type :=
| RC (c : call)                       (* never [CSub] *)
| RSub (h : N) (evs : list raw).      (* one sub_hash call: what the sub-hasher received, what was returned *)
Inductive fraw : Type :=
| RB (b : N)
| RFSub (h : N) (evs : list fraw).
(** as printed by the harness: consecutive bytes in one chunk *)
Inductive fchunk : Type :=
| RBs (l : list N)
| RCSub (h : N) (evs : list fchunk).
Fixpoint expand (e : fchunk) : list fraw :=
  match e with
  | RBs l => map RB l
  | RCSub h evs => [RFSub h (flat_map expand evs)]
  end.

Definition ikind_eqb (a b : ikind) : bool :=
  match a, b with
  | K8, K8 | K16, K16 | K32, K32 | K64, K64 | K128, K128 | Ksize, Ksize => true
  | _, _ => false
  end.
Definition call_eqb (a b : call) : bool :=
  match a, b with
  | CUInt k x, CUInt k' x' => ikind_eqb k k' && (x =? x')
  | CSInt k z, CSInt k' z' => ikind_eqb k k' && (z =? z')%Z
  | CLen x, CLen x' => x =? x'
  | CFloat n x, CFloat n' x' => Nat.eqb n n' && (x =? x')
  | CStr l, CStr l' => list_eqb N.eqb l l'
  | CRaw l, CRaw l' => list_eqb N.eqb l l'
  | _, _ => false
  end.

(** consume from [real] what the model call [c] predicts; return the rest *)
Fixpoint match_call (c : call) (real : list raw) {struct c} : option (list raw) :=
  match c with
  | CSub ts =>
      (fix subs (ts : list (list call)) (real : list raw) (acc : N) {struct ts} : option (list raw) :=
         match ts with
         | [] =>
             match real with
             | RC (CUInt K128 s) :: r => if s =? acc mod 2 ^ 128 then Some r else None
             | _ => None
             end
         | t :: ts' =>
             match real with
             | RSub h evs :: r =>
                 match (fix seq (t : list call) (evs : list raw) {struct t} : option (list raw) :=
                          match t with
                          | [] => Some evs
                          | c :: t' => match match_call c evs with Some evs' => seq t' evs' | None => None end
                          end) t evs with
                 | Some [] => subs ts' r (acc + h)
                 | _ => None
                 end
             | _ => None
             end
         end) ts real 0
  | _ => match real with RC c' :: r => if call_eqb c c' then Some r else None | _ => None end
  end.
Fixpoint match_calls (cs : list call) (real : list raw) : option (list raw) :=
  match cs with
  | [] => Some real
  | c :: r => match match_call c real with Some real' => match_calls r real' | None => None end
  end.

Fixpoint expect_bytes (bs : list N) (real : list fraw) : option (list fraw) :=
  match bs with
  | [] => Some real
  | b :: bs' => match real with RB b' :: r => if b =? b' then expect_bytes bs' r else None | _ => None end
  end.
Fixpoint match_atom (a : fatom) (real : list fraw) {struct a} : option (list fraw) :=
  match a with
  | FB b => expect_bytes [b] real
  | FSub ts =>
      (fix subs (ts : list (list fatom)) (real : list fraw) (acc : N) {struct ts} : option (list fraw) :=
         match ts with
         | [] => expect_bytes (le_bytes 16 (acc mod 2 ^ 128)) real
         | t :: ts' =>
             match real with
             | RFSub h evs :: r =>
                 match (fix seq (t : list fatom) (evs : list fraw) {struct t} : option (list fraw) :=
                          match t with
                          | [] => Some evs
                          | a :: t' => match match_atom a evs with Some evs' => seq t' evs' | None => None end
                          end) t evs with
                 | Some [] => subs ts' r (acc + h)
                 | _ => None
                 end
             | _ => None
             end
         end) ts real 0
  end.
Fixpoint match_atoms (l : list fatom) (real : list fraw) : option (list fraw) :=
  match l with
  | [] => Some real
  | a :: r => match match_atom a real with Some real' => match_atoms r real' | None => None end
  end.

(** one generated value: its type and value terms, the recorded calls, the recorded bytes *)
Inductive case := HC (t : hty) (v : val) (calls : list raw) (bs : list fchunk).

Definition check (c : case) : bool :=
  match c with
  | HC t v calls bs =>
      wtb t v &&    (* the value lies in the domain of the theorems *)
      match match_calls (stream t v) calls with Some [] => true | _ => false end &&
      match match_atoms (fstream t v) (flat_map expand bs) with Some [] => true | _ => false end
  end.

Fixpoint failures_from (i : N) (cs : list case) : list N :=
  match cs with
  | [] => []
  | c :: r => if check c then failures_from (i + 1) r else i :: failures_from (i + 1) r
  end.
Definition failures (cs : list case) : list N := failures_from 0 cs.
