(** Executable model of stable hashing (crates/stable_hash/src/lib.rs, the derive in
    crates/stable_hash_derive, the use in crates/qbice/src/engine.rs [Engine::hash]).

    The hasher is replaced by the *symbolic write trace*.  Two levels:

    - [call]: which method of the [StableHasher] trait a [StableHash] impl calls, with
      which argument ([stream]).  A [CSub ts] node stands for the way unordered
      collections are hashed: one [sub_hash] call per entry (each entry written to a
      sub-hasher; [ts] lists what each sub-hasher received) followed by ONE
      [write_u128] of the wrapping sum of the returned sub-hashes.
    - [fatom]: the bytes that reach [StableHasher::write] when the trait's default
      methods are used, as [Sip128Hasher] does ([flat]).  [FSub] keeps the list of
      sub-hasher byte streams; the hash only depends on it as a multiset ([feq]).
      SipHash is a streaming hash: only the concatenation of the written bytes
      matters, not the call boundaries, so [flat (stream t v)] is the object the
      theorems are about (stronger than statements on [stream]).

    Values are the [val] terms of the codec model (Codec/Model.v); types are described by
    an own universe [hty] because hashing distinguishes what the serializer conflates.
    How Rust types map to [hty] (the harness harness/src/bin/stablehash.rs does it):
      u8/u16/u32/u64/u128 -> HUInt K8..K128, usize -> HUInt Ksize (8 bytes, 64-bit target),
      i8.. -> HSInt k, isize -> HSInt Ksize, atomics -> their integer,
      bool -> HBool (value [VVar 0 []]/[VVar 1 []] as in the codec), char -> HChar,
      f32/f64 -> HFloat 4/8 (value = bit pattern), String/str/Box<str>/FlexStr -> HStr,
      NonZero* -> HNonZero inner,
      Vec/slice/[T;N]/VecDeque/LinkedList/SmallVec -> HSeq LPrefix T (the length goes through
        [write_length_prefix]; arrays DO write a length, unlike the serializer, where they
        are tuples),  OsStr/Path -> HSeq LPrefix (HUInt K8),
      BTreeSet -> HSeq LUsize T, BTreeMap -> HSeq LUsize (HTuple [K;V]) (the length goes
        through [usize::stable_hash] = [write_usize]; same bytes with the default methods),
      HashSet/BinaryHeap/DashSet -> HUnord T, HashMap/DashMap -> HUnord (HTuple [K;V])
        (value = entry list "as iterated"),
      () / PhantomData / RangeFull / unit struct -> HTuple [],
      tuples, derived structs, Range*, Duration (u64,u32) -> HTuple fields,
      Box/Rc/Arc/Cow/&T -> HPtr T (transparent), Interned<T> (struct around Arc<T>) -> HIntern id T
        with value [VList [content]] as in the codec,
      Option<T> -> HEnum 8 [[];[T]], Result<T,E> -> HEnum 8 [[T];[E]] (declaration order:
        Ok = 0, Err = 1, as [mem::discriminant] numbers them; the codec universe lists
        them in wire-tag order, so the value terms of a Result differ between the two),
      derived enum -> HEnum dw variants, dw = size_of::<Discriminant<_>>() (8 without a
        repr attribute, the repr's width otherwise); variant index = discriminant value
        (enums with explicit discriminant values are outside the model),
      a field that the serializer skips (#[serialize(skip)]) -> HSkipped T default: it IS
        hashed (the hash derive has no skip). *)
From Coq Require Import Permutation.
From QV Require Import Common.Prelude Codec.Varint Codec.Model.
Open Scope N_scope.

Inductive ikind := K8 | K16 | K32 | K64 | K128 | Ksize.
Definition kbytes (k : ikind) : nat :=
  match k with K8 => 1 | K16 => 2 | K32 => 4 | K64 => 8 | K128 => 16 | Ksize => 8 end%nat.

Inductive lkind := LPrefix | LUsize.

Inductive hty : Type :=
| HUInt (k : ikind)
| HSInt (k : ikind)
| HBool
| HChar
| HFloat (n : nat)
| HStr
| HNonZero (t : hty)
| HPtr (t : hty)
| HSkipped (t : hty) (d : val)
| HIntern (id : N) (t : hty)
| HSeq (lk : lkind) (t : hty)
| HUnord (t : hty)
| HTuple (ts : list hty)
| HEnum (dw : nat) (vss : list (list hty)).

(** * call level *)
Inductive call : Type :=
| CUInt (k : ikind) (x : N)       (* write_u8/u16/u32/u64/u128/usize *)
| CSInt (k : ikind) (z : Z)       (* write_i8/i16/i32/i64/i128/isize *)
| CLen (x : N)                    (* write_length_prefix *)
| CFloat (n : nat) (bits : N)     (* write_f32 (n=4) / write_f64 (n=8), argument as passed *)
| CStr (l : list N)               (* write_str *)
| CRaw (l : list N)               (* write: raw bytes (mem::discriminant) *)
| CSub (ts : list (list call)).   (* |ts| sub_hash calls, then write_u128 of the wrapped sum *)

Definition len_call (lk : lkind) (n : nat) : call :=
  match lk with LPrefix => CLen (N.of_nat n) | LUsize => CUInt Ksize (N.of_nat n) end.

Definition stream_tuple (stream : hty -> val -> list call) :=
  fix go (ts : list hty) (vs : list val) : list call :=
    match ts, vs with
    | t :: ts', v :: vs' => stream t v ++ go ts' vs'
    | _, _ => []
    end.
Definition stream_variant (stream : hty -> val -> list call) (vs : list val) :=
  fix pick (vss : list (list hty)) (i : nat) : list call :=
    match vss, i with
    | ts :: _, O => stream_tuple stream ts vs
    | _ :: r, S i' => pick r i'
    | [], _ => []
    end.

Fixpoint stream (t : hty) (v : val) {struct t} : list call :=
  match t with
  | HUInt k => match v with VN x => [CUInt k x] | _ => [] end
  | HSInt k => match v with VZ z => [CSInt k z] | _ => [] end
  | HBool => match v with VVar i [] => [CUInt K8 (N.of_nat i)] | _ => [] end
  | HChar => match v with VN c => [CUInt K32 c] | _ => [] end
  | HFloat n => match v with VN x => [CFloat n x] | _ => [] end
  | HStr => match v with VBytes l => [CStr l] | _ => [] end
  | HNonZero t' => stream t' v
  | HPtr t' => stream t' v
  | HSkipped t' _ => stream t' v
  | HIntern _ t' => match v with VList [c] => stream t' c | _ => [] end
  | HSeq lk t' =>
      match v with
      | VList vs => len_call lk (length vs) :: flat_map (stream t') vs
      | _ => [] end
  | HUnord t' =>
      match v with
      | VList vs => [CUInt Ksize (N.of_nat (length vs)); CSub (map (stream t') vs)]
      | _ => [] end
  | HTuple ts => match v with VList vs => stream_tuple stream ts vs | _ => [] end
  | HEnum dw vss =>
      match v with
      | VVar i vs => CRaw (le_bytes dw (N.of_nat i)) :: stream_variant stream vs vss i
      | _ => [] end
  end.

(** * byte level: what the default methods of the trait turn a call into *)
Inductive fatom : Type :=
| FB (b : N)
| FSub (ts : list (list fatom)).

(** [f32::is_nan]/[f64::is_nan] then replace by [f32::NAN] = 0x7fc00000 /
    [f64::NAN] = 0x7ff8000000000000; everything else (including -0.0) is kept *)
Definition fnorm (n : nat) (x : N) : N :=
  match n with
  | 4%nat => if 2139095040 <? x mod 2147483648 then 2143289344 else x
  | 8%nat => if 9218868437227405312 <? x mod 9223372036854775808 then 9221120237041090560 else x
  | _ => x
  end.

Definition bytes (l : list N) : list fatom := map FB l.
Definition twos (n : nat) (z : Z) : N := Z.to_N (z mod Z.of_N (256 ^ N.of_nat n)).

Fixpoint flat_call (c : call) : list fatom :=
  match c with
  | CUInt k x => bytes (le_bytes (kbytes k) x)
  | CSInt k z => bytes (le_bytes (kbytes k) (twos (kbytes k) z))
  | CLen x => bytes (le_bytes 8 x)
  | CFloat n x => bytes (le_bytes n (fnorm n x))
  | CStr l => bytes (le_bytes 8 (N.of_nat (length l))) ++ bytes l
  | CRaw l => bytes l
  | CSub ts => [FSub (map (fun t => flat_map flat_call t) ts)]
  end.
Definition flat (cs : list call) : list fatom := flat_map flat_call cs.

Definition fstream (t : hty) (v : val) : list fatom := flat (stream t v).

(** * equality of byte streams up to the order of the sub-hasher streams of a [FSub] node
    (the sub-hashes are combined by a commutative sum) *)
Inductive aeq : fatom -> fatom -> Prop :=
| aeq_B b : aeq (FB b) (FB b)
| aeq_S ts ts'' ts' : Permutation ts ts'' -> Forall2 (Forall2 aeq) ts'' ts' -> aeq (FSub ts) (FSub ts').
Definition feq : list fatom -> list fatom -> Prop := Forall2 aeq.

(** * well-typed values *)
Definition wt_tuple (wt : hty -> val -> Prop) :=
  fix go (ts : list hty) (vs : list val) : Prop :=
    match ts, vs with
    | [], [] => True
    | t :: ts', v :: vs' => wt t v /\ go ts' vs'
    | _, _ => False
    end.
Definition wt_variant (wt : hty -> val -> Prop) (vs : list val) :=
  fix pick (vss : list (list hty)) (i : nat) : Prop :=
    match vss, i with
    | ts :: _, O => wt_tuple wt ts vs
    | _ :: r, S i' => pick r i'
    | [], _ => False
    end.

Fixpoint wt (t : hty) (v : val) {struct t} : Prop :=
  match t with
  | HUInt k => match v with VN x => x < 256 ^ N.of_nat (kbytes k) | _ => False end
  | HSInt k => match v with
               | VZ z => (- Z.of_N (256 ^ N.of_nat (kbytes k)) <= 2 * z < Z.of_N (256 ^ N.of_nat (kbytes k)))%Z
               | _ => False end
  | HBool => match v with VVar i [] => (i < 2)%nat | _ => False end
  | HChar => match v with VN c => char_ok c = true | _ => False end
  | HFloat n => match v with VN x => (n = 4 \/ n = 8)%nat /\ x < 256 ^ N.of_nat n | _ => False end
  | HStr => match v with VBytes l => N.of_nat (length l) < 2 ^ 64 | _ => False end
  | HNonZero t' => wt t' v /\ nonzero v = true
  | HPtr t' => wt t' v
  | HSkipped t' _ => wt t' v
  | HIntern _ t' => match v with VList [c] => wt t' c | _ => False end
  | HSeq _ t' => match v with
               | VList vs => Forall (wt t') vs /\ N.of_nat (length vs) < 2 ^ 64
               | _ => False end
  | HUnord t' => match v with
                 | VList vs => Forall (wt t') vs /\ N.of_nat (length vs) < 2 ^ 64
                 | _ => False end
  | HTuple ts => match v with VList vs => wt_tuple wt ts vs | _ => False end
  | HEnum dw vss => match v with
                    | VVar i vs => wt_variant wt vs vss i /\ N.of_nat i < 256 ^ N.of_nat dw
                    | _ => False end
  end.

(** boolean version, run by the correspondence check on every value the harness prints
    (sound for [wt]: Hash/WellTyped.v) *)
Definition wtb_tuple (wtb : hty -> val -> bool) :=
  fix go (ts : list hty) (vs : list val) : bool :=
    match ts, vs with
    | [], [] => true
    | t :: ts', v :: vs' => wtb t v && go ts' vs'
    | _, _ => false
    end.
Definition wtb_variant (wtb : hty -> val -> bool) (vs : list val) :=
  fix pick (vss : list (list hty)) (i : nat) : bool :=
    match vss, i with
    | ts :: _, O => wtb_tuple wtb ts vs
    | _ :: r, S i' => pick r i'
    | [], _ => false
    end.
Fixpoint wtb (t : hty) (v : val) {struct t} : bool :=
  match t with
  | HUInt k => match v with VN x => x <? 256 ^ N.of_nat (kbytes k) | _ => false end
  | HSInt k => match v with
               | VZ z => (- Z.of_N (256 ^ N.of_nat (kbytes k)) <=? 2 * z)%Z && (2 * z <? Z.of_N (256 ^ N.of_nat (kbytes k)))%Z
               | _ => false end
  | HBool => match v with VVar i [] => Nat.ltb i 2 | _ => false end
  | HChar => match v with VN c => char_ok c | _ => false end
  | HFloat n => match v with VN x => (Nat.eqb n 4 || Nat.eqb n 8) && (x <? 256 ^ N.of_nat n) | _ => false end
  | HStr => match v with VBytes l => N.of_nat (length l) <? 2 ^ 64 | _ => false end
  | HNonZero t' => wtb t' v && nonzero v
  | HPtr t' => wtb t' v
  | HSkipped t' _ => wtb t' v
  | HIntern _ t' => match v with VList [c] => wtb t' c | _ => false end
  | HSeq _ t' => match v with
                 | VList vs => forallb (wtb t') vs && (N.of_nat (length vs) <? 2 ^ 64)
                 | _ => false end
  | HUnord t' => match v with
                 | VList vs => forallb (wtb t') vs && (N.of_nat (length vs) <? 2 ^ 64)
                 | _ => false end
  | HTuple ts => match v with VList vs => wtb_tuple wtb ts vs | _ => false end
  | HEnum dw vss => match v with
                    | VVar i vs => wtb_variant wtb vs vss i && (N.of_nat i <? 256 ^ N.of_nat dw)
                    | _ => false end
  end.

(** * value identity as hashing sees it: entry order of unordered collections is
    irrelevant, NaN payloads are irrelevant; +0.0 and -0.0 are DIFFERENT values *)
Definition veq_tuple (veq : hty -> val -> val -> Prop) :=
  fix go (ts : list hty) (vs vs' : list val) : Prop :=
    match ts, vs, vs' with
    | [], [], [] => True
    | t :: ts', v :: r, v' :: r' => veq t v v' /\ go ts' r r'
    | _, _, _ => False
    end.
Definition veq_variant (veq : hty -> val -> val -> Prop) (vs vs' : list val) :=
  fix pick (vss : list (list hty)) (i : nat) : Prop :=
    match vss, i with
    | ts :: _, O => veq_tuple veq ts vs vs'
    | _ :: r, S i' => pick r i'
    | [], _ => False
    end.
Definition perm_rel {A} (R : A -> A -> Prop) (l l' : list A) : Prop :=
  exists l'', Permutation l l'' /\ Forall2 R l'' l'.

Fixpoint veq (t : hty) (v v' : val) {struct t} : Prop :=
  match t with
  | HFloat n => match v, v' with VN x, VN y => fnorm n x = fnorm n y | _, _ => False end
  | HNonZero t' => veq t' v v'
  | HPtr t' => veq t' v v'
  | HSkipped t' _ => veq t' v v'
  | HIntern _ t' => match v, v' with VList [c], VList [c'] => veq t' c c' | _, _ => False end
  | HSeq _ t' => match v, v' with VList l, VList l' => Forall2 (veq t') l l' | _, _ => False end
  | HUnord t' => match v, v' with VList l, VList l' => perm_rel (veq t') l l' | _, _ => False end
  | HTuple ts => match v, v' with VList l, VList l' => veq_tuple veq ts l l' | _, _ => False end
  | HEnum _ vss => match v, v' with
                   | VVar i l, VVar j l' => i = j /\ veq_variant veq l l' vss i
                   | _, _ => False end
  | _ => v = v'
  end.

(** * the codec type a hash type is serialized as (used only to apply the codec's [canon]) *)
Definition kbits (k : ikind) : N := 8 * N.of_nat (kbytes k).
Fixpoint erase (t : hty) : ty :=
  match t with
  | HUInt K8 => TU8
  | HUInt k => TUInt (kbits k)
  | HSInt K8 => TI8
  | HSInt k => TSInt (kbits k)
  | HBool => TEnum TagBool [[]; []]
  | HChar => TChar
  | HFloat n => TFix n
  | HStr => TStr
  | HNonZero t' => TNonZero (erase t')
  | HPtr t' => erase t'
  | HSkipped _ d => TSkip d
  | HIntern id t' => TIntern id (erase t')
  | HSeq _ t' => TSeq (erase t')
  | HUnord t' => TSeq (erase t')
  | HTuple ts => TTuple (map erase ts)
  | HEnum dw vss => TEnum (if Nat.eqb dw 8 then TagUsize else TagU8) (map (map erase) vss)
  end.

Fixpoint no_skip (t : hty) : Prop :=
  match t with
  | HSkipped _ _ => False
  | HNonZero t' | HPtr t' | HIntern _ t' | HSeq _ t' | HUnord t' => no_skip t'
  | HTuple ts => (fix go (ts : list hty) : Prop := match ts with [] => True | t :: r => no_skip t /\ go r end) ts
  | HEnum _ vss =>
      (fix gov (vss : list (list hty)) : Prop :=
         match vss with
         | [] => True
         | ts :: r => (fix go (ts : list hty) : Prop := match ts with [] => True | t :: r' => no_skip t /\ go r' end) ts /\ gov r
         end) vss
  | _ => True
  end.

(** * the 128-bit fingerprint, given SipHash-128 as an oracle [sip] on byte strings.
    [resolve pre s] = the bytes the top-level hasher receives for the symbolic stream
    [s] when its state already absorbed [pre]: a [FSub ts] node becomes the 16 bytes of
    the wrapped sum of the sub-hashes, each sub-hasher being a COPY of the current state
    ([Sip128Hasher::sub_hash]: [let mut sub_hasher = *self]) that then receives one entry. *)
Section Fingerprint.
Variable sip : list N -> N.

Definition sum128 (l : list N) : N := fold_right N.add 0 l mod 2 ^ 128.

Fixpoint resolve_atom (pre : list N) (a : fatom) {struct a} : list N :=
  match a with
  | FB b => [b]
  | FSub ts =>
      le_bytes 16 (sum128 (map (fun t =>
        sip (pre ++ (fix go (pre : list N) (l : list fatom) {struct l} : list N :=
                       match l with
                       | [] => []
                       | a :: r => let bs := resolve_atom pre a in bs ++ go (pre ++ bs) r
                       end) pre t)) ts))
  end.
Fixpoint resolve (pre : list N) (l : list fatom) {struct l} : list N :=
  match l with
  | [] => []
  | a :: r => let bs := resolve_atom pre a in bs ++ resolve (pre ++ bs) r
  end.

(** [Engine::hash]: [SeededStableHasherBuilder::build_stable_hasher] writes the u64
    seed first, then the value; [finish] *)
Definition fingerprint (seed : N) (t : hty) (v : val) : N :=
  let pre := le_bytes 8 seed in sip (pre ++ resolve pre (fstream t v)).
End Fingerprint.
