(** The boolean well-typedness test run on every harness value is sound for [wt], the
    hypothesis of the C13 theorems. *)
From QV Require Import Common.Prelude Codec.Varint Codec.Model Hash.Model Hash.Framing.
Open Scope N_scope.

Lemma wtb_tuple_sound ts : Forall (fun t => forall v, wtb t v = true -> wt t v) ts ->
  forall vs, wtb_tuple wtb ts vs = true -> wt_tuple wt ts vs.
Proof.
  induction 1 as [|t ts Ht Hts IH]; intros [|v vs] Hb; cbn in Hb |- *; try discriminate; [exact I|].
  apply andb_prop in Hb. destruct Hb as [Hv Hvs]. split; [apply Ht; exact Hv|apply IH; exact Hvs].
Qed.

Lemma wtb_variant_sound vss : Forall (Forall (fun t => forall v, wtb t v = true -> wt t v)) vss ->
  forall i vs, wtb_variant wtb vs vss i = true -> wt_variant wt vs vss i.
Proof.
  induction 1 as [|ts vss Hts Hvss IH]; intros i vs Hb.
  - destruct i; discriminate Hb.
  - destruct i as [|i]; cbn in Hb |- *; [apply wtb_tuple_sound; assumption|apply IH; exact Hb].
Qed.

Lemma forallb_Forall t (IH : forall v, wtb t v = true -> wt t v) l : forallb (wtb t) l = true -> Forall (wt t) l.
Proof.
  intros Hb. apply Forall_forall. intros x Hx. apply IH. rewrite forallb_forall in Hb. apply Hb. exact Hx.
Qed.

Theorem wtb_sound : forall t v, wtb t v = true -> wt t v.
Proof.
  induction t using hty_ind'; intros v Hb; cbn [wtb] in Hb; cbn [wt].
  - destruct v; try discriminate. lia.
  - destruct v; try discriminate. lia.
  - destruct v; try discriminate. destruct l; try discriminate. apply Nat.ltb_lt. exact Hb.
  - destruct v; try discriminate. exact Hb.
  - destruct v; try discriminate. apply andb_prop in Hb. destruct Hb as [Hn Hx]. split; [|lia].
    apply orb_prop in Hn. destruct Hn as [Hn|Hn]; apply Nat.eqb_eq in Hn; [left|right]; exact Hn.
  - destruct v; try discriminate. lia.
  - apply andb_prop in Hb. destruct Hb as [Hv Hz]. split; [apply IHt; exact Hv|exact Hz].
  - apply IHt; exact Hb.
  - apply IHt; exact Hb.
  - destruct v; try discriminate. destruct l as [|c [|]]; try discriminate. apply IHt; exact Hb.
  - destruct v; try discriminate. apply andb_prop in Hb. destruct Hb as [Hf Hl].
    split; [apply forallb_Forall; assumption|lia].
  - destruct v; try discriminate. apply andb_prop in Hb. destruct Hb as [Hf Hl].
    split; [apply forallb_Forall; assumption|lia].
  - destruct v; try discriminate. apply wtb_tuple_sound; assumption.
  - destruct v; try discriminate. apply andb_prop in Hb. destruct Hb as [Hv Hi].
    split; [apply wtb_variant_sound; assumption|lia].
Qed.
