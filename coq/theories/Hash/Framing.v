(** The byte stream a value feeds to the hasher is uniquely decodable: for every type
    term [t], well-typed [v], [v'] and continuations [r], [r'],
      [fstream t v ++ r  ~  fstream t v' ++ r']  implies  [v == v'] and [r ~ r']
    ([~] = [feq], equality up to the order of sub-hasher streams; [==] = [veq]).
    Injectivity is the case [r = r' = []]; prefix-freeness is the general case. *)
From Coq Require Import Permutation.
From QV Require Import Common.Prelude Codec.Varint Codec.Model Codec.RoundTrip Hash.Model.
Open Scope N_scope.

(** * induction principles for the nested types *)
Section HtyInd.
Variable P : hty -> Prop.
Hypothesis HUInt' : forall k, P (HUInt k).
Hypothesis HSInt' : forall k, P (HSInt k).
Hypothesis HBool' : P HBool.
Hypothesis HChar' : P HChar.
Hypothesis HFloat' : forall n, P (HFloat n).
Hypothesis HStr' : P HStr.
Hypothesis HNonZero' : forall t, P t -> P (HNonZero t).
Hypothesis HPtr' : forall t, P t -> P (HPtr t).
Hypothesis HSkipped' : forall t d, P t -> P (HSkipped t d).
Hypothesis HIntern' : forall id t, P t -> P (HIntern id t).
Hypothesis HSeq' : forall lk t, P t -> P (HSeq lk t).
Hypothesis HUnord' : forall t, P t -> P (HUnord t).
Hypothesis HTuple' : forall ts, Forall P ts -> P (HTuple ts).
Hypothesis HEnum' : forall dw vss, Forall (Forall P) vss -> P (HEnum dw vss).

Fixpoint hty_ind' (t : hty) : P t :=
  match t with
  | HUInt k => HUInt' k | HSInt k => HSInt' k | HBool => HBool' | HChar => HChar'
  | HFloat n => HFloat' n | HStr => HStr'
  | HNonZero t' => HNonZero' t' (hty_ind' t')
  | HPtr t' => HPtr' t' (hty_ind' t')
  | HSkipped t' d => HSkipped' t' d (hty_ind' t')
  | HIntern id t' => HIntern' id t' (hty_ind' t')
  | HSeq lk t' => HSeq' lk t' (hty_ind' t')
  | HUnord t' => HUnord' t' (hty_ind' t')
  | HTuple ts =>
      HTuple' ts ((fix go (ts : list hty) : Forall P ts :=
                     match ts with
                     | [] => Forall_nil P
                     | t :: r => Forall_cons t (hty_ind' t) (go r)
                     end) ts)
  | HEnum dw vss =>
      HEnum' dw vss
        ((fix gov (vss : list (list hty)) : Forall (Forall P) vss :=
            match vss with
            | [] => Forall_nil _
            | ts :: r =>
                Forall_cons ts
                  ((fix go (ts : list hty) : Forall P ts :=
                      match ts with
                      | [] => Forall_nil P
                      | t :: r' => Forall_cons t (hty_ind' t) (go r')
                      end) ts) (gov r)
            end) vss)
  end.
End HtyInd.

Section FatomInd.
Variable P : fatom -> Prop.
Hypothesis HB : forall b, P (FB b).
Hypothesis HS : forall ts, Forall (Forall P) ts -> P (FSub ts).
Fixpoint fatom_ind' (a : fatom) : P a :=
  match a with
  | FB b => HB b
  | FSub ts =>
      HS ts ((fix go1 (ts : list (list fatom)) : Forall (Forall P) ts :=
                match ts with
                | [] => Forall_nil _
                | t :: r =>
                    Forall_cons t
                      ((fix go2 (t : list fatom) : Forall P t :=
                          match t with
                          | [] => Forall_nil _
                          | a :: r' => Forall_cons a (fatom_ind' a) (go2 r')
                          end) t) (go1 r)
                end) ts)
  end.
End FatomInd.

(** * [feq] *)
Lemma Forall2_refl_of {A} (R : A -> A -> Prop) l : Forall (fun x => R x x) l -> Forall2 R l l.
Proof. induction 1; constructor; auto. Qed.

Lemma aeq_refl a : aeq a a.
Proof.
  induction a as [b|ts IH] using fatom_ind'; [constructor|].
  apply aeq_S with (ts'' := ts); [apply Permutation_refl|].
  apply Forall2_refl_of. eapply Forall_impl; [|exact IH].
  intros t Ht. apply Forall2_refl_of. exact Ht.
Qed.
Lemma feq_refl s : feq s s.
Proof. apply Forall2_refl_of. apply Forall_forall. intros a _. apply aeq_refl. Qed.

Lemma feq_nil_l r : feq [] r -> r = [].
Proof. intros H. inversion H. reflexivity. Qed.
Lemma feq_nil_r r : feq r [] -> r = [].
Proof. intros H. inversion H. reflexivity. Qed.

Lemma feq_app a a' b b' : feq a a' -> feq b b' -> feq (a ++ b) (a' ++ b').
Proof. apply Forall2_app. Qed.

Lemma feq_bytes_inv bs : forall bs' r r',
  length bs = length bs' -> feq (bytes bs ++ r) (bytes bs' ++ r') -> bs = bs' /\ feq r r'.
Proof.
  induction bs as [|b bs IH]; intros [|b' bs'] r r' Hl Hf; try discriminate Hl.
  - split; [reflexivity|exact Hf].
  - cbn in Hf. inversion Hf as [|x y l l' Hxy Hll]; subst.
    inversion Hxy; subst.
    destruct (IH bs' r r') as [E Hr]; [cbn in Hl; lia|exact Hll|].
    split; [f_equal; exact E|exact Hr].
Qed.

Lemma feq_sub_inv ts ts' r r' :
  feq (FSub ts :: r) (FSub ts' :: r') ->
  (exists ts'', Permutation ts ts'' /\ Forall2 feq ts'' ts') /\ feq r r'.
Proof.
  intros Hf. inversion Hf as [|x y l l' Hxy Hll]; subst.
  inversion Hxy as [|a b c Hp HF]; subst.
  split; [exists b; split; assumption|exact Hll].
Qed.

(** * little-endian bytes *)
Lemma le_bytes_length n : forall x, length (le_bytes n x) = n.
Proof. induction n as [|n IH]; intros x; cbn [le_bytes length]; [reflexivity|]. rewrite IH. reflexivity. Qed.

Lemma le_bytes_inj n x y : x < 256 ^ N.of_nat n -> y < 256 ^ N.of_nat n -> le_bytes n x = le_bytes n y -> x = y.
Proof.
  intros Hx Hy E.
  pose proof (le_rt n x [] Hx) as Rx. pose proof (le_rt n y [] Hy) as Ry.
  rewrite E in Rx. rewrite Rx in Ry. inversion Ry. reflexivity.
Qed.

Lemma feq_le_inv n x y r r' :
  x < 256 ^ N.of_nat n -> y < 256 ^ N.of_nat n ->
  feq (bytes (le_bytes n x) ++ r) (bytes (le_bytes n y) ++ r') -> x = y /\ feq r r'.
Proof.
  intros Hx Hy Hf. apply feq_bytes_inv in Hf; [|rewrite !le_bytes_length; reflexivity].
  destruct Hf as [E Hr]. split; [eapply le_bytes_inj; eassumption|exact Hr].
Qed.

(** * flattening *)
Lemma flat_app a b : flat (a ++ b) = flat a ++ flat b.
Proof. apply flat_map_app. Qed.
Lemma flat_cons c cs : flat (c :: cs) = flat_call c ++ flat cs.
Proof. reflexivity. Qed.
Lemma flat_one c : flat [c] = flat_call c.
Proof. unfold flat. cbn [flat_map]. apply app_nil_r. Qed.
Lemma flat_len_call lk n : flat_call (len_call lk n) = bytes (le_bytes 8 (N.of_nat n)).
Proof. destruct lk; reflexivity. Qed.
Lemma bytes_app a b : bytes (a ++ b) = bytes a ++ bytes b.
Proof. apply map_app. Qed.

Lemma pow256_1 : 256 ^ N.of_nat 1 = 256. Proof. reflexivity. Qed.
Lemma pow256_4 : 256 ^ N.of_nat 4 = 4294967296. Proof. reflexivity. Qed.
Lemma pow256_8 : 256 ^ N.of_nat 8 = 18446744073709551616. Proof. reflexivity. Qed.
Lemma pow2_64 : 2 ^ 64 = 18446744073709551616. Proof. reflexivity. Qed.

Lemma fnorm_bound n x : (n = 4 \/ n = 8)%nat -> x < 256 ^ N.of_nat n -> fnorm n x < 256 ^ N.of_nat n.
Proof.
  intros [-> | ->] Hx; unfold fnorm.
  - rewrite pow256_4 in *. destruct (N.ltb_spec 2139095040 (x mod 2147483648)); lia.
  - rewrite pow256_8 in *. destruct (N.ltb_spec 9218868437227405312 (x mod 9223372036854775808)); lia.
Qed.

Lemma twos_bound n z : twos n z < 256 ^ N.of_nat n.
Proof.
  unfold twos. assert (0 < 256 ^ N.of_nat n) by (apply N.neq_0_lt_0, N.pow_nonzero; lia).
  pose proof (Z.mod_pos_bound z (Z.of_N (256 ^ N.of_nat n))). lia.
Qed.
Lemma twos_inj n z z' :
  (- Z.of_N (256 ^ N.of_nat n) <= 2 * z < Z.of_N (256 ^ N.of_nat n))%Z ->
  (- Z.of_N (256 ^ N.of_nat n) <= 2 * z' < Z.of_N (256 ^ N.of_nat n))%Z ->
  twos n z = twos n z' -> z = z'.
Proof.
  unfold twos. set (M := Z.of_N (256 ^ N.of_nat n)). intros Hz Hz' E.
  assert (HM : (0 < M)%Z).
  { unfold M. assert (0 < 256 ^ N.of_nat n) by (apply N.neq_0_lt_0, N.pow_nonzero; lia). lia. }
  pose proof (Z.mod_pos_bound z M HM). pose proof (Z.mod_pos_bound z' M HM).
  assert (E' : (z mod M = z' mod M)%Z) by lia.
  pose proof (Z.div_mod z M ltac:(lia)) as D. pose proof (Z.div_mod z' M ltac:(lia)) as D'.
  assert (Hc : (z - z' = M * (z / M - z' / M))%Z) by lia.
  destruct (Z.eq_dec (z / M - z' / M) 0) as [E0|N0]; [rewrite E0 in Hc; lia|].
  exfalso. assert (C : (z / M - z' / M >= 1 \/ z / M - z' / M <= -1)%Z) by lia.
  destruct C as [C|C]; nia.
Qed.

(** * the main lemma *)
Definition UD (t : hty) : Prop :=
  forall v v' r r', wt t v -> wt t v' ->
    feq (fstream t v ++ r) (fstream t v' ++ r') -> veq t v v' /\ feq r r'.

Lemma fstream_seq lk t vs :
  fstream (HSeq lk t) (VList vs) = bytes (le_bytes 8 (N.of_nat (length vs))) ++ flat (flat_map (stream t) vs).
Proof. unfold fstream. cbn [stream]. rewrite flat_cons, flat_len_call. reflexivity. Qed.

Lemma fstream_unord t vs :
  fstream (HUnord t) (VList vs) =
  bytes (le_bytes 8 (N.of_nat (length vs))) ++ [FSub (map (fstream t) vs)].
Proof.
  unfold fstream. cbn [stream]. rewrite flat_cons, flat_one. cbn [flat_call kbytes].
  rewrite map_map. reflexivity.
Qed.

Lemma fstream_enum dw vss i vs :
  fstream (HEnum dw vss) (VVar i vs) = bytes (le_bytes dw (N.of_nat i)) ++ flat (stream_variant stream vs vss i).
Proof. unfold fstream. cbn [stream]. rewrite flat_cons. reflexivity. Qed.

Lemma fstream_tuple ts vs : fstream (HTuple ts) (VList vs) = flat (stream_tuple stream ts vs).
Proof. reflexivity. Qed.

Lemma stream_tuple_cons t ts v vs :
  stream_tuple stream (t :: ts) (v :: vs) = stream t v ++ stream_tuple stream ts vs.
Proof. reflexivity. Qed.

Lemma seq_UD t (IH : UD t) : forall vs vs' r r',
  Forall (wt t) vs -> Forall (wt t) vs' -> length vs = length vs' ->
  feq (flat (flat_map (stream t) vs) ++ r) (flat (flat_map (stream t) vs') ++ r') ->
  Forall2 (veq t) vs vs' /\ feq r r'.
Proof.
  induction vs as [|v vs IHl]; intros [|v' vs'] r r' Hw Hw' Hl Hf; try discriminate Hl.
  - split; [constructor|exact Hf].
  - cbn [flat_map] in Hf. rewrite !flat_app, <- !app_assoc in Hf.
    inversion Hw; subst. inversion Hw'; subst.
    destruct (IH v v' _ _ ltac:(assumption) ltac:(assumption) Hf) as [Hv Hrest].
    destruct (IHl vs' r r' ltac:(assumption) ltac:(assumption) ltac:(cbn in Hl; lia) Hrest) as [Hvs Hr].
    split; [constructor; assumption|exact Hr].
Qed.

Lemma tuple_UD ts (IH : Forall UD ts) : forall vs vs' r r',
  wt_tuple wt ts vs -> wt_tuple wt ts vs' ->
  feq (flat (stream_tuple stream ts vs) ++ r) (flat (stream_tuple stream ts vs') ++ r') ->
  veq_tuple veq ts vs vs' /\ feq r r'.
Proof.
  induction IH as [|t ts Ht Hts IHl]; intros [|v vs] [|v' vs'] r r' Hw Hw' Hf; cbn in Hw, Hw'; try contradiction.
  - split; [exact I|exact Hf].
  - rewrite !stream_tuple_cons, !flat_app, <- !app_assoc in Hf.
    destruct Hw as [Hv Hvs]. destruct Hw' as [Hv' Hvs'].
    destruct (Ht v v' _ _ Hv Hv' Hf) as [E Hrest].
    destruct (IHl vs vs' r r' Hvs Hvs' Hrest) as [Es Hr].
    split; [split; assumption|exact Hr].
Qed.

Lemma variant_UD vss (IH : Forall (Forall UD) vss) : forall i vs vs' r r',
  wt_variant wt vs vss i -> wt_variant wt vs' vss i ->
  feq (flat (stream_variant stream vs vss i) ++ r) (flat (stream_variant stream vs' vss i) ++ r') ->
  veq_variant veq vs vs' vss i /\ feq r r'.
Proof.
  induction IH as [|ts vss Hts Hvss IHl]; intros i vs vs' r r' Hw Hw' Hf.
  - destruct i; contradiction.
  - destruct i as [|i].
    + cbn in *. eapply tuple_UD; eassumption.
    + cbn in *. eapply IHl; eassumption.
Qed.

Lemma unord_entries t (IH : UD t) : forall ws vs',
  Forall (wt t) ws -> Forall (wt t) vs' ->
  Forall2 feq (map (fstream t) ws) (map (fstream t) vs') -> Forall2 (veq t) ws vs'.
Proof.
  induction ws as [|w ws IHl]; intros [|v' vs'] Hw Hw' HF; inversion HF; subst; constructor.
  - inversion Hw; subst. inversion Hw'; subst.
    destruct (IH w v' [] []) as [E _]; [assumption|assumption|rewrite !app_nil_r; assumption|exact E].
  - inversion Hw; subst. inversion Hw'; subst. apply IHl; assumption.
Qed.

Ltac val_cases v := destruct v; cbn [wt] in *; try contradiction.

Theorem UD_all : forall t, UD t.
Proof.
  induction t using hty_ind'; unfold UD; intros v v' r r' Hw Hw' Hf.
  - (* HUInt *) val_cases v. val_cases v'. unfold fstream in Hf. cbn [stream] in Hf. rewrite !flat_one in Hf.
    cbn [flat_call] in Hf. apply feq_le_inv in Hf; [|assumption|assumption].
    destruct Hf as [-> Hr]. split; [reflexivity|exact Hr].
  - (* HSInt *) val_cases v. val_cases v'. unfold fstream in Hf. cbn [stream] in Hf. rewrite !flat_one in Hf.
    cbn [flat_call] in Hf. apply feq_le_inv in Hf; [|apply twos_bound|apply twos_bound].
    destruct Hf as [E Hr]. apply twos_inj in E; [|assumption|assumption]. subst. split; [reflexivity|exact Hr].
  - (* HBool *) val_cases v. destruct l; try contradiction. val_cases v'. destruct l; try contradiction.
    unfold fstream in Hf. cbn [stream] in Hf. rewrite !flat_one in Hf. cbn [flat_call kbytes] in Hf.
    apply feq_le_inv in Hf; [|rewrite pow256_1; lia|rewrite pow256_1; lia].
    destruct Hf as [E Hr]. apply Nat2N.inj in E. subst. split; [reflexivity|exact Hr].
  - (* HChar *) val_cases v. val_cases v'. unfold fstream in Hf. cbn [stream] in Hf. rewrite !flat_one in Hf.
    cbn [flat_call kbytes] in Hf. unfold char_ok in Hw, Hw'.
    apply feq_le_inv in Hf; [|rewrite pow256_4; lia|rewrite pow256_4; lia].
    destruct Hf as [-> Hr]. split; [reflexivity|exact Hr].
  - (* HFloat *) val_cases v. val_cases v'. destruct Hw as [Hn Hx]. destruct Hw' as [_ Hy].
    unfold fstream in Hf. cbn [stream] in Hf. rewrite !flat_one in Hf. cbn [flat_call] in Hf.
    apply feq_le_inv in Hf; [|apply fnorm_bound; assumption|apply fnorm_bound; assumption].
    destruct Hf as [E Hr]. split; [cbn [veq]; exact E|exact Hr].
  - (* HStr *) val_cases v. val_cases v'. unfold fstream in Hf. cbn [stream] in Hf. rewrite !flat_one in Hf.
    cbn [flat_call] in Hf. rewrite <- !app_assoc in Hf.
    apply feq_le_inv in Hf; [|rewrite pow256_8, <- pow2_64; assumption|rewrite pow256_8, <- pow2_64; assumption].
    destruct Hf as [E Hf]. apply Nat2N.inj in E. apply feq_bytes_inv in Hf; [|exact E].
    destruct Hf as [-> Hr]. split; [reflexivity|exact Hr].
  - (* HNonZero *) cbn [wt] in Hw, Hw'. destruct Hw as [Hw _]. destruct Hw' as [Hw' _].
    exact (IHt v v' r r' Hw Hw' Hf).
  - (* HPtr *) exact (IHt v v' r r' Hw Hw' Hf).
  - (* HSkipped *) exact (IHt v v' r r' Hw Hw' Hf).
  - (* HIntern *) val_cases v. destruct l as [|c [|]]; try contradiction.
    val_cases v'. destruct l as [|c' [|]]; try contradiction.
    exact (IHt c c' r r' Hw Hw' Hf).
  - (* HSeq *) val_cases v. val_cases v'. destruct Hw as [Hw Hl]. destruct Hw' as [Hw' Hl'].
    rewrite !fstream_seq, <- !app_assoc in Hf.
    apply feq_le_inv in Hf; [|rewrite pow256_8, <- pow2_64; assumption|rewrite pow256_8, <- pow2_64; assumption].
    destruct Hf as [E Hf]. apply Nat2N.inj in E.
    destruct (seq_UD t IHt _ _ _ _ Hw Hw' E Hf) as [Hvs Hr]. split; [exact Hvs|exact Hr].
  - (* HUnord *) val_cases v. val_cases v'. destruct Hw as [Hw Hl]. destruct Hw' as [Hw' Hl'].
    rewrite !fstream_unord, <- !app_assoc in Hf.
    apply feq_le_inv in Hf; [|rewrite pow256_8, <- pow2_64; assumption|rewrite pow256_8, <- pow2_64; assumption].
    destruct Hf as [_ Hf]. cbn [app] in Hf. apply feq_sub_inv in Hf.
    destruct Hf as [(ts'' & Hp & HF) Hr]. split; [|exact Hr].
    apply Permutation_sym, Permutation_map_inv in Hp. destruct Hp as (ws & -> & Hpw).
    exists ws. split; [exact Hpw|].
    apply (unord_entries t IHt); [|assumption|exact HF].
    eapply Permutation_Forall; eassumption.
  - (* HTuple *) val_cases v. val_cases v'. rewrite !fstream_tuple in Hf.
    exact (tuple_UD ts H _ _ _ _ Hw Hw' Hf).
  - (* HEnum *) val_cases v. val_cases v'. destruct Hw as [Hw Hi]. destruct Hw' as [Hw' Hi'].
    rewrite !fstream_enum, <- !app_assoc in Hf.
    apply feq_le_inv in Hf; [|assumption|assumption].
    destruct Hf as [E Hf]. apply Nat2N.inj in E. subst i0.
    destruct (variant_UD vss H _ _ _ _ _ Hw Hw' Hf) as [Hv Hr].
    split; [split; [reflexivity|exact Hv]|exact Hr].
Qed.

Theorem injective t v v' : wt t v -> wt t v' -> feq (fstream t v) (fstream t v') -> veq t v v'.
Proof.
  intros Hw Hw' Hf. destruct (UD_all t v v' [] [] Hw Hw') as [E _]; [rewrite !app_nil_r; exact Hf|exact E].
Qed.

Theorem prefix_free t v v' r r' :
  wt t v -> wt t v' -> feq (fstream t v ++ r) (fstream t v' ++ r') -> veq t v v' /\ feq r r'.
Proof. intros Hw Hw' Hf. exact (UD_all t v v' r r' Hw Hw' Hf). Qed.

(** in particular no stream is a proper prefix of another stream of the same type *)
Corollary no_proper_prefix t v v' r :
  wt t v -> wt t v' -> fstream t v' = fstream t v ++ r -> r = [].
Proof.
  intros Hw Hw' E.
  destruct (UD_all t v v' r [] Hw Hw') as [_ Hr]; [rewrite app_nil_r, E; apply feq_refl|].
  apply feq_nil_r. exact Hr.
Qed.
