(** Equal values hash equally: the stream of a value depends on the value only up to
    [veq] (entry order of unordered collections, NaN payloads), pointer wrappers are
    transparent, and a serialization round trip ([canon] of the codec model) leaves the
    stream unchanged for types without serializer-skipped fields. *)
From Coq Require Import Permutation.
From QV Require Import Common.Prelude Codec.Varint Codec.Model Codec.RoundTrip Hash.Model Hash.Framing.
Open Scope N_scope.

(** * determinism up to [veq] *)
Definition DET (t : hty) : Prop :=
  forall v v' r r', wt t v -> wt t v' -> veq t v v' -> feq r r' ->
    feq (fstream t v ++ r) (fstream t v' ++ r').

Lemma seq_DET t (IH : DET t) : forall vs vs' r r',
  Forall (wt t) vs -> Forall (wt t) vs' -> Forall2 (veq t) vs vs' -> feq r r' ->
  feq (flat (flat_map (stream t) vs) ++ r) (flat (flat_map (stream t) vs') ++ r').
Proof.
  induction vs as [|v vs IHl]; intros vs' r r' Hw Hw' HF Hr; inversion HF; subst.
  - exact Hr.
  - cbn [flat_map]. rewrite !flat_app, <- !app_assoc.
    inversion Hw; subst. inversion Hw'; subst.
    apply IH; try assumption. apply IHl; assumption.
Qed.

Lemma tuple_DET ts (IH : Forall DET ts) : forall vs vs' r r',
  wt_tuple wt ts vs -> wt_tuple wt ts vs' -> veq_tuple veq ts vs vs' -> feq r r' ->
  feq (flat (stream_tuple stream ts vs) ++ r) (flat (stream_tuple stream ts vs') ++ r').
Proof.
  induction IH as [|t ts Ht Hts IHl]; intros [|v vs] [|v' vs'] r r' Hw Hw' He Hr; cbn in Hw, Hw', He; try contradiction.
  - exact Hr.
  - rewrite !stream_tuple_cons, !flat_app, <- !app_assoc.
    destruct Hw as [Hv Hvs]. destruct Hw' as [Hv' Hvs']. destruct He as [E Es].
    apply Ht; try assumption. apply IHl; assumption.
Qed.

Lemma variant_DET vss (IH : Forall (Forall DET) vss) : forall i vs vs' r r',
  wt_variant wt vs vss i -> wt_variant wt vs' vss i -> veq_variant veq vs vs' vss i -> feq r r' ->
  feq (flat (stream_variant stream vs vss i) ++ r) (flat (stream_variant stream vs' vss i) ++ r').
Proof.
  induction IH as [|ts vss Hts Hvss IHl]; intros i vs vs' r r' Hw Hw' He Hr.
  - destruct i; contradiction.
  - destruct i as [|i]; cbn in *.
    + apply tuple_DET; assumption.
    + apply IHl; assumption.
Qed.

Lemma Forall2_length {A B} {R : A -> B -> Prop} {l l'} : Forall2 R l l' -> length l = length l'.
Proof. induction 1; cbn; congruence. Qed.

Lemma bytes_feq bs r r' : feq r r' -> feq (bytes bs ++ r) (bytes bs ++ r').
Proof. intros Hr. apply feq_app; [apply feq_refl|exact Hr]. Qed.

Lemma unord_streams t (IH : DET t) : forall ws vs',
  Forall (wt t) ws -> Forall (wt t) vs' -> Forall2 (veq t) ws vs' ->
  Forall2 feq (map (fstream t) ws) (map (fstream t) vs').
Proof.
  induction ws as [|w ws IHl]; intros vs' Hw Hw' HF; inversion HF; subst; cbn [map]; constructor.
  - inversion Hw; subst. inversion Hw'; subst.
    pose proof (IH w y [] [] ltac:(assumption) ltac:(assumption) ltac:(assumption) (Forall2_nil _)) as Hx.
    rewrite !app_nil_r in Hx. exact Hx.
  - inversion Hw; subst. inversion Hw'; subst. apply IHl; assumption.
Qed.

Ltac val_cases v := destruct v; cbn [wt veq] in *; try contradiction.

Theorem DET_all : forall t, DET t.
Proof.
  induction t using hty_ind'; unfold DET; intros v v' r r' Hw Hw' He Hr.
  - cbn [veq] in He. subst v'. apply feq_app; [apply feq_refl|exact Hr].
  - cbn [veq] in He. subst v'. apply feq_app; [apply feq_refl|exact Hr].
  - cbn [veq] in He. subst v'. apply feq_app; [apply feq_refl|exact Hr].
  - cbn [veq] in He. subst v'. apply feq_app; [apply feq_refl|exact Hr].
  - (* HFloat *) val_cases v. val_cases v'. unfold fstream. cbn [stream]. rewrite !flat_one. cbn [flat_call].
    rewrite He. apply bytes_feq. exact Hr.
  - cbn [veq] in He. subst v'. apply feq_app; [apply feq_refl|exact Hr].
  - (* HNonZero *) cbn [wt] in Hw, Hw'. destruct Hw as [Hw _]. destruct Hw' as [Hw' _].
    exact (IHt v v' r r' Hw Hw' He Hr).
  - exact (IHt v v' r r' Hw Hw' He Hr).
  - exact (IHt v v' r r' Hw Hw' He Hr).
  - (* HIntern *) val_cases v. destruct l as [|c [|]]; try contradiction.
    val_cases v'. destruct l as [|c' [|]]; try contradiction.
    exact (IHt c c' r r' Hw Hw' He Hr).
  - (* HSeq *) val_cases v. val_cases v'. destruct Hw as [Hw Hl]. destruct Hw' as [Hw' Hl'].
    rewrite !fstream_seq, <- !app_assoc. rewrite (Forall2_length He).
    apply bytes_feq. apply seq_DET; assumption.
  - (* HUnord *) val_cases v. val_cases v'. destruct Hw as [Hw Hl]. destruct Hw' as [Hw' Hl'].
    destruct He as (ws & Hp & HF).
    rewrite !fstream_unord, <- !app_assoc.
    rewrite (Permutation_length Hp), (Forall2_length HF).
    apply bytes_feq. cbn [app]. constructor; [|exact Hr].
    apply aeq_S with (ts'' := map (fstream t) ws); [apply Permutation_map; exact Hp|].
    apply (unord_streams t IHt); [|assumption|exact HF].
    eapply Permutation_Forall; eassumption.
  - (* HTuple *) val_cases v. val_cases v'. rewrite !fstream_tuple. apply tuple_DET; assumption.
  - (* HEnum *) val_cases v. val_cases v'. destruct Hw as [Hw Hi]. destruct Hw' as [Hw' Hi'].
    destruct He as [<- He]. rewrite !fstream_enum, <- !app_assoc.
    apply bytes_feq. apply variant_DET; assumption.
Qed.

Theorem deterministic t v v' : wt t v -> wt t v' -> veq t v v' -> feq (fstream t v) (fstream t v').
Proof.
  intros Hw Hw' He. pose proof (DET_all t v v' [] [] Hw Hw' He (Forall2_nil _)) as Hx.
  rewrite !app_nil_r in Hx. exact Hx.
Qed.

(** * history independence of unordered collections; no typing hypothesis is needed *)
Theorem history_free t vs vs' :
  Permutation vs vs' -> feq (fstream (HUnord t) (VList vs)) (fstream (HUnord t) (VList vs')).
Proof.
  intros Hp. rewrite !fstream_unord, (Permutation_length Hp).
  apply bytes_feq. constructor; [|constructor].
  apply aeq_S with (ts'' := map (fstream t) vs'); [apply Permutation_map; exact Hp|].
  apply Forall2_refl_of. apply Forall_forall. intros s _. apply feq_refl.
Qed.

(** owned vs shared storage: Box/Rc/Arc/Cow/& and the Arc inside an interned handle write nothing *)
Theorem pointer_transparent t v id :
  stream (HPtr t) v = stream t v /\ fstream (HPtr t) v = fstream t v /\
  fstream (HIntern id t) (VList [v]) = fstream t v.
Proof. repeat split. Qed.

(** * serialization round trip *)
Lemma canon_tuple_id ts : Forall (fun t => no_skip t -> forall v, wt t v -> canon (erase t) v = v) ts ->
  forall vs, no_skip (HTuple ts) -> wt_tuple wt ts vs -> canon_tuple canon (map erase ts) vs = vs.
Proof.
  induction 1 as [|t ts Ht Hts IHl]; intros [|v vs] Hn Hw; cbn in Hw; try contradiction.
  - reflexivity.
  - cbn [map canon_tuple]. destruct Hn as [Hn Hns]. destruct Hw as [Hv Hvs].
    rewrite (Ht Hn v Hv). f_equal. apply IHl; assumption.
Qed.

Lemma canon_variant_id vss :
  Forall (Forall (fun t => no_skip t -> forall v, wt t v -> canon (erase t) v = v)) vss ->
  forall dw i vs, no_skip (HEnum dw vss) -> wt_variant wt vs vss i ->
    canon_variant canon vs (map (map erase) vss) i = vs.
Proof.
  induction 1 as [|ts vss Hts Hvss IHl]; intros dw i vs Hn Hw.
  - destruct i; contradiction.
  - destruct Hn as [Hn Hns]. destruct i as [|i]; cbn in Hw; cbn [map canon_variant].
    + apply canon_tuple_id; assumption.
    + apply (IHl dw); assumption.
Qed.

Theorem canon_id : forall t, no_skip t -> forall v, wt t v -> canon (erase t) v = v.
Proof.
  induction t using hty_ind'; intros Hn v Hw.
  - destruct k; reflexivity.
  - destruct k; reflexivity.
  - val_cases v. destruct l; try contradiction. destruct i as [|[|i]]; [reflexivity|reflexivity|lia].
  - reflexivity.
  - reflexivity.
  - reflexivity.
  - cbn [wt] in Hw. destruct Hw as [Hw _]. cbn [erase canon]. apply IHt; assumption.
  - cbn [erase]. apply IHt; assumption.
  - contradiction.
  - val_cases v. destruct l as [|c [|]]; try contradiction. cbn [erase canon].
    rewrite (IHt Hn c Hw). reflexivity.
  - val_cases v. destruct Hw as [Hw _]. cbn [erase canon]. f_equal.
    induction Hw as [|x l Hx Hl IHl]; [reflexivity|]. cbn [map]. rewrite (IHt Hn x Hx), IHl. reflexivity.
  - val_cases v. destruct Hw as [Hw _]. cbn [erase canon]. f_equal.
    induction Hw as [|x l Hx Hl IHl]; [reflexivity|]. cbn [map]. rewrite (IHt Hn x Hx), IHl. reflexivity.
  - val_cases v. cbn [erase canon]. f_equal. apply canon_tuple_id; assumption.
  - val_cases v. destruct Hw as [Hw _]. cbn [erase canon]. f_equal. apply (canon_variant_id vss H dw); assumption.
Qed.

(** what the decoder returns is [canon] of what was encoded (C12_roundtrip), up to the
    iteration order of rebuilt hash maps: any well-typed [v2] that is [veq] to it has
    the stream of the original value. *)
Theorem roundtrip_stable t v :
  no_skip t -> wt t v ->
  fstream t (canon (erase t) v) = fstream t v /\
  forall v2, wt t v2 -> veq t v2 (canon (erase t) v) -> feq (fstream t v2) (fstream t v).
Proof.
  intros Hn Hw. rewrite (canon_id t Hn v Hw). split; [reflexivity|].
  intros v2 Hw2 He. apply deterministic; assumption.
Qed.
