(** Correspondence checker for the write-behind model.  The harness
    (harness/src/bin/writebehind.rs) drives the real [WriteBehind] over an in-memory
    [KvDatabase] that records every physical commit as the list of serialization
    buffers it consumed; it writes, per run, the grouping mode of the store, the
    batches it built (creation order; per batch the final operation of every cell, the
    way the batch's hash maps keep them) and the commit log it observed after drop.
    [failures] returns the indices of the runs on which the model predicts another log. *)
From QV Require Import Common.Prelude WriteBehind.Model.
Open Scope N_scope.

(** how the harness store answers [should_write_more] *)
Inductive mode :=
| MNever                   (* the trait's default: every logical batch is committed alone *)
| MOps (k : N)             (* while the open physical batch holds fewer than k operations *)
| MBatches (k : N)         (* while it holds fewer than k logical batches *)
| MHash (seed : N).        (* a fixed pseudo-random function of the two counts *)

Definition n_ops (c : list batch) : N := N.of_nat (length (concat c)).
Definition n_batches (c : list batch) : N := N.of_nat (length c).

Definition more_of (m : mode) (c : list batch) : bool :=
  match m with
  | MNever => false
  | MOps k => n_ops c <? k
  | MBatches k => n_batches c <? k
  | MHash seed => ((n_batches c * 31 + n_ops c * 17 + seed) mod 5) <? 3
  end.

Definition op_eqb (a b : op) : bool :=
  match a, b with
  | Put c v k x, Put c' v' k' x' => (c =? c') && (v =? v') && bytes_eqb k k' && bytes_eqb x x'
  | Del c v k, Del c' v' k' => (c =? c') && (v =? v') && bytes_eqb k k'
  | InsM c k e, InsM c' k' e' => (c =? c') && bytes_eqb k k' && bytes_eqb e e'
  | DelM c k e, DelM c' k' e' => (c =? c') && bytes_eqb k k' && bytes_eqb e e'
  | _, _ => false
  end.

(** the real batch serializes its cells in hash-map order: equal up to order (the cells
    of one batch are pairwise distinct, so inclusion + length is permutation) *)
Definition batch_equiv (a b : batch) : bool :=
  (Nat.eqb (length a) (length b)) && forallb (fun o => existsb (op_eqb o) b) a
  && forallb (fun o => existsb (op_eqb o) a) b.

Fixpoint list_all2 {A B} (f : A -> B -> bool) (a : list A) (b : list B) : bool :=
  match a, b with
  | [], [] => true
  | x :: a', y :: b' => f x y && list_all2 f a' b'
  | _, _ => false
  end.

(** arrival order used to run the operational model: the real arrival order is not
    observable without hooks, and by [C10_order] it does not matter; the checker runs
    the operational model on a fixed shuffle (odd positions descending, then even
    ascending) AND the specification [group], and requires both to match the log. *)
Definition shuffle {A} (l : list A) : list A :=
  let fix odds (l : list A) (flag : bool) : list A * list A :=
      match l with
      | [] => ([], [])
      | x :: r => let '(o, e) := odds r (negb flag) in if flag then (x :: o, e) else (o, x :: e)
      end in
  let '(o, e) := odds l false in rev o ++ e.

Inductive case :=
| Run (m : mode) (bs : list batch) (obs : list (list batch))
    (* all of [bs] submitted; [obs] = the commit log after drop *)
| Gap (m : mode) (bs : list batch) (missing : N) (obs : list (list batch)) (aborted : bool).
    (* batch [missing] created, never submitted; [obs] = commits seen before the
       process died / drop returned; [aborted] = the committer's assertion fired *)

Definition log_matches (pred : list (list task)) (obs : list (list batch)) : bool :=
  list_all2 (fun g og => list_all2 (fun t ob => batch_equiv (snd t) ob) g og) pred obs.

Definition check (c : case) : bool :=
  match c with
  | Run m bs obs =>
      let ts := tasks_of bs in
      let more := more_of m in
      let fin := finish more (run more (map Arrive (shuffle ts))) in
      log_matches (group more ts) obs && log_matches (log fin) obs && assert_ok fin
  | Gap m bs missing obs aborted =>
      let ts := filter (fun t => negb (fst t =? missing)) (tasks_of bs) in
      let more := more_of m in
      let fin := finish more (run more (map Arrive (shuffle ts))) in
      log_matches (log fin) obs && Bool.eqb (negb (assert_ok fin)) aborted
  end.

Fixpoint failures_from (i : N) (cs : list case) : list N :=
  match cs with
  | [] => []
  | c :: r => if check c then failures_from (i + 1) r else i :: failures_from (i + 1) r
  end.
Definition failures (cs : list case) : list N := failures_from 0 cs.
