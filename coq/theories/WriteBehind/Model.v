(** Executable model of the write-behind reorder pipeline
    (crates/storage/src/write_manager/write_behind.rs).

    What the code does, and how it is modelled:

    - [WriteBufferPool::get_buffer] gives every new logical batch the next value of an
      atomic counter: its *epoch* (creation order).  A batch is filled through the
      caches ([put_wide_column] / [put_set]: one hash-map slot per cell, the last call
      wins) and handed to [submit_write_batch] by any thread.
    - [serialize_worker] (n threads) turns a batch into a serialization buffer = the
      list of logical operations [op] of the batch, and sends the pair to the single
      [commit_worker].  Because the serializers race, tasks reach the committer in any
      order: the model takes the arrival order as an arbitrary list of events.
    - [commit_worker]: every received task is pushed on a [BinaryHeap] whose [Ord] is
      the reversed epoch (a min-heap; epochs are unique, so the only observable
      behaviour of the heap is "peek/pop the least epoch": [extract_min]), then
      [process_pending_commits] runs: while the least epoch equals [expected_epoch],
      pop it, append its buffer to the open physical batch, push the logical batch on
      [processed_logical_batch], increment [expected_epoch], and if the store's
      [should_write_more()] answers false, [flush].  If the least epoch is anything
      else (larger: a gap; smaller: cannot happen with unique epochs) the loop stops
      and the task stays in the heap.
    - [CurrentBatch::flush] commits the open physical batch (even when it is empty),
      and then for each logical batch in it either sends it to the after-commit thread
      (cache notifications) or, when the shutting-down flag is set, only marks it
      inactive.  The flag is read once per logical batch; the model reads it once per
      flush (it only decides which cache notifications are skipped, never what is
      committed).
    - [Drop for WriteBehind]: set the flag, close the submit channel, join the
      serializers (they drain their queue first), join the committer.  When its channel
      is closed and empty the committer runs [process_pending_commits] once more,
      flushes unconditionally (so the commit log always ends with one more physical
      commit, possibly empty) and then executes [assert!(holdback_queues.is_empty())]:
      [finish] below; the assertion fails iff [heap] is non-empty afterwards.

    The grouping decision of the store is the Section variable [more] (a function of
    the logical batches that are in the open physical batch). *)
From QV Require Import Common.Prelude.
Open Scope N_scope.

Notation bytes := (list N) (only parsing).

(** one logical operation of a serialization buffer (kv_database.rs, trait
    [SerializationBuffer]); columns and value types are numbered by the harness *)
Inductive op :=
| Put (col vty : N) (key value : bytes)
| Del (col vty : N) (key : bytes)
| InsM (col : N) (key elem : bytes)
| DelM (col : N) (key elem : bytes).

Notation batch := (list op) (only parsing).
(** a task at the committer: epoch of the logical batch + its serialized operations *)
Notation task := (N * list op)%type (only parsing).

Record state := mk {
  heap : list task;          (* hold-back queue (contents of the BinaryHeap) *)
  expected : N;              (* CurrentBatch.expected_epoch *)
  cur : list task;           (* processed_logical_batch == what db_write_batch holds *)
  log : list (list task);    (* physical commits so far, oldest first *)
  notified : list N;         (* epochs handed to the after-commit thread, in order *)
  down : bool                (* the shutting-down flag as the committer sees it *)
}.

Definition init : state := mk [] 0 [] [] [] false.

(** least epoch of the heap and the rest *)
Fixpoint extract_min (h : list task) : option (task * list task) :=
  match h with
  | [] => None
  | t :: r =>
      match extract_min r with
      | None => Some (t, [])
      | Some (m, r') => if fst t <=? fst m then Some (t, r) else Some (m, t :: r')
      end
  end.

(** [CurrentBatch::flush] *)
Definition flush (st : state) : state :=
  mk (heap st) (expected st) [] (log st ++ [cur st])
     (if down st then notified st else notified st ++ map fst (cur st))
     (down st).

Section Pipeline.
Variable more : list batch -> bool.      (* db_write_batch.should_write_more() *)

(** [process_pending_commits]; the fuel is the heap size (one pop per round) *)
Fixpoint process_n (n : nat) (st : state) : state :=
  match n with
  | O => st
  | S n' =>
      match extract_min (heap st) with
      | None => st
      | Some (t, rest) =>
          if fst t =? expected st then
            let cur' := cur st ++ [t] in
            let st1 := mk rest (expected st + 1) cur' (log st) (notified st) (down st) in
            process_n n' (if more (map snd cur') then st1 else flush st1)
          else st
      end
  end.
Definition process (st : state) : state := process_n (length (heap st)) st.

Definition push (t : task) (st : state) : state :=
  mk (t :: heap st) (expected st) (cur st) (log st) (notified st) (down st).
Definition set_down (st : state) : state :=
  mk (heap st) (expected st) (cur st) (log st) (notified st) true.

(** what the committer can observe between two receives *)
Inductive event := Arrive (t : task) | Shutdown.

Definition step (st : state) (e : event) : state :=
  match e with
  | Arrive t => process (push t st)
  | Shutdown => set_down st
  end.
Definition run (evs : list event) : state := fold_left step evs init.

(** channel closed and drained: the tail of [commit_worker] *)
Definition finish (st : state) : state := flush (process (set_down st)).
(** the final [assert!(holdback_queues.is_empty())] *)
Definition assert_ok (st : state) : bool := match heap st with [] => true | _ => false end.

Fixpoint arrivals (evs : list event) : list task :=
  match evs with
  | [] => []
  | Arrive t :: r => t :: arrivals r
  | Shutdown :: r => arrivals r
  end.

(** * specification: group the batches, taken in creation order *)
Fixpoint group_from (c : list task) (ts : list task) : list (list task) :=
  match ts with
  | [] => [c]
  | t :: r =>
      let c' := c ++ [t] in
      if more (map snd c') then group_from c' r else c' :: group_from [] r
  end.
Definition group (ts : list task) : list (list task) := group_from [] ts.

End Pipeline.

(** the tasks of the batches [bs], numbered in creation order *)
Definition epochs (n : nat) : list N := map N.of_nat (seq 0 n).
Definition tasks_of (bs : list batch) : list task := combine (epochs (length bs)) bs.

(** * abstract store: one value per cell; a member of a set is a cell of its own *)
Inductive cell :=
| CW (col vty : N) (key : bytes)
| CM (col : N) (key elem : bytes).

Fixpoint bytes_eqb (a b : bytes) : bool :=
  match a, b with
  | [], [] => true
  | x :: a', y :: b' => (x =? y) && bytes_eqb a' b'
  | _, _ => false
  end.
Definition cell_eqb (a b : cell) : bool :=
  match a, b with
  | CW c v k, CW c' v' k' => (c =? c') && (v =? v') && bytes_eqb k k'
  | CM c k e, CM c' k' e' => (c =? c') && bytes_eqb k k' && bytes_eqb e e'
  | _, _ => false
  end.

Definition store := list (cell * bytes).
Fixpoint sget (s : store) (c : cell) : option bytes :=
  match s with
  | [] => None
  | (c', v) :: r => if cell_eqb c c' then Some v else sget r c
  end.
Fixpoint sdel (s : store) (c : cell) : store :=
  match s with
  | [] => []
  | (c', v) :: r => if cell_eqb c c' then sdel r c else (c', v) :: sdel r c
  end.
Definition sset (s : store) (c : cell) (v : bytes) : store := (c, v) :: sdel s c.

Definition apply_op (s : store) (o : op) : store :=
  match o with
  | Put c v k x => sset s (CW c v k) x
  | Del c v k => sdel s (CW c v k)
  | InsM c k e => sset s (CM c k e) []
  | DelM c k e => sdel s (CM c k e)
  end.
(** a logical batch applied on its own *)
Definition apply_batch (s : store) (b : batch) : store := fold_left apply_op b s.
(** one physical commit: the operations of the logical batches it contains, in order *)
Definition commit (s : store) (g : list task) : store :=
  fold_left apply_op (concat (map snd g)) s.
