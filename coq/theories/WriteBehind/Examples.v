(** Non-vacuity for the C10 theorems: a concrete run with overlapping keys, an arrival
    order different from creation order, a shutdown flag raised in the middle, and a
    store that groups; and a run with a gap. *)
From QV Require Import Common.Prelude WriteBehind.Model WriteBehind.Order WriteBehind.Check.
From Coq Require Import Permutation.
Open Scope N_scope.

Definition b0 : list op := [Put 0 0 [1] [10]; InsM 10 [1] [7]].
Definition b1 : list op := [Put 0 0 [1] [11]; Put 0 1 [1] [99]; DelM 10 [1] [7]].
Definition b2 : list op := [].
Definition b3 : list op := [Del 0 0 [1]; InsM 10 [1;2] [7]; InsM 10 [1] [7]].
Definition bsx : list (list op) := [b0; b1; b2; b3].
Definition morex := more_of (MOps 4).

(** arrival order 2,0,1,3 with the shutdown flag raised after the third arrival *)
Definition evsx : list event :=
  [Arrive (2, b2); Arrive (0, b0); Arrive (1, b1); Shutdown; Arrive (3, b3)].

Example evsx_perm : Permutation (arrivals evsx) (tasks_of bsx).
Proof.
  change (Permutation [(2, b2); (0, b0); (1, b1); (3, b3)] ([(0, b0); (1, b1)] ++ (2, b2) :: [(3, b3)])).
  apply Permutation_cons_app. reflexivity.
Qed.

(** batch 2 arrives first and is held back; batch 0 (2 ops) opens a group, batch 1
    (3 ops) takes it to the threshold of 4 and it is committed (both are handed to the
    after-commit thread: the flag is still down), batch 2 follows from the heap into a
    new group; batch 3 joins it and they are committed by the final flush, without
    notification. *)
Example runx :
  let st := finish morex (run morex evsx) in
  log st = [[(0, b0); (1, b1)]; [(2, b2); (3, b3)]] /\ notified st = [0; 1] /\ heap st = [] /\
  log (run morex [Arrive (2, b2); Arrive (0, b0)]) = [] /\
  cur (run morex [Arrive (2, b2); Arrive (0, b0)]) = [(0, b0)] /\
  log (run morex [Arrive (2, b2); Arrive (0, b0); Arrive (1, b1)]) = [[(0, b0); (1, b1)]] /\
  cur (run morex [Arrive (2, b2); Arrive (0, b0); Arrive (1, b1)]) = [(2, b2)].
Proof. vm_compute. repeat split; reflexivity. Qed.

Example storex :
  fold_left commit (log (finish morex (run morex evsx))) [] =
    [(CM 10 [1] [7], []); (CM 10 [1; 2] [7], []); (CW 0 1 [1], [99])].
Proof. vm_compute. reflexivity. Qed.

(** the same batches with epoch 1 never submitted: epoch 0 is committed, 2 and 3 are
    held back for ever and the committer's final assertion fails *)
Definition evs_gap : list event := [Arrive (3, b3); Arrive (0, b0); Arrive (2, b2)].
Example gapx :
  let st := finish morex (run morex evs_gap) in
  log st = [[(0, b0)]] /\ heap st = [(2, b2); (3, b3)] /\ assert_ok st = false /\ expected st = 1.
Proof. vm_compute. repeat split; reflexivity. Qed.
Example gapx_hyp : forall t, In t (arrivals evs_gap) -> fst t <> 1.
Proof. intros t [<-|[<-|[<-|[]]]]; cbn; lia. Qed.
