(** Proofs about the write-behind reorder pipeline (model: WriteBehind/Model.v). *)
From QV Require Import Common.Prelude WriteBehind.Model.
From Coq Require Import Permutation FinFun.
Open Scope N_scope.

(** * lists *)
Lemma skipn_nth_cons {A} (l : list A) k d :
  (k < length l)%nat -> skipn k l = nth k l d :: skipn (S k) l.
Proof.
  revert k; induction l as [|a l IH]; intros [|k] H; cbn [length] in H; try lia.
  - reflexivity.
  - cbn [skipn nth]. rewrite (IH k) by lia. reflexivity.
Qed.

Lemma firstn_S_snoc {A} (l : list A) k d :
  (k < length l)%nat -> firstn (S k) l = firstn k l ++ [nth k l d].
Proof.
  revert k; induction l as [|a l IH]; intros [|k] H; cbn [length] in H; try lia.
  - reflexivity.
  - cbn [firstn nth app]. f_equal. apply IH. lia.
Qed.

Lemma skipn_seq' k : forall a n, skipn k (seq a n) = seq (a + k) (n - k).
Proof.
  induction k as [|k IH]; intros a n.
  - rewrite Nat.add_0_r, Nat.sub_0_r. reflexivity.
  - destruct n as [|n]; [reflexivity|]. cbn [seq skipn]. rewrite IH.
    replace (S a + k)%nat with (a + S k)%nat by lia. reflexivity.
Qed.

Lemma combine_fst_snd {A B} (l1 : list A) (l2 : list B) :
  length l1 = length l2 -> map fst (combine l1 l2) = l1 /\ map snd (combine l1 l2) = l2.
Proof.
  revert l2; induction l1 as [|a l1 IH]; intros [|b l2] H; cbn in H; try discriminate.
  - split; reflexivity.
  - destruct (IH l2) as [H1 H2]; [lia|]. cbn. rewrite H1, H2. split; reflexivity.
Qed.

Lemma nodup_fst_inj {A B} (l : list (A * B)) x y :
  NoDup (map fst l) -> In x l -> In y l -> fst x = fst y -> x = y.
Proof.
  induction l as [|a l IH]; intros Hnd Hx Hy E; [destruct Hx|].
  cbn in Hnd. inversion Hnd as [|? ? Hnot Hnd']; subst.
  destruct Hx as [->|Hx], Hy as [->|Hy]; auto.
  - exfalso. apply Hnot. rewrite E. apply in_map. exact Hy.
  - exfalso. apply Hnot. rewrite <- E. apply in_map. exact Hx.
Qed.

(** * epochs of the tasks of [bs] *)
Lemma epochs_length n : length (epochs n) = n.
Proof. unfold epochs. rewrite map_length, seq_length. reflexivity. Qed.

Lemma tasks_fst bs : map fst (tasks_of bs) = epochs (length bs).
Proof. unfold tasks_of. apply combine_fst_snd. apply epochs_length. Qed.
Lemma tasks_snd bs : map snd (tasks_of bs) = bs.
Proof. unfold tasks_of. apply combine_fst_snd. apply epochs_length. Qed.
Lemma tasks_length bs : length (tasks_of bs) = length bs.
Proof. unfold tasks_of. rewrite combine_length, epochs_length. apply Nat.min_id. Qed.

Lemma epochs_nodup n : NoDup (epochs n).
Proof.
  unfold epochs. apply Injective_map_NoDup; [|apply seq_NoDup].
  intros a b. apply Nat2N.inj.
Qed.

(** * the hold-back heap *)
Lemma extract_min_none h : extract_min h = None -> h = [].
Proof.
  destruct h as [|t r]; [reflexivity|]. cbn [extract_min].
  destruct (extract_min r) as [[m r']|]; [destruct (fst t <=? fst m)|]; discriminate.
Qed.

Lemma extract_min_some h : forall t r, extract_min h = Some (t, r) ->
  Permutation h (t :: r) /\ Forall (fun x => fst t <= fst x) r.
Proof.
  induction h as [|a h IH]; intros t r E; [discriminate|].
  cbn [extract_min] in E. destruct (extract_min h) as [[m r']|] eqn:Em.
  - destruct (IH m r' eq_refl) as [Hp Hf].
    destruct (N.leb_spec (fst a) (fst m)) as [Hle|Hlt]; inversion E; subst; clear E.
    + split; [reflexivity|].
      apply (Permutation_Forall (Permutation_sym Hp)). constructor; [exact Hle|].
      eapply Forall_impl; [|exact Hf]. cbn. intros; lia.
    + split.
      * rewrite Hp. apply perm_swap.
      * constructor; [lia|exact Hf].
  - inversion E; subst. apply extract_min_none in Em. subst. split; [reflexivity|constructor].
Qed.

Lemma extract_min_length h t r : extract_min h = Some (t, r) -> length h = S (length r).
Proof. intros E. apply extract_min_some in E as [Hp _]. apply Permutation_length in Hp. exact Hp. Qed.

Section Proofs.
Variable more : list batch -> bool.

(** * the specification as a left fold (one logical batch at a time, creation order) *)
Definition take1 (lc : list (list task) * list task) (t : task) : list (list task) * list task :=
  let c' := snd lc ++ [t] in
  if more (map snd c') then (fst lc, c') else (fst lc ++ [c'], []).
Definition spec (ts : list task) := fold_left take1 ts ([], []).

Lemma group_from_fold ts : forall l c,
  fst (fold_left take1 ts (l, c)) ++ [snd (fold_left take1 ts (l, c))] = l ++ group_from more c ts.
Proof.
  induction ts as [|t r IH]; intros l c; [reflexivity|].
  cbn [fold_left group_from]. unfold take1 at 2 4. cbn [fst snd].
  destruct (more (map snd (c ++ [t]))).
  - apply IH.
  - rewrite IH. rewrite <- app_assoc. reflexivity.
Qed.

Lemma group_spec ts : group more ts = fst (spec ts) ++ [snd (spec ts)].
Proof. unfold group, spec. rewrite group_from_fold. reflexivity. Qed.

Lemma take1_fold_extends l : forall lc, exists ext, fst (fold_left take1 l lc) = fst lc ++ ext.
Proof.
  induction l as [|t r IH]; intros lc; [exists []; cbn; rewrite app_nil_r; reflexivity|].
  cbn [fold_left]. destruct (IH (take1 lc t)) as [ext E]. rewrite E.
  unfold take1. destruct (more _); cbn [fst].
  - exists ext. reflexivity.
  - eexists. rewrite <- app_assoc. reflexivity.
Qed.

Lemma take1_fold_concat l : forall lc,
  concat (fst (fold_left take1 l lc)) ++ snd (fold_left take1 l lc) = concat (fst lc) ++ snd lc ++ l.
Proof.
  induction l as [|t r IH]; intros lc; [cbn; rewrite app_nil_r; reflexivity|].
  cbn [fold_left]. rewrite IH. unfold take1. destruct (more _); cbn [fst snd].
  - rewrite <- !app_assoc. reflexivity.
  - rewrite concat_app. cbn [concat]. rewrite !app_nil_r, <- !app_assoc. reflexivity.
Qed.

Lemma concat_group_from ts : forall c, concat (group_from more c ts) = c ++ ts.
Proof.
  induction ts as [|t r IH]; intros c; cbn [group_from].
  - cbn. reflexivity.
  - destruct (more _).
    + rewrite IH, <- app_assoc. reflexivity.
    + cbn [concat]. rewrite IH, <- app_assoc. reflexivity.
Qed.

(** * invariant: the committer has handled exactly the first [k] tasks *)
Section Ordered.
Variable ts : list task.
Hypothesis Hep : map fst ts = epochs (length ts).

Lemma ts_nodup : NoDup (map fst ts).
Proof. rewrite Hep. apply epochs_nodup. Qed.

Lemma ts_nth_epoch k : (k < length ts)%nat -> fst (nth k ts (0, [])) = N.of_nat k.
Proof.
  intros H.
  pose proof (map_nth fst ts (0, []) k) as E. cbn [fst] in E. rewrite <- E.
  rewrite Hep. unfold epochs.
  rewrite (nth_indep _ 0 (N.of_nat 0)) by (rewrite map_length, seq_length; lia).
  rewrite map_nth, seq_nth by lia. reflexivity.
Qed.

Lemma ts_skipn_epoch k x : In x (skipn k ts) -> N.of_nat k <= fst x.
Proof.
  intros Hin. apply (in_map fst) in Hin. rewrite <- skipn_map, Hep in Hin. unfold epochs in Hin.
  rewrite skipn_map, skipn_seq' in Hin. apply in_map_iff in Hin as [j [Hj Hin]].
  apply in_seq in Hin. lia.
Qed.

Definition Inv (rest : list task) (st : state) : Prop :=
  exists k, (k <= length ts)%nat /\ expected st = N.of_nat k /\
            (log st, cur st) = spec (firstn k ts) /\
            Permutation (heap st ++ rest) (skipn k ts).

Lemma Inv_init : Inv ts init.
Proof. exists O. cbn. repeat split; try lia. reflexivity. Qed.

Lemma Inv_perm rest rest' st : Permutation rest rest' -> Inv rest st -> Inv rest' st.
Proof.
  intros Hp (k & Hk & He & Hs & Hperm). exists k. repeat split; auto.
  rewrite <- Hp. exact Hperm.
Qed.

Lemma Inv_push t rest st : Inv (t :: rest) st -> Inv rest (push t st).
Proof.
  intros (k & Hk & He & Hs & Hperm). exists k. cbn [push heap expected log cur]. repeat split; auto.
  rewrite <- Hperm. cbn [app]. apply Permutation_middle.
Qed.

Lemma Inv_set_down rest st : Inv rest st -> Inv rest (set_down st).
Proof. intros (k & H). exists k. exact H. Qed.

Lemma process_n_Inv rest : forall n st, Inv rest st -> Inv rest (process_n more n st).
Proof.
  induction n as [|n IH]; intros st HI; [exact HI|].
  cbn [process_n]. destruct (extract_min (heap st)) as [[t r]|] eqn:E; [|exact HI].
  destruct (N.eqb_spec (fst t) (expected st)) as [Heq|]; [|exact HI].
  apply IH. destruct HI as (k & Hk & He & Hs & Hperm).
  destruct (extract_min_some _ _ _ E) as [Hp _].
  assert (Hin : In t (skipn k ts)).
  { eapply Permutation_in; [exact Hperm|]. apply in_or_app. left.
    eapply Permutation_in; [apply Permutation_sym; exact Hp|]. left. reflexivity. }
  assert (Hlt : (k < length ts)%nat).
  { destruct (Nat.lt_ge_cases k (length ts)) as [|Hge]; [assumption|].
    rewrite skipn_all2 in Hin by lia. destruct Hin. }
  pose proof (skipn_nth_cons ts k (0, []) Hlt) as Hsk.
  assert (Htx : t = nth k ts (0, [])).
  { apply (nodup_fst_inj ts); [apply ts_nodup| | |].
    - rewrite <- (firstn_skipn k ts). apply in_or_app. right. exact Hin.
    - apply nth_In. exact Hlt.
    - rewrite ts_nth_epoch by exact Hlt. rewrite Heq, He. reflexivity. }
  assert (Hperm' : Permutation (r ++ rest) (skipn (S k) ts)).
  { rewrite Hp, Hsk, <- Htx in Hperm. cbn [app] in Hperm.
    apply Permutation_cons_inv in Hperm. exact Hperm. }
  assert (Hspec' : spec (firstn (S k) ts) = take1 (log st, cur st) t).
  { rewrite (firstn_S_snoc ts k (0, []) Hlt), <- Htx. unfold spec.
    rewrite fold_left_app. cbn [fold_left]. unfold spec in Hs. rewrite <- Hs. reflexivity. }
  exists (S k). unfold take1 in Hspec'. cbn [fst snd] in Hspec'.
  destruct (more (map snd (cur st ++ [t]))); cbn [flush heap expected log cur];
    (split; [lia|]); (split; [rewrite He; lia|]); (split; [symmetry; exact Hspec'|exact Hperm']).
Qed.

Lemma process_Inv rest st : Inv rest st -> Inv rest (process more st).
Proof. apply process_n_Inv. Qed.

Lemma run_Inv : forall evs st rest, Inv (arrivals evs ++ rest) st -> Inv rest (fold_left (step more) evs st).
Proof.
  induction evs as [|[t|] evs IH]; intros st rest HI; cbn [fold_left arrivals step app] in *.
  - exact HI.
  - apply IH. apply process_Inv. apply Inv_push. exact HI.
  - apply IH. apply Inv_set_down. exact HI.
Qed.

(** [process_pending_commits] really stops only at a gap or on an empty heap *)
Lemma process_n_done : forall n st, (length (heap st) <= n)%nat ->
  forall t r, extract_min (heap (process_n more n st)) = Some (t, r) -> fst t <> expected (process_n more n st).
Proof.
  induction n as [|n IH]; intros st Hlen t r E.
  - cbn [process_n] in E. destruct (heap st); [discriminate|cbn in Hlen; lia].
  - cbn [process_n] in *. destruct (extract_min (heap st)) as [[t0 r0]|] eqn:E0; [|congruence].
    destruct (N.eqb_spec (fst t0) (expected st)) as [Heq|Hne].
    + apply extract_min_length in E0.
      apply (IH _) with (r := r); [|exact E].
      destruct (more _); cbn [flush heap]; lia.
    + rewrite E0 in E. inversion E; subst. exact Hne.
Qed.

Lemma process_done st t r :
  extract_min (heap (process more st)) = Some (t, r) -> fst t <> expected (process more st).
Proof. apply process_n_done. lia. Qed.

(** after the final drain with everything arrived nothing is held back *)
Lemma drained st : Inv [] st ->
  heap (process more st) = [] /\ log (process more st) = fst (spec ts) /\ cur (process more st) = snd (spec ts)
  /\ expected (process more st) = N.of_nat (length ts).
Proof.
  intros HI. apply process_Inv in HI. destruct HI as (k & Hk & He & Hs & Hperm).
  rewrite app_nil_r in Hperm.
  assert (Hh : heap (process more st) = []).
  { destruct (extract_min (heap (process more st))) as [[t r]|] eqn:E; [|apply extract_min_none; exact E].
    exfalso. pose proof (process_done _ _ _ E) as Hne.
    destruct (extract_min_some _ _ _ E) as [Hp Hmin].
    assert (Hin : In t (skipn k ts)).
    { eapply Permutation_in; [exact Hperm|]. eapply Permutation_in; [apply Permutation_sym; exact Hp|]. left; reflexivity. }
    assert (Hlt : (k < length ts)%nat).
    { destruct (Nat.lt_ge_cases k (length ts)) as [|Hge]; [assumption|].
      rewrite skipn_all2 in Hin by lia. destruct Hin. }
    pose proof (skipn_nth_cons ts k (0, []) Hlt) as Hsk.
    assert (Hx : In (nth k ts (0, [])) (t :: r)).
    { eapply Permutation_in; [exact Hp|]. eapply Permutation_in; [apply Permutation_sym; exact Hperm|].
      rewrite Hsk. left; reflexivity. }
    pose proof (ts_nth_epoch k Hlt) as Hxe.
    pose proof (ts_skipn_epoch k t Hin) as Hge.
    assert (fst t <= N.of_nat k).
    { destruct Hx as [Ht|Hx]; [rewrite Ht; lia|]. rewrite Forall_forall in Hmin. specialize (Hmin _ Hx). lia. }
    apply Hne. rewrite He. lia. }
  rewrite Hh in Hperm. apply Permutation_nil in Hperm.
  assert (k = length ts).
  { apply (f_equal (@length task)) in Hperm. rewrite skipn_length in Hperm. cbn in Hperm. lia. }
  subst k. rewrite firstn_all in Hs.
  split; [exact Hh|]. split; [rewrite <- Hs; reflexivity|]. split; [rewrite <- Hs; reflexivity|exact He].
Qed.

Lemma finish_ordered evs : Permutation (arrivals evs) ts ->
  let st := finish more (run more evs) in
  log st = group more ts /\ heap st = [] /\ cur st = [] /\ expected st = N.of_nat (length ts).
Proof.
  intros Hp. cbn zeta. unfold finish, run.
  assert (HI : Inv [] (set_down (fold_left (step more) evs init))).
  { apply Inv_set_down. apply run_Inv. rewrite app_nil_r.
    eapply Inv_perm; [apply Permutation_sym; exact Hp|apply Inv_init]. }
  destruct (drained _ HI) as (Hh & Hl & Hc & He).
  cbn [flush log heap cur expected]. rewrite Hh, Hl, Hc, He, group_spec. repeat split; reflexivity.
Qed.

(** every intermediate commit log is made of whole groups of the final one *)
Lemma prefix_ordered evs1 evs2 : Permutation (arrivals (evs1 ++ evs2)) ts ->
  exists groups j,
    log (finish more (run more (evs1 ++ evs2))) = log (run more evs1) ++ groups /\
    concat (log (run more evs1)) ++ cur (run more evs1) = firstn j ts.
Proof.
  intros Hp. destruct (finish_ordered _ Hp) as [Hl _]. cbn zeta in Hl. rewrite Hl.
  assert (Harr : arrivals (evs1 ++ evs2) = arrivals evs1 ++ arrivals evs2).
  { clear. induction evs1 as [|[t|] e IH]; cbn; [reflexivity|rewrite IH; reflexivity|exact IH]. }
  rewrite Harr in Hp.
  assert (HI : Inv (arrivals evs2) (run more evs1)).
  { apply run_Inv. eapply Inv_perm; [apply Permutation_sym; exact Hp|apply Inv_init]. }
  destruct HI as (k & Hk & He & Hs & Hperm).
  assert (Hsplit : spec ts = fold_left take1 (skipn k ts) (spec (firstn k ts))).
  { unfold spec. rewrite <- fold_left_app, firstn_skipn. reflexivity. }
  rewrite group_spec, Hsplit, <- Hs.
  destruct (take1_fold_extends (skipn k ts) (log (run more evs1), cur (run more evs1))) as [ext E].
  rewrite E. cbn [fst]. exists (ext ++ [snd (fold_left take1 (skipn k ts) (log (run more evs1), cur (run more evs1)))]), k.
  split; [rewrite <- app_assoc; reflexivity|].
  pose proof (take1_fold_concat (firstn k ts) ([], [])) as Hc.
  fold (spec (firstn k ts)) in Hc. rewrite <- Hs in Hc. cbn in Hc. exact Hc.
Qed.

End Ordered.

(** * nothing is lost or duplicated, whatever arrives (gaps, even duplicate epochs) *)
Definition mset (st : state) : list task := concat (log st) ++ cur st ++ heap st.

Lemma process_n_conserve : forall n st, Permutation (mset (process_n more n st)) (mset st).
Proof.
  induction n as [|n IH]; intros st; [reflexivity|].
  cbn [process_n]. destruct (extract_min (heap st)) as [[t r]|] eqn:E; [|reflexivity].
  destruct (fst t =? expected st); [|reflexivity].
  destruct (extract_min_some _ _ _ E) as [Hp _].
  rewrite IH. unfold mset at 2. rewrite Hp.
  destruct (more _); unfold mset; cbn [flush log cur heap].
  - apply Permutation_app_head. rewrite <- app_assoc. reflexivity.
  - rewrite concat_app. cbn [concat app]. rewrite app_nil_r, <- !app_assoc. reflexivity.
Qed.

Lemma run_conserve : forall evs st,
  Permutation (mset (fold_left (step more) evs st)) (mset st ++ arrivals evs).
Proof.
  induction evs as [|[t|] evs IH]; intros st; cbn [fold_left arrivals step].
  - rewrite app_nil_r. reflexivity.
  - rewrite IH. unfold process. rewrite process_n_conserve. unfold mset. cbn [push log cur heap].
    rewrite <- !app_assoc. do 2 apply Permutation_app_head.
    cbn [app]. apply Permutation_middle.
  - rewrite IH. reflexivity.
Qed.

Lemma finish_conserve st : Permutation (mset (finish more st)) (mset st).
Proof.
  unfold finish. transitivity (mset (process more (set_down st))).
  - unfold mset. cbn [flush log cur heap]. rewrite concat_app. cbn [concat app].
    rewrite app_nil_r, <- !app_assoc. reflexivity.
  - unfold process. rewrite process_n_conserve. reflexivity.
Qed.

Lemma conservation evs :
  Permutation (concat (log (finish more (run more evs))) ++ heap (finish more (run more evs))) (arrivals evs).
Proof.
  pose proof (finish_conserve (run more evs)) as H1.
  pose proof (run_conserve evs init) as H2. fold (run more evs) in H2.
  unfold mset at 1 in H1. cbn [finish flush cur] in H1. cbn [app] in H1.
  rewrite H1, H2. reflexivity.
Qed.

(** * a gap stalls everything behind it *)
Section Gap.
Variable g : N.

Definition J (st : state) : Prop :=
  expected st <= g /\ Forall (fun t => fst t < expected st) (concat (log st) ++ cur st)
  /\ Forall (fun t => fst t <> g) (heap st).

Lemma process_n_J : forall n st, J st -> J (process_n more n st).
Proof.
  induction n as [|n IH]; intros st HJ; [exact HJ|].
  cbn [process_n]. destruct (extract_min (heap st)) as [[t r]|] eqn:E; [|exact HJ].
  destruct (N.eqb_spec (fst t) (expected st)) as [Heq|]; [|exact HJ].
  apply IH. destruct HJ as (Hle & Hdone & Hheap).
  destruct (extract_min_some _ _ _ E) as [Hp _].
  pose proof (Permutation_Forall Hp Hheap) as Hh'. inversion Hh' as [|? ? Htg Hr]; subst.
  assert (Hnew : Forall (fun x => fst x < expected st + 1) (concat (log st) ++ cur st ++ [t])).
  { rewrite app_assoc. apply Forall_app. split.
    - eapply Forall_impl; [|exact Hdone]. cbn. intros; lia.
    - constructor; [lia|constructor]. }
  destruct (more _); unfold J; cbn [flush expected log cur heap].
  - repeat split; [lia|exact Hnew|exact Hr].
  - rewrite concat_app. cbn [concat]. rewrite !app_nil_r.
    repeat split; [lia|exact Hnew|exact Hr].
Qed.

Lemma run_J : forall evs st, (forall t, In t (arrivals evs) -> fst t <> g) -> J st -> J (fold_left (step more) evs st).
Proof.
  induction evs as [|[t|] evs IH]; intros st Harr HJ; cbn [fold_left step arrivals] in *.
  - exact HJ.
  - apply IH; [intros; apply Harr; right; assumption|].
    apply process_n_J. destruct HJ as (Hle & Hdone & Hheap). unfold J. cbn [push expected log cur heap].
    repeat split; auto. constructor; [apply Harr; left; reflexivity|exact Hheap].
  - apply IH; [exact Harr|]. exact HJ.
Qed.

Lemma gap_stalls evs : (forall t, In t (arrivals evs) -> fst t <> g) ->
  let st := finish more (run more evs) in
  (forall t, In t (concat (log st)) -> fst t < g) /\
  (forall t, In t (arrivals evs) -> g < fst t -> In t (heap st)) /\
  ((exists t, In t (arrivals evs) /\ g < fst t) -> assert_ok st = false).
Proof.
  intros Harr. cbn zeta.
  assert (HJ : J (process more (set_down (run more evs)))).
  { apply process_n_J. apply (run_J evs init Harr). unfold J. cbn. repeat split; try constructor. lia. }
  destruct HJ as (Hle & Hdone & Hheap).
  assert (Hlog : forall t, In t (concat (log (finish more (run more evs)))) -> fst t < g).
  { intros t Hin. unfold finish in Hin. cbn [flush log] in Hin. rewrite concat_app in Hin. cbn [concat] in Hin.
    rewrite app_nil_r in Hin. rewrite Forall_forall in Hdone. specialize (Hdone _ Hin). cbv beta in Hdone. lia. }
  assert (Hstuck : forall t, In t (arrivals evs) -> g < fst t -> In t (heap (finish more (run more evs)))).
  { intros t Hin Hgt. pose proof (conservation evs) as Hc.
    apply (Permutation_in _ (Permutation_sym Hc)) in Hin. apply in_app_or in Hin as [Hin|Hin]; [|exact Hin].
    apply Hlog in Hin. lia. }
  repeat split; auto.
  intros (t & Hin & Hgt). specialize (Hstuck t Hin Hgt). unfold assert_ok.
  destruct (heap (finish more (run more evs))); [destruct Hstuck|reflexivity].
Qed.
End Gap.

(** * cache notifications (after-commit tasks) are only sent for committed batches *)
Definition K (st : state) : Prop := incl (notified st) (map fst (concat (log st))).

Lemma flush_K st : K st -> K (flush st).
Proof.
  unfold K. cbn [flush notified log]. intros H. rewrite concat_app, map_app. cbn [concat]. rewrite app_nil_r.
  destruct (down st).
  - apply incl_appl. exact H.
  - apply incl_app; [apply incl_appl; exact H|apply incl_appr; apply incl_refl].
Qed.

Lemma process_n_K : forall n st, K st -> K (process_n more n st).
Proof.
  induction n as [|n IH]; intros st HK; [exact HK|].
  cbn [process_n]. destruct (extract_min (heap st)) as [[t r]|]; [|exact HK].
  destruct (fst t =? expected st); [|exact HK].
  apply IH. destruct (more _); [exact HK|]. apply flush_K. exact HK.
Qed.

Lemma run_K : forall evs st, K st -> K (fold_left (step more) evs st).
Proof.
  induction evs as [|[t|] evs IH]; intros st HK; cbn [fold_left step]; [exact HK| |].
  - apply IH. apply process_n_K. exact HK.
  - apply IH. exact HK.
Qed.

Lemma notified_committed evs :
  incl (notified (finish more (run more evs))) (map fst (concat (log (finish more (run more evs))))).
Proof.
  unfold finish. apply flush_K. apply process_n_K. apply (run_K evs init). intros x [].
Qed.

End Proofs.

(** * the abstract store *)
Lemma bytes_eqb_eq a : forall b, bytes_eqb a b = true <-> a = b.
Proof.
  induction a as [|x a IH]; intros [|y b]; cbn; split; try discriminate; try reflexivity.
  - intros H. apply andb_true_iff in H as [H1 H2]. apply N.eqb_eq in H1. apply IH in H2. subst. reflexivity.
  - intros H. inversion H; subst. apply andb_true_iff. split; [apply N.eqb_refl|apply IH; reflexivity].
Qed.

Lemma cell_eqb_eq a b : cell_eqb a b = true <-> a = b.
Proof.
  destruct a, b; cbn; split; try discriminate; intros H.
  - apply andb_true_iff in H as [H H3]. apply andb_true_iff in H as [H1 H2].
    apply N.eqb_eq in H1, H2. apply bytes_eqb_eq in H3. subst. reflexivity.
  - inversion H; subst. rewrite !N.eqb_refl. cbn. apply bytes_eqb_eq. reflexivity.
  - apply andb_true_iff in H as [H H3]. apply andb_true_iff in H as [H1 H2].
    apply N.eqb_eq in H1. apply bytes_eqb_eq in H2, H3. subst. reflexivity.
  - inversion H; subst. rewrite N.eqb_refl. cbn. apply andb_true_iff. split; apply bytes_eqb_eq; reflexivity.
Qed.

Lemma cell_eqb_refl a : cell_eqb a a = true.
Proof. apply cell_eqb_eq. reflexivity. Qed.
Lemma cell_eqb_neq a b : a <> b -> cell_eqb a b = false.
Proof. intros H. destruct (cell_eqb a b) eqn:E; [|reflexivity]. apply cell_eqb_eq in E. contradiction. Qed.

Lemma sget_sdel_same s c : sget (sdel s c) c = None.
Proof.
  induction s as [|[c' v] s IH]; [reflexivity|]. cbn [sdel].
  destruct (cell_eqb c c') eqn:E; [exact IH|]. cbn [sget]. rewrite E. exact IH.
Qed.
Lemma sget_sdel_other s c c' : c' <> c -> sget (sdel s c) c' = sget s c'.
Proof.
  intros Hne. induction s as [|[c2 v] s IH]; [reflexivity|]. cbn [sdel sget].
  destruct (cell_eqb c c2) eqn:E.
  - apply cell_eqb_eq in E. subst c2. rewrite (cell_eqb_neq c' c Hne). exact IH.
  - cbn [sget]. rewrite IH. reflexivity.
Qed.
Lemma sget_sset_same s c v : sget (sset s c v) c = Some v.
Proof. unfold sset. cbn [sget]. rewrite cell_eqb_refl. reflexivity. Qed.
Lemma sget_sset_other s c c' v : c' <> c -> sget (sset s c v) c' = sget s c'.
Proof. intros Hne. unfold sset. cbn [sget]. rewrite (cell_eqb_neq c' c Hne). apply sget_sdel_other. exact Hne. Qed.

Lemma fold_commit L : forall s, fold_left commit L s = fold_left apply_op (concat (map snd (concat L))) s.
Proof.
  induction L as [|g L IH]; intros s; [reflexivity|].
  cbn [fold_left concat]. rewrite IH. unfold commit. rewrite map_app, concat_app, fold_left_app. reflexivity.
Qed.
Lemma fold_batches bs : forall s, fold_left apply_batch bs s = fold_left apply_op (concat bs) s.
Proof.
  induction bs as [|b bs IH]; intros s; [reflexivity|].
  cbn [fold_left concat]. rewrite IH. unfold apply_batch. rewrite fold_left_app. reflexivity.
Qed.

(** * the theorems in the form pinned by Properties/C10.v *)
Theorem order more bs evs : Permutation (arrivals evs) (tasks_of bs) ->
  let st := finish more (run more evs) in
  log st = group more (tasks_of bs) /\
  concat (log st) = tasks_of bs /\
  map fst (concat (log st)) = epochs (length bs) /\
  concat (map snd (concat (log st))) = concat bs /\
  heap st = [] /\ cur st = [] /\ assert_ok st = true.
Proof.
  intros Hp. cbn zeta.
  assert (Hep : map fst (tasks_of bs) = epochs (length (tasks_of bs))) by (rewrite tasks_length; apply tasks_fst).
  destruct (finish_ordered more (tasks_of bs) Hep evs Hp) as (Hl & Hh & Hc & _). cbn zeta in *.
  assert (Hcc : concat (log (finish more (run more evs))) = tasks_of bs).
  { rewrite Hl. unfold group. rewrite concat_group_from. reflexivity. }
  repeat split; auto.
  - rewrite Hcc. apply tasks_fst.
  - rewrite Hcc, tasks_snd. reflexivity.
  - unfold assert_ok. rewrite Hh. reflexivity.
Qed.

Theorem order_independent more bs evs evs' :
  Permutation (arrivals evs) (tasks_of bs) -> Permutation (arrivals evs') (tasks_of bs) ->
  log (finish more (run more evs)) = log (finish more (run more evs')).
Proof.
  intros H1 H2. destruct (order more bs evs H1) as [E1 _]. destruct (order more bs evs' H2) as [E2 _].
  cbn zeta in *. congruence.
Qed.

Theorem prefix more bs evs1 evs2 : Permutation (arrivals (evs1 ++ evs2)) (tasks_of bs) ->
  exists groups j,
    log (finish more (run more (evs1 ++ evs2))) = log (run more evs1) ++ groups /\
    concat (log (run more evs1)) ++ cur (run more evs1) = firstn j (tasks_of bs).
Proof.
  intros Hp. apply prefix_ordered; [|exact Hp]. rewrite tasks_length. apply tasks_fst.
Qed.

Theorem store_eq more bs evs s0 : Permutation (arrivals evs) (tasks_of bs) ->
  fold_left commit (log (finish more (run more evs))) s0 = fold_left apply_batch bs s0.
Proof.
  intros Hp. destruct (order more bs evs Hp) as (_ & _ & _ & Hc & _). cbn zeta in Hc.
  rewrite fold_commit, fold_batches, Hc. reflexivity.
Qed.

Theorem exactly_once more bs evs : Permutation (arrivals evs) (tasks_of bs) ->
  let st := finish more (run more evs) in
  Permutation (concat (log st)) (arrivals evs) /\ NoDup (map fst (concat (log st))).
Proof.
  intros Hp. destruct (order more bs evs Hp) as (_ & Hc & He & _). cbn zeta in *.
  split; [rewrite Hc; apply Permutation_sym; exact Hp|rewrite He; apply epochs_nodup].
Qed.
