(** C14 — the explicit finite universe of type terms and the proof that the model's ids
    are pairwise distinct on it.

    The universe is constructor-closed in groups: every leaf impl of
    crates/stable_type_id; every unary constructor over 8 leaves; 12 unary constructors
    nested twice and 5 nested three times; 7 binary constructors over all ordered pairs of
    8 leaves; binary/unary and binary/binary nestings on both sides; all five shapes of
    depth-3 binary nesting; ternary constructors; tuples of arity 1..16; arrays of eleven
    lengths (0 .. 2^64-1), nested, under and over other constructors; slices and pointers
    to unsized types; derived generic structs/enums ([TDer], opposite fold direction) mixed
    with the built-ins everywhere.  harness/src/bin/typeid.rs instantiates the same list as
    concrete Rust types, in the same order (checked by TypeId/Check.v on every run). *)
From Coq Require Import String Ascii.
From QV Require Import Common.Prelude TypeId.Model.
Open Scope N_scope.
Open Scope string_scope.

(* ------------------------------------------------------------------ names *)
Definition PKG : string := "qv_harness@0.0.0::typeid::".
Definition dn (s : string) : string := PKG ++ s.

Definition leaf_names : list string := [
  "std::tuple::Unit"; "str"; "alloc::string::String";
  "u8"; "u16"; "u32"; "u64"; "u128"; "usize"; "i8"; "i16"; "i32"; "i64"; "i128"; "isize";
  "bool"; "char"; "f32"; "f64";
  "core::num::NonZeroU8"; "core::num::NonZeroU16"; "core::num::NonZeroU32"; "core::num::NonZeroU64";
  "core::num::NonZeroU128"; "core::num::NonZeroUsize"; "core::num::NonZeroI8"; "core::num::NonZeroI16";
  "core::num::NonZeroI32"; "core::num::NonZeroI64"; "core::num::NonZeroI128"; "core::num::NonZeroIsize";
  "core::sync::atomic::AtomicBool"; "core::sync::atomic::AtomicI8"; "core::sync::atomic::AtomicI16";
  "core::sync::atomic::AtomicI32"; "core::sync::atomic::AtomicI64"; "core::sync::atomic::AtomicIsize";
  "core::sync::atomic::AtomicU8"; "core::sync::atomic::AtomicU16"; "core::sync::atomic::AtomicU32";
  "core::sync::atomic::AtomicU64"; "core::sync::atomic::AtomicUsize";
  "core::ops::RangeFull"; "core::time::Duration"; "std::time::Instant"; "std::time::SystemTime";
  "core::cmp::Ordering"; "core::sync::atomic::Ordering"; "core::convert::Infallible";
  "std::path::Path"; "std::path::PathBuf"; "std::ffi::OsStr"; "std::ffi::OsString";
  "core::ffi::CStr"; "alloc::ffi::CString"; "std::hash::RandomState"; "std::hash::DefaultHasher";
  "core::any::TypeId"; "core::marker::PhantomPinned"; "std::io::Error"; "std::io::ErrorKind";
  "core::fmt::Error"; "core::alloc::Layout"; "core::alloc::LayoutError";
  "core::net::IpAddr"; "core::net::Ipv4Addr"; "core::net::Ipv6Addr"; "core::net::SocketAddr";
  "core::net::SocketAddrV4"; "core::net::SocketAddrV6";
  "bitvec::order::Lsb0"; "bitvec::order::Msb0";
  dn "D0"; dn "E0"; dn "inner::D0";
  dn "queries::QA"; dn "queries::QB"; dn "queries::QS"; dn "queries::QP" ].

Definition unary_names : list string := [
  "std::vec::Vec"; "core::option::Option"; "alloc::boxed::Box"; "std::sync::Arc"; "alloc::rc::Rc";
  "alloc::sync::Weak"; "alloc::rc::Weak"; "core::cell::RefCell"; "core::cell::Cell"; "core::cell::UnsafeCell";
  "core::cell::OnceCell"; "std::sync::Mutex"; "std::sync::RwLock"; "std::sync::OnceLock";
  "core::marker::PhantomData"; "core::mem::ManuallyDrop"; "core::mem::MaybeUninit"; "core::pin::Pin";
  "core::ptr::NonNull"; "core::primitive::reference"; "core::primitive::reference_mut";
  "core::primitive::ptr_const"; "core::primitive::ptr_mut"; "core::num::Wrapping"; "core::num::Saturating";
  "core::sync::atomic::AtomicPtr"; "core::ops::Range"; "core::ops::RangeFrom"; "core::ops::RangeInclusive";
  "core::ops::RangeTo"; "core::ops::RangeToInclusive"; "core::ops::Bound"; "std::hash::BuildHasherDefault";
  "alloc::collections::BTreeSet"; "alloc::collections::VecDeque"; "alloc::collections::LinkedList";
  "alloc::collections::BinaryHeap" ].

Definition TUPLE : string := "std::tuple::Tuple".
Definition other_app_names : list string := [
  TUPLE; "std::slice::Slice"; "alloc::borrow::Cow"; "smallvec::SmallVec"; "bitvec::BitVec";
  "core::result::Result"; "alloc::collections::BTreeMap"; "std::collections::HashSet";
  "std::collections::HashMap"; ARRAY ].

Definition derived_sig : list (string * nat) := [
  (dn "D1", 1); (dn "inner::D1", 1); (dn "D2", 2); (dn "E2", 2); (dn "inner::D2", 2); (dn "D3", 3);
  (dn "queries::QG", 1) ]%nat.

(** the signature of the universe: what each name is *)
Definition mem_str (s : string) (l : list string) : bool := existsb (String.eqb s) l.
Definition usig : sig := fun s =>
  if mem_str s leaf_names then Some KLeaf
  else if mem_str s unary_names || mem_str s other_app_names then Some KApp
  else match find (fun p => String.eqb s (fst p)) derived_sig with
       | Some (_, n) => Some (KDer n)
       | None => None
       end.

(* ------------------------------------------------------------------ constructors *)
Definition L (s : string) : tterm := TLeaf s.
Definition U (s : string) (t : tterm) : tterm := TApp s [t].
Definition B (s : string) (a b : tterm) : tterm := TApp s [a; b].
Definition T3 (s : string) (a b c : tterm) : tterm := TApp s [a; b; c].
Definition D1 (s : string) (t : tterm) : tterm := TDer (dn s) [t].
Definition D2 (s : string) (a b : tterm) : tterm := TDer (dn s) [a; b].
Definition D3 (s : string) (a b c : tterm) : tterm := TDer (dn s) [a; b; c].
Definition tup (l : list tterm) : tterm := TApp TUPLE l.
Definition arr (n : N) (t : tterm) : tterm := TArr t n.

Definition a1 (F : list (tterm -> tterm)) (G : list tterm) : list tterm :=
  flat_map (fun t => map (fun c => c t) F) G.
Definition a2 (F : list (tterm -> tterm -> tterm)) (G1 G2 : list tterm) : list tterm :=
  flat_map (fun a => flat_map (fun b => map (fun c => c a b) F) G2) G1.
Definition a3 (F : list (tterm -> tterm -> tterm -> tterm)) (G1 G2 G3 : list tterm) : list tterm :=
  flat_map (fun a => flat_map (fun b => flat_map (fun c => map (fun f => f a b c) F) G3) G2) G1.

Definition tu8 := L "u8".
Definition tstring := L "alloc::string::String".
Definition tunit := L "std::tuple::Unit".
Definition td0 := L (dn "D0").
Definition K8 : list tterm := [tu8; L "u64"; L "i32"; L "bool"; L "f64"; tstring; tunit; td0].
Definition K4 : list tterm := [tu8; tstring; tunit; td0].
Definition K2 : list tterm := [tu8; tstring].
Definition hashers : list tterm := [L "std::hash::RandomState"; U "std::hash::BuildHasherDefault" (L "std::hash::DefaultHasher")].

Definition UAll : list (tterm -> tterm) :=
  map U unary_names ++ [fun t => tup [t]; D1 "D1"; D1 "inner::D1"].
Definition UCore : list (tterm -> tterm) :=
  [U "std::vec::Vec"; U "core::option::Option"; U "alloc::boxed::Box"; U "std::sync::Arc";
   U "core::primitive::reference"; U "core::cell::RefCell"; U "std::sync::Mutex"; U "core::marker::PhantomData";
   U "core::ops::Range"; U "alloc::collections::BTreeSet"; (fun t => tup [t]); D1 "D1"].
Definition U3 : list (tterm -> tterm) :=
  [U "std::vec::Vec"; U "core::option::Option"; U "std::sync::Arc"; (fun t => tup [t]); D1 "D1"].
Definition tup2 (a b : tterm) := tup [a; b].
Definition BAll : list (tterm -> tterm -> tterm) :=
  [B "core::result::Result"; B "alloc::collections::BTreeMap"; B "std::collections::HashSet"; tup2;
   D2 "D2"; D2 "E2"; D2 "inner::D2"].
Definition B4 : list (tterm -> tterm -> tterm) :=
  [B "core::result::Result"; B "alloc::collections::BTreeMap"; tup2; D2 "D2"].
Definition B2 : list (tterm -> tterm -> tterm) := [tup2; D2 "D2"].
Definition TAll : list (tterm -> tterm -> tterm -> tterm) :=
  [T3 "std::collections::HashMap"; (fun a b c => tup [a; b; c]); D3 "D3"].
Definition ArrAll : list (tterm -> tterm) :=
  map arr [0; 1; 2; 3; 8; 255; 256; 65535; 65536; 4294967296; 18446744073709551615].
Definition Arr4 : list (tterm -> tterm) := map arr [0; 1; 2; 3].
Definition Arr2 : list (tterm -> tterm) := map arr [1; 2].
Definition SlicePtrs : list (tterm -> tterm) :=
  let sl := U "std::slice::Slice" in
  [sl; (fun t => U "alloc::boxed::Box" (sl t)); (fun t => U "std::sync::Arc" (sl t));
   (fun t => U "alloc::rc::Rc" (sl t)); (fun t => U "core::primitive::reference" (sl t))].

Definition tstr := L "str".
Definition cow := U "alloc::borrow::Cow".
Definition unsized_misc : list tterm := [
  U "alloc::boxed::Box" tstr; U "std::sync::Arc" tstr; U "alloc::rc::Rc" tstr; U "core::primitive::reference" tstr;
  U "core::primitive::reference_mut" tstr; U "core::primitive::ptr_const" tstr; cow tstr;
  cow (U "std::slice::Slice" tu8); cow (L "std::path::Path"); cow (L "std::ffi::OsStr"); cow (L "core::ffi::CStr");
  U "std::sync::Arc" (L "std::path::Path"); U "alloc::boxed::Box" (L "std::ffi::OsStr");
  U "alloc::boxed::Box" (L "core::ffi::CStr"); U "core::primitive::reference" (L "std::path::Path");
  U "std::sync::Mutex" tstr; U "core::cell::RefCell" (U "std::slice::Slice" tu8); U "core::marker::PhantomData" tstr;
  U "core::ptr::NonNull" tstr; U "core::mem::ManuallyDrop" tstr ] ++ map cow K8.

Definition smallvecs : list tterm :=
  a1 [U "smallvec::SmallVec"] (a1 (map arr [1; 2; 4; 8]) K4).
Definition bitvecs : list tterm :=
  a2 [B "bitvec::BitVec"] [tu8; L "u16"; L "u32"; L "u64"; L "usize"] [L "bitvec::order::Lsb0"; L "bitvec::order::Msb0"].

Definition wide_tuples : list tterm :=
  map (fun n => tup (repeat tu8 n)) (seq 4 13) ++
  map (fun i => tup (repeat tu8 i ++ [tstring] ++ repeat tu8 (15 - i))) (seq 0 16).

Definition query_types : list tterm :=
  let qg := D1 "queries::QG" in
  [qg tu8; qg (L "u64"); qg (tup [L "u64"; L "u64"]); qg (L (dn "queries::QA"))].

Definition P2 : list tterm := a2 B2 K2 K2.

Definition groups : list (string * list tterm) := [
  ("leaves", map L leaf_names);
  ("unary_d1", a1 UAll K8);
  ("unary_d2", a1 UCore (a1 UCore K8));
  ("unary_d3", a1 U3 (a1 U3 (a1 U3 K4)));
  ("binary_d1", a2 BAll K8 K8);
  ("binary_unary_l", a2 B4 (a1 U3 K4) K4);
  ("binary_unary_r", a2 B4 K4 (a1 U3 K4));
  ("unary_binary", a1 U3 (a2 B4 K4 K4));
  ("binary_nest_l", a2 B4 (a2 B4 K2 K2) K2);
  ("binary_nest_r", a2 B4 K2 (a2 B4 K2 K2));
  ("binary_d3_bal", a2 B2 P2 P2);
  ("binary_d3_ll", a2 B2 (a2 B2 P2 K2) K2);
  ("binary_d3_lr", a2 B2 (a2 B2 K2 P2) K2);
  ("binary_d3_rl", a2 B2 K2 (a2 B2 P2 K2));
  ("binary_d3_rr", a2 B2 K2 (a2 B2 K2 P2));
  ("ternary_d1", a3 TAll K4 K4 K4);
  ("hashers", a3 [T3 "std::collections::HashMap"] K4 K4 hashers);
  ("hashset_hashers", a2 [B "std::collections::HashSet"] K8 hashers);
  ("wide_tuples", wide_tuples);
  ("arrays_d1", a1 ArrAll K8);
  ("arrays_nested", a1 Arr4 (a1 Arr4 K2));
  ("arrays_of_unary", a1 Arr4 (a1 U3 K2));
  ("unary_of_arrays", a1 UCore (a1 Arr4 K2));
  ("binary_arrays_l", a2 B2 (a1 Arr2 K2) K2);
  ("binary_arrays_r", a2 B2 K2 (a1 Arr2 K2));
  ("slices", a1 SlicePtrs K8);
  ("unsized_misc", unsized_misc);
  ("smallvec", smallvecs);
  ("bitvec", bitvecs);
  ("query_types", query_types) ].

Definition universe : list tterm := flat_map snd groups.
Definition universe_size : N := 5010.

Fixpoint depth (t : tterm) : nat :=
  match t with
  | TLeaf _ => 0
  | TApp _ l | TDer _ l => S (fold_right (fun x m => Nat.max (depth x) m) 0%nat l)
  | TArr e _ => S (depth e)
  end.

(* ------------------------------------------------------------------ decision procedure *)
Lemma memN_In x l : memN x l = false -> ~ In x l.
Proof.
  induction l as [|y r IH]; cbn [memN In]; [tauto|].
  destruct (N.eqb_spec x y) as [->|Hne]; cbn [orb]; [discriminate|].
  intros Hm [Heq|Hin]; [congruence | exact (IH Hm Hin)].
Qed.

Lemma nodupN_sound l : nodupN l = true -> NoDup l.
Proof.
  induction l as [|x r IH]; cbn [nodupN]; [constructor|].
  intros H. apply andb_true_iff in H as [Hm Hr]. constructor.
  - apply memN_In. now apply negb_true_iff.
  - exact (IH Hr).
Qed.

Lemma NoDup_map_inv' {A B} (f : A -> B) l : NoDup (map f l) -> NoDup l.
Proof.
  induction l as [|x r IH]; cbn [map]; intros H; [constructor|].
  inversion H as [|? ? Hn Hr]; subst. constructor.
  - intros Hin. apply Hn. now apply in_map.
  - exact (IH Hr).
Qed.

(** the sweep itself: all 128-bit ids of the universe computed by the model and compared
    pairwise inside the kernel *)
Lemma universe_ids_nodup : nodupN (map id128 universe) = true.
Proof. vm_cast_no_check (eq_refl true). Qed.   (* evaluated once, by the kernel, at Qed (~25 s) *)

Lemma universe_length : N.of_nat (length universe) = universe_size.
Proof. vm_compute. reflexivity. Qed.

Lemma universe_id128_distinct : NoDup (map id128 universe).
Proof. apply nodupN_sound, universe_ids_nodup. Qed.

Lemma universe_distinct : NoDup (map id_of universe).
Proof.
  apply (NoDup_map_inv' as_u128). rewrite map_map. exact universe_id128_distinct.
Qed.

(** distinct members of the universe have distinct ids (the usable form) *)
Lemma NoDup_map_inj {A B} (f : A -> B) l : NoDup (map f l) ->
  forall x y, In x l -> In y l -> f x = f y -> x = y.
Proof.
  induction l as [|a r IH]; cbn [map In]; intros H x y Hx Hy E; [tauto|].
  inversion H as [|? ? Hn Hr]; subst.
  destruct Hx as [->|Hx], Hy as [->|Hy].
  - reflexivity.
  - exfalso. apply Hn. rewrite E. now apply in_map.
  - exfalso. apply Hn. rewrite <- E. now apply in_map.
  - exact (IH Hr x y Hx Hy E).
Qed.

Lemma universe_id_inj t t' : In t universe -> In t' universe -> id_of t = id_of t' -> t = t'.
Proof. apply NoDup_map_inj, universe_distinct. Qed.

Lemma universe_id128_inj t t' : In t universe -> In t' universe -> id128 t = id128 t' -> t = t'.
Proof. apply NoDup_map_inj, universe_id128_distinct. Qed.

(** every member is well formed for the signature [usig] and at most 3 deep, so the
    structural theorem applies to the universe *)
Lemma universe_wf : forallb (wfb usig) universe = true.
Proof. vm_cast_no_check (eq_refl true). Qed.
Lemma universe_depth : forallb (fun t => Nat.leb (depth t) 3) universe = true.
Proof. vm_compute. reflexivity. Qed.
