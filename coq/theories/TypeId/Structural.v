(** C14 — structural injectivity of the id expression.

    [sym_id t] is the expression the impls evaluate for the type [t] (names, raw lengths
    and the nesting of [combine]).  Main result [structural]: for terms that are well
    formed for one signature — every name is either a non-generic type, or a built-in
    constructor, or a derived generic type with one fixed number of parameters; generic
    applications have at least one argument — equal expressions imply equal terms.  So
    swapped parameters, re-nesting, tuple arity (although arity is not folded in), array
    lengths, built-in vs. derived fold direction can never alias *structurally*; whatever
    aliasing remains is a collision of the 128-bit mixing functions.

    The signature hypothesis is necessary ([unrestricted_refuted]): the derive folds
    [param.combine(acc)], the built-ins [acc.combine(param)], so a derived name used at two
    arities aliases a tuple.  The real derive names a type by [module_path!()] and its
    identifier, which does not distinguish items declared in different blocks of one
    module; the witness is replayed on the real code by the harness. *)
From Coq Require Import String Ascii.
From QV Require Import Common.Prelude TypeId.Model.
Open Scope N_scope.

(* ------------------------------------------------------------------ the model's arithmetic *)
Lemma wrap_mod x : wrap x = x mod 2 ^ 64.
Proof. unfold wrap. change MASK with (N.ones 64). apply N.land_ones. Qed.
Lemma add64_spec a b : add64 a b = (a + b) mod 2 ^ 64.
Proof. apply wrap_mod. Qed.
Lemma mul64_spec a b : mul64 a b = (a * b) mod 2 ^ 64.
Proof. apply wrap_mod. Qed.
Lemma raw_id_spec n : raw_id n = (n mod 2 ^ 64, 0).
Proof. unfold raw_id. now rewrite wrap_mod. Qed.

(* ------------------------------------------------------------------ induction on terms *)
Lemma tterm_ind' (P : tterm -> Prop) :
  (forall s, P (TLeaf s)) ->
  (forall s l, Forall P l -> P (TApp s l)) ->
  (forall e n, P e -> P (TArr e n)) ->
  (forall s l, Forall P l -> P (TDer s l)) ->
  forall t, P t.
Proof.
  intros HL HA HR HD. fix IH 1. intros [s|s l|e n|s l].
  - apply HL.
  - apply HA. induction l as [|x r IHl]; constructor; [apply IH | exact IHl].
  - apply HR, IH.
  - apply HD. induction l as [|x r IHl]; constructor; [apply IH | exact IHl].
Qed.

(* ------------------------------------------------------------------ folds *)
Lemma fold_builtin_snoc {A} (C : A -> A -> A) base l x :
  fold_builtin C base (l ++ [x]) = C (fold_builtin C base l) x.
Proof. unfold fold_builtin. now rewrite fold_left_app. Qed.
Lemma fold_derive_snoc {A} (C : A -> A -> A) base l x :
  fold_derive C base (l ++ [x]) = C x (fold_derive C base l).
Proof. unfold fold_derive. now rewrite fold_left_app. Qed.

Definition lfold (s : string) (l : list sym) : sym := fold_builtin Combine (Name s) l.
Definition rfold (s : string) (l : list sym) : sym := fold_derive Combine (Name s) l.

Lemma lfold_nil s : lfold s [] = Name s. Proof. reflexivity. Qed.
Lemma rfold_nil s : rfold s [] = Name s. Proof. reflexivity. Qed.
Lemma lfold_snoc s l x : lfold s (l ++ [x]) = Combine (lfold s l) x.
Proof. apply fold_builtin_snoc. Qed.
Lemma rfold_snoc s l x : rfold s (l ++ [x]) = Combine x (rfold s l).
Proof. apply fold_derive_snoc. Qed.

Lemma snoc_inj {A} (l l' : list A) x x' : l = l' -> x = x' -> l ++ [x] = l' ++ [x'].
Proof. now intros -> ->. Qed.

Lemma lfold_inj s s' l : forall l', lfold s l = lfold s' l' -> s = s' /\ l = l'.
Proof.
  induction l as [|x l IH] using rev_ind; intros l'; destruct l' as [|x' l' _] using rev_ind;
    rewrite ?lfold_snoc, ?lfold_nil; intros E; try discriminate E.
  - injection E as ->. now split.
  - injection E as E1 E2. destruct (IH _ E1) as [-> ->]. now subst.
Qed.

Lemma rfold_inj s s' l : forall l', rfold s l = rfold s' l' -> s = s' /\ l = l'.
Proof.
  induction l as [|x l IH] using rev_ind; intros l'; destruct l' as [|x' l' _] using rev_ind;
    rewrite ?rfold_snoc, ?rfold_nil; intros E; try discriminate E.
  - injection E as ->. now split.
  - injection E as E1 E2. destruct (IH _ E2) as [-> ->]. now subst.
Qed.

Lemma lfold_not_raw s l n : lfold s l <> Raw n.
Proof. destruct l using rev_ind; rewrite ?lfold_snoc, ?lfold_nil; discriminate. Qed.
Lemma rfold_not_raw s l n : rfold s l <> Raw n.
Proof. destruct l using rev_ind; rewrite ?rfold_snoc, ?rfold_nil; discriminate. Qed.

Lemma sym_app s l : sym_id (TApp s l) = lfold s (map sym_id l). Proof. reflexivity. Qed.
Lemma sym_der s l : sym_id (TDer s l) = rfold s (map sym_id l). Proof. reflexivity. Qed.

Lemma sym_id_not_raw t n : sym_id t <> Raw n.
Proof.
  destruct t; cbn [sym_id]; try discriminate.
  - apply lfold_not_raw.
  - apply rfold_not_raw.
Qed.

(** the expression and the id: [id_of] is [eval] of the expression, for every term *)
Lemma eval_lfold s l : eval (lfold s l) = fold_builtin combine (name_id s) (map eval l).
Proof.
  induction l as [|x l IH] using rev_ind; [reflexivity|].
  rewrite lfold_snoc, map_app. cbn [map]. rewrite fold_builtin_snoc. cbn [eval]. now rewrite IH.
Qed.
Lemma eval_rfold s l : eval (rfold s l) = fold_derive combine (name_id s) (map eval l).
Proof.
  induction l as [|x l IH] using rev_ind; [reflexivity|].
  rewrite rfold_snoc, map_app. cbn [map]. rewrite fold_derive_snoc. cbn [eval]. now rewrite IH.
Qed.

Lemma eval_sym : forall t, eval (sym_id t) = id_of t.
Proof.
  induction t as [s|s l IH|e n IH|s l IH] using tterm_ind'.
  - reflexivity.
  - rewrite sym_app, eval_lfold. cbn [id_of]. f_equal. rewrite map_map.
    apply map_ext_in. intros a Ha. rewrite Forall_forall in IH. now apply IH.
  - cbn [sym_id eval id_of]. now rewrite IH.
  - rewrite sym_der, eval_rfold. cbn [id_of]. f_equal. rewrite map_map.
    apply map_ext_in. intros a Ha. rewrite Forall_forall in IH. now apply IH.
Qed.

(* ------------------------------------------------------------------ well-formedness, unpacked *)
Lemma kind_eqb_eq a b : kind_eqb a b = true -> a = b.
Proof. destruct a, b; cbn; try discriminate; auto. intros E. apply Nat.eqb_eq in E. now subst. Qed.
Lemma has_kind_eq sg s k : has_kind sg s k = true -> sg s = Some k.
Proof. unfold has_kind. destruct (sg s) as [k'|]; [|discriminate]. intros E. now rewrite (kind_eqb_eq _ _ E). Qed.

Lemma nonempty_snoc {A} (l : list A) : nonempty l = true -> exists l0 x, l = l0 ++ [x].
Proof.
  destruct l as [|a r]; [discriminate|]. intros _.
  destruct (exists_last (l := a :: r)) as [l0 [x E]]; [discriminate|]. now exists l0, x.
Qed.

Lemma wf_leaf sg s : wf sg (TLeaf s) -> sg s = Some KLeaf.
Proof. apply has_kind_eq. Qed.
Lemma wf_app sg s l : wf sg (TApp s l) ->
  sg s = Some KApp /\ (exists l0 x, l = l0 ++ [x]) /\ Forall (wf sg) l.
Proof.
  unfold wf. cbn [wfb]. intros H. apply andb_true_iff in H as [H H3]. apply andb_true_iff in H as [H1 H2].
  split; [now apply has_kind_eq|]. split; [now apply nonempty_snoc|].
  apply Forall_forall. now apply forallb_forall.
Qed.
Lemma wf_der sg s l : wf sg (TDer s l) ->
  sg s = Some (KDer (length l)) /\ (exists l0 x, l = l0 ++ [x]) /\ Forall (wf sg) l.
Proof.
  unfold wf. cbn [wfb]. intros H. apply andb_true_iff in H as [H H3]. apply andb_true_iff in H as [H1 H2].
  split; [now apply has_kind_eq|]. split; [now apply nonempty_snoc|].
  apply Forall_forall. now apply forallb_forall.
Qed.
Lemma wf_arr sg e n : wf sg (TArr e n) -> wf sg e.
Proof. exact (fun H => H). Qed.

(* ------------------------------------------------------------------ the mixed case *)
(** A well-formed term never evaluates the derive's fold of a name [d] with FEWER
    parameters than [d] has.  This is what keeps a tuple/wrapper ending in a derived
    type apart from a derived type with one more parameter. *)
Lemma no_partial_derive sg : forall t, wf sg t ->
  forall d j bs, sg d = Some (KDer j) -> (length bs < j)%nat -> sym_id t <> rfold d bs.
Proof.
  induction t as [s|s l IH|e n IH|s l IH] using tterm_ind'; intros Hwf d j bs Hd Hlen E.
  - apply wf_leaf in Hwf. cbn [sym_id] in E.
    destruct bs as [|b bs _] using rev_ind; rewrite ?rfold_snoc, ?rfold_nil in E; [|discriminate E].
    injection E as ->. congruence.
  - apply wf_app in Hwf as (_ & (l0 & a & ->) & Hall).
    rewrite sym_app, map_app in E. cbn [map] in E. rewrite lfold_snoc in E.
    destruct bs as [|b bs _] using rev_ind; rewrite ?rfold_snoc, ?rfold_nil in E; [discriminate E|].
    injection E as _ E2.
    rewrite Forall_forall in IH, Hall.
    assert (Hin : In a (l0 ++ [a])) by (apply in_or_app; right; now left).
    refine (IH a Hin (Hall a Hin) d j bs Hd _ E2).
    rewrite app_length in Hlen. cbn [length] in Hlen. lia.
  - cbn [sym_id] in E.
    destruct bs as [|b bs _] using rev_ind; rewrite ?rfold_snoc, ?rfold_nil in E; [discriminate E|].
    injection E as _ E2. symmetry in E2. exact (rfold_not_raw _ _ _ E2).
  - apply wf_der in Hwf as (Hs & _ & _).
    rewrite sym_der in E. apply rfold_inj in E as [-> E].
    rewrite Hs in Hd. injection Hd as <-. rewrite <- E, map_length in Hlen. lia.
Qed.

(** built-in application vs. derived application *)
Lemma app_der_apart sg s l d bs :
  wf sg (TApp s l) -> wf sg (TDer d bs) -> sym_id (TApp s l) <> sym_id (TDer d bs).
Proof.
  intros Ha Hd E.
  apply wf_app in Ha as (_ & (l0 & a & ->) & Hall).
  apply wf_der in Hd as (Hk & (b0 & b & ->) & _).
  rewrite sym_app, sym_der, !map_app in E. cbn [map] in E. rewrite lfold_snoc, rfold_snoc in E.
  injection E as _ E2.
  rewrite Forall_forall in Hall.
  refine (no_partial_derive sg a (Hall a _) d _ (map sym_id b0) Hk _ E2).
  - apply in_or_app; right; now left.
  - rewrite map_length, app_length. cbn [length]. lia.
Qed.

Lemma app_arr_apart s l e n : (exists l0 x, l = l0 ++ [x]) -> sym_id (TApp s l) <> sym_id (TArr e n).
Proof.
  intros (l0 & a & ->) E. rewrite sym_app, map_app in E. cbn [map sym_id] in E. rewrite lfold_snoc in E.
  injection E as _ E2. exact (sym_id_not_raw _ _ E2).
Qed.
Lemma der_arr_apart s l e n : (exists l0 x, l = l0 ++ [x]) -> sym_id (TDer s l) <> sym_id (TArr e n).
Proof.
  intros (l0 & a & ->) E. rewrite sym_der, map_app in E. cbn [map sym_id] in E. rewrite rfold_snoc in E.
  injection E as _ E2. exact (rfold_not_raw _ _ _ E2).
Qed.
Lemma leaf_app_apart s s' l : (exists l0 x, l = l0 ++ [x]) -> sym_id (TLeaf s) <> sym_id (TApp s' l).
Proof. intros (l0 & a & ->) E. rewrite sym_app, map_app in E. cbn [map sym_id] in E. rewrite lfold_snoc in E. discriminate E. Qed.
Lemma leaf_der_apart s s' l : (exists l0 x, l = l0 ++ [x]) -> sym_id (TLeaf s) <> sym_id (TDer s' l).
Proof. intros (l0 & a & ->) E. rewrite sym_der, map_app in E. cbn [map sym_id] in E. rewrite rfold_snoc in E. discriminate E. Qed.

Lemma map_sym_inj sg l : Forall (wf sg) l ->
  Forall (fun x => forall t', wf sg x -> wf sg t' -> sym_id x = sym_id t' -> x = t') l ->
  forall l', Forall (wf sg) l' -> map sym_id l = map sym_id l' -> l = l'.
Proof.
  induction l as [|x r IHl]; intros Hw IH [|y r'] Hw' E; try discriminate E; [reflexivity|].
  cbn [map] in E. injection E as E1 E2.
  inversion Hw as [|? ? Hx Hr]; inversion IH as [|? ? IHx IHr]; inversion Hw' as [|? ? Hy Hr']; subst.
  f_equal; [exact (IHx y Hx Hy E1) | exact (IHl Hr IHr r' Hr' E2)].
Qed.

(** MAIN: equal id expressions of well-formed terms come from equal terms. *)
Theorem structural sg : forall t t', wf sg t -> wf sg t' -> sym_id t = sym_id t' -> t = t'.
Proof.
  intros t. induction t as [s|s l IH|e n IH|s l IH] using tterm_ind'; intros t' Hw Hw' E.
  - destruct t' as [s'|s' l'|e' n'|s' l'].
    + now injection E as ->.
    + apply wf_app in Hw' as (_ & Hne & _). now apply leaf_app_apart in E.
    + discriminate E.
    + apply wf_der in Hw' as (_ & Hne & _). now apply leaf_der_apart in E.
  - destruct t' as [s'|s' l'|e' n'|s' l'].
    + apply wf_app in Hw as (_ & Hne & _). symmetry in E. now apply leaf_app_apart in E.
    + pose proof (wf_app _ _ _ Hw) as (_ & _ & Hall). pose proof (wf_app _ _ _ Hw') as (_ & _ & Hall').
      rewrite !sym_app in E. apply lfold_inj in E as [-> E].
      f_equal. exact (map_sym_inj sg l Hall IH l' Hall' E).
    + apply wf_app in Hw as (_ & Hne & _). now apply app_arr_apart in E.
    + now apply (app_der_apart sg) in E.
  - destruct t' as [s'|s' l'|e' n'|s' l'].
    + discriminate E.
    + apply wf_app in Hw' as (_ & Hne & _). symmetry in E. now apply app_arr_apart in E.
    + cbn [sym_id] in E. injection E as E1 ->. f_equal. exact (IH e' Hw Hw' E1).
    + apply wf_der in Hw' as (_ & Hne & _). symmetry in E. now apply der_arr_apart in E.
  - destruct t' as [s'|s' l'|e' n'|s' l'].
    + apply wf_der in Hw as (_ & Hne & _). symmetry in E. now apply leaf_der_apart in E.
    + symmetry in E. now apply (app_der_apart sg) in E.
    + apply wf_der in Hw as (_ & Hne & _). now apply der_arr_apart in E.
    + pose proof (wf_der _ _ _ Hw) as (_ & _ & Hall). pose proof (wf_der _ _ _ Hw') as (_ & _ & Hall').
      rewrite !sym_der in E. apply rfold_inj in E as [-> E].
      f_equal. exact (map_sym_inj sg l Hall IH l' Hall' E).
Qed.

(** Consequence: two distinct well-formed types with the same id witness a collision of
    the mixing functions on two DIFFERENT expressions, never a flaw of the folds. *)
Corollary alias_is_hash_collision sg t t' :
  wf sg t -> wf sg t' -> t <> t' -> id_of t = id_of t' ->
  sym_id t <> sym_id t' /\ eval (sym_id t) = eval (sym_id t').
Proof.
  intros Hw Hw' Hne E. split.
  - intros Es. exact (Hne (structural sg t t' Hw Hw' Es)).
  - now rewrite !eval_sym.
Qed.

(** determinism: the id is a function of the expression alone — names (bytes), raw
    lengths, fold structure.  Nothing else (addresses, [TypeId], process state, hasher
    seeds, link order) is an input of [eval]. *)
Lemma deterministic t t' : sym_id t = sym_id t' -> id_of t = id_of t'.
Proof. intros E. now rewrite <- !eval_sym, E. Qed.

(* ------------------------------------------------------------------ necessity of the signature *)
Open Scope string_scope.
(** one identifier [Loc], declared in two blocks of module [typeid] of the harness: once
    with one type parameter, once with two *)
Definition LOC : string := "qv_harness@0.0.0::typeid::Loc".
Definition twin_a : tterm := TApp "std::tuple::Tuple" [TLeaf "u8"; TDer LOC [TLeaf "alloc::string::String"]].
    (* (u8, Loc<String>) *)
Definition twin_b : tterm := TDer LOC [TLeaf "alloc::string::String"; TApp "std::tuple::Tuple" [TLeaf "u8"]].
    (* Loc<String, (u8,)> *)

Lemma twins_alias : twin_a <> twin_b /\ sym_id twin_a = sym_id twin_b /\ id_of twin_a = id_of twin_b.
Proof. split; [discriminate|]. split; [reflexivity | apply deterministic; reflexivity]. Qed.

Theorem unrestricted_refuted : exists t t', t <> t' /\ sym_id t = sym_id t' /\ id_of t = id_of t'.
Proof. exists twin_a, twin_b. exact twins_alias. Qed.

(** each twin on its own is well formed (for the signature of its own block) *)
Definition sig_a : sig := fun s =>
  if String.eqb s LOC then Some (KDer 1) else if String.eqb s "std::tuple::Tuple" then Some KApp else Some KLeaf.
Definition sig_b : sig := fun s =>
  if String.eqb s LOC then Some (KDer 2) else if String.eqb s "std::tuple::Tuple" then Some KApp else Some KLeaf.
Lemma twins_wf : wf sig_a twin_a /\ wf sig_b twin_b.
Proof. split; reflexivity. Qed.

(* ------------------------------------------------------------------ decidable equality of expressions *)
Fixpoint sym_eqb (a b : sym) : bool :=
  match a, b with
  | Name s, Name s' => String.eqb s s'
  | Raw n, Raw n' => N.eqb n n'
  | Combine x y, Combine x' y' => sym_eqb x x' && sym_eqb y y'
  | _, _ => false
  end.
