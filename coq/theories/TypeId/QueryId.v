(** C14 — query identities.  [QueryID::new::<Q>(h)] is the pair
    ([Q::STABLE_TYPE_ID.as_u128()], [h]) with [h] the seeded 128-bit stable hash of the key
    (crates/qbice/src/query.rs, engine/computation_graph.rs [new_query_with_id]); the type
    id is not hashed into [h], so two query types asked with equal key contents share [h]
    and are kept apart by the type id alone.

    The key hash is external: a [Section] variable [H] with the named hypothesis that it is
    collision free on the keys in play (H-hash of DESIGN.md §3; C13 proves that distinct
    keys of one type feed [H] distinct streams). *)
From Coq Require Import String.
From QV Require Import Common.Prelude TypeId.Model TypeId.Structural TypeId.Universe.
Open Scope N_scope.

Section QueryId.
  Variable key : Type.                 (* key contents, as the stable-hash stream sees them *)
  Variable H : key -> N.               (* seeded SipHash-128 of the stream *)
  Variable Play : key -> Prop.         (* the keys in play *)
  Hypothesis H_collision_free : forall k k', Play k -> Play k' -> H k = H k' -> k = k'.

  Theorem query_id_inj q q' k k' :
    In q universe -> In q' universe -> Play k -> Play k' ->
    query_id q (H k) = query_id q' (H k') -> q = q' /\ k = k'.
  Proof.
    intros Hq Hq' Hk Hk' E. unfold query_id in E. injection E as E1 E2. split.
    - exact (universe_id128_inj q q' Hq Hq' E1).
    - exact (H_collision_free k k' Hk Hk' E2).
  Qed.

  Corollary query_id_distinct q q' k k' :
    In q universe -> In q' universe -> Play k -> Play k' ->
    q <> q' \/ k <> k' -> query_id q (H k) <> query_id q' (H k').
  Proof.
    intros Hq Hq' Hk Hk' Hne E. destruct (query_id_inj q q' k k' Hq Hq' Hk Hk' E) as [E1 E2]. tauto.
  Qed.

  (** two query types asked with the same key: distinct ids, whatever [H] is *)
  Corollary query_id_types_apart q q' h h' :
    In q universe -> In q' universe -> q <> q' -> query_id q h <> query_id q' h'.
  Proof.
    intros Hq Hq' Hne E. unfold query_id in E. injection E as E1 _.
    exact (Hne (universe_id128_inj q q' Hq Hq' E1)).
  Qed.
End QueryId.

(** the hypotheses are satisfiable: keys = numbers below 2^64, an injective toy hash, two of
    the harness's query types *)
Open Scope string_scope.
Definition qa : tterm := TLeaf (dn "queries::QA").
Definition qb : tterm := TLeaf (dn "queries::QB").
Definition toyH (k : N) : N := 2 * k + 1.
Definition toyPlay (k : N) : Prop := k < 2 ^ 64.
Lemma toy_cf k k' : toyPlay k -> toyPlay k' -> toyH k = toyH k' -> k = k'.
Proof. unfold toyH. lia. Qed.

Lemma tterm_eqb_eq : forall a b, tterm_eqb a b = true -> a = b.
Proof.
  induction a as [s|s l IH|e n IH|s l IH] using tterm_ind'; intros [s'|s' l'|e' n'|s' l'] E;
    cbn [tterm_eqb] in E; try discriminate E.
  - apply String.eqb_eq in E. now subst.
  - apply andb_true_iff in E as [E1 E2]. apply String.eqb_eq in E1. subst. f_equal.
    revert l' E2. induction l as [|x r IHl]; intros [|y r'] E2; try discriminate E2; [reflexivity|].
    apply andb_true_iff in E2 as [Ex Er]. inversion IH as [|? ? IHx IHr]; subst.
    f_equal; [exact (IHx y Ex) | exact (IHl IHr r' Er)].
  - apply andb_true_iff in E as [E1 E2]. apply N.eqb_eq in E2. subst. f_equal. exact (IH e' E1).
  - apply andb_true_iff in E as [E1 E2]. apply String.eqb_eq in E1. subst. f_equal.
    revert l' E2. induction l as [|x r IHl]; intros [|y r'] E2; try discriminate E2; [reflexivity|].
    apply andb_true_iff in E2 as [Ex Er]. inversion IH as [|? ? IHx IHr]; subst.
    f_equal; [exact (IHx y Ex) | exact (IHl IHr r' Er)].
Qed.

Lemma in_universe_dec t : existsb (tterm_eqb t) universe = true -> In t universe.
Proof.
  intros E. apply existsb_exists in E as [u [Hu Eu]]. apply tterm_eqb_eq in Eu. now subst.
Qed.

Example query_id_example :
  In qa universe /\ In qb universe /\ qa <> qb /\
  query_id qa (toyH 5) <> query_id qb (toyH 5) /\ query_id qa (toyH 5) <> query_id qa (toyH 6).
Proof.
  assert (Ha : In qa universe) by (apply in_universe_dec; vm_compute; reflexivity).
  assert (Hb : In qb universe) by (apply in_universe_dec; vm_compute; reflexivity).
  split; [exact Ha|]. split; [exact Hb|]. split; [discriminate|]. split.
  - apply query_id_types_apart; [exact Ha | exact Hb | discriminate].
  - apply (query_id_distinct N toyH toyPlay toy_cf); try assumption; unfold toyPlay; lia.
Qed.
