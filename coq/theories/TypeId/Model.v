(** C14 — executable model of crates/stable_type_id (StableTypeID) and of the way
    crates/identifiable_derive_lib folds generic parameters.

    Everything is on [N] with explicit wrap-around at 2^64, operation by operation as
    the const fns have it ([wrapping_add], [rotate_left], [^], [wrapping_mul]).  An id
    is the pair (high, low) = [StableTypeID(u64, u64)].

    Definitions only; the proofs are in TypeId/Structural.v, TypeId/Universe.v. *)
From Coq Require Import String Ascii.
From QV Require Import Common.Prelude.
Open Scope N_scope.

(* ------------------------------------------------------------------ u64 *)
Definition W : N := 0x10000000000000000.                   (* 2^64 *)
(** [wrap x] is [x mod 2^64] (lemma [wrap_mod] in TypeId/Structural.v); it is written with a
    mask, and the rotation with shifts, because [N.modulo]/[N.div] are a bit-serial long
    division under [vm_compute] (70 ms per type id instead of 2 ms). *)
Definition MASK : N := 0xFFFFFFFFFFFFFFFF.
Definition wrap (x : N) : N := N.land x MASK.
Definition add64 (a b : N) : N := wrap (a + b).             (* wrapping_add *)
Definition mul64 (a b : N) : N := wrap (a * b).             (* wrapping_mul *)
Definition rotl (x k : N) : N := N.lor (wrap (N.shiftl x k)) (N.shiftr x (64 - k)).   (* rotate_left, 0 < k < 64 *)
Definition xor (a b : N) : N := N.lxor a b.

Definition id := (N * N)%type.                              (* StableTypeID(high, low) *)
Definition st := (N * N * N * N)%type.                      (* v0 v1 v2 v3 *)

(** [StableTypeID::sipround], statement by statement. *)
Definition sipround (s : st) : st :=
  let '(v0, v1, v2, v3) := s in
  let v0 := add64 v0 v1 in
  let v1 := rotl v1 13 in
  let v1 := xor v1 v0 in
  let v0 := rotl v0 32 in
  let v2 := add64 v2 v3 in
  let v3 := rotl v3 16 in
  let v3 := xor v3 v2 in
  let v0 := add64 v0 v3 in
  let v3 := rotl v3 21 in
  let v3 := xor v3 v0 in
  let v2 := add64 v2 v1 in
  let v1 := rotl v1 17 in
  let v1 := xor v1 v2 in
  let v2 := rotl v2 32 in
  (v0, v1, v2, v3).

Definition K0 : N := 0x736f6d6570736575.
Definition K1 : N := 0x646f72616e646f6d.
Definition K2 : N := 0x6c7967656e657261.
Definition K3 : N := 0x7465646279746573.
Definition GOLD : N := 0x9e3779b97f4a7c15.
Definition MUL2 : N := 0xc2b2ae3586d40f00.
Definition ASYM0 : N := 0x1f83d9abfb41bd6b.
Definition ASYM1 : N := 0x5be0cd19137e2179.

(** little-endian value of up to 8 bytes ([read_u64_le] / the tail loop) *)
Fixpoint le_bytes (bs : list N) : N :=
  match bs with
  | [] => 0
  | b :: r => b + 256 * le_bytes r
  end.

(** the [while i + 8 <= len] loop; returns the state and the remaining (< 8) bytes *)
Fixpoint absorb (bs : list N) (s : st) : st * list N :=
  match bs with
  | b0 :: b1 :: b2 :: b3 :: b4 :: b5 :: b6 :: b7 :: rest =>
      let chunk := le_bytes [b0; b1; b2; b3; b4; b5; b6; b7] in
      let '(v0, v1, v2, v3) := s in
      let v0 := xor v0 chunk in
      let '(v0, v1, v2, v3) := sipround (sipround (v0, v1, v2, v3)) in
      let v3 := xor v3 chunk in
      absorb rest (v0, v1, v2, v3)
  | _ => (s, bs)
  end.

(** [StableTypeID::from_unique_type_name] on the UTF-8 bytes of the name. *)
Definition name_hash (bytes : list N) : id :=
  let len := wrap (N.of_nat (length bytes)) in
  let v0 := xor K0 len in
  let v1 := xor K1 (mul64 len GOLD) in
  let '((v0, v1, v2, v3), tl) := absorb bytes (v0, v1, K2, K3) in
  let tail := le_bytes tl in
  let v0 := xor v0 tail in
  let '(v0, v1, v2, v3) := sipround (sipround (v0, v1, v2, v3)) in
  let v3 := xor v3 tail in
  let '(v0, v1, v2, v3) := sipround (sipround (sipround (sipround (v0, v1, v2, v3)))) in
  let v0 := xor v0 v2 in
  let v1 := xor v1 v3 in
  let '(v0, v1, v2, v3) := sipround (sipround (v0, v1, v2, v3)) in
  (xor v0 v1, xor v2 v3).

(** [StableTypeID::combine(self, other)]. *)
Definition combine (a b : id) : id :=
  let v0 := xor (fst a) K0 in
  let v1 := xor (snd a) K1 in
  let v2 := xor (fst b) K2 in
  let v3 := xor (snd b) K3 in
  let '(v0, v1, v2, v3) := sipround (sipround (v0, v1, v2, v3)) in
  let v0 := xor v0 ASYM0 in
  let v1 := xor v1 ASYM1 in
  let '(v0, v1, v2, v3) := sipround (sipround (v0, v1, v2, v3)) in
  let v0 := xor v0 v2 in
  let v1 := xor v1 v3 in
  let v2 := xor v2 (mul64 v0 GOLD) in
  let v3 := xor v3 (mul64 v1 MUL2) in
  let '(v0, v1, v2, v3) := sipround (v0, v1, v2, v3) in
  (xor v0 v1, xor v2 v3).

(** [from_raw_parts(N as u64, 0)] — how the array impl turns its length into an id *)
Definition raw_id (n : N) : id := (wrap n, 0).

(** [as_u128]: what QueryID, the column-family names and the discriminants store *)
Definition as_u128 (i : id) : N := fst i * W + snd i.

(* ------------------------------------------------------------ names *)
Definition bytes_of_string (s : string) : list N := map N_of_ascii (list_ascii_of_string s).
Definition name_id (s : string) : id := name_hash (bytes_of_string s).

(* ------------------------------------------------------------ type terms *)
(** A Rust type as the [Identifiable] impls see it.

    - [TLeaf name]: an impl that is [from_unique_type_name(name)] and nothing else
      (primitives, [str], [String], [()], NonZero*, Atomic*, a derived type without
      type parameters, whose name is "pkg@version::module::path::Ident").
    - [TApp name args]: a built-in generic impl, [base = from_unique_type_name(name)]
      then [base.combine(A1).combine(A2)...] in declaration order: wrappers, references
      and raw pointers ("core::primitive::reference" ...), slices ("std::slice::Slice"),
      collections, tuples of every arity (all under the one name "std::tuple::Tuple";
      the arity is NOT folded in).
    - [TArr elem n]: [[T; N]] = [base.combine(T).combine(from_raw_parts(N as u64, 0))]
      with base "core::primitive::array".
    - [TDer name args]: [#[derive(Identifiable)]] on a type with type parameters:
      [hash = from_unique_type_name(name); hash = P1.combine(hash); hash = P2.combine(hash) ...]
      — the parameter is the receiver, the accumulator the argument: the opposite
      nesting of the built-in impls. *)
Inductive tterm :=
| TLeaf (name : string)
| TApp (name : string) (args : list tterm)
| TArr (elem : tterm) (len : N)
| TDer (name : string) (args : list tterm).

Definition ARRAY : string := "core::primitive::array".

Definition fold_builtin {A} (C : A -> A -> A) (base : A) (args : list A) : A :=
  fold_left (fun acc a => C acc a) args base.
Definition fold_derive {A} (C : A -> A -> A) (base : A) (args : list A) : A :=
  fold_left (fun acc p => C p acc) args base.

Fixpoint id_of (t : tterm) : id :=
  match t with
  | TLeaf s => name_id s
  | TApp s args => fold_builtin combine (name_id s) (map id_of args)
  | TArr e n => combine (combine (name_id ARRAY) (id_of e)) (raw_id n)
  | TDer s args => fold_derive combine (name_id s) (map id_of args)
  end.

Definition id128 (t : tterm) : N := as_u128 (id_of t).

(** The same folds without hashing. *)
Inductive sym :=
| Name (s : string)
| Raw (n : N)
| Combine (a b : sym).

Fixpoint sym_id (t : tterm) : sym :=
  match t with
  | TLeaf s => Name s
  | TApp s args => fold_builtin Combine (Name s) (map sym_id args)
  | TArr e n => Combine (Combine (Name ARRAY) (sym_id e)) (Raw n)
  | TDer s args => fold_derive Combine (Name s) (map sym_id args)
  end.

Fixpoint eval (e : sym) : id :=
  match e with
  | Name s => name_id s
  | Raw n => raw_id n
  | Combine a b => combine (eval a) (eval b)
  end.

(* ------------------------------------------------------------ signatures *)
(** What a name is used for.  In Rust a path names one item, so a name is either a
    non-generic type, or a built-in constructor (tuples: any arity), or a derived
    generic type with a fixed number of type parameters. *)
Inductive kind := KLeaf | KApp | KDer (arity : nat).
Definition sig := string -> option kind.

Definition kind_eqb (a b : kind) : bool :=
  match a, b with
  | KLeaf, KLeaf => true
  | KApp, KApp => true
  | KDer n, KDer m => Nat.eqb n m
  | _, _ => false
  end.

Definition has_kind (sg : sig) (s : string) (k : kind) : bool :=
  match sg s with Some k' => kind_eqb k' k | None => false end.

Definition nonempty {A} (l : list A) : bool := match l with [] => false | _ => true end.

Fixpoint wfb (sg : sig) (t : tterm) : bool :=
  match t with
  | TLeaf s => has_kind sg s KLeaf
  | TApp s args => has_kind sg s KApp && nonempty args && forallb (wfb sg) args
  | TArr e n => wfb sg e
  | TDer s args => has_kind sg s (KDer (length args)) && nonempty args && forallb (wfb sg) args
  end.
Definition wf (sg : sig) (t : tterm) : Prop := wfb sg t = true.

(* ------------------------------------------------------------ decidable equality *)
Fixpoint tterm_eqb (a b : tterm) : bool :=
  match a, b with
  | TLeaf s, TLeaf s' => String.eqb s s'
  | TApp s l, TApp s' l' =>
      String.eqb s s' &&
      (fix go (l l' : list tterm) : bool :=
         match l, l' with
         | [], [] => true
         | x :: r, y :: r' => tterm_eqb x y && go r r'
         | _, _ => false
         end) l l'
  | TArr e n, TArr e' n' => tterm_eqb e e' && (n =? n')
  | TDer s l, TDer s' l' =>
      String.eqb s s' &&
      (fix go (l l' : list tterm) : bool :=
         match l, l' with
         | [], [] => true
         | x :: r, y :: r' => tterm_eqb x y && go r r'
         | _, _ => false
         end) l l'
  | _, _ => false
  end.

(* ------------------------------------------------------------ query ids *)
(** [QueryID { stable_type_id: Q::STABLE_TYPE_ID.as_u128(), hash_128 }]: the type id of
    the query type and the 128-bit stable hash of the key. *)
Definition query_id (q : tterm) (key_hash : N) : N * N := (id128 q, key_hash).

(* ------------------------------------------------------------ boolean NoDup on N *)
Fixpoint memN (x : N) (l : list N) : bool :=
  match l with [] => false | y :: r => (x =? y) || memN x r end.
Fixpoint nodupN (l : list N) : bool :=
  match l with [] => true | x :: r => negb (memN x r) && nodupN r end.
