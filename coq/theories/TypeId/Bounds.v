(** C14 — both halves of every id are below 2^64 (the model stays inside u64 without ever
    reducing the result of an xor/or/shift-right), hence [as_u128] — what [QueryID], the
    column-family names ("cf_wide_column_0x<as_u128 in hex>") and the store discriminants
    keep of an id — loses nothing.  Also the arithmetic reading of the rotation. *)
From Coq Require Import String Ascii.
From QV Require Import Common.Prelude TypeId.Model TypeId.Structural.
Open Scope N_scope.

Definition b64 (x : N) : Prop := x < 2 ^ 64.

Lemma lt_pow2_log2 a n : a <> 0 -> (a < 2 ^ n <-> N.log2 a < n).
Proof. intros Ha. apply N.log2_lt_pow2. lia. Qed.

Lemma bitop_lt (op : N -> N -> N) :
  (forall a b, N.log2 (op a b) <= N.max (N.log2 a) (N.log2 b)) -> (op 0 0 = 0) ->
  forall a b n, a < 2 ^ n -> b < 2 ^ n -> op a b < 2 ^ n.
Proof.
  intros Hlog H00 a b n Ha Hb.
  destruct (N.eq_dec (op a b) 0) as [->|Hne]; [assert (2 ^ n <> 0) by (apply N.pow_nonzero; lia); lia|].
  apply lt_pow2_log2; [exact Hne|].
  eapply N.le_lt_trans; [apply Hlog|].
  destruct (N.eq_dec a 0) as [->|Ha0]; destruct (N.eq_dec b 0) as [->|Hb0].
  - congruence.
  - rewrite N.max_r by (cbn; lia). now apply lt_pow2_log2.
  - rewrite N.max_l by (cbn; lia). now apply lt_pow2_log2.
  - apply N.max_lub_lt; now apply lt_pow2_log2.
Qed.

Lemma lxor_lt a b n : a < 2 ^ n -> b < 2 ^ n -> N.lxor a b < 2 ^ n.
Proof. apply bitop_lt; [apply N.log2_lxor | reflexivity]. Qed.
Lemma lor_lt a b n : a < 2 ^ n -> b < 2 ^ n -> N.lor a b < 2 ^ n.
Proof. apply bitop_lt; [intros; rewrite N.log2_lor; lia | reflexivity]. Qed.

Lemma wrap_b x : b64 (wrap x).
Proof. unfold b64. rewrite wrap_mod. apply N.mod_lt. apply N.pow_nonzero. lia. Qed.
Lemma xor_b a b : b64 a -> b64 b -> b64 (xor a b).
Proof. apply lxor_lt. Qed.
Lemma add64_b a b : b64 (add64 a b). Proof. apply wrap_b. Qed.
Lemma mul64_b a b : b64 (mul64 a b). Proof. apply wrap_b. Qed.
Lemma rotl_b x k : b64 x -> b64 (rotl x k).
Proof.
  intros Hx. unfold rotl. apply lor_lt; [apply wrap_b|].
  rewrite N.shiftr_div_pow2. eapply N.le_lt_trans; [|exact Hx].
  assert (Hp : 2 ^ (64 - k) <> 0) by (apply N.pow_nonzero; lia).
  set (p := 2 ^ (64 - k)) in *. clearbody p.
  apply N.div_le_upper_bound; [exact Hp|]. nia.
Qed.

Definition bst (s : st) : Prop := let '(a, b, c, d) := s in b64 a /\ b64 b /\ b64 c /\ b64 d.

Lemma sipround_b s : bst s -> bst (sipround s).
Proof.
  destruct s as [[[a b] c] d]. intros (Ha & Hb & Hc & Hd). unfold sipround, bst.
  repeat split; auto 12 using xor_b, add64_b, rotl_b.
Qed.

Lemma K0_b : b64 K0. Proof. reflexivity. Qed.
Lemma K1_b : b64 K1. Proof. reflexivity. Qed.
Lemma K2_b : b64 K2. Proof. reflexivity. Qed.
Lemma K3_b : b64 K3. Proof. reflexivity. Qed.
Lemma A0_b : b64 ASYM0. Proof. reflexivity. Qed.
Lemma A1_b : b64 ASYM1. Proof. reflexivity. Qed.

Definition bid (i : id) : Prop := b64 (fst i) /\ b64 (snd i).

Lemma combine_b a b : bid a -> bid b -> bid (combine a b).
Proof.
  intros [Ha1 Ha2] [Hb1 Hb2]. unfold combine.
  set (s0 := (xor (fst a) K0, xor (snd a) K1, xor (fst b) K2, xor (snd b) K3)).
  assert (H0 : bst s0) by (unfold s0, bst; auto 8 using xor_b, K0_b, K1_b, K2_b, K3_b).
  pose proof (sipround_b _ (sipround_b _ H0)) as H1.
  destruct (sipround (sipround s0)) as [[[v0 v1] v2] v3]. destruct H1 as (B0 & B1 & B2 & B3).
  set (s1 := (xor v0 ASYM0, xor v1 ASYM1, v2, v3)).
  assert (H2 : bst s1) by (unfold s1, bst; auto 8 using xor_b, A0_b, A1_b).
  pose proof (sipround_b _ (sipround_b _ H2)) as H3.
  destruct (sipround (sipround s1)) as [[[w0 w1] w2] w3]. destruct H3 as (C0 & C1 & C2 & C3).
  set (s2 := (xor w0 w2, xor w1 w3, xor w2 (mul64 (xor w0 w2) GOLD), xor w3 (mul64 (xor w1 w3) MUL2))).
  assert (H4 : bst s2) by (unfold s2, bst; auto 8 using xor_b, mul64_b).
  pose proof (sipround_b _ H4) as H5.
  destruct (sipround s2) as [[[x0 x1] x2] x3]. destruct H5 as (D0 & D1 & D2 & D3).
  split; cbn [fst snd]; now apply xor_b.
Qed.

(* ---- bytes *)
Definition byte (b : N) : Prop := b < 256.

Lemma le_bytes_lt l : Forall byte l -> le_bytes l < 256 ^ N.of_nat (length l).
Proof.
  induction 1 as [|b r Hb Hr IH]; [cbn; lia|].
  cbn [le_bytes length]. rewrite Nat2N.inj_succ, N.pow_succ_r'. unfold byte in Hb. lia.
Qed.

Lemma le_bytes_b l : Forall byte l -> (length l <= 8)%nat -> b64 (le_bytes l).
Proof.
  intros Hl Hlen. unfold b64. eapply N.lt_le_trans; [apply le_bytes_lt, Hl|].
  change (2 ^ 64) with (256 ^ 8). apply N.pow_le_mono_r; lia.
Qed.

Lemma absorb_b : forall n bs s, (length bs <= n)%nat -> Forall byte bs -> bst s ->
  bst (fst (absorb bs s)) /\ Forall byte (snd (absorb bs s)) /\ (length (snd (absorb bs s)) < 8)%nat.
Proof.
  induction n as [|n IH]; intros bs s Hlen Hb Hs.
  - destruct bs; [|cbn in Hlen; lia]. cbn. repeat split; auto. lia.
  - destruct bs as [|b0 [|b1 [|b2 [|b3 [|b4 [|b5 [|b6 [|b7 rest]]]]]]]];
      try (cbn [absorb fst snd length]; repeat split; auto; lia).
    assert (Hc : b64 (le_bytes [b0; b1; b2; b3; b4; b5; b6; b7])).
    { apply le_bytes_b; [|cbn; lia]. repeat (inversion Hb as [|? ? ? Hb']; subst; clear Hb; rename Hb' into Hb; constructor; auto). }
    assert (Hrest : Forall byte rest).
    { do 8 (inversion Hb as [|? ? _ Hb']; subst; clear Hb; rename Hb' into Hb). exact Hb. }
    cbn [absorb]. set (chunk := le_bytes _) in *.
    destruct s as [[[v0 v1] v2] v3]. destruct Hs as (S0 & S1 & S2 & S3).
    assert (H0 : bst (xor v0 chunk, v1, v2, v3)) by (unfold bst; auto using xor_b).
    pose proof (sipround_b _ (sipround_b _ H0)) as H1.
    destruct (sipround (sipround (xor v0 chunk, v1, v2, v3))) as [[[w0 w1] w2] w3].
    destruct H1 as (C0 & C1 & C2 & C3).
    apply IH; [cbn [length] in Hlen; lia | exact Hrest | unfold bst; auto using xor_b].
Qed.

Lemma name_hash_b bytes : Forall byte bytes -> bid (name_hash bytes).
Proof.
  intros Hb. unfold name_hash.
  set (len := wrap (N.of_nat (length bytes))).
  set (s0 := (xor K0 len, xor K1 (mul64 len GOLD), K2, K3)).
  assert (H0 : bst s0) by (unfold s0, bst, len; auto 8 using xor_b, wrap_b, mul64_b, K0_b, K1_b, K2_b, K3_b).
  destruct (absorb_b (length bytes) bytes s0 (le_n _) Hb H0) as (Hs & Htl & Hlen).
  destruct (absorb bytes s0) as [[[[v0 v1] v2] v3] tl]. cbn [fst snd] in Hs, Htl, Hlen.
  destruct Hs as (S0 & S1 & S2 & S3).
  assert (Ht : b64 (le_bytes tl)) by (apply le_bytes_b; [exact Htl | lia]).
  set (tail := le_bytes tl) in *.
  assert (H1 : bst (xor v0 tail, v1, v2, v3)) by (unfold bst; auto using xor_b).
  pose proof (sipround_b _ (sipround_b _ H1)) as H2.
  destruct (sipround (sipround (xor v0 tail, v1, v2, v3))) as [[[w0 w1] w2] w3]. destruct H2 as (C0 & C1 & C2 & C3).
  assert (H3 : bst (w0, w1, w2, xor w3 tail)) by (unfold bst; auto using xor_b).
  pose proof (sipround_b _ (sipround_b _ (sipround_b _ (sipround_b _ H3)))) as H4.
  destruct (sipround (sipround (sipround (sipround (w0, w1, w2, xor w3 tail))))) as [[[x0 x1] x2] x3].
  destruct H4 as (D0 & D1 & D2 & D3).
  assert (H5 : bst (xor x0 x2, xor x1 x3, x2, x3)) by (unfold bst; auto using xor_b).
  pose proof (sipround_b _ (sipround_b _ H5)) as H6.
  destruct (sipround (sipround (xor x0 x2, xor x1 x3, x2, x3))) as [[[y0 y1] y2] y3]. destruct H6 as (E0 & E1 & E2 & E3).
  split; cbn [fst snd]; now apply xor_b.
Qed.

Lemma bytes_of_string_b s : Forall byte (bytes_of_string s).
Proof.
  unfold bytes_of_string. apply Forall_forall. intros x Hx. apply in_map_iff in Hx as [a [<- _]].
  apply N_ascii_bounded.
Qed.

Lemma name_id_b s : bid (name_id s).
Proof. apply name_hash_b, bytes_of_string_b. Qed.
Lemma raw_id_b n : bid (raw_id n).
Proof. split; cbn [fst snd raw_id]; [apply wrap_b | reflexivity]. Qed.

Lemma fold_builtin_b base l : bid base -> Forall bid l -> bid (fold_builtin combine base l).
Proof.
  intros Hb Hl. induction l as [|x l IH] using rev_ind; [exact Hb|].
  rewrite fold_builtin_snoc. apply Forall_app in Hl as [Hl Hx]. inversion Hx; subst.
  apply combine_b; auto.
Qed.
Lemma fold_derive_b base l : bid base -> Forall bid l -> bid (fold_derive combine base l).
Proof.
  intros Hb Hl. induction l as [|x l IH] using rev_ind; [exact Hb|].
  rewrite fold_derive_snoc. apply Forall_app in Hl as [Hl Hx]. inversion Hx; subst.
  apply combine_b; auto.
Qed.

Theorem id_of_bounded : forall t, bid (id_of t).
Proof.
  induction t as [s|s l IH|e n IH|s l IH] using tterm_ind'; cbn [id_of].
  - apply name_id_b.
  - apply fold_builtin_b; [apply name_id_b|]. apply Forall_forall. intros x Hx.
    apply in_map_iff in Hx as [a [<- Ha]]. rewrite Forall_forall in IH. now apply IH.
  - apply combine_b; [apply combine_b; [apply name_id_b | exact IH] | apply raw_id_b].
  - apply fold_derive_b; [apply name_id_b|]. apply Forall_forall. intros x Hx.
    apply in_map_iff in Hx as [a [<- Ha]]. rewrite Forall_forall in IH. now apply IH.
Qed.

(** [as_u128] is injective on ids inside u64 x u64 *)
Lemma as_u128_inj a b : bid a -> bid b -> as_u128 a = as_u128 b -> a = b.
Proof.
  destruct a as [a1 a2], b as [b1 b2]. unfold bid, b64, as_u128. cbn [fst snd].
  change W with (2 ^ 64). intros [H1 H2] [H3 H4] E. f_equal; nia.
Qed.

Theorem id128_inj t t' : id128 t = id128 t' -> id_of t = id_of t'.
Proof. apply as_u128_inj; apply id_of_bounded. Qed.
Lemma id128_lt t : id128 t < 2 ^ 128.
Proof.
  destruct (id_of_bounded t) as [H1 H2]. unfold id128, as_u128, b64 in *. change W with (2 ^ 64).
  change (2 ^ 128) with (2 ^ 64 * 2 ^ 64). nia.
Qed.

(** the rotation, arithmetically: for [x < 2^64] and [0 < k < 64],
    [rotl x k = (x * 2^k) mod 2^64 + x / 2^(64-k)] *)
Lemma rotl_spec x k : b64 x -> 0 < k < 64 ->
  rotl x k = (x * 2 ^ k) mod 2 ^ 64 + x / 2 ^ (64 - k).
Proof.
  intros Hx Hk. unfold rotl. rewrite wrap_mod, N.shiftl_mul_pow2, N.shiftr_div_pow2.
  set (hi := (x * 2 ^ k) mod 2 ^ 64). set (lo := x / 2 ^ (64 - k)).
  assert (Hlo : lo < 2 ^ k).
  { unfold lo. apply N.div_lt_upper_bound; [apply N.pow_nonzero; lia|].
    rewrite <- N.pow_add_r. replace (64 - k + k) with 64 by lia. exact Hx. }
  assert (Hhi : hi mod 2 ^ k = 0).
  { unfold hi. replace 64 with (k + (64 - k)) by lia. rewrite N.pow_add_r.
    rewrite N.mul_comm. rewrite N.mul_mod_distr_l by (apply N.pow_nonzero; lia).
    rewrite N.mul_comm. apply N.mod_mul. apply N.pow_nonzero; lia. }
  assert (Hand : N.land hi lo = 0).
  { apply N.bits_inj_0. intros i. rewrite N.land_spec.
    destruct (N.lt_ge_cases i k) as [Hi|Hi].
    - replace (N.testbit hi i) with false; [reflexivity|].
      rewrite <- (N.mod_pow2_bits_low hi k i Hi), Hhi. symmetry. apply N.bits_0.
    - replace (N.testbit lo i) with false; [apply andb_false_r|].
      symmetry. destruct (N.eq_dec lo 0) as [->|Hne]; [apply N.bits_0|].
      apply N.bits_above_log2. apply N.lt_le_trans with k; [|exact Hi]. apply lt_pow2_log2; auto. }
  rewrite <- N.lxor_lor by exact Hand. symmetry. now apply N.add_nocarry_lxor.
Qed.
