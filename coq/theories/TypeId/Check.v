(** Correspondence checker for the type-id model.  The harness prints, for every concrete
    Rust type of its universe, the term describing the type and the two halves of the real
    [<T as Identifiable>::STABLE_TYPE_ID]; a case passes when the model computes exactly
    that id from the term AND the term is the [i]-th member of the Coq [universe], [i] being
    the position at which the harness enumerated the type (so the theorem
    [C14_universe_distinct] speaks about exactly the types the harness instantiated; the
    check driver also compares the number of printed cases with [universe_size]). *)
From Coq Require Import String.
From QV Require Import Common.Prelude TypeId.Model TypeId.Structural TypeId.Universe.
Open Scope N_scope.
Open Scope string_scope.

Inductive case :=
| Case (i : N) (t : tterm) (hi lo : N)
| Free (t : tterm) (hi lo : N)
    (* a random term outside the universe whose id the real [from_unique_type_name] /
       [combine] computed at run time (folds written by the harness) *)
| Twin (a b : tterm) (hi lo : N).
    (* the known finding, replayed: two different types (outside the universe: one derived
       name at two arities) for which the real code computed the same id [hi lo]; the model
       must agree on the id and explain it by equal id expressions *)

Definition check (c : case) : bool :=
  match c with
  | Case i t hi lo =>
      let '(h, l) := id_of t in
      N.eqb h hi && N.eqb l lo &&
      match nth_error universe (N.to_nat i) with Some u => tterm_eqb t u | None => false end
  | Free t hi lo => let '(h, l) := id_of t in N.eqb h hi && N.eqb l lo
  | Twin a b hi lo =>
      let '(h, l) := id_of a in
      let '(h', l') := id_of b in
      N.eqb h hi && N.eqb l lo && N.eqb h' hi && N.eqb l' lo &&
      sym_eqb (sym_id a) (sym_id b) && negb (tterm_eqb a b)
  end.

Fixpoint failures_from (i : N) (cs : list case) : list N :=
  match cs with
  | [] => []
  | c :: r => if check c then failures_from (i + 1) r else i :: failures_from (i + 1) r
  end.
Definition failures (cs : list case) : list N := failures_from 0 cs.
