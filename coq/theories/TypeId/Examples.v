(** C14 — non-vacuity of the theorems' hypotheses and a few evaluated instances. *)
From Coq Require Import String.
From QV Require Import Common.Prelude TypeId.Model TypeId.Structural TypeId.Universe TypeId.QueryId.
Open Scope N_scope.
Open Scope string_scope.

(** swapped parameters, re-nesting, arity, length, fold direction: all well formed for
    the universe's signature, all with pairwise different id expressions *)
Definition ex_terms : list tterm := [
  B "core::result::Result" tu8 tstring; B "core::result::Result" tstring tu8;           (* swapped *)
  tup [tup [tu8; tu8]; tu8]; tup [tu8; tup [tu8; tu8]]; tup [tu8; tu8; tu8];            (* nesting vs arity *)
  tup [tu8]; tu8; tup [tup [tu8]];
  arr 2 (arr 3 tu8); arr 3 (arr 2 tu8); arr 6 tu8;                                      (* lengths *)
  D2 "D2" tu8 tstring; D2 "D2" tstring tu8; tup [tu8; D1 "D1" tstring]; D2 "D2" tstring (tup [tu8]);
  U "std::vec::Vec" (U "core::option::Option" tu8); U "core::option::Option" (U "std::vec::Vec" tu8) ].

Example ex_terms_wf : forallb (wfb usig) ex_terms = true.
Proof. vm_compute. reflexivity. Qed.

Fixpoint pairwise {A} (r : A -> A -> bool) (l : list A) : bool :=
  match l with [] => true | x :: t => forallb (fun y => r x y) t && pairwise r t end.

Example ex_terms_expressions_distinct :
  pairwise (fun a b => negb (sym_eqb (sym_id a) (sym_id b))) ex_terms = true.
Proof. vm_compute. reflexivity. Qed.

(** an instance of the structural theorem *)
Example structural_example :
  let t := B "core::result::Result" tu8 tstring in
  let t' := B "core::result::Result" tstring tu8 in
  wf usig t /\ wf usig t' /\ sym_id t <> sym_id t'.
Proof.
  cbv zeta. split; [vm_compute; reflexivity|]. split; [vm_compute; reflexivity|].
  intros E. apply (structural usig) in E; [discriminate E | vm_compute; reflexivity | vm_compute; reflexivity].
Qed.

(** the universe is not degenerate: size, depth profile *)
Example universe_profile :
  N.of_nat (length universe) = 5010 /\
  N.of_nat (length (filter (fun t => Nat.eqb (depth t) 3) universe)) = 1012 /\
  N.of_nat (length (filter (fun t => Nat.eqb (depth t) 2) universe)) = 2771.
Proof. vm_compute. repeat split. Qed.

(** evaluated ids, as the real constants print them (u8; Vec<u8>; [u8; 3]) *)
Example ids_sample :
  id_of tu8 = (3553884372575782896, 16267608730178485097) /\
  id_of (U "std::vec::Vec" tu8) = (8867544496383520467, 5544654547773257543) /\
  id_of (arr 3 tu8) = (17354331074172360500, 4048621704554317417).
Proof. vm_compute. repeat split. Qed.
