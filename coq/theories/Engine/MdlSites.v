(** The side condition [mpartial_ok] of the cancellation theorems ([Engine/MdlCancel.v]) is implied
    by every request of a real run (the analogue of [CoreCancel.RStkOk_cstack_ok]).

    [mpartial_ok p s stk c n] is, literally, the conjunction of the three premises that the
    soundness statement [MdlRun.msound_query] puts on a request - the stack is a chain of callers
    ([StkR]), a root-kind caller has the empty stack, [MNPq c n s] - and the mutual induction
    [MdlRunAll.msound_all] establishes these premises at every place where [query_for] is called
    (it could not use its induction hypothesis otherwise).  Those places are, by the unfolding
    equations of [Engine/MdlBase.v]:
      - the user's query                         ([step], stack [[]], [CUser]);
      - the repair of the recorded transitive firewall callees of a root ([mq_tfc]/[mtfc],
        [CRepairFirewall]);
      - the backward projections of a node       ([backward_S]/[mbp], [CBPP]);
      - the retry of [query_for] itself          ([query_for_S], caller [fq_caller c n s]);
      - a read of the executor                   ([eval_S]/[mread], [CQuery n true pd prev]);
      - a dependency checked by the repair walk  ([repair_S]/[mwalk], [CQuery n false pd' []]).
    For each of them the lemma below derives [mpartial_ok] from the premises of the soundness
    statement of the ENCLOSING function ([msound_query] / [msound_execute] / [msound_eval] /
    [msound_repair] / [msound_backward]), which is what a real run maintains. *)
From QV Require Import Common.Prelude Engine.Model Engine.Core Engine.CoreSpec Engine.CoreInvBase
  Engine.CoreInvSem Engine.Fw Engine.FwBase Engine.FwMono Engine.FwOnce Engine.FwInv Engine.FwRun
  Engine.MdlSpec Engine.MdlSem Engine.MdlBase Engine.MdlMono Engine.MdlInv Engine.MdlInvState Engine.MdlInvExec
  Engine.MdlInvClean Engine.MdlRunBase Engine.MdlRun Engine.MdlRunAux Engine.MdlRunAll Engine.MdlCommit
  Engine.MdlWorld Engine.MdlSound Engine.MdlCancel.
Open Scope Z_scope.

(** the side condition = the request premises of [msound_query] *)
Lemma request_premises_partial_ok : forall p stk c n s,
  mpartial_ok p s stk c n <-> (StkR p stk n /\ (is_cq c = false -> stk = []) /\ MNPq c n s).
Proof. intros. unfold mpartial_ok, StkR. tauto. Qed.

Section Sites.
Variable p : program.
Variable rk : node -> nat.
Variable sB : state.
Hypothesis Hrk : forall n e d, alookup p n = Some e -> In d (expr_reads e) -> (rk d < rk n)%nat.
Hypothesis Hproj : forall n e d, alookup p n = Some e -> nkind n = KProjection -> In d (expr_reads e) ->
  is_fw_or_proj (nkind d) = true.

(** the user's query, the repair of a transitive firewall callee of a root, a backward projection *)
Lemma site_user : forall s n, mpartial_ok p s [] CUser n.
Proof. intros s n. split; [intros m []|]. split; [reflexivity|exact I]. Qed.
Lemma site_tfc : forall s t, mpartial_ok p s [] CRepairFirewall t.
Proof. intros s t. split; [intros m []|]. split; [reflexivity|exact I]. Qed.
Lemma site_bp : forall s s' n q, In q (proj_callers s n) -> mpartial_ok p s' [] CBPP q.
Proof.
  intros s s' n q Hq. split; [intros m []|]. split; [reflexivity|]. cbn [MNPq].
  unfold proj_callers in Hq. apply filter_In in Hq. apply kind_eqb_eq. apply Hq.
Qed.

(** the retry of a request whose node has been brought up to date *)
Lemma site_retry : forall stk c n s s2,
  mpartial_ok p s stk c n -> MonoR stk s s2 -> sverified s2 n ->
  mpartial_ok p s2 stk (fq_caller c n s) n.
Proof.
  intros stk c n s s2 (A & B & C) HM Hv. split; [exact A|]. split.
  - rewrite (is_cq_caller). exact B.
  - eapply (MNPq_retry); eauto.
Qed.

(** the executor of [n], run for caller [c]: the mode of its reads ... *)
Lemma site_exec_mode : forall Ex X inp c n s,
  MInvE p rk sB Ex X inp s ->
  (x_pedantic c = true \/ TfcOK s n \/ get_info s n = None) ->
  x_pedantic c = true \/ MPrevOK (set_log s (n :: s_log s)) (fx_prev s n).
Proof.
  intros Ex X inp c n s HI [Hp|[HT|Hn]]; [left; exact Hp| |].
  - right. intros d t Hd. destruct (get_info s n) as [i|] eqn:Hi.
    + destruct (mfx_prev_lookup _ _ _ _ _ Hi Hd) as [v Ho].
      destruct (mi_tfc _ _ _ _ _ _ _ HI n i d v t Hi Ho) as [T1 T2]. split.
      * intro K. apply (HT i Hi). apply T1. exact K.
      * intros K F HF. apply (HT i Hi). apply T2; assumption.
    + unfold fx_prev in Hd. rewrite Hi in Hd. discriminate.
  - right. intros d t Hd. unfold fx_prev in Hd. rewrite Hn in Hd. discriminate.
Qed.
(** ... and each read (the premises are those of [msound_eval], kept along the evaluation by
    [MPrevOK_mono]) *)
Lemma site_read : forall stk n e d pd prev s,
  StkR p stk n -> alookup p n = Some e -> In d (expr_reads e) ->
  (pd = true \/ MPrevOK s prev) ->
  mpartial_ok p s (n :: stk) (CQuery n true pd prev) d.
Proof.
  intros stk n e d pd prev s Hs He Hd Hpd. split; [eapply StkR_push; eauto|].
  split; [discriminate|exact Hpd].
Qed.

(** a dependency checked by the repair walk of [n] (premises of [msound_repair] /
    [msound_walk]: the walk is pedantic or the recorded transitive firewall callees of [n] are
    verified) *)
Lemma site_walk : forall Ex X inp stk s n i cal ci ov otfc pd,
  MInvE p rk sB Ex X inp s -> StkR p stk n ->
  get_info s n = Some i -> In cal (all_callees (i_fwd i)) ->
  alookup (i_obs i) cal = Some (ov, otfc) -> get_info s cal = Some ci -> nkind cal <> KInput ->
  (pd = true \/ TfcOK s n) ->
  mpartial_ok p s (n :: stk)
    (CQuery n false
       (pd || (negb (kind_eqb (nkind cal) KInput) && negb (kind_eqb (nkind cal) KFirewall) &&
               match get_info s cal, alookup (i_obs i) cal with
               | Some ci, Some (_, otfc) => negb (nset_eqb (i_tfc ci) otfc)
               | _, _ => false
               end)) []) cal.
Proof.
  intros Ex X inp stk s n i cal ci ov otfc pd HI Hs Hi Hcal Eo Hci Kni Hnp. split; [|split; [discriminate|]].
  - assert (Hc : In cal (old_fwd s n)) by (unfold old_fwd; rewrite Hi; exact Hcal).
    destruct (mfwd_body p rk sB _ _ _ _ _ _ HI Hc) as (e & He & Hd). eapply StkR_push; eauto.
  - eapply (walk_site_np p rk sB); eauto.
    + intros ->. reflexivity.
    + intros K1 K2. rewrite Hci. cbv iota beta. rewrite Eo, K2.
      destruct (kind_eqb (nkind cal) KInput) eqn:Ek; [apply kind_eqb_eq in Ek; contradiction|].
      destruct (kind_eqb (nkind cal) KFirewall) eqn:Ekf; [apply kind_eqb_eq in Ekf; contradiction|].
      cbn. apply orb_true_r.
Qed.
End Sites.

Print Assumptions site_walk.
Print Assumptions site_retry.
