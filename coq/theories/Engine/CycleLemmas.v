(** Cycle handling of the engine model: a request for a query that is on the computing stack. *)
From QV Require Import Common.Prelude Engine.Model.

Lemma fr_register_scc fr n : fr_scc (fr_register fr n) = fr_scc fr.
Proof. unfold fr_register. destruct (alookup (fr_callees fr) n); reflexivity. Qed.

(** for every order of the parallel tasks *)
Lemma request_on_stack_is_cyclic_o :
  forall p pa tord bord pord f stk b rv pd prev fr n s,
    nmem n stk = true -> kind_eqb (nkind b) KExternal = false ->
    (kind_eqb (nkind b) KProjection && negb (is_fw_or_proj (nkind n)))%bool = false ->
    exists fr',
      query_for_o p pa tord bord pord (S f) stk (CQuery b rv pd prev) (Some fr) n s =
        Ok (QCyclic, Some fr', upto stk n, s) /\
      fr_scc fr' = (fr_scc fr || nmem b (upto stk n))%bool.
Proof.
  intros p pa tord bord pord f stk b rv pd prev fr n s Hn Hk Hp.
  cbn [query_for_o].
  destruct rv; destruct pd; try (destruct (alookup prev n) as [seen|]; [destruct (get_info s n) as [ci|]; [destruct (nset_eqb (i_tfc ci) seen)|]|]);
    rewrite ?Hk, ?Hp, Hn; cbn [frame_mark_if];
    (destruct (nmem b (upto stk n)); eexists; (split; [reflexivity|
       cbn [fr_mark_scc fr_scc]; rewrite ?fr_register_scc, ?orb_true_r, ?orb_false_r; reflexivity])).
Qed.

Lemma request_on_stack_is_cyclic :
  forall p pa f stk b rv pd prev fr n s,
    nmem n stk = true -> kind_eqb (nkind b) KExternal = false ->
    (kind_eqb (nkind b) KProjection && negb (is_fw_or_proj (nkind n)))%bool = false ->
    exists fr',
      query_for p pa (S f) stk (CQuery b rv pd prev) (Some fr) n s =
        Ok (QCyclic, Some fr', upto stk n, s) /\
      fr_scc fr' = (fr_scc fr || nmem b (upto stk n))%bool.
Proof. intros. unfold query_for. apply request_on_stack_is_cyclic_o; assumption. Qed.
