(** Soundness of one request of the firewall fragment ([Engine/Fw.v]): from a state
    satisfying [FInv], [fquery_for] / [fexecute] / [feval] / [frepair] (when they return
    [Ok]) keep the invariant, verify the queried node in this epoch with its from-scratch
    value, and do not modify consistent sub-graphs whose firewalls are verified ([Keeps]).
    A non-pedantic repair is only started when the transitive firewall callees recorded
    for the node are verified ([TfcOK]): this is what the root's TFC repair and the three
    pedantic rules of the code establish. *)
From QV Require Import Common.Prelude Engine.Model Engine.Core Engine.CoreSpec Engine.CoreInvBase
  Engine.CoreInvSem Engine.Fw Engine.FwBase Engine.FwMono Engine.FwSpec Engine.FwSem Engine.FwInv
  Engine.FwInvState Engine.FwInvExec Engine.FwInvClean Engine.FwRunBase.
Open Scope Z_scope.

Section Run.
Variable p : program.
Variable rk : node -> nat.
Hypothesis Hrk : forall n e d, alookup p n = Some e -> In d (expr_reads e) -> (rk d < rk n)%nat.

Definition StkOk (stk : list node) (n : node) : Prop := forall m, In m stk -> (rk n < rk m)%nat.
Lemma StkOk_nil : forall n, StkOk [] n.
Proof using Type. intros n m []. Qed.
Lemma StkOk_notin : forall stk n, StkOk stk n -> ~ In n stk.
Proof using Type. clear Hrk. intros stk n H K. specialize (H n K). lia. Qed.
Lemma StkOk_lower : forall stk n d, StkOk stk n -> (rk d < rk n)%nat -> StkOk (n :: stk) d.
Proof using Type. clear Hrk. intros stk n d H Hd m [<-|Hm]; [exact Hd|]. specialize (H m Hm). lia. Qed.
Lemma StkOk_below : forall stk n d, StkOk stk n -> (rk d < rk n)%nat -> StkOk stk d.
Proof using Type. clear Hrk. intros stk n d H Hd m Hm. specialize (H m Hm). lia. Qed.

(** the recorded transitive firewall callees of [n] are verified *)
Definition TfcOK (s : state) (n : node) : Prop :=
  forall i, get_info s n = Some i -> forall F, In F (i_tfc i) -> sverified s F.
Definition NPn (s : state) (n : node) : Prop := sverified s n \/ TfcOK s n.
Definition PrevOK (s : state) (prev : list (node * list node)) : Prop :=
  forall d t, alookup prev d = Some t ->
    (nkind d = KFirewall -> sverified s d) /\ (nkind d = KNormal -> forall F, In F t -> sverified s F).
Definition NPq (c : caller) (n : node) (s : state) : Prop :=
  match c with
  | CQuery _ true pd prev => pd = true \/ PrevOK s prev
  | CQuery _ false pd _ => pd = true \/ NPn s n
  | CBPP => False
  | _ => True
  end.

Lemma TfcOK_mono : forall stk s s' n, MonoR stk s s' ->
  (get_info s' n = get_info s n) -> TfcOK s n -> TfcOK s' n.
Proof using Type.
  intros stk s s' n HM E H i Hi F HF. rewrite E in Hi. eapply sverified_mono; eauto.
Qed.
Lemma NPn_mono : forall stk s s' n, MonoR stk s s' -> NPn s n -> NPn s' n.
Proof using Type.
  intros stk s s' n HM [H|H]; [left; eapply sverified_mono; eauto|].
  destruct (mr_unch _ _ _ HM n) as [E|V]; [right; eapply TfcOK_mono; eauto|left; exact V].
Qed.
Lemma PrevOK_mono : forall stk s s' prev, MonoR stk s s' -> PrevOK s prev -> PrevOK s' prev.
Proof using Type.
  intros stk s s' prev HM H d t Hd. destruct (H d t Hd) as [A B]. split.
  - intro K. eapply sverified_mono; eauto.
  - intros K F HF. eapply sverified_mono; eauto.
Qed.

(** frames handed to a request *)
Definition FrPre (c : caller) (fr : option frame) (n : node) (s : state) : Prop :=
  match c with
  | CQuery b true _ _ =>
      (rk n < rk b)%nat /\ exists x, FrOk rk s b x /\ (fr = Some x \/ fr = Some (fr_register x n))
  | CQuery b false _ _ => exists x, fr = Some x /\ fr_scc x = false /\ fr_tfc x = []
  | _ => fr = None
  end.
Definition QPost (c : caller) (fr fr' : option frame) (o : qout) (i : info) (n : node) (s' : state) : Prop :=
  match c with
  | CUser => o = QValue (Some (i_value i))
  | CQuery b true _ _ =>
      o = QValue (Some (i_value i)) /\
      forall x, fr = Some x \/ fr = Some (fr_register x n) -> fr' = Some (fr_obs_reg x n i)
  | CQuery b false _ _ => exists x', fr' = Some x' /\ fr_scc x' = false /\ fr_tfc x' = []
  | _ => True
  end.

Definition FrEmpty (fr : frame) : Prop :=
  fr_callees fr = [] /\ fr_order fr = [] /\ fr_tfc fr = [] /\ fr_scc fr = false /\ fr_unordered fr = false.

(** an observation of [n] differs from what a callee that will not change any more records *)
Definition StaleV (s : state) (n : node) : Prop :=
  exists cal i ci v t, get_info s n = Some i /\ In cal (all_callees (i_fwd i)) /\
    alookup (i_obs i) cal = Some (v, t) /\ get_info s cal = Some ci /\
    (sverified s cal \/ Solid s cal) /\ i_value ci <> v.

Lemma StaleV_Stale : forall s n, StaleV s n -> Stale s n.
Proof using Type.
  intros s n (cal & i & ci & v & t & A & B & C & D & _ & E). exists cal. split.
  - unfold old_fwd. rewrite A. exact B.
  - intros (i0 & j & v0 & t0 & A0 & B0 & C0 & D0 & _). apply E. congruence.
Qed.

Lemma StaleV_mono : forall inp stk s s' n,
  FInv p rk inp s -> MonoR stk s s' -> Keeps s s' -> get_info s' n = get_info s n ->
  StaleV s n -> StaleV s' n.
Proof.
  intros inp stk s s' n HI HM HK En (cal & i & ci & v & t & A & B & C & D & S & E).
  assert (Hc : exists ci', get_info s' cal = Some ci' /\ i_value ci' = i_value ci /\
                 (sverified s' cal \/ Solid s' cal)).
  { destruct S as [S|S].
    - destruct S as [j [J1 J2]]. assert (j = ci) by congruence. subst j.
      destruct (mr_ver _ _ _ HM cal ci D J2) as [ci' [K1 (K2 & K3 & _)]]. exists ci'. split; [exact K1|].
      split; [exact K3|]. left. exists ci'. split; [exact K1|]. rewrite K2, (mr_ts _ _ _ HM). exact J2.
    - destruct (HK cal ci D S) as [ci' [K1 (K2 & _)]]. exists ci'. split; [exact K1|]. split; [exact K2|].
      right. eapply Solid_keep; eauto. congruence. }
  destruct Hc as [ci' (K1 & K2 & K3)].
  exists cal, i, ci', v, t. rewrite En. repeat (split; [assumption|]). congruence.
Qed.

Definition sound_query (f : nat) : Prop :=
  forall inp stk c fr n s o fr' ms s',
    FInv p rk inp s -> StkOk stk n -> NPq c n s -> FrPre c fr n s ->
    fquery_for p f stk c fr n s = Ok (o, fr', ms, s') ->
    FInv p rk inp s' /\ Keeps s s' /\ ms = [] /\
    exists i, get_info s' n = Some i /\ i_verified i = s_ts s' /\ QPost c fr fr' o i n s'.
Definition sound_execute (f : nat) : Prop :=
  forall inp stk c n rc fr0 s ms s',
    FInv p rk inp s -> StkOk stk n -> FrEmpty fr0 -> ~ sverified s n ->
    ((rc = true /\ StaleV s n /\ (c_pedantic c = true \/ TfcOK s n)) \/ (rc = false /\ get_info s n = None)) ->
    fexecute p f stk c n rc fr0 s = Ok (ms, s') ->
    FInv p rk inp s' /\ Keeps s s' /\ ms = [] /\ sverified s' n.
Definition sound_eval (f : nat) : Prop :=
  forall inp stk n pd prev e fr s o fr' ms s',
    FInv p rk inp s -> (forall d, In d (expr_reads e) -> StkOk stk d /\ (rk d < rk n)%nat) ->
    FrOk rk s n fr -> (pd = true \/ PrevOK s prev) ->
    feval p f stk (CQuery n true pd prev) e fr s = Ok (o, fr', ms, s') ->
    FInv p rk inp s' /\ Keeps s s' /\ ms = [] /\ FrOk rk s' n fr' /\
    (forall d x, frR fr d x -> frR fr' d x) /\
    (forall d, In d (map fst (fr_callees fr')) -> In d (map fst (fr_callees fr)) \/ In d (expr_reads e)) /\
    exists z, o = EVal z /\ ev (frR fr') e z.
Definition sound_repair (f : nat) : Prop :=
  forall inp stk c n s ms s',
    FInv p rk inp s -> StkOk stk n -> ~ sverified s n -> (c_pedantic c = true \/ TfcOK s n) ->
    frepair p f stk c n s = Ok (ms, s') ->
    FInv p rk inp s' /\ Keeps s s' /\ ms = [] /\ sverified s' n.

(** * the TFC repair of a root *)
Lemma sound_tfc : forall f inp stk, sound_query f ->
  forall ts s s', FInv p rk inp s -> (forall t, In t ts -> StkOk stk t) ->
    ftfc p f stk ts s = Ok s' ->
    FInv p rk inp s' /\ Keeps s s' /\ forall t, In t ts -> sverified s' t.
Proof.
  intros f inp stk IHq. induction ts as [|t r IH]; intros s s' HI Hstk H; cbn [ftfc] in H.
  - inversion H. subst. split; [exact HI|]. split; [apply Keeps_refl|]. intros t [].
  - destruct (fquery_for p f stk CRepairFirewall None t s) as [[[[o fr'] m'] s1]| | |] eqn:Eq; try discriminate.
    pose proof (proj1 (mono_all p f) _ _ _ _ _ _ _ _ _ Eq) as M1.
    destruct (IHq inp stk CRepairFirewall None t s o fr' m' s1 HI (Hstk t (or_introl eq_refl)) I eq_refl Eq)
      as (HI1 & K1 & _ & i & Hi & Hv & _).
    destruct (IH s1 s' HI1 (fun x Hx => Hstk x (or_intror Hx)) H) as (HI2 & K2 & V2).
    assert (M2 : MonoR stk s1 s') by (eapply mono_tfc; [apply (proj1 (mono_all p f))|exact H]).
    split; [exact HI2|]. split; [eapply Keeps_trans; eauto|].
    intros x [<-|Hx]; [|apply V2; exact Hx]. eapply sverified_mono; [exact M2|]. exists i. auto.
Qed.

(** * the repair walk *)
Definition synced (s : state) (i : info) (x : node) : Prop :=
  exists j v t, get_info s x = Some j /\ alookup (i_obs i) x = Some (v, t) /\
    forall F, In F (i_tfc j) <-> In F t.
Definition EdgeDone (s : state) (i : info) (rtfc : bool) (x : node) : Prop :=
  edgeokV s i x /\ (nkind x = KFirewall -> sverified s x) /\ (nonfw x -> Solid s x) /\
  (rtfc = false -> nkind x <> KFirewall -> synced s i x).
Definition TStale (s : state) (i : info) : Prop :=
  exists cal j v t, In cal (all_callees (i_fwd i)) /\ get_info s cal = Some j /\
    (sverified s cal \/ Solid s cal) /\
    nkind cal <> KFirewall /\ alookup (i_obs i) cal = Some (v, t) /\ ~ (forall F, In F (i_tfc j) <-> In F t).
Record WalkInv (s : state) (i : info) (cs : list node) (rtfc : bool) (cleaned : list node) : Prop := {
  wi_cleaned : forall x, In x cleaned -> In x (all_callees (i_fwd i)) /\ (nkind x = KInput \/ sverified s x);
  wi_done : forall x, In x (all_callees (i_fwd i)) -> ~ In x cs -> EdgeDone s i rtfc x;
  wi_stale : rtfc = true -> TStale s i;
}.

Lemma EdgeDone_mono : forall inp stk s s' i r x,
  FInv p rk inp s -> MonoR stk s s' -> Keeps s s' -> EdgeDone s i r x -> EdgeDone s' i r x.
Proof.
  intros inp stk s s' i r x HI HM HK ((j & v & t & A & B & C) & D & E & G).
  assert (Hx : exists j', get_info s' x = Some j' /\ i_value j' = i_value j /\
                 (nkind x <> KFirewall -> i_tfc j' = i_tfc j)).
  { destruct (fw_or_nonfw _ _ _ _ _ _ HI A) as [K|K].
    - destruct (D K) as [j0 [J1 J2]]. assert (j0 = j) by congruence. subst j0.
      destruct (mr_ver _ _ _ HM x j A J2) as [j' [K1 (_ & K3 & _)]]. exists j'. split; [exact K1|].
      split; [exact K3|]. intro Kn. contradiction.
    - destruct (HK x j A (E K)) as [j' [K1 (K2 & _ & _ & K5)]]. exists j'. auto. }
  destruct Hx as [j' (X1 & X2 & X3)].
  split; [exists j', v, t; split; [exact X1|]; split; [exact B|congruence]|].
  split; [intro K; eapply sverified_mono; eauto|].
  split; [intro K; eapply Solid_keep; eauto; congruence|].
  intros Hr Kn. destruct (G Hr Kn) as (j0 & v0 & t0 & S1 & S2 & S3).
  assert (j0 = j) by congruence. subst j0. exists j', v0, t0. split; [exact X1|]. split; [exact S2|].
  rewrite (X3 Kn). exact S3.
Qed.
Lemma EdgeDone_weaken : forall s i r x, EdgeDone s i r x -> EdgeDone s i true x.
Proof using Type. intros s i r x (A & B & C & _). split; [exact A|]. split; [exact B|]. split; [exact C|]. discriminate. Qed.

Lemma TStale_mono : forall inp stk s s' i,
  FInv p rk inp s -> MonoR stk s s' -> Keeps s s' -> TStale s i -> TStale s' i.
Proof.
  intros inp stk s s' i HI HM HK (cal & j & v & t & A & B & C & D & E & G).
  assert (Hc : exists j', get_info s' cal = Some j' /\ i_tfc j' = i_tfc j /\ (sverified s' cal \/ Solid s' cal)).
  { destruct C as [C|C].
    - destruct C as [j0 [J1 J2]]. assert (j0 = j) by congruence. subst j0.
      destruct (mr_ver _ _ _ HM cal j B J2) as [j' [K1 (K2 & _ & K4 & _)]]. exists j'. split; [exact K1|].
      split; [exact K4|]. left. exists j'. split; [exact K1|]. rewrite K2, (mr_ts _ _ _ HM). exact J2.
    - destruct (HK cal j B C) as [j' [K1 (_ & _ & _ & K5)]]. exists j'. split; [exact K1|]. split; [exact K5|].
      right. eapply Solid_keep; eauto. congruence. }
  destruct Hc as [j' (K1 & K2 & K3)].
  exists cal, j', v, t. split; [exact A|]. split; [exact K1|]. split; [exact K3|].
  split; [exact D|]. split; [exact E|]. rewrite K2. exact G.
Qed.

Lemma WalkInv_mono : forall inp stk s s' i cs r cl,
  FInv p rk inp s -> MonoR stk s s' -> Keeps s s' -> WalkInv s i cs r cl -> WalkInv s' i cs r cl.
Proof.
  intros inp stk s s' i cs r cl HI HM HK [A B C]. split.
  - intros x Hx. destruct (A x Hx) as [A1 [A2|A2]]; split; auto. right. eapply sverified_mono; eauto.
  - intros x Hx Hn. eapply EdgeDone_mono; eauto.
  - intro Hr. eapply TStale_mono; eauto.
Qed.

(** an edge that may be skipped: clean, with the recorded firewalls of [n] verified *)
Lemma skip_done : forall inp s n i cal,
  FInv p rk inp s -> get_info s n = Some i -> TfcOK s n ->
  In cal (all_callees (i_fwd i)) -> ~ sdirty s n cal -> EdgeDone s i false cal.
Proof.
  intros inp s n i cal HI Hi HT Hc Hcl.
  assert (Hcn : In cal (old_fwd s n)) by (unfold old_fwd; rewrite Hi; exact Hc).
  destruct (fi_C _ _ _ _ HI n cal Hcn Hcl) as [(i0 & j & v & t & A & B & C & D & E) G].
  assert (i0 = i) by congruence. subst i0.
  split; [exists j, v, t; auto|]. split; [|split].
  - intro K. apply (HT i Hi). apply (proj1 (fi_tfc _ _ _ _ HI n i cal v t Hi C)). exact K.
  - intro K. split; [apply G; exact K|]. intros F HF.
    assert (HFj : In F (i_tfc j)) by (eapply Good_reach_tfc; eauto).
    destruct (nonfw_stored _ _ _ _ _ _ HI B K) as [Kc|Kc].
    + exfalso. destruct HF as [x (P1 & P2 & _)]. pose proof (input_no_fwd _ _ _ _ _ HI Kc) as E0.
      inversion P1; subst; [rewrite E0 in P2; destruct P2|].
      match goal with H : In _ (old_fwd s cal) |- _ => rewrite E0 in H; destruct H end.
    + apply (HT i Hi). apply (proj2 (fi_tfc _ _ _ _ HI n i cal v t Hi C) Kc). apply (E (nonfw_not_fw _ K)). exact HFj.
  - intros _ Kn. exists j, v, t. split; [exact B|]. split; [exact C|]. apply E. exact Kn.
Qed.

Lemma sound_walk : forall f inp n stk pd i, sound_query f -> StkOk stk n ->
  forall cs rtfc cleaned fr ms s d fr' ms' s1,
    FInv p rk inp s -> get_info s n = Some i -> ~ sverified s n -> (pd = true \/ TfcOK s n) ->
    (forall x, In x cs -> In x (all_callees (i_fwd i))) ->
    ms = [] -> fr_scc fr = false -> fr_tfc fr = [] ->
    WalkInv s i cs rtfc cleaned ->
    fwalk p f n stk pd i cs rtfc cleaned fr ms s = Ok (d, fr', ms', s1) ->
    FInv p rk inp s1 /\ Keeps s s1 /\ ms' = [] /\ fr_scc fr' = false /\ fr_tfc fr' = [] /\
    match d with
    | DRecompute => StaleV s1 n
    | DClean rtfc' cl' => WalkInv s1 i [] rtfc' cl'
    end.
Proof.
  intros f inp n stk pd i IHq Hstk.
  induction cs as [|cal r IH]; intros rtfc cleaned fr ms s d fr' ms' s1 HI Hi Hnv Hnp Hsub Hms Hscc Htfc HW H;
    cbn [fwalk] in H.
  - inversion H. subst. split; [exact HI|]. split; [apply Keeps_refl|]. auto.
  - cbv zeta in H. subst ms.
    assert (Hcal : In cal (all_callees (i_fwd i))) by (apply Hsub; left; reflexivity).
    assert (Hcaln : In cal (old_fwd s n)) by (unfold old_fwd; rewrite Hi; exact Hcal).
    assert (Hsub' : forall x, In x r -> In x (all_callees (i_fwd i))) by (intros; apply Hsub; right; assumption).
    assert (Hrkc : (rk cal < rk n)%nat) by (eapply fwd_rk; eauto).
    remember (emem (n, cal) (s_dirty s)) as dt eqn:Edt. symmetry in Edt.
    destruct (negb dt && negb pd) eqn:Eskip.
    + (* skipped *)
      apply andb_true_iff in Eskip. destruct Eskip as [E1 E2]. apply negb_true_iff in E1, E2. subst dt pd.
      destruct Hnp as [Hnp|Hnp]; [discriminate|].
      apply emem_false in E1.
      apply (IH rtfc cleaned fr [] s d fr' ms' s1 HI Hi Hnv (or_intror Hnp) Hsub' eq_refl Hscc Htfc); [|exact H].
      destruct HW as [W1 W2 W3]. split; [exact W1| |exact W3].
      intros x Hx Hnr. destruct (node_eq_dec x cal) as [->|Hne].
      * destruct rtfc; [eapply EdgeDone_weaken|]; eapply skip_done; eauto.
      * apply W2; [exact Hx|]. intros [K|K]; [congruence|contradiction].
    + clear Eskip.
      destruct (alookup (i_obs i) cal) as [[ov otfc]|] eqn:Eo.
      2:{ exfalso. destruct (fi_obs _ _ _ _ HI n i cal Hi Hcal) as [o Ho]. congruence. }
      (* the common continuation, once the callee has been brought up to date *)
      assert (Hstep : forall s0 fr0 ci,
                FInv p rk inp s0 -> Keeps s s0 -> MonoR (n :: stk) s s0 ->
                get_info s0 cal = Some ci ->
                (nkind cal = KFirewall -> sverified s0 cal) -> (nonfw cal -> Solid s0 cal) ->
                (nkind cal = KInput \/ sverified s0 cal) ->
                fr_scc fr0 = false -> fr_tfc fr0 = [] ->
                (if negb (i_value ci =? ov) then Ok (DRecompute, fr0, [] ++ [], s0)
                 else fwalk p f n stk pd i r
                        (rtfc || (negb (kind_eqb (nkind cal) KFirewall) && negb (nset_eqb (i_tfc ci) otfc)))
                        (if dt then cleaned ++ [cal] else cleaned) fr0 ([] ++ []) s0) = Ok (d, fr', ms', s1) ->
                FInv p rk inp s1 /\ Keeps s s1 /\ ms' = [] /\ fr_scc fr' = false /\ fr_tfc fr' = [] /\
                match d with
                | DRecompute => StaleV s1 n
                | DClean rtfc' cl' => WalkInv s1 i [] rtfc' cl'
                end).
      { intros s0 fr0 ci HI0 HK0 HM0 Hci Hfw0 Hnf0 Hcl0 Hscc0 Htfc0 H0.
        assert (Hi0 : get_info s0 n = Some i) by (rewrite (mr_stk _ _ _ HM0 n (or_introl eq_refl)); exact Hi).
        assert (Hnv0 : ~ sverified s0 n).
        { intros [j [J1 J2]]. apply Hnv. exists j. split; [congruence|]. rewrite <- (mr_ts _ _ _ HM0). exact J2. }
        assert (Hstable : sverified s0 cal \/ Solid s0 cal).
        { destruct (fw_or_nonfw _ _ _ _ _ _ HI0 Hci); auto. }
        destruct (i_value ci =? ov) eqn:Ev; cbn [negb] in H0.
        - apply Z.eqb_eq in Ev. cbn [app] in H0.
          set (tdiff := negb (kind_eqb (nkind cal) KFirewall) && negb (nset_eqb (i_tfc ci) otfc)) in *.
          assert (HW0 : WalkInv s0 i r (rtfc || tdiff) (if dt then cleaned ++ [cal] else cleaned)).
          { pose proof (WalkInv_mono _ _ _ _ _ _ _ _ HI HM0 HK0 HW) as [W1 W2 W3]. split.
            - intros x Hx.
              assert (Hx' : In x cleaned \/ (dt = true /\ x = cal)).
              { destruct dt; [|auto]. apply in_app_or in Hx. destruct Hx as [Hx|[<-|[]]]; auto. }
              destruct Hx' as [Hx'|[_ ->]]; [apply W1; exact Hx'|]. split; [exact Hcal|exact Hcl0].
            - intros x Hx Hnr. destruct (node_eq_dec x cal) as [->|Hne].
              + split; [exists ci, ov, otfc; auto|]. split; [exact Hfw0|]. split; [exact Hnf0|].
                intros Hr Kn. apply orb_false_iff in Hr. destruct Hr as [_ Hr]. unfold tdiff in Hr.
                assert (Ek : kind_eqb (nkind cal) KFirewall = false).
                { destruct (kind_eqb (nkind cal) KFirewall) eqn:E0; [apply kind_eqb_eq in E0; contradiction|reflexivity]. }
                rewrite Ek in Hr. cbn [negb andb] in Hr. apply negb_false_iff in Hr. pose proof (proj1 (nset_eqb_In _ _) Hr) as Hr0.
                exists ci, ov, otfc. auto.
              + assert (Hd0 : EdgeDone s0 i rtfc x).
                { apply W2; [exact Hx|]. intros [K|K]; [congruence|contradiction]. }
                destruct (rtfc || tdiff) eqn:Er.
                * eapply EdgeDone_weaken; eauto.
                * apply orb_false_iff in Er. destruct Er as [-> _]. exact Hd0.
            - intro Hr. apply orb_true_iff in Hr. destruct Hr as [Hr|Hr]; [apply W3; exact Hr|].
              unfold tdiff in Hr. apply andb_true_iff in Hr. destruct Hr as [Hr1 Hr2].
              apply negb_true_iff in Hr1, Hr2.
              assert (Kn : nkind cal <> KFirewall).
              { intro K. rewrite K in Hr1. discriminate. }
              exists cal, ci, ov, otfc. split; [exact Hcal|]. split; [exact Hci|]. split; [exact Hstable|].
              split; [exact Kn|]. split; [exact Eo|]. intro K. apply (proj2 (nset_eqb_In _ _)) in K. congruence. }
          assert (Hnp0 : pd = true \/ TfcOK s0 n).
          { destruct Hnp as [Hnp|Hnp]; [left; exact Hnp|right]. eapply TfcOK_mono; eauto. congruence. }
          destruct (IH _ _ _ _ _ _ _ _ _ HI0 Hi0 Hnv0 Hnp0 Hsub' eq_refl Hscc0 Htfc0 HW0 H0)
            as (R1 & R2 & R3 & R4 & R5 & R6).
          assert (M2 : MonoR (n :: stk) s0 s1) by (eapply mono_walk; [apply (proj1 (mono_all p f))|exact H0]).
          split; [exact R1|]. split; [eapply Keeps_trans; eauto|]. auto.
        - inversion H0. subst. split; [exact HI0|]. split; [exact HK0|]. split; [reflexivity|].
          split; [exact Hscc0|]. split; [exact Htfc0|].
          exists cal, i, ci, ov, otfc. split; [exact Hi0|]. split; [exact Hcal|]. split; [exact Eo|].
          split; [exact Hci|]. split; [exact Hstable|]. apply Z.eqb_neq. exact Ev. }
      destruct (kind_eqb (nkind cal) KInput) eqn:Ek.
      * apply kind_eqb_eq in Ek.
        destruct (get_info s cal) as [ci|] eqn:Eci; [|discriminate].
        assert (Hnfc : nonfw cal) by (unfold nonfw; rewrite Ek; reflexivity).
        eapply (Hstep s fr ci); eauto.
        -- apply Keeps_refl.
        -- apply MonoR_refl.
        -- intro K. rewrite Ek in K. discriminate.
        -- intros _. split.
           ++ intros x Hx d0 Hd0. pose proof (input_no_fwd _ _ _ _ _ HI Ek) as E0.
              inversion Hx; subst; [rewrite E0 in Hd0; destruct Hd0|].
              match goal with H : In _ (old_fwd s cal) |- _ => rewrite E0 in H; destruct H end.
           ++ intros F [x (P1 & P2 & _)]. pose proof (input_no_fwd _ _ _ _ _ HI Ek) as E0.
              inversion P1; subst; [rewrite E0 in P2; destruct P2|].
              match goal with H : In _ (old_fwd s cal) |- _ => rewrite E0 in H; destruct H end.
      * match type of H with context [fquery_for p f ?a ?b ?c ?d0 ?e] =>
          destruct (fquery_for p f a b c d0 e) as [[[[o fr1] m1] s']| | |] eqn:Eq; try discriminate end.
        assert (HM : MonoR (n :: stk) s s') by (eapply (proj1 (mono_all p f)); eauto).
        assert (Hcs : exists ci0, get_info s cal = Some ci0).
        { destruct (get_info s cal) eqn:E0; [eauto|]. exfalso. eapply (fi_target _ _ _ _ HI); eauto. }
        destruct Hcs as [ci0 Hci0].
        assert (Kni : nkind cal <> KInput) by (intro K; rewrite K in Ek; discriminate).
        match type of Eq with fquery_for p f _ (CQuery n false ?pc []) _ _ _ = _ => set (pcal := pc) in * end.
        assert (Hnpq : NPq (CQuery n false pcal []) cal s).
        { cbn [NPq]. destruct Hnp as [->|HT]; [left; reflexivity|].
          destruct (fw_or_nonfw _ _ _ _ _ _ HI Hci0) as [Kc|Kc].
          - right. left. apply (HT i Hi). apply (proj1 (fi_tfc _ _ _ _ HI n i cal ov otfc Hi Eo)). exact Kc.
          - assert (Kcn : nkind cal = KNormal).
            { destruct (nonfw_stored _ _ _ _ _ _ HI Hci0 Kc); [contradiction|assumption]. }
            unfold pcal. rewrite Hci0, Kcn. cbn [kind_eqb negb andb].
            destruct (nset_eqb (i_tfc ci0) otfc) eqn:Et; cbn [negb].
            + right. right. intros j Hj F HF. assert (j = ci0) by congruence. subst j.
              apply (HT i Hi). apply (proj2 (fi_tfc _ _ _ _ HI n i cal ov otfc Hi Eo) Kcn).
              apply (proj1 (nset_eqb_In _ _) Et). exact HF.
            + left. apply orb_true_r. }
        destruct (IHq inp (n :: stk) (CQuery n false pcal []) (Some fr) cal s o fr1 m1 s' HI
                    (StkOk_lower _ _ _ Hstk Hrkc) Hnpq (ex_intro _ fr (conj eq_refl (conj Hscc Htfc))) Eq)
          as (HI' & HK' & -> & ci & Hci & Hv & x' & -> & Sx & Tx).
        rewrite Hci in H.
        assert (Vc : sverified s' cal) by (exists ci; auto).
        eapply (Hstep s' x' ci); eauto.
        -- intro K. split; [apply (fi_G _ _ _ _ HI'); exact Vc|]. intros F HF. eapply (fi_T _ _ _ _ HI'); eauto.
Qed.

(** * one request *)
Lemma NPq_caller : forall inp c n s, FInv p rk inp s -> NPq c n s ->
  c_pedantic (fq_caller c n s) = true \/ NPn s n \/ c = CUser \/ c = CRepairFirewall.
Proof.
  intros inp c n s HI H. destruct c as [|b rv pd prev| |]; cbn [fq_caller];
    [right; right; left; reflexivity| |right; right; right; reflexivity|destruct H].
  destruct rv; cbn [NPq] in H.
  - destruct pd; [left; reflexivity|]. destruct H as [H|H]; [discriminate|].
    destruct (alookup prev n) as [seen|] eqn:Ep; [|left; reflexivity].
    destruct (get_info s n) as [ci|] eqn:Eg.
    + destruct (nset_eqb (i_tfc ci) seen) eqn:Et; [|left; reflexivity].
      right. left. destruct (H n seen Ep) as [H1 H2].
      destruct (stored_kind _ _ _ _ _ _ HI Eg) as [K|[K|K]].
      * right. intros j Hj F HF. assert (j = ci) by congruence. subst j.
        destruct (fi_kind _ _ _ _ HI n ci Eg) as [(_ & _ & _ & T & _)|(K2 & _)]; [rewrite T in HF; destruct HF|].
        rewrite K in K2. discriminate.
      * right. intros j Hj F HF. assert (j = ci) by congruence. subst j.
        apply (H2 K). apply (proj1 (nset_eqb_In _ _) Et). exact HF.
      * left. auto.
    + right. left. right. intros j Hj. congruence.
  - destruct H as [->|H]; [left; reflexivity|right; left; exact H].
Qed.

Lemma NPq_retry : forall stk c n s s2, NPq c n s -> MonoR stk s s2 -> sverified s2 n -> NPq (fq_caller c n s) n s2.
Proof using Type.
  intros stk c n s s2 H HM Hv. destruct (fq_caller_shape c n s) as [->|[b [prev [-> ->]]]].
  - destruct c as [|b rv pd prev| |]; cbn [NPq] in *; auto. destruct rv.
    + destruct H as [H|H]; [left; exact H|right; eapply PrevOK_mono; eauto].
    + right. left. exact Hv.
  - cbn [NPq]. left. reflexivity.
Qed.

Lemma FrPre_retry : forall stk c fr n s s2, FrPre c fr n s -> MonoR stk s s2 ->
  FrPre (fq_caller c n s) (fq_reg (fq_caller c n s) fr n) n s2.
Proof using Type.
  intros stk c fr n s s2 H HM. rewrite fq_reg_caller.
  assert (G : FrPre c (fq_reg c fr n) n s2).
  { destruct c as [|b rv pd prev| |]; cbn [FrPre fq_reg] in *; try (subst fr; reflexivity). destruct rv.
    - destruct H as [Hr [x [Hx Hfr]]]. split; [exact Hr|]. exists x. split; [eapply FrOk_mono; eauto|].
      right. destruct Hfr as [->| ->]; [reflexivity|]. rewrite fr_register_idem. reflexivity.
    - destruct H as [x (-> & A & B)]. exists (fr_register x n). split; [reflexivity|].
      destruct (fr_register_same x n) as (E1 & E2 & _). rewrite E1, E2. auto. }
  destruct (fq_caller_shape c n s) as [->|[b [prev [-> ->]]]]; exact G.
Qed.

Lemma QPost_retry : forall c fr fr' o i n s s',
  QPost (fq_caller c n s) (fq_reg (fq_caller c n s) fr n) fr' o i n s' -> QPost c fr fr' o i n s'.
Proof using Type.
  intros c fr fr' o i n s s' H. rewrite fq_reg_caller in H.
  assert (G : QPost c (fq_reg c fr n) fr' o i n s').
  { destruct (fq_caller_shape c n s) as [E|[b [prev [E1 E2]]]]; [rewrite E in H; exact H|].
    rewrite E2 in H. subst c. exact H. }
  clear H. destruct c as [|b rv pd prev| |]; cbn [QPost fq_reg] in *; auto. destruct rv; [|exact G].
  destruct G as [G1 G2]. split; [exact G1|]. intros x [->| ->]; apply G2.
  - right. reflexivity.
  - right. rewrite fr_register_idem. reflexivity.
Qed.

Lemma hit_post : forall c fr n s v fr2 i,
  FrPre c fr n s -> fast_path s c (fq_reg c fr n) n = (FHit v, fr2) -> get_info s n = Some i ->
  QPost c fr fr2 (if frame_in_scc fr2 then QCyclic else QValue v) i n s.
Proof using Type.
  intros c fr n s v fr2 i Hpre Hf Hi.
  pose proof (fast_path_hit_frame _ _ _ _ _ _ _ Hf Hi) as E2.
  destruct (fast_path_hit _ _ _ _ _ _ Hf) as [i0 (A & _ & Hv)]. assert (i0 = i) by congruence. subst i0.
  destruct c as [|b rv pd prev| |]; cbn [FrPre QPost fq_reg caller_requires_value] in *.
  - subst fr. subst fr2. cbn. subst v. reflexivity.
  - destruct rv.
    + destruct Hpre as [_ [x [Hx Hfr]]].
      assert (E3 : fr2 = Some (fr_obs_reg x n i)).
      { destruct Hfr as [->| ->]; rewrite E2; [reflexivity|]. rewrite fr_register_idem. reflexivity. }
      assert (Es : frame_in_scc fr2 = false).
      { rewrite E3. cbn. rewrite (proj1 (fr_register_same x n)). apply (fo_scc _ _ _ _ Hx). }
      rewrite Es. subst v. split; [reflexivity|]. intros y [Hy|Hy]; rewrite E3.
      * destruct Hfr as [->| ->]; [congruence|]. inversion Hy. subst y.
        unfold fr_obs_reg. rewrite fr_register_idem. reflexivity.
      * destruct Hfr as [->| ->].
        -- inversion Hy. subst x. unfold fr_obs_reg. rewrite fr_register_idem. reflexivity.
        -- (* both frames register n on top of some frame: the observed frames agree *)
           inversion Hy as [Hy']. unfold fr_obs_reg. rewrite Hy'. reflexivity.
    + destruct Hpre as [x (-> & A1 & A2)]. rewrite E2. exists (fr_register x n). split; [reflexivity|].
      destruct (fr_register_same x n) as (E1 & E3 & _). rewrite E1, E3. auto.
  - exact I.
  - exact I.
Qed.

Lemma process_sound : forall f inp stk c n sp s1 marks s2,
  sound_execute f -> sound_repair f ->
  FInv p rk inp s1 -> StkOk stk n -> (c_pedantic c = true \/ NPn s1 n) ->
  (sp = SBackward -> sverified s1 n) ->
  fq_process p f stk c sp n s1 = Ok (marks, s2) ->
  FInv p rk inp s2 /\ Keeps s1 s2 /\ marks = [] /\ sverified s2 n.
Proof.
  intros f inp stk c n sp s1 marks s2 IHx IHr HI Hstk Hnp Hsb H.
  assert (Hmain : sp <> SBackward -> FInv p rk inp s2 /\ Keeps s1 s2 /\ marks = [] /\ sverified s2 n).
  { intro Hne. assert (E : fq_process p f stk c sp n s1 =
        match get_info s1 n with
        | Some i => if (i_verified i =? s_ts s1)%N then Ok ([], s1) else frepair p f stk c n s1
        | None => fexecute p f stk c n false empty_frame s1 end) by (destruct sp; try reflexivity; congruence).
    rewrite E in H. clear E. destruct (get_info s1 n) as [i|] eqn:Ei.
    - destruct (i_verified i =? s_ts s1)%N eqn:Ev.
      + inversion H. subst. split; [exact HI|]. split; [apply Keeps_refl|]. split; [reflexivity|].
        exists i. split; [exact Ei|]. apply N.eqb_eq. exact Ev.
      + assert (Hnv : ~ sverified s1 n).
        { intros [j [J1 J2]]. assert (j = i) by congruence. subst j. apply N.eqb_neq in Ev. contradiction. }
        eapply IHr; eauto. destruct Hnp as [Hnp|[Hnp|Hnp]]; [left; exact Hnp|contradiction|right; exact Hnp].
    - eapply IHx; eauto.
      + repeat split.
      + intros [j [J1 _]]. congruence. }
  destruct sp; try (apply Hmain; discriminate).
  rewrite fq_process_backward in H. inversion H. subst. clear H.
  destruct (Hsb eq_refl) as [i [Hi Hv]]. unfold clear_pending. rewrite Hi.
  destruct (FInv_pending p rk inp s1 n i (mkInfo (i_verified i) (i_value i) (i_tfc i) (i_fwd i) (i_obs i) None) HI Hi)
    as [A B]; [repeat split|].
  split; [exact A|]. split; [exact B|]. split; [reflexivity|].
  eexists. rewrite get_put_eq. split; [reflexivity|]. exact Hv.
Qed.
End Run.
